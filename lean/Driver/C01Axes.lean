import PfModel.DriverLib
import PfModel.Lemmas.MapConsistent
/-! Driver for `validate_consistent_axes` (C01, the `consistentAxes` conjunct of `Conforms`): runs the algorithmic model
    `PF.MapAxes.validate` (what `C01_consistent_axes_model` is about) and the pairwise predicate `PF.C01.consistentAxes` on the
    same list of MapSpecs. -/
open Lean PF PF.Drv PF.Map

def getASpec (j : Json) : R ASpec := do
  let (n, ax) ← asPair asStr (asList (asOpt asStr)) j
  return { name := n, axes := ax }

def getMSpec (j : Json) : R MSpec := do
  return { inputs := ← listF getASpec j "inputs", outputs := ← listF getASpec j "outputs" }

/-- a function that carries nothing but its MapSpec (`consistentAxes` reads only `mapspec`) -/
def carrier (ms : MSpec) : MFunc :=
  { name := "", params := [], outputs := [], mapspec := some ms, ret := none, internal := none, defaults := [], bound := [] }

def handle (m : String) (a : Json) : R Json := do
  match m with
  | "axes.check" =>
    let ms ← listF getMSpec a "specs"
    let pairwise := PF.C01.consistentAxes (ms.map carrier)
    match PF.MapAxes.validate ms with
    | .ok _ => return jObj [("ok", jBool true), ("name", Json.null), ("kind", Json.null), ("pairwise", jBool pairwise)]
    | .error (n, k) => return jObj [("ok", jBool false), ("name", jStr n), ("kind", jStr k.str), ("pairwise", jBool pairwise)]
  | _ => .error s!"unknown entry {m}"

def main : IO Unit := loop handle
