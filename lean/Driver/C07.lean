import PfModel.DriverLib
import PfModel.Model.Storage
import PfModel.Model.StorageSess
import PfModel.Lemmas.StorageKeys
/-! Driver for C07 (`storage.run`, `storage.normalize`, `storage.construct`, `storage.init_arrays`, `storage.registry`,
`storage.conc`, `storage.session`, `storage.keyclass`). Run: `lake env lean --run Driver/C07.lean < requests.jsonl`. -/
open Lean PF PF.Drv PF.St

def getGeom (j : Json) : R Geom := do
  let g : Geom := { shape := ← listF asNat j "shape", internal := ← listF asNat j "internal", mask := ← listF asBool j "mask" }
  if decide g.WF then return g else .error "geometry: mask does not match shape/internal_shape"

def getOI (j : Json) : R (Option Int) := asOpt asInt j

/-- a key entry: an int, or `["s", start|null, stop|null, step|null]` -/
def getKE (j : Json) : R KE :=
  match j with
  | .arr _ => do
    match ← asArr j with
    | [t, a, b, c] =>
      if (← asStr t) = "s" then return .slice (← getOI a) (← getOI b) (← getOI c) else .error "slice tag"
    | _ => .error "slice expected as [\"s\", a, b, c]"
  | _ => do return .int (← asInt j)

/-- a key as the caller passes it: `tuple = true` → a JSON list of entries, else ONE bare entry; the model wraps it
    (`RawKey.wrap`, `_base.py:144-145`) -/
def getRawKey (tuple : Bool) (j : Json) : R RawKey := do
  if tuple then return .tuple (← asList getKE j) else return .bare (← getKE j)

def getOp (g : Geom) (j : Json) : R (Op Int) := do
  match ← asArr j with
  | [t, k, v] =>
    let t ← asStr t
    if t = "dump" ∨ t = "dump_bare" then
      let vs ← asList asInt v
      if vs.length ≠ prod g.internal then .error "dump: the value must have prod(internal_shape) atoms"
      else return .dump (← getRawKey (t = "dump") k).wrap vs
    else .error "unknown ternary op"
  | [t, x] =>
    match ← asStr t with
    | "get" => return .get (← getRawKey true x).wrap
    | "get_bare" => return .get (← getRawKey false x).wrap
    | "to_array" => return .toArray (← asOpt asBool x)
    | "has" => return .has (← asInt x)
    | "at" => return .at (← asInt x)
    | o => .error s!"unknown op {o}"
  | [t] =>
    match ← asStr t with
    | "mask" => return .mask
    | "mask_linear" => return .maskLinear
    | "persist_reopen" => return .persistReopen
    | o => .error s!"unknown op {o}"
  | _ => .error "op expected"

/-- a session step: `["persist"]`, `["reopen"]`, or an operation on the live object -/
def getSOp (g : Geom) (j : Json) : R (SOp Int) := do
  match ← asArr j with
  | [t] =>
    match ← asStr t with
    | "persist" => return .persist
    | "reopen" => return .reopen
    | _ => return .op (← getOp g j)
  | _ => return .op (← getOp g j)

def putErr : Err → Json
  | .index => jStr "IndexError"
  | .value => jStr "ValueError"
  | .missing => jStr "Missing"

def putCell (g : Geom) : Cell Int → Json
  | .masked => jStr "masked"
  | .atom v => jInt v
  | .whole el =>
    if g.internal.isEmpty then (match el with | [v] => jInt v | _ => jObj [("ill-formed-element", jList jInt el)])
    else jList jInt el

def putContainer : Container → String
  | .nothing => "None"
  | .raised => "raised"
  | .element => "element"
  | .maskedObject => "MaskedArray[object]"
  | .maskedBool => "MaskedArray[bool]"
  | .boolList => "list[bool]"
  | .bool => "bool"

/-- array-shaped results carry their container (`Obs.container`, the function `C07_container_of_op` is about) -/
def putObs (g : Geom) : Obs Int → Json
  | .unit => jStr "ok"
  | .err e => jObj [("err", putErr e)]
  | .scalar c => jObj [("v", putCell g c)]
  | .arr s cs => jObj [("shape", jList jNat s), ("flat", jList (putCell g) cs), ("c", jStr (putContainer (Obs.arr s cs).container))]
  | .bools s bs => jObj [("shape", jList jNat s), ("flat", jList jBool bs), ("c", jStr (putContainer (Obs.bools s ([] : List Bool) : Obs Int).container))]
  | .blist bs => jObj [("list", jList jBool bs)]
  | .bool b => jObj [("b", jBool b)]

def putNK : NK → Json
  | .idx k => jNat k
  | .slc a b c => jArr [jStr "s", jOpt jInt a, jOpt jInt b, jOpt jInt c]

def putConstruct : Except CErr Geom → Json
  | .ok g => jObj [("ok", jObj [("shape", jList jNat g.shape), ("internal", jList jNat g.internal), ("mask", jList jBool g.mask),
                                 ("wf", jBool (decide g.WF))])]
  | .error .value => jObj [("err", jStr "ValueError")]
  | .error .type => jObj [("err", jStr "TypeError")]

def handle (m : String) (a : Json) : R Json := do
  match m with
  | "storage.run" =>
    let g ← getGeom (← fld a "geom")
    let ops ← (← asArr (← fld a "ops")).mapM (getOp g)
    let d := (runOps (dStep g) ([] : Dict Int) ops).2
    let f := (runOps (fStep g) ([] : Files Int) ops).2
    let s := (runOps (aStep g) (aEmpty : MArr Int) ops).2
    return jObj [("dict", jList (putObs g) d), ("file", jList (putObs g) f), ("spec", jList (putObs g) s)]
  | "storage.session" =>
    -- args: geom, ops (session steps). `safe`: per prefix length n = 0..len, is every re-opening of the first n steps
    -- preceded by a persist with nothing written in between (`safeFrom`, the hypothesis of `C07_sess_backends_agree`)
    let g ← getGeom (← fld a "geom")
    let ops ← (← asArr (← fld a "ops")).mapM (getSOp g)
    let d := (runS (dsStep g) (dFresh : DSess Int) ops).2
    let f := (runS (fsStep g) ([] : Files Int) ops).2
    let v := (runS (avStep g) (aFresh : ASess Int) ops).2
    let s := (runS (adStep g) (aEmpty : MArr Int) ops).2
    return jObj [("dict", jList (putObs g) d), ("file", jList (putObs g) f), ("volatile", jList (putObs g) v),
                 ("spec", jList (putObs g) s),
                 ("safe", jList (fun n => jBool (safeFrom g false (ops.take n))) (List.range (ops.length + 1))),
                 ("dirties", jList (fun (o : SOp Int) => jBool (o.dirties g)) ops)]
  | "storage.keyclass" =>
    -- the classification of `C07_getitem_error_classes` / `C07_dump_targets_characterised`, evaluated from its own predicates
    -- (`KeyOK`, `hasStep0`), not from `normalizeKey`: args geom, key, tuple (false: a bare entry), for_dump
    let g ← getGeom (← fld a "geom")
    let key := (← getRawKey (← boolF a "tuple") (← fld a "key")).wrap
    let fd ← boolF a "for_dump"
    let sizes := if fd then g.shape else g.full
    let cls := if ¬ KeyOK sizes key then "IndexError" else if hasStep0 key then "ValueError" else "ok"
    return jObj [("class", jStr cls)]
  | "storage.normalize" =>
    let g ← getGeom (← fld a "geom")
    let key ← listF getKE a "key"
    let fd ← boolF a "for_dump"
    let put : Except Err (List NK) → Json := fun r =>
      match r with | .ok nk => jObj [("ok", jList putNK nk)] | .error e => jObj [("err", putErr e)]
    return jObj [("fixed", put (normalizeKey g fd key)), ("pinned", put (normalizeKeyPinned g fd key))]
  | "storage.construct" =>
    -- args: shape, internal (list | null), mask (list | null)
    let a : CArgs := { shape := ← listF asNat a "shape", internal := ← asOpt (asList asNat) (← fld a "internal"),
                       mask := ← asOpt (asList asBool) (← fld a "mask") }
    return putConstruct (construct a)
  | "storage.init_arrays" =>
    let full ← listF asNat a "full"
    let mask ← listF asBool a "mask"
    let ca := initArrays full mask
    return jObj [("args", jObj [("shape", jList jNat ca.shape), ("internal", jOpt (jList jNat) ca.internal),
                                ("mask", jOpt (jList jBool) ca.mask)]), ("result", putConstruct (construct ca))]
  | "storage.registry" =>
    return jList (fun (b : Backend) => jObj [("id", jStr b.id), ("cls", jStr b.cls),
      ("requires_serialization", jBool b.requiresSerialization), ("dump_in_subprocess", jBool b.dumpInSubprocess),
      ("backing", jStr (match b.backing with | .dict => "dict" | .files => "file")),
      ("dumps_in_worker", jBool (dumpsHere b false false)), ("dumps_in_parent", jBool (dumpsHere b true false)),
      ("temp_folder_without_run_folder", jBool (getsTempFolder b false)),
      ("lookup", jBool (match getStorageClass b.id with | .ok b' => b' == b | .error _ => false))]) registry
  | "storage.conc" =>
    -- args: trace = [[writer, cell, [atoms]], ...], cells = [cell, ...], writers = n
    let t ← (← asArr (← fld a "trace")).mapM (fun e => do
      match ← asArr e with
      | [w, c, v] => return ({ w := ← asNat w, cell := ← asNat c, val := ← asList asInt v } : WEv Int)
      | _ => .error "event expected as [writer, cell, value]")
    let cells ← listF asNat a "cells"
    let n ← natF a "writers"
    let fin := runW ([] : Files Int) t
    return jObj [("final", jList (fun c => jOpt (jList jInt) (alook fin c)) cells),
                 ("candidates", jList (fun c => jList (fun w => jOpt (jList jInt) (lastTo (projW t w) c)) (List.range n)) cells)]
  | _ => .error s!"unknown entry {m}"

def main : IO Unit := loop handle
