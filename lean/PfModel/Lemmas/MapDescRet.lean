import PfModel.Lemmas.MapDescClass
/-!
C01, round 9 — the residual `ReturnsDeclared` of `DescOK` (Lemmas/MapDescClass.lean) without the shape table: what a function must
return is determined by its MapSpec and the declared internal shape alone (`intSizes`: the first internal sizes, one per output index
no input carries).  `returnsDeclared_eq_syntactic`: on an acyclic pipeline with distinct, non-empty outputs, `ReturnsDeclared` is the
table-free `RetSyntactic`.
-/
namespace PF.C01
open PF PF.Map PF.Validate PF.Pieces

/-- the sizes of the internal axes of the outputs of `ms` (output indices no input carries), read off the declared internal shape -/
def intSizes (ms : MSpec) (ish : List Nat) : List String → Nat → List Nat
  | [], _ => []
  | ix :: rest, k =>
    if ms.inputIndices.contains ix then intSizes ms ish rest k else ish.getD k 0 :: intSizes ms ish rest (k + 1)

/-- one function returns arrays of its declared internal shape: nothing is asked of a function without MapSpec or of a mapped
    function without internal axes; a `... -> v[j]` producer and a mapped function with internal axes return exactly `intSizes` -/
def retSyntactic (internal : List (String × List Nat)) (f : MFunc) : Bool :=
  match f.mapspec with
  | none => true
  | some ms =>
    (!ms.inputs.isEmpty && ms.outputIndices.all fun ix => ms.inputIndices.contains ix)
    || decide (f.ret = some (intSizes ms ((ishOf ms internal).getD []) ms.outputIndices 0))

/-- **the residual, table-free**: depends on the description and the `internal_shapes` argument only -/
def RetSyntactic (fs : List MFunc) (ui : List (String × List Nat)) : Bool :=
  fs.all (retSyntactic (constructInternal fs ui))

theorem goTot_int (ms : MSpec) (S : List (String × List Nat)) (ish : List Nat) : ∀ (axes : List String) (k : Nat),
    intOf (goTot ms S ish axes k).2 (goTot ms S ish axes k).1 = intSizes ms ish axes k := by
  intro axes
  induction axes with
  | nil => intro k; simp [goTot, intOf, intSizes]
  | cons ix rest ih =>
    intro k
    simp only [goTot, intSizes]
    cases hd : outDims ms S ix with
    | nil =>
      have hn := (outDims_nil_iff ms S ix).mp hd
      simp only [intOf, ih (k + 1), List.contains_eq_mem, hn, decide_false]
      simp
    | cons d ds =>
      have hn : ix ∈ ms.inputIndices := by
        apply Classical.byContradiction
        intro h
        rw [(outDims_nil_iff ms S ix).mpr h] at hd
        cases hd
      simp only [intOf, ih k, List.contains_eq_mem, hn, decide_true]
      simp

/-- a MapSpec without inputs: every axis is internal, the recorded shape is `intSizes` -/
theorem goTot_fst_no_inputs (ms : MSpec) (S : List (String × List Nat)) (ish : List Nat) (h : ms.inputs = []) :
    ∀ (axes : List String) (k : Nat), (goTot ms S ish axes k).1 = intSizes ms ish axes k := by
  have hin : ms.inputIndices = [] := by unfold MSpec.inputIndices; rw [h]; rfl
  intro axes
  induction axes with
  | nil => intro k; simp [goTot, intSizes]
  | cons ix rest ih =>
    intro k
    have hd : outDims ms S ix = [] := (outDims_nil_iff ms S ix).mpr (by rw [hin]; simp)
    simp only [goTot, intSizes, hd, hin, ih (k + 1)]
    simp

theorem all_congr_mem {α} (p q : α → Bool) : ∀ l : List α, (∀ a ∈ l, p a = q a) → l.all p = l.all q := by
  intro l
  induction l with
  | nil => intro _; rfl
  | cons a l ih =>
    intro h
    simp only [List.all_cons]
    rw [h a List.mem_cons_self, ih (fun b hb => h b (List.mem_cons_of_mem _ hb))]

theorem all_const_of_ne_nil {α} (l : List α) (b : Bool) (h : l ≠ []) : (l.all fun _ => b) = b := by
  cases l with
  | nil => exact absurd rfl h
  | cons a l => cases b <;> simp

/-- per function: against a table that records `funcShape` for the outputs, `retOK` is `retSyntactic` -/
theorem retOK_eq (internal : List (String × List Nat)) (Γ t' : Tbl) (f : MFunc) (hne : f.outputs ≠ [])
    (hl : ∀ o ∈ f.outputs, alookup Γ o = f.mapspec.map (fun ms => funcShape ms t' internal)) :
    retOK Γ f = retSyntactic internal f := by
  unfold retOK retSyntactic runsMapped
  cases hm : f.mapspec with
  | none =>
    simp only []
    unfold singleTyped
    rw [List.all_eq_true]
    intro o ho
    rw [hl o ho, hm]
    rfl
  | some ms =>
    simp only []
    cases he : ms.inputs.isEmpty with
    | true =>
      simp only [ite_true, Bool.not_true, Bool.false_and, Bool.false_or]
      have hnil : ms.inputs = [] := by simpa using he
      unfold singleTyped
      have : (f.outputs.all fun o => match alookup Γ o with
          | some e => decide (f.ret = some e.1)
          | none => true) =
          f.outputs.all fun _ => decide (f.ret = some (intSizes ms ((ishOf ms internal).getD []) ms.outputIndices 0)) := by
        apply all_congr_mem
        intro o ho
        rw [hl o ho, hm]
        simp only [Option.map_some]
        unfold funcShape
        rw [goTot_fst_no_inputs ms _ _ hnil]
      exact this.trans (all_const_of_ne_nil _ _ hne)
    | false =>
      simp only [Bool.false_eq_true, ite_false, Bool.not_false, Bool.true_and]
      cases ho : f.outputs with
      | nil => exact absurd ho hne
      | cons o os =>
        simp only [List.head?_cons, Option.bind_some]
        rw [hl o (by rw [ho]; exact List.mem_cons_self), hm]
        simp only [Option.map_some]
        have hmask := (goTot_mask ms (shapesOf t') ((ishOf ms internal).getD []) ms.outputIndices 0).1
        have h1 : (funcShape ms t' internal).2.all id = ms.outputIndices.all fun ix => ms.inputIndices.contains ix := by
          unfold funcShape
          rw [hmask, List.all_map]
          rfl
        have h2 : intOf (funcShape ms t' internal).2 (funcShape ms t' internal).1 =
            intSizes ms ((ishOf ms internal).getD []) ms.outputIndices 0 := by
          unfold funcShape
          exact goTot_int ms _ _ _ 0
        rw [h1, h2]

/-- **`ReturnsDeclared` is table-free** on an acyclic pipeline with distinct, non-empty outputs -/
theorem returnsDeclared_eq_syntactic (fs : List MFunc) (inputs : List (String × Val)) (ui : List (String × List Nat))
    (hac : acyclic fs = true) (hnd : nodupB (allOutputs fs) = true) (hne : fs.all (fun f => !f.outputs.isEmpty) = true) :
    ReturnsDeclared fs inputs ui = RetSyntactic fs ui := by
  unfold ReturnsDeclared RetSyntactic
  apply all_congr_mem
  intro f hf
  obtain ⟨t', ht'⟩ := declTbl_lookup fs inputs ui hac hnd f hf
  apply retOK_eq (constructInternal fs ui) _ t' f _ ht'
  have := List.all_eq_true.mp hne f hf
  intro e
  rw [e] at this
  simp at this

end PF.C01
