"""C11 — Selecting outputs / supplying intermediates keeps values, runs only needed work.

Correspondence: `Pipeline.subpipeline(I, S)`, `Pipeline.map(I-values, output_names=S)`, `map(auto_subpipeline=True)` and
`Pipeline.run(o, kwargs=I-values)` on generated call DAGs (pipegen, with nullary and all-defaulted functions) and generated map
pipelines (mapgen), for all non-empty S (<= 4 outputs: exhaustive) and root-only / interior-only / mixed cuts I, against
`PF.Sub` (lean/PfModel/Model/SubPipe.lean).  The property's clauses are also evaluated directly on the implementation's
answers with an independent Python reference (`ref_*` below): kept functions = needed, values = composition with I
substituted (call DAGs) / the full run's values (map pipelines), call log = needed, rejection names every missing root.
"""
from __future__ import annotations

import copy
import itertools

import pfimport  # noqa: F401
from pfimport import exc_enum

import mapgen
import pipegen
import terms

PID = "C11"
PROPS = ["PfModel.Props.C11", "PfModel.Props.C11Ext", "PfModel.Props.C11Comp", "PfModel.Props.C11Val", "PfModel.Props.C11Auto", "PfModel.Props.C11Scope", "PfModel.Props.C11Conf", "PfModel.Props.C11ConfMap"]
DRIVER = "C11"
RULE = ("call DAGs of 1-6 term-building functions (pipegen; nullary p=0.2, functions whose parameters are all defaulted/bound, tuple "
        "outputs, renames, bound values) and well-formed map pipelines of 1-4 functions (mapgen); for every pipeline every non-empty "
        "set S of outputs when there are <= 4 outputs (else all singletons + sampled sets); per S the cuts: all needed roots, needed "
        "roots with defaulted ones left out, interior names only, interior names + the roots still needed, one required root dropped "
        "(must be rejected naming it), plus a separate malformed stream (surplus names, S meeting I, one output of a tuple provided, "
        "unknown names); entry points subpipeline / map(output_names=S) / map(auto_subpipeline=True[, output_names=S]) / run(o, kwargs), "
        "auto_subpipeline=True without output_names in both streams (provided names closed under the roots still required, or arbitrary); "
        "directed call DAGs (gen_directed_pipe) and appended un-mapped special functions in map pipelines (add_special_map) so that every "
        "class cut(root/interior/mixed/empty/none) x needed-function(nullary/all-defaulted/bound-only/plain), tuple use and nested S occurs "
        "(counters class:*); other routes per case: subpipeline object, thread pool, resume in a run folder, narrowed resume after a FULL "
        "run, widened resume after a narrower request (the last two judged only when they return; refusals counted); "
        "scoped call DAGs (scope_desc: every name / part of the names under one scope, or two scopes) whose provided VALUES - map inputs, run "
        "kwargs, on every entry point and route - are spelled nested ({scope: {name: v}}), mixed or flat (nest_plan; counters spelling:*); "
        "non-trivial = the needed set is a proper subset of the pipeline or the cut contains an interior name or a needed function has "
        "no root-argument ancestor; distinct by (pipeline, S, I, entry)")
ASSUMPTIONS = ["networkx graph construction and traversal are mirrored by the model's index graph (prodIdx/predsIdx/succsIdx); only sets of kept functions are compared",
               "provided intermediates of map pipelines are the arrays the full run produced (their equality with the model is C01)",
               "error messages are only searched for the names of the missing root arguments",
               "a request that provides one output of a tuple-output function that is still needed, provides a requested output, or "
               "provides unused (known) names: `subpipeline` must keep exactly the needed functions and `run(o, kwargs)` must return the "
               "composition with the provided names substituted; `map` may either reject it (ValueError naming the offending name, before any "
               "user function ran - it is an ill-formed input of the selected partial pipeline) or return the substituted values with exactly "
               "the needed calls; accept/reject is compared with the model",
               "round 3 (props/c11_comp.py): `S computable from I` is decided by the model over the full pipeline (`computableB`, proved equivalent to "
               "`Computable`) and compared with the Python reference; a `subpipeline` rejection must list EXACTLY the lacking names after `missing:` "
               "(more names: correspondence item); an over-provided `map` request that is refused names every over-provided name in the code and in "
               "the model (`extras`; fewer: correspondence item), one that is answered must agree with the answering model `mapSubLenient`; the global "
               "value clause for map (partial run = full run on S), proved only locally, is additionally checked MODEL against MODEL on every map case",
               "scoped names are plain strings for the model (`<scope>.<name>`); the nested spelling of provided values is flattened by the model "
               "(`PF.Sub.flatInputs` = `PF.Rw.flattenKw` over the full pipeline's parameter scopes, entry `map.sub` with `given`) before the selection; "
               "`run(o, kwargs)` in the nested spelling is compared with the flat model request; only names whose scope is a parameter scope are nested",
               "interpreted constant functions (VERIF_CONST policy `all`): the model never inspects values, so its answers are compared through terms.canon"]


# ------------------------------------------------------------------------------------------ canonical values
def canon(j):
    """`terms.canon`, idempotent.  The map stream provides interior names as the arrays the FULL run produced: they enter the model
    request as `terms.enc` of the implementation's values, i.e. already in the expanded image `arr [2] [proj t [0], proj t [1]]` of a
    sequence-valued interpreted function (`terms.SEQ_SUFFIX`), and come back inside the model's answer.  `terms.canon` would expand the
    free term `t` inside such a `proj` once more; here `proj t ix` of a sequence-valued call keeps its base plain (element `i` of the
    sequence `t` IS `proj t [i]`; functions with an internal shape - the only native source of `proj` - are never sequence-valued).
    `terms.enc`'d values are fixed points, model values get the same image as under `terms.canon`."""
    if isinstance(j, dict):
        is_c, c = terms._const_call(j)
        if is_c:
            return terms.enc(c)
        if terms._seq_call(j):
            base = _canon_plain(j)
            return {"arr": [[2], [{"proj": [base, [0]]}, {"proj": [base, [1]]}]]}
        if "f" in j:
            return _canon_plain(j)
        if "t" in j:
            return {"arr": [[len(j["t"])], [canon(x) for x in j["t"]]]}
        if "arr" in j:
            return {"arr": [j["arr"][0], [canon(x) for x in j["arr"][1]]]}
        if "pick" in j:
            return {"pick": [canon(j["pick"][0]), j["pick"][1]]}
        if "proj" in j:
            b = j["proj"][0]
            return {"proj": [_canon_plain(b) if terms._seq_call(b) else canon(b), j["proj"][1]]}
    return j


def _canon_plain(j):
    if "f" in j:
        return {"f": j["f"], "k": sorted(([k, canon(x)] for k, x in j["k"]), key=lambda kv: kv[0])}
    return {"pick": [_canon_plain(j["pick"][0]), j["pick"][1]]}


# ------------------------------------------------------------------------------------------ reference semantics (Python)
def _bound(f):
    return {b[0] for b in f.get("bound", [])}


def _dflt(f):
    return {d[0] for d in f.get("defaults", [])} - _bound(f)


def ref_needed(funcs, S, I):
    """Independent reference: needed functions, and what the request requires."""
    prod = {o: f for f in funcs for o in f["outputs"]}
    need = []

    def visit(f):
        if f["name"] in need:
            return
        need.append(f["name"])
        for p, _ in f["params"]:
            if p in _bound(f) or p in I:
                continue
            if p in prod:
                visit(prod[p])

    for o in S:
        visit(prod[o])
    nf = [f for f in funcs if f["name"] in need]
    nprod = {o for f in nf for o in f["outputs"]}
    used = {p for f in nf for p, _ in f["params"] if p not in _bound(f) and p not in nprod}       # root args of the partial pipeline
    dfl = {p for f in nf for p in _dflt(f) if p not in nprod}
    missing = sorted(p for p in used if p not in I and p not in dfl)
    surplus = sorted(p for p in I if p not in used)
    clash = sorted(p for p in I if p in nprod)
    return {"needed": sorted(need), "roots": sorted(used), "defaulted": sorted(dfl), "missing": missing, "surplus": surplus, "clash": clash}


def ref_value(funcs, kw, o, log):
    """Composition along the DAG with `kw` substituted (bound > keyword > upstream > default), as value JSON."""
    prod = {q: f for f in funcs for q in f["outputs"]}
    pdef = {}
    for f in funcs:
        for p, v in f.get("defaults", []):
            if p not in _bound(f) and p not in prod:
                pdef[p] = v
    memo = {}

    def app(f):
        if f["name"] in memo:
            return memo[f["name"]]
        k = []
        for p, orig in f["params"]:
            b = dict((x[0], x[1]) for x in f.get("bound", []))
            if p in b:
                k.append([orig, b[p]])
            elif p in kw:
                k.append([orig, kw[p]])
            elif p in prod:
                k.append([orig, val(p)])
            elif p in pdef:
                k.append([orig, pdef[p]])
            else:
                raise KeyError(p)
        memo[f["name"]] = {"f": f["name"], "k": sorted(k, key=lambda kv: kv[0])}
        log.append(f["name"])
        return memo[f["name"]]

    def val(q):
        f = prod[q]
        t = app(f)
        return t if len(f["outputs"]) == 1 else {"pick": [t, q]}

    return canon(val(o))      # interpreted constant functions (terms.CONST_SUFFIX): the homomorphic image of the free term


def ref_downstream(funcs, I):
    """`auto_subpipeline=True` without output_names: the names of the functions downstream of a provided name (for an output name: the
    functions below its producer, as `nx.descendants(graph, node_mapping[n])` gives them) and the outputs they make."""
    prod = {o: f for f in funcs for o in f["outputs"]}

    def cons(name):
        return [g for g in funcs if any(q == name and q not in _bound(g) for q, _ in g["params"])]

    stack = []
    for n in I:
        if n in prod:
            stack += [g for o in prod[n]["outputs"] for g in cons(o)]
        else:
            stack += cons(n)
    down = []
    while stack:
        g = stack.pop()
        if g["name"] in down:
            continue
        down.append(g["name"])
        stack += [h for o in g["outputs"] for h in cons(o)]
    return sorted(down), [o for f in funcs if f["name"] in down for o in f["outputs"]]


# ------------------------------------------------------------------------------------------ classes of the quantifier
CUTS = ("none", "empty", "root", "interior", "mixed")
FNS = ("nullary", "alldef", "bound", "plain")


def classify(funcs, S, I, needed):
    """The classes of one request (S: list of outputs, the downstream outputs when output_names is None; I: provided names or None;
    needed: names of the needed functions).  cut: of I; fn: which special functions are among the NEEDED ones (several may be);
    tuple: how tuple outputs occur; nested: S holds two outputs and the producer of one lies in the dependency cone of the other."""
    prod = {o: f for f in funcs for o in f["outputs"]}
    if I is None:
        cut = "none"
    elif not I:
        cut = "empty"
    else:
        ni = sum(1 for i in I if i in prod)
        cut = "interior" if ni == len(I) else ("root" if ni == 0 else "mixed")
    nf = [f for f in funcs if f["name"] in needed]
    dn = {q for f in nf for q in _dflt(f)}        # a default declared by any needed function holds for the partial pipeline
    fn = set()
    for f in nf:
        ps = [q for q, _ in f["params"]]
        free = [q for q in ps if q not in _bound(f)]
        if not ps:
            fn.add("nullary")
        elif not free:
            fn.add("bound")
        elif all(q in dn and q not in prod for q in free):
            fn.add("alldef")
    fn = sorted(fn) or ["plain"]
    Sset, Iset = set(S), set(I or [])
    tup = set()
    for f in nf:
        if len(f["outputs"]) < 2:
            continue
        req = [o for o in f["outputs"] if o in Sset]
        if req:
            tup.add("all-requested" if len(req) == len(f["outputs"]) else "part-requested")
        else:
            used = {o for o in f["outputs"] if o not in Iset and any(q == o and q not in _bound(g) for g in nf for q, _ in g["params"])}
            if used and len(used) < len(f["outputs"]):
                tup.add("interior-part-consumed")
            elif used:
                tup.add("interior-all-consumed")
    tup = sorted(tup) or ["none"]
    nested = "single"
    if len(Sset) > 1:
        nested = "no"
        for o in S:
            cone = ref_needed(funcs, [o], Iset)["needed"]
            if any(q != o and q in prod and prod[q]["name"] != prod[o]["name"] and prod[q]["name"] in cone for q in S):
                nested = "yes"
                break
    return {"cut": cut, "fn": fn, "tuple": tup, "nested": nested}


def count_classes(ctx, stream, cls, computable):
    """class counters: every axis alone and cut x fn, over all judged well-formed cases, per stream, and (`ok:`) over the computable ones"""
    keys = [f"cut:{cls['cut']}", f"nested:{cls['nested']}"] + [f"fn:{x}" for x in cls["fn"]] + [f"tuple:{x}" for x in cls["tuple"]] \
        + [f"x:{cls['cut']}|{x}" for x in cls["fn"]]
    for k in keys:
        ctx.count(f"class:{k}")
        ctx.count(f"class:{stream}:{k}")
    if computable:
        for x in cls["fn"]:
            ctx.count(f"class:ok:x:{cls['cut']}|{x}")
            ctx.count(f"class:ok:{stream}:x:{cls['cut']}|{x}")


def count_entry(ctx, stream, case):
    e = "sub-only" if case["I"] is None else ("auto-noS" if case["S"] is None else ("auto+S" if case["auto"] else "S-only"))
    ctx.count(f"entry:{e}")
    ctx.count(f"entry:{stream}:{e}")


# ------------------------------------------------------------------------------------------ generators
def gen_pipe(rng):
    """pipegen DAG with more nullary functions and some functions whose parameters are all defaulted."""
    desc = pipegen.gen_dag(rng, max_funcs=rng.choice([2, 3, 4, 5, 6]), p_nullary=0.2, p_default=0.35, p_bound=0.12)
    outs = set(pipegen.all_outputs(desc))
    for f in desc["funcs"]:
        if f["params"] and all(p not in outs for p, _ in f["params"]) and rng.random() < 0.3:
            have = {d[0] for d in f["defaults"]} | _bound(f)
            for p, _ in f["params"]:
                if p not in have:
                    f["defaults"].append([p, pipegen.sval(f"dflt:{p}")])
            dn = {d[0] for d in f["defaults"]}
            f["params"] = [q for q in f["params"] if q[0] not in dn] + [q for q in f["params"] if q[0] in dn]
    # bound-only functions (every parameter bound; pipegen binds each parameter with p_bound on its own, so all of them rarely): the bound
    # names stay in `params`, a bound parameter that names an upstream output is no edge any more
    for f in desc["funcs"]:
        if f["params"] and rng.random() < 0.1:
            bind_all(f)
    return desc


def bind_all(f):
    have = _bound(f)
    f["bound"] = list(f.get("bound", [])) + [[q, pipegen.sval(f"bound:{q}:{f['name']}")] for q, _ in f["params"] if q not in have]
    f["defaults"] = [d for d in f.get("defaults", []) if d[0] not in _bound(f)]


# ------------------------------------------------------------------------------------------ scoped names, spelling of the provided names
SCOPES = ("sc", "sd")


def scope_desc(rng, desc):
    """The same call DAG with scoped names (`Pipeline(..., scope=)` / `update_scope`): pipeline-level names `n` become `<scope>.<n>` - every
    name under one scope, a random part of the names, or the names spread over two scopes; the wrapped functions keep their own parameter names."""
    funcs = copy.deepcopy(desc["funcs"])
    names = sorted({q for f in funcs for q, _ in f["params"]} | {o for f in funcs for o in f["outputs"]})
    mode = rng.choice(["all", "all", "some", "two"])
    rho = {}
    for n in names:
        if mode == "some" and rng.random() < 0.35:
            continue
        rho[n] = (rng.choice(SCOPES) if mode == "two" else SCOPES[0]) + "." + n
    for f in funcs:
        f["params"] = [[rho.get(q, q), orig] for q, orig in f["params"]]
        f["outputs"] = [rho.get(o, o) for o in f["outputs"]]
        f["defaults"] = [[rho.get(k, k), v] for k, v in f.get("defaults", [])]
        f["bound"] = [[rho.get(k, k), v] for k, v in f.get("bound", [])]
    return {"funcs": funcs}


def param_scopes(funcs):
    """`PipeFunc.parameter_scopes` of every function: what `Pipeline._flatten_scopes` flattens"""
    return {q.split(".", 1)[0] for f in funcs for q, _ in f["params"] if "." in q}


def nest_plan(rng, funcs, I):
    """which of the provided names are given in the nested spelling `{scope: {name: v}}` (all that can be / some / none)"""
    ps = param_scopes(funcs)
    can = [k for k in I if "." in k and k.split(".", 1)[0] in ps]
    r = rng.random()
    if r < 0.55:
        return sorted(can)
    if r < 0.85:
        return sorted(k for k in can if rng.random() < 0.5)
    return []


def spell(d, nest):
    """the dict `d` (flat names) with the names of `nest` moved into a dictionary under their scope"""
    if not nest:
        return dict(d)
    out = {}
    for k, v in d.items():
        if k in nest:
            sc, n = k.split(".", 1)
            out.setdefault(sc, {})[n] = v
        else:
            out[k] = v
    return out


def given_of(pairs, nest):
    """model request spelling of `[[name, value]]` under the plan `nest` (driver `getKwArg`): `[scope, {"scope": [[name, value]]}]`"""
    out, groups = [], {}
    for k, v in pairs:
        if k in nest:
            sc, n = k.split(".", 1)
            if sc not in groups:
                groups[sc] = []
                out.append([sc, {"scope": groups[sc]}])
            groups[sc].append([n, v])
        else:
            out.append([k, v])
    return out


def special_func(rng, name, out, cls, root, mk):
    """a function of class `cls` (nullary / alldef / bound / plain) making `out`; `root`: the name of its parameter(s); `mk`: _f or _mf"""
    if cls == "nullary":
        return mk(name, [], out)
    two = rng.random() < 0.3
    ps = [root] + ([root + "x"] if two else [])
    if cls == "alldef":
        return mk(name, ps, out, defaults=[[q, pipegen.sval(f"dflt:{q}")] for q in ps])
    f = mk(name, ps, out)
    if cls == "bound":
        bind_all(f)
    return f


def gen_directed_pipe(rng):
    """A call DAG built so that every class of the quantifier occurs with the exhaustive S / the cuts of `cuts_for`:
    s (nullary / all-defaulted / bound-only / plain) -> k;  a(r0) -> oa[, ob];  b(oa, k[, r1]) -> p;  c(p[, ob][, r1 = default]) -> q;
    optionally t(k) -> u next to it.  Tuple outputs on a and/or s, renames, interpreted constants as in pipegen."""
    cls = rng.choice(FNS)
    s_tuple, a_tuple = rng.random() < 0.25, rng.random() < 0.6
    fs = [special_func(rng, "s", ["k", "k2"] if s_tuple else ["k"], cls, "r2", _f)]
    if rng.random() < 0.7:
        fs.append(_f("a", ["r0"], ["oa", "ob"] if a_tuple else ["oa"], defaults=[["r0", pipegen.sval("dflt:r0")]] if rng.random() < 0.4 else ()))
        first = "oa"
    else:
        a_tuple, first = False, "r0"               # no interior name above b: the cuts are root-only / empty
    bp = [first, "k"] + (["r1"] if rng.random() < 0.4 else [])
    fs.append(_f("b", bp, ["p"]))
    cp = ["p"] + (["ob"] if a_tuple and rng.random() < 0.4 else []) + (["k2"] if s_tuple and rng.random() < 0.5 else [])
    r = rng.random()
    if r < 0.35:
        fs.append(_f("c", cp + ["r1"], ["q"], defaults=[["r1", pipegen.sval("dflt:r1")]]))
    elif r < 0.6:
        fs.append(_f("c", cp + ["r1"], ["q"]))
    else:
        fs.append(_f("c", cp, ["q"]))
    if rng.random() < 0.3:
        fs.append(_f("t", ["k"], ["u"]))
    for f in fs:
        f["params"] = [[q, f"a{j}" if rng.random() < 0.2 else q] for j, (q, _) in enumerate(f["params"])]
    pipegen.assign_consts(rng, fs)
    return {"funcs": fs}


def gen_map(rng):
    """mapgen case, often with an un-mapped special function (nullary / all-defaulted / bound-only / plain) appended, and a consumer of it"""
    desc = mapgen.gen_case(rng, p_default=0.3)
    if rng.random() < 0.55:
        add_special_map(rng, desc, rng.choice(["nullary", "nullary", "alldef", "bound", "bound", "plain"]))
    return desc


def add_special_map(rng, desc, cls):
    funcs = desc["funcs"]
    n = len(funcs)
    outs = [o for f in funcs for o in f["outputs"]]
    so = [f"y{n}a", f"y{n}b"] if rng.random() < 0.25 else [f"y{n}"]
    s = special_func(rng, f"f{n}", so, cls, "cz", _mf)
    new = [s]
    for q, _ in s["params"]:
        if q not in _bound(s) and q not in _dflt(s):
            desc["inputs"].append([q, {"s": f"in:{q}"}])
    if rng.random() < 0.7:
        # an un-mapped consumer of it and (whole) of something the pipeline already makes
        ps = [so[0]] + ([rng.choice(outs)] if rng.random() < 0.8 else []) + (so[1:] if rng.random() < 0.4 else [])
        if rng.random() < 0.6:      # and of a root of its own: a cut above it leaves a root still needed (mixed cuts)
            ps.append("cw")
            desc["inputs"].append(["cw", {"s": "in:cw"}])
        new.append(_mf(f"f{n + 1}", ps, [f"y{n + 1}"]))
    pipegen.assign_consts(rng, new)
    funcs += new


def subsets_of(rng, outs, limit=12):
    if len(outs) <= 4:
        return [list(c) for r in range(1, len(outs) + 1) for c in itertools.combinations(outs, r)]
    res = [[o] for o in outs]
    while len(res) < limit:
        s = sorted(rng.sample(outs, rng.randint(2, len(outs))))
        if s not in res:
            res.append(s)
    return res


def cuts_for(rng, funcs, S, pinned=frozenset()):
    """(kind, I) pairs for one S; kinds: roots, roots-nodefault, interior, mixed, mixed-nodefault, drop-root, and the malformed ones.
    `pinned`: defaulted roots that are never left to their default (map stream: a MAPPED root whose default is an array of another length
    and that the full run supplies - the partial run must be given the supplied array too, or it is not the same computation)."""
    out = []
    prod = {o: f for f in funcs for o in f["outputs"]}
    base = ref_needed(funcs, S, set())
    roots = base["roots"]
    out.append(("roots", list(roots)))
    dfl = [r for r in roots if r in base["defaulted"] and r not in pinned]
    if dfl:
        drop = [r for r in dfl if rng.random() < 0.6] or dfl[:1]
        out.append(("roots-nodefault", [r for r in roots if r not in drop]))
    nf = [f for f in funcs if f["name"] in base["needed"]]
    interior = sorted({p for f in nf for p, _ in f["params"] if p in prod and p not in _bound(f) and p not in S})
    if interior:
        C = rng.sample(interior, rng.randint(1, min(2, len(interior))))
        r2 = ref_needed(funcs, S, set(C))
        out.append(("interior", list(C) + [r for r in r2["roots"] if r in pinned and r not in C]))
        still = [r for r in r2["roots"] if r not in C]
        out.append(("mixed", C + still))
        d2 = [r for r in still if r in r2["defaulted"] and r not in pinned]
        if d2 and rng.random() < 0.7:
            out.append(("mixed-nodefault", C + [r for r in still if r not in d2]))
        req = [r for r in still if r not in r2["defaulted"]]
        if req and rng.random() < 0.5:
            gone = rng.choice(req)
            out.append(("drop-root", C + [r for r in still if r != gone]))
    req = [r for r in roots if r not in base["defaulted"]]
    if req and rng.random() < 0.6:
        gone = rng.choice(req)
        out.append(("drop-root", [r for r in roots if r != gone]))
    # malformed stream
    tup = [(f, o) for f in nf if len(f["outputs"]) > 1 for o in f["outputs"] if o not in S
           and any(o == q for g in nf for q, _ in g["params"] if q not in _bound(g))]
    if tup and rng.random() < 0.5:
        f, o = rng.choice(tup)
        r3 = ref_needed(funcs, S, {o})
        if f["name"] in r3["needed"]:
            out.append(("bad:tuple-part", [o] + [r for r in r3["roots"] if r != o]))
    r = rng.random()
    if r < 0.15:
        pool = [n for n in ["r0", "r1", "r2"] + sorted(prod) if n not in roots and n not in S]
        if pool:
            out.append(("bad:surplus", list(roots) + [rng.choice(pool)]))
    elif r < 0.22:
        out.append(("bad:S-in-I", list(roots) + [rng.choice(S)]))
    elif r < 0.27:
        out.append(("bad:unknown-input", list(roots) + ["zz"]))
    return out


# ------------------------------------------------------------------------------------------ observations
def names_of(pipeline):
    return sorted(f.func.__name__ if hasattr(f, "func") else f.__name__ for f in pipeline.functions)


def obs_subpipeline(p, I, S):
    try:
        sub = pipegen.quiet(p.subpipeline, None if I is None else set(I), None if S is None else set(S))
    except Exception as e:  # noqa: BLE001
        return {"err": exc_enum(e), "msg": str(e)}
    return {"kept": sorted(f.__name__ for f in sub.functions)}


def obs_map(p, log, inputs, S, auto, internal=None):
    log.clear()
    kw = {"parallel": False, "storage": "dict"}
    if S is not None:
        kw["output_names"] = set(S)
    if auto:
        kw["auto_subpipeline"] = True
    if internal:
        kw["internal_shapes"] = internal
    try:
        res = pipegen.quiet(p.map, dict(inputs), **kw)
    except Exception as e:  # noqa: BLE001
        return {"err": exc_enum(e), "msg": str(e), "calls": sorted(set(log.names()))}
    try:
        return {"outputs": {k: terms.enc(r.output) for k, r in res.items()},
                "calls": sorted(([c[0], c[1]] for c in log.read() if c[2] == "call"), key=repr),
                "called": sorted(set(log.names()))}
    except Exception as e:  # noqa: BLE001
        return {"err": exc_enum(e), "msg": "reading results: " + str(e), "calls": []}


def _map_obs(fn, log, inputs, **kw):
    log.clear()
    try:
        res = pipegen.quiet(fn, dict(inputs), **kw)
    except Exception as e:  # noqa: BLE001
        return {"err": exc_enum(e), "msg": str(e), "calls": sorted(set(log.names()))}
    try:
        return {"outputs": {k: terms.enc(r.output) for k, r in res.items()},
                "calls": sorted(([c[0], c[1]] for c in log.read() if c[2] == "call"), key=repr),
                "called": sorted(set(log.names()))}
    except Exception as e:  # noqa: BLE001
        return {"err": exc_enum(e), "msg": "reading results: " + str(e), "calls": []}


_VARIANT_AT = {"subobj": 0.0, "par": 0.31, "resume": 0.5, "narrowed": 0.6, "widened": 0.7}


def obs_variants(ctx, p, log, inputs, S, I, rng, internal=None, run_kw=None, full=None, narrower=None, which=None, nest=()):
    """Item 4: other ways to the same partial run.  `subobj`: Pipeline.subpipeline(I, S) as an object, then `.map(inputs)` and
    `.run(o, kwargs)`; `par`: map(output_names=S, parallel=True) on a thread pool; `resume`: map(output_names=S, run_folder=d)
    twice, the second time with cleanup=False; `narrowed`: the FULL map (inputs `full[0]`, internal shapes `full[1]`) into d, then
    map(output_names=S, run_folder=d, cleanup=False); `widened`: map(output_names=S1, run_folder=d) then map(output_names=S, run_folder=d,
    cleanup=False) for a proper subset S1 = `narrower` of S computable from the same I."""
    out = {}
    ikw = {"internal_shapes": internal} if internal else {}
    r = rng.random() if which is None else _VARIANT_AT[which]       # `which`: replay of one named variant
    if r < 0.3:
        try:
            sub = pipegen.quiet(p.subpipeline, set(I), set(S))
        except Exception as e:  # noqa: BLE001
            out["subobj"] = {"err": exc_enum(e), "msg": str(e)}
        else:
            ob = {"map": _map_obs(sub.map, log, inputs, parallel=False, storage="dict", **ikw)}
            if run_kw is not None and len(S) == 1:
                log.clear()
                try:
                    v = pipegen.quiet(sub.run, S[0], kwargs=spell({k: terms.dec(x) for k, x in run_kw.items()}, nest))
                    ob["run"] = {"value": terms.enc(v), "calls": sorted(log.names())}
                except Exception as e:  # noqa: BLE001
                    ob["run"] = {"err": exc_enum(e), "msg": str(e), "calls": sorted(log.names())}
            out["subobj"] = ob
    elif r < 0.45:
        from concurrent.futures import ThreadPoolExecutor
        with ThreadPoolExecutor(max_workers=2) as ex:
            out["par"] = _map_obs(p.map, log, inputs, output_names=set(S), parallel=True, executor=ex, storage="dict", **ikw)
    elif r < 0.58 and ctx_tmp(ctx):
        d = _run_dir(ctx)
        first = _map_obs(p.map, log, inputs, output_names=set(S), parallel=False, run_folder=d, **ikw)
        second = _map_obs(p.map, log, inputs, output_names=set(S), parallel=False, run_folder=d, cleanup=False, **ikw)
        out["resume"] = {"first": first, "second": second}
        _rm(d)
    elif r < 0.68 and ctx_tmp(ctx) and full is not None:
        d = _run_dir(ctx)
        fkw = {"internal_shapes": full[1]} if full[1] else {}
        first = _map_obs(p.map, log, full[0], parallel=False, run_folder=d, **fkw)
        first.pop("outputs", None)           # the full run's values are not this variant's business (and large)
        second = _map_obs(p.map, log, inputs, output_names=set(S), parallel=False, run_folder=d, cleanup=False, **ikw)
        out["narrowed"] = {"first": first, "second": second, "same_inputs": sorted(full[0]) == sorted(inputs)}
        _rm(d)
    elif r < 0.80 and ctx_tmp(ctx) and narrower:
        d = _run_dir(ctx)
        first = _map_obs(p.map, log, inputs, output_names=set(narrower), parallel=False, run_folder=d, **ikw)
        second = _map_obs(p.map, log, inputs, output_names=set(S), parallel=False, run_folder=d, cleanup=False, **ikw)
        out["widened"] = {"first": first, "second": second, "S1": list(narrower)}
        _rm(d)
    return out


def _rm(d):
    import shutil
    shutil.rmtree(d, ignore_errors=True)


def _run_dir(ctx):
    import os
    ctx._c11_n = getattr(ctx, "_c11_n", 0) + 1
    return os.path.join(ctx_tmp(ctx), f"run{ctx._c11_n}")


def narrower_of(rng, funcs, S, I):
    """a proper non-empty subset S1 of S that is a well-formed request with the same I (nothing missing, no surplus, no clash), or None"""
    if len(S) < 2:
        return None
    cands = [list(c) for k in range(1, len(S)) for c in itertools.combinations(S, k)]
    rng.shuffle(cands)
    for c in cands[:6]:
        r = ref_needed(funcs, c, set(I))
        if not r["missing"] and not r["surplus"] and not r["clash"]:
            return c
    return None


def ctx_tmp(ctx):
    return getattr(ctx, "_c11_tmp", None)


def judge_variants(ctx, case, impl, want, needed, ncalls_ok):
    """`want`: {o: value} the property demands for o in S; `needed`: sorted names; `ncalls_ok(calls)`: the expected call list test."""
    v = impl.get("variants") or {}
    for key, what in (("subobj", "subpipeline(I, S).map(inputs)"), ("par", "map(output_names=S, parallel=True)")):
        if key not in v:
            continue
        ctx.count(f"variant:{key}")
        ob = v[key] if key == "par" else v[key].get("map", v[key])
        if "err" in ob:
            ctx.violation(case, f"{what} refuses a computable request: {ob.get('msg', '')[:140]}", impl=ob, model=want)
            return False
        for o, w in want.items():
            if ob["outputs"].get(o) != w:
                ctx.violation(case, f"{what}: value of `{o}` is not the full pipeline's value with the provided names substituted",
                              impl={"value": ob["outputs"].get(o)}, model={"value": w})
                return False
        if ob["called"] != needed or not ncalls_ok(ob["calls"]):
            ctx.violation(case, f"{what} invoked {ob['called']} ({len(ob['calls'])} calls) instead of exactly the needed {needed}", impl=ob, model=needed)
            return False
    if "subobj" in v and "run" in v["subobj"]:
        ob = v["subobj"]["run"]
        o = case["S"][0]
        ctx.count("variant:subobj-run")
        if "err" in ob:
            ctx.violation(case, f"subpipeline(I, S).run(o, kwargs=I) refuses a computable request: {ob['msg'][:140]}", impl=ob, model=want)
            return False
        if ob["value"] != want[o]:
            ctx.violation(case, "subpipeline(I, S).run(o, kwargs=I): value is not the composition with the provided names substituted", impl=ob, model={"value": want[o]})
            return False
        if ob["calls"] != needed:
            ctx.violation(case, f"subpipeline(I, S).run(o, kwargs=I) invoked {ob['calls']} instead of exactly the needed {needed}", impl=ob, model=needed)
            return False
    if "resume" in v:
        ctx.count("variant:resume")
        a, b = v["resume"]["first"], v["resume"]["second"]
        for ob, what in ((a, "map(output_names=S, run_folder=d)"), (b, "map(output_names=S, run_folder=d, cleanup=False) after a complete run")):
            if "err" in ob:
                ctx.violation(case, f"{what} refuses a computable request: {ob.get('msg', '')[:140]}", impl=ob, model=want)
                return False
            for o, w in want.items():
                if ob["outputs"].get(o) != w:
                    ctx.violation(case, f"{what}: value of `{o}` is not the full pipeline's value with the provided names substituted",
                                  impl={"value": ob["outputs"].get(o)}, model={"value": w})
                    return False
            if [n for n in ob["called"] if n not in needed]:
                ctx.violation(case, f"{what} invoked {ob['called']}, not only needed functions {needed}", impl=ob, model=needed)
                return False
        if a["called"] != needed or not ncalls_ok(a["calls"]):
            ctx.violation(case, f"map(output_names=S, run_folder=d) invoked {a['called']} instead of exactly the needed {needed}", impl=a, model=needed)
            return False
    # resume of a narrowed / widened request in a run folder another request filled.  The property's text demands of the second run only:
    # IF it returns, the values of S are right and nothing outside the needed set was invoked; a refusal before any user function ran
    # (pipefunc compares the run folder's RunInfo: inputs, defaults, shapes, MapSpecs) is counted, not judged.
    for key, what in (("narrowed", "map(output_names=S, run_folder=d, cleanup=False) after a FULL map into d"),
                      ("widened", "map(output_names=S, run_folder=d, cleanup=False) after map(output_names=S1, run_folder=d)")):
        if key not in v:
            continue
        ctx.count(f"variant:{key}-resume")
        a, b = v[key]["first"], v[key]["second"]
        if key == "narrowed":
            ctx.count(f"variant:narrowed-resume:{'same-inputs' if v[key]['same_inputs'] else 'fewer-inputs'}")
        if "err" in a:
            ctx.count(f"variant:{key}-resume:first-run-fails:{a['err']}")       # judged where that request is a case of its own
            continue
        if "err" in b:
            outside = [n for n in b.get("calls", []) if n not in needed]
            if outside:
                ctx.violation(case, f"{what} invoked {outside} (outside the needed {needed}) and then failed: {b.get('msg', '')[:120]}", impl=b, model=needed)
                return False
            why = next((w for w in ("Internal shapes", "MapSpec", "Shapes", "Inputs", "Defaults", "extra inputs") if w in b.get("msg", "")), "other")
            ctx.count(f"variant:{key}-resume:{'refused' if not b.get('calls') else 'failed-after-needed-calls'}:{b['err']}:{why.replace(' ', '-')}")
            continue
        ctx.count(f"variant:{key}-resume:returned")
        for o, w in want.items():
            if b["outputs"].get(o) != w:
                ctx.violation(case, f"{what}: value of `{o}` is not the full pipeline's value with the provided names substituted",
                              impl={"value": b["outputs"].get(o)}, model={"value": w})
                return False
        if [n for n in b["called"] if n not in needed]:
            ctx.violation(case, f"{what} invoked {b['called']}, not only needed functions {needed}", impl=b, model=needed)
            return False
        ctx.count(f"variant:{key}-resume:returned:{'nothing-recomputed' if not b['called'] else ('all-needed-recomputed' if b['called'] == needed else 'part-recomputed')}")
    return True


def obs_run(p, log, o, kw, nest=()):
    log.clear()
    try:
        v = pipegen.quiet(p.run, o, kwargs=spell({k: terms.dec(x) for k, x in kw.items()}, nest))
        return {"value": terms.enc(v), "calls": sorted(log.names())}
    except Exception as e:  # noqa: BLE001
        return {"err": exc_enum(e), "msg": str(e), "calls": sorted(log.names())}


def model_sub(r):
    if r.get("err") == "RecursionError":
        raise AssertionError("the model's worklist ran out of fuel (model bug)")
    if "err" in r:
        return {"err": r["err"], "missing": sorted(r.get("missing", []))}
    return {"kept": sorted(r["kept"])}


def model_map(r):
    now = r["now"]
    if now.get("err") == "RecursionError":
        raise AssertionError("the model's worklist ran out of fuel (model bug)")
    if "err" in now:
        return {"err": now["err"], "missing": sorted(now.get("missing", [])), "at": r.get("at")}
    if not now["spec_agrees"]:
        raise AssertionError("model run and specification disagree (extraction bug?)")
    return {"kept": sorted(now["kept"]), "outputs": {k: canon(v) for k, v in now["outputs"]},
            "calls": sorted(([n, [[k, canon(v)] for k, v in sorted(kw, key=lambda kv: kv[0])]] for n, kw in now["calls"]), key=repr)}


def kwval(k):
    return {"s": f"kw:{k}"}


# ------------------------------------------------------------------------------------------ stream A: call DAGs
def mfuncs_of(funcs):
    return [{"name": f["name"], "params": f["params"], "outputs": f["outputs"], "mapspec": None, "ret": None, "internal": None,
             "defaults": f.get("defaults", []), "bound": f.get("bound", [])} for f in funcs]


def _msub_req(funcs, I, S, auto, nest):
    a = {"funcs": mfuncs_of(funcs), "inputs": [[k, kwval(k)] for k in I], "outputs": S, "auto": auto}
    if nest is not None:
        a["given"] = given_of(a["inputs"], nest)         # the inputs as spelled: the driver runs `mapSubScoped` (flatten first)
    return {"m": "map.sub", "a": a}


def pipe_requests(ctx, desc, rng, items, scoped=False):
    """Build the cases of one call DAG: runs the implementation, queues the model requests.  `scoped`: the names are scoped and every
    dictionary of provided VALUES (map inputs, run kwargs) is given in a drawn spelling (`nest_plan`), recorded as case["nest"]."""
    funcs = desc["funcs"]
    p, log = pipegen.build(desc)
    outs = pipegen.all_outputs(desc)
    prod = set(outs)
    allroots = sorted({q for f in funcs for q, _ in f["params"] if q not in prod and q not in _bound(f)})
    alldflt = {q for f in funcs for q in _dflt(f)}
    for S in subsets_of(rng, outs, limit=ctx.n(10, 14)):
        for kind, I in cuts_for(rng, funcs, S):
            I = list(dict.fromkeys(I))
            ref = ref_needed(funcs, S, set(I))
            auto = rng.random() < 0.3
            case = {"stream": "pipe", "funcs": funcs, "S": S, "I": I, "kind": kind, "auto": auto}
            nest = ()
            if scoped:
                nest = case["nest"] = nest_plan(rng, funcs, I)
            inputs = spell({k: terms.dec(kwval(k)) for k in I}, nest)
            impl = {"sub": obs_subpipeline(p, I, S), "map": obs_map(p, log, inputs, S, auto)}
            reqs = [{"m": "pipe.sub", "a": {"funcs": funcs, "inputs": I, "outputs": S}}, _msub_req(funcs, I, S, auto, nest if scoped else None)]
            if len(S) == 1 and not kind.startswith("bad") and kind != "drop-root":
                impl["run"] = obs_run(p, log, S[0], {k: kwval(k) for k in I}, nest)
                reqs.append({"m": "pipe.call", "a": {"funcs": funcs, "kw": [[k, kwval(k)] for k in I], "S": S, "out": S[0]}})
            elif len(S) == 1 and kind == "bad:tuple-part":
                impl["run"] = obs_run(p, log, S[0], {k: kwval(k) for k in I}, nest)
            if not ref["missing"] and not ref["clash"] and not ref["surplus"] and not kind.startswith("bad"):
                # the full run's inputs: I (when it is a root-only cut) and every other root the full pipeline requires
                full = None
                if all(i not in prod for i in I):
                    extra = [r for r in allroots if r not in I and r not in ref["roots"] and (r not in alldflt or rng.random() < 0.3)]
                    full = (spell({k: terms.dec(kwval(k)) for k in list(I) + extra}, nest), None)
                impl["variants"] = obs_variants(ctx, p, log, inputs, S, I, rng, run_kw={k: kwval(k) for k in I}, full=full,
                                                narrower=narrower_of(rng, funcs, S, I), nest=nest)
            items.append((case, ref, impl, reqs))
    # auto_subpipeline without output_names: everything downstream of the provided names
    autos = []
    if rng.random() < 0.5:
        pool = allroots + outs
        I = sorted(rng.sample(pool, rng.randint(1, min(3, len(pool))))) if pool else []
        if rng.random() < 0.4:
            I = allroots
        autos.append(I)
    if rng.random() < 0.6:
        I = sorted(auto_cut(rng, funcs, outs, allroots, frozenset(), "closed"))      # provided names from which everything downstream IS computable
        if I and I not in autos:
            autos.append(I)
    if rng.random() < 0.4:
        I = sorted(auto_cut(rng, funcs, outs, allroots, frozenset(), "any"))         # ... and from which it may not be
        if I and I not in autos:
            autos.append(I)
    for I in autos:
        case = {"stream": "pipe", "funcs": funcs, "S": None, "I": I, "kind": "auto-downstream", "auto": True}
        nest = ()
        if scoped:
            nest = case["nest"] = nest_plan(rng, funcs, I)
        inputs = spell({k: terms.dec(kwval(k)) for k in I}, nest)
        impl = {"sub": obs_subpipeline(p, I, None), "map": obs_map(p, log, inputs, None, True)}
        reqs = [{"m": "pipe.sub", "a": {"funcs": funcs, "inputs": I, "outputs": None}}, _msub_req(funcs, I, None, True, nest if scoped else None)]
        items.append((case, ref_auto(funcs, I), impl, reqs))
    # output_names only (no inputs): subpipeline alone
    S = [rng.choice(outs)]
    case = {"stream": "pipe", "funcs": funcs, "S": S, "I": None, "kind": "outputs-only", "auto": False}
    items.append((case, ref_needed(funcs, S, set()), {"sub": obs_subpipeline(p, None, S)},
                  [{"m": "pipe.sub", "a": {"funcs": funcs, "inputs": None, "outputs": S}}]))


def ref_auto(funcs, I):
    """reference for auto_subpipeline=True without output_names: `ref_needed` of the downstream outputs (+ "down", "S"), None when nothing is downstream"""
    down, S = ref_downstream(funcs, I)
    if not down:
        return None
    ref = ref_needed(funcs, S, set(I))
    ref.update({"down": down, "S": S})
    return ref


def mentions(msg, name):
    import re
    return re.search(r"(?<![A-Za-z0-9_])" + re.escape(name) + r"(?![A-Za-z0-9_])", msg) is not None


def judge_auto_ref(ctx, case, ref, ob, mmap, stream):
    """map(auto_subpipeline=True) without output_names against the property's text (reference `ref_auto`, a well-formed request): not
    computable -> rejected naming what is missing before any user function ran; computable -> every function downstream of a provided
    name is computed and exactly the needed functions are invoked (values are judged by the caller)."""
    ctx.count(f"{stream}:auto-downstream:{'computable' if not ref['missing'] else 'not-computable'}")
    if ref["missing"]:
        if "err" not in ob:
            ctx.violation(case, f"map(auto_subpipeline=True): request that is not computable (missing {ref['missing']}) is accepted", impl=ob, model=mmap)
        elif ob["err"] != "ValueError" or [r for r in ref["missing"] if not mentions(ob["msg"], r)]:
            ctx.violation(case, f"map(auto_subpipeline=True): the rejection ({ob['err']}) does not name the missing root(s) {ref['missing']}", impl=ob, model=mmap)
        elif ob.get("calls"):
            ctx.violation(case, "map(auto_subpipeline=True): user functions ran before the rejection", impl=ob, model=mmap)
        else:
            return True
        return False
    if "err" in ob:
        if stream == "map" and "err" in mmap and mmap.get("at") == "map":
            return True         # the run of the selected partial pipeline is refused for a reason the map model shares: not C11's clause
        ctx.violation(case, f"map(auto_subpipeline=True) refuses inputs from which everything downstream is computable: {ob['msg'][:120]}", impl=ob, model=mmap)
        return False
    lacking = [o for o in ref["S"] if o not in ob["outputs"]]
    if lacking:
        ctx.violation(case, f"map(auto_subpipeline=True) does not return {lacking}, which are downstream of the provided names", impl=ob, model=mmap)
        return False
    if stream == "pipe" and ob["called"] != ref["needed"]:
        ctx.violation(case, f"map(auto_subpipeline=True) invoked {ob['called']} instead of exactly the needed {ref['needed']}", impl=ob, model=mmap)
        return False
    return True


def judge_pipe(ctx, case, ref, impl, resps):
    funcs, S, I, kind = case["funcs"], case["S"], case["I"], case["kind"]
    msub = model_sub(resps[0]["r"]["now"])
    legacy = resps[0]["r"]["legacy"]
    ctx.count(f"pipe:kind:{kind}")
    count_entry(ctx, "pipe", case)
    if "nest" in case and I is not None:
        nest = case["nest"]
        can = [k for k in I if "." in k and k.split(".", 1)[0] in param_scopes(funcs)]
        sp = "no-scoped-name-provided" if not can else ("flat" if not nest else ("nested" if len(nest) == len(can) else "mixed"))
        ctx.count(f"spelling:{sp}")
        ctx.count(f"spelling:{sp}:{'auto-noS' if S is None else ('auto+S' if case['auto'] else 'S-only')}")
        flat = resps[1]["r"].get("now", {}).get("flat")
        if flat is not None and sorted(flat) != sorted(I):
            ctx.violation(case, f"the model flattens the provided names to {sorted(flat)}, the request provides {sorted(I)}", found_input=False,
                          item="correspondence:scope-flatten", impl=sorted(I), model=sorted(flat))
    if kind == "auto-downstream":
        mmap = model_map(resps[1]["r"])
        ctx.record(case, nontrivial=bool(I))
        if ref is not None and not ref["clash"] and not ref["surplus"]:
            count_classes(ctx, "pipe", classify(funcs, ref["S"], I, ref["needed"]), not ref["missing"])
            if not judge_auto_ref(ctx, case, ref, impl["map"], mmap, "pipe"):
                return
        if ("err" in impl["sub"]) != ("err" in msub) or ("err" not in msub and impl["sub"]["kept"] != msub["kept"]):
            ctx.violation(case, "subpipeline(inputs) without output_names differs from the model", found_input=False,
                          item="correspondence:auto-downstream", impl=impl["sub"], model=msub)
        if "err" in impl["map"] and "err" not in mmap:
            ctx.violation(case, f"map(auto_subpipeline=True) refuses inputs from which everything downstream is computable: {impl['map']['msg'][:120]}",
                          impl=impl["map"], model=mmap)
        elif ("err" in impl["map"]) != ("err" in mmap):
            ctx.violation(case, "map(auto_subpipeline=True) accepts a request the model rejects", found_input=False,
                          item="correspondence:auto-downstream", impl=impl["map"], model=mmap)
        elif "err" not in mmap:
            ctx.count("pipe:auto-downstream:ok")
            log = []
            kw = {k: kwval(k) for k in I}
            for o, got in impl["map"]["outputs"].items():
                if got != ref_value(funcs, kw, o, log):
                    ctx.violation(case, f"map(auto_subpipeline=True): value of `{o}` is not the composition with the provided names substituted",
                                  impl=impl["map"], model=mmap)
                    return
            if impl["map"]["outputs"] != mmap["outputs"] or impl["map"]["called"] != mmap["kept"]:
                ctx.violation(case, "map(auto_subpipeline=True) results/calls differ from the model", found_input=False,
                              item="correspondence:auto-downstream", impl=impl["map"], model=mmap)
        return
    nfuncs = len(funcs)
    prod = {o for f in funcs for o in f["outputs"]}
    orphan = any(all(q in _bound(f) or q in _dflt(f) for q, _ in f["params"]) for f in funcs if f["name"] in ref["needed"])
    nontrivial = len(ref["needed"]) < nfuncs or any(i in prod for i in (I or [])) or orphan
    ctx.record(case, nontrivial)
    if orphan:
        ctx.count("pipe:needed-has-nullary-or-all-defaulted")
    if kind == "outputs-only":
        count_classes(ctx, "pipe", classify(funcs, S, None, ref["needed"]), True)
        if "err" in impl["sub"] or impl["sub"]["kept"] != ref["needed"]:
            ctx.violation(case, f"subpipeline(output_names={S}) keeps {impl['sub'].get('kept', impl['sub'])}, needed {ref['needed']}", impl=impl["sub"], model=msub)
        elif msub != impl["sub"]:
            ctx.violation(case, "model of subpipeline differs", found_input=False, item="correspondence:subpipeline", impl=impl["sub"], model=msub)
        if "err" in legacy or sorted(legacy["kept"]) != ref["needed"]:
            ctx.count("pinned-code-would-fail:outputs-only")
        return
    mmap = model_map(resps[1]["r"])
    if kind.startswith("bad") or ref["clash"] or ref["surplus"]:
        ctx.count("pipe:malformed")
        if kind == "bad:unknown-input":
            return      # KeyError/ValueError depending on the entry point: not compared
        known = {q for f in funcs for q, _ in f["params"]} | prod
        if all(i in known for i in I) and not ref["missing"]:
            # S IS computable from I (I provides more than a cut: a requested output, one output of a still-needed tuple
            # function, or names nothing needed takes).  What the property's text demands: see ASSUMPTIONS.
            ctx.count(f"pipe:over-provided:{'clash' if ref['clash'] else 'surplus'}")
            if "err" in impl["sub"]:
                ctx.violation(case, f"subpipeline refuses a computable request ({kind}): {impl['sub']['msg'][:140]}", impl=impl["sub"], model=msub)
                return
            if impl["sub"]["kept"] != ref["needed"]:
                ctx.violation(case, f"subpipeline keeps {impl['sub']['kept']} instead of the needed {ref['needed']} ({kind})", impl=impl["sub"], model=msub)
                return
            kw = {k: kwval(k) for k in I}
            ob = impl["map"]
            if "err" in ob:
                bad = sorted(set(ref["clash"]) | set(ref["surplus"]))
                if ob["err"] != "ValueError" or not any(mentions(ob["msg"], b) for b in bad):
                    ctx.violation(case, f"map(output_names=S): over-provided request rejected with {ob['err']} not naming any of {bad}", impl=ob, model=mmap)
                    return
                if ob.get("calls"):
                    ctx.violation(case, "map(output_names=S): user functions ran before the rejection of an over-provided request", impl=ob, model=mmap)
                    return
            else:
                lg = []
                for o in S:
                    want = kw[o] if o in kw else ref_value(funcs, kw, o, lg)
                    if ob["outputs"].get(o) != want:
                        ctx.violation(case, f"map(output_names=S): value of `{o}` is not the full pipeline's value with the provided names substituted ({kind})",
                                      impl={"value": ob["outputs"].get(o)}, model={"value": want})
                        return
                if [n for n in ob["called"] if n not in ref["needed"]]:
                    ctx.violation(case, f"map(output_names=S) invoked {ob['called']}, not only needed functions {ref['needed']}", impl=ob, model=mmap)
                    return
            if "run" in impl and kind == "bad:tuple-part" and S[0] not in I:
                ob = impl["run"]
                lg = []
                want = ref_value(funcs, kw, S[0], lg)
                ctx.count("pipe:over-provided:run")
                if "err" in ob:
                    ctx.violation(case, f"run(o, kwargs=I) refuses a computable request ({kind}): {ob['msg'][:140]}", impl=ob, model={"value": want})
                    return
                if ob["value"] != want:
                    ctx.violation(case, f"run(o, kwargs=I): value is not the composition with the provided names substituted ({kind})", impl=ob, model={"value": want})
                    return
                if ob["calls"] != sorted(set(lg)):
                    ctx.violation(case, f"run(o, kwargs=I) invoked {ob['calls']} instead of exactly the needed {sorted(set(lg))} ({kind})", impl=ob, model={"value": want})
                    return
        for key, m in (("sub", msub), ("map", mmap)):
            if ("err" in impl[key]) != ("err" in m):
                ctx.violation(case, f"{key}: malformed request {'rejected' if 'err' in impl[key] else 'accepted'} by the implementation only ({kind})",
                              found_input=False, item="correspondence:malformed", impl=impl[key], model=m)
            elif key == "sub" and "err" not in m and m != impl[key]:
                ctx.violation(case, f"sub: kept functions differ from the model on an over-provided request ({kind})",
                              found_input=False, item="correspondence:malformed", impl=impl[key], model=m)
        return
    computable = not ref["missing"]
    count_classes(ctx, "pipe", classify(funcs, S, I, ref["needed"]), computable)
    ctx.count(f"pipe:{'computable' if computable else 'not-computable'}")
    ctx.count(f"pipe:|S|={len(S)}")
    if computable and "err" in legacy:
        ctx.count("pinned-code-would-refuse")
    if computable and "err" not in legacy and sorted(legacy["kept"]) != ref["needed"]:
        ctx.count("pinned-code-would-drop-needed")
    if not computable:
        for key, what in (("sub", "subpipeline"), ("map", "map(output_names=S)")):
            ob = impl[key]
            if "err" not in ob:
                ctx.violation(case, f"{what}: request that is not computable (missing {ref['missing']}) is accepted", impl=ob, model=msub)
                return
            if ob["err"] != "ValueError":
                ctx.violation(case, f"{what}: not-computable request rejected with {ob['err']}, not naming what is missing", impl=ob, model=msub)
                return
            lacking = [r for r in ref["missing"] if not mentions(ob["msg"], r)]
            if lacking:
                ctx.violation(case, f"{what}: the rejection does not name the missing root(s) {lacking}", impl=ob, model=msub)
                return
            if ob.get("calls"):
                ctx.violation(case, f"{what}: user functions ran before the rejection", impl=ob, model=msub)
                return
        if "err" not in msub or msub["missing"] != ref["missing"]:
            ctx.violation(case, "the model's missing roots differ from the reference", found_input=False, item="correspondence:missing", impl=ref, model=msub)
        return
    # computable: succeeds, keeps exactly the needed functions, right values, call log = needed
    if "err" in impl["sub"]:
        ctx.violation(case, f"subpipeline refuses a computable request ({kind}): {impl['sub']['msg'][:140]}", impl=impl["sub"], model=msub)
        return
    if impl["sub"]["kept"] != ref["needed"]:
        ctx.violation(case, f"subpipeline keeps {impl['sub']['kept']} instead of the needed {ref['needed']}", impl=impl["sub"], model=msub)
        return
    if "err" in impl["map"]:
        ctx.violation(case, f"map(output_names=S) refuses a computable request ({kind}): {impl['map']['msg'][:140]}", impl=impl["map"], model=mmap)
        return
    kw = {k: kwval(k) for k in I}
    log = []
    for o in S:
        want = ref_value(funcs, kw, o, log)
        if impl["map"]["outputs"].get(o) != want:
            ctx.violation(case, f"map(output_names=S): value of `{o}` is not the full pipeline's value with the provided names substituted",
                          impl={"value": impl["map"]["outputs"].get(o)}, model={"value": want})
            return
    if impl["map"]["called"] != ref["needed"] or len(impl["map"]["calls"]) != len(ref["needed"]):
        ctx.violation(case, f"map(output_names=S) invoked {[c[0] for c in impl['map']['calls']]} instead of exactly the needed {ref['needed']}",
                      impl=impl["map"], model=mmap)
        return
    lg = []
    if not judge_variants(ctx, case, impl, {o: ref_value(funcs, kw, o, lg) for o in S}, ref["needed"], lambda calls: len(calls) == len(ref["needed"])):
        return
    sm = (impl.get("variants") or {}).get("subobj", {}).get("map")
    if sm is not None and (sm.get("outputs") != impl["map"]["outputs"] or sm.get("calls") != impl["map"]["calls"]):
        ctx.violation(case, "subpipeline(I, S).map(inputs) and map(inputs, output_names=S) differ in their outputs or calls", found_input=False,
                      item="correspondence:subobj", impl=sm, model=impl["map"])
        return
    if msub != impl["sub"] or "err" in mmap or mmap["kept"] != ref["needed"] or mmap["outputs"] != impl["map"]["outputs"] or mmap["calls"] != impl["map"]["calls"]:
        ctx.violation(case, "model differs from the implementation on a computable request", found_input=False,
                      item="correspondence:computable", impl=impl, model={"sub": msub, "map": mmap})
        return
    if "run" in impl:
        r = resps[2]["r"]
        ctx.count("pipe:run-with-intermediates")
        log = []
        want = ref_value(funcs, kw, S[0], log)
        ob = impl["run"]
        if "err" in ob:
            ctx.violation(case, f"run(o, kwargs=I) refuses a computable request: {ob['msg'][:140]}", impl=ob, model=r["full"])
        elif ob["value"] != want:
            ctx.violation(case, "run(o, kwargs=I): value is not the composition with the provided names substituted", impl=ob, model={"value": want})
        elif ob["calls"] != ref["needed"]:
            ctx.violation(case, f"run(o, kwargs=I) invoked {ob['calls']} instead of exactly the needed {ref['needed']}", impl=ob, model=r["full"])
        elif "err" in r["full"] or canon(r["full"]["value"]) != ob["value"] or sorted(r["full"]["calls"]) != ob["calls"] \
                or "err" in r["sub"] or canon(r["sub"]["value"]) != ob["value"] or sorted(r["sub"]["calls"]) != ob["calls"] \
                or canon(r["spec"]) != ob["value"]:
            ctx.violation(case, "model of run / call of the partial pipeline differs", found_input=False, item="correspondence:run", impl=ob, model=r)
        so = (impl.get("variants") or {}).get("subobj", {}).get("run")
        if so is not None and "err" not in r["sub"] and (so.get("value") != canon(r["sub"]["value"]) or so.get("calls") != sorted(r["sub"]["calls"])):
            ctx.violation(case, "model of calling the partial pipeline (callSub) differs from subpipeline(I, S).run(o, kwargs=I)", found_input=False,
                          item="correspondence:run", impl=so, model=r["sub"])


# ------------------------------------------------------------------------------------------ stream B: map pipelines
def map_io(desc, I, full_out, full_enc, full_inputs):
    """Values for the provided names: a root as in the full run (a defaulted root, which the full run leaves out, gets its
    default's value), an interior name what the full run produced.  Returns (python inputs, model inputs) or None."""
    given = {k: v for k, v in desc["inputs"]}
    inputs, minputs = {}, []
    for k in I:
        if k in full_out:
            inputs[k] = full_out[k]
            minputs.append([k, full_enc[k]])
        elif k in given:
            inputs[k] = full_inputs[k]
            minputs.append([k, given[k]])
        else:
            dv = next((d[1] for f in desc["funcs"] for d in f["defaults"] if d[0] == k), None)
            if dv is None:
                return None
            inputs[k] = terms.dec(dv)
            minputs.append([k, dv])
    return inputs, minputs


def mapped_defaults(desc):
    """roots that have an ARRAY default (mapgen, `_MAPPED_DEFAULT_ON`: a mapped root with a default of another length) and are supplied"""
    arr = {d[0] for f in desc["funcs"] for d in f["defaults"] if isinstance(d[1], dict) and "arr" in d[1]}
    return frozenset(k for k, _ in desc["inputs"] if k in arr)


def map_full(desc):
    """The full run of a map case (defaulted roots left to their defaults, except a mapped root with an array default: it stays supplied -
    the supplied array, not the default, must decide shapes and values in the full and in every partial run)."""
    keep = mapped_defaults(desc)
    dn = {d[0] for f in desc["funcs"] for d in f["defaults"]} - keep
    desc["inputs"] = [kv for kv in desc["inputs"] if kv[0] not in dn]
    p, log = mapgen.build(desc)
    internal = mapgen.internal_shapes_arg(desc)
    full_inputs = mapgen.py_inputs(desc)
    log.clear()
    full = mapgen.quiet(p.map, full_inputs, internal_shapes=internal, parallel=False, storage="dict")
    full_out = {k: r.output for k, r in full.items()}
    full_enc = {k: terms.enc(v) for k, v in full_out.items()}
    full_calls = sorted(([c[0], c[1]] for c in log.read() if c[2] == "call"), key=repr)
    return p, log, internal, full_inputs, full_out, full_enc, full_calls


def map_one(desc, S, I, auto, p, log, internal, full_inputs, full_out, full_enc):
    io = map_io(desc, I, full_out, full_enc, full_inputs)
    if io is None:
        return None
    inputs, minputs = io
    # internal_shapes: only for outputs that remain to be computed (a provided array brings its own shape)
    isub = {o: s for o, s in (internal or {}).items() if o not in I} or None
    ob = obs_map(p, log, inputs, S, auto, internal=isub)
    req = mapgen.model_request(desc)
    req.update({"inputs": minputs, "internal": [[o, list(s)] for o, s in (isub or {}).items()], "outputs": S, "auto": auto})
    return ob, {"m": "map.sub", "a": req}


def map_requests(ctx, desc, rng, items):
    funcs = desc["funcs"]
    try:
        p, log, internal, full_inputs, full_out, full_enc, full_calls = map_full(desc)
    except Exception as e:  # noqa: BLE001
        ctx.skip(f"full map run fails:{exc_enum(e)}")         # C01's business
        return
    outs = [o for f in funcs for o in f["outputs"]]
    pinned = mapped_defaults(desc)
    if pinned:
        ctx.count("map:supplied-mapped-default")
    for S in subsets_of(rng, outs, limit=8):
        for kind, I in cuts_for(rng, funcs, S, pinned):
            if kind in ("bad:unknown-input",):
                continue
            I = list(dict.fromkeys(I))
            ref = ref_needed(funcs, S, set(I))
            auto = rng.random() < 0.3
            one = map_one(desc, S, I, auto, p, log, internal, full_inputs, full_out, full_enc)
            if one is None:
                ctx.skip("map: no value for a chosen name")
                continue
            case = {"stream": "map", "desc": desc, "S": S, "I": I, "kind": kind, "auto": auto}
            impl = {"map": one[0], "full": {o: full_enc[o] for o in S}, "full_calls": [c for c in full_calls if c[0] in ref["needed"]]}
            if not ref["missing"] and not ref["clash"] and not ref["surplus"] and not kind.startswith("bad") and "err" not in one[0]:
                io = map_io(desc, I, full_out, full_enc, full_inputs)
                isub = {o: sh for o, sh in (internal or {}).items() if o not in I} or None
                full = (full_inputs, internal) if all(i not in full_out for i in I) else None
                impl["variants"] = obs_variants(ctx, p, log, io[0], S, I, rng, internal=isub, full=full, narrower=narrower_of(rng, funcs, S, I))
            items.append((case, ref, impl, [one[1]]))
    # auto_subpipeline=True without output_names: everything downstream of the provided names (roots and/or arrays the full run produced)
    given = [k for k, _ in desc["inputs"]]
    seen = []
    for mode in ("closed", "closed", "any"):
        I = auto_cut(rng, funcs, outs, given, pinned, mode)
        if not I or sorted(I) in seen:
            continue
        seen.append(sorted(I))
        ref = ref_auto(funcs, I)
        one = map_one(desc, None, I, True, p, log, internal, full_inputs, full_out, full_enc)
        if one is None:
            ctx.skip("map: no value for a chosen name")
            continue
        case = {"stream": "map", "desc": desc, "S": None, "I": I, "kind": "auto-downstream", "auto": True}
        impl = {"map": one[0], "full": {o: full_enc[o] for o in (ref["S"] if ref else [])},
                "full_calls": [c for c in full_calls if ref and c[0] in ref["needed"]]}
        items.append((case, ref, impl, [one[1]]))


def auto_cut(rng, funcs, outs, given, pinned, mode):
    """provided names for map(auto_subpipeline=True): some arrays/values the full run produced and/or some roots; mode `closed`: plus every
    root that what lies downstream still requires (so that the request is computable), to a fixed point"""
    prod = set(outs)
    consumed = sorted({q for f in funcs for q, _ in f["params"] if q in prod and q not in _bound(f)})
    roots = sorted({q for f in funcs for q, _ in f["params"] if q not in prod and q not in _bound(f)})
    r = rng.random()
    C = rng.sample(consumed, rng.randint(1, min(2, len(consumed)))) if consumed and r < 0.7 else []
    R = rng.sample(roots, rng.randint(1, min(2, len(roots)))) if roots and (r >= 0.5 or not C) else []
    I = list(dict.fromkeys(C + R))
    if mode == "closed":
        for _ in range(len(roots) + 1):
            ref = ref_auto(funcs, I)
            if ref is None:
                break
            more = [m for m in ref["missing"] if m not in I] + [q for q in ref["roots"] if q in pinned and q not in I]
            if ref["defaulted"] and rng.random() < 0.3:
                more += [q for q in ref["defaulted"] if q in ref["roots"] and q not in I and q in given]
            if not more:
                break
            I += list(dict.fromkeys(more))
    ref = ref_auto(funcs, I)
    if ref is not None:     # a supplied mapped root with an array default stays supplied (see `cuts_for`)
        I += [q for q in ref["roots"] if q in pinned and q not in I]
    return I


def judge_map_auto(ctx, case, ref, impl, mmap):
    """map(inputs, auto_subpipeline=True) on a map pipeline, no output_names"""
    I, funcs, ob = case["I"], case["desc"]["funcs"], impl["map"]
    prod = {o for f in funcs for o in f["outputs"]}
    ctx.record(case, nontrivial=ref is not None and (len(ref["needed"]) < len(funcs) or any(i in prod for i in I)))
    if ref is None or ref["clash"] or ref["surplus"]:
        # nothing downstream / a provided name that what is downstream still produces or does not take: outside the quantifier
        ctx.count("map:auto-downstream:" + ("nothing-downstream" if ref is None else "over-provided"))
        if ("err" in ob) != ("err" in mmap):
            ctx.violation(case, f"map(auto_subpipeline=True): ill-formed request {'rejected' if 'err' in ob else 'accepted'} by the implementation only",
                          found_input=False, item="correspondence:auto-downstream", impl=ob, model=mmap)
        return
    count_classes(ctx, "map", classify(funcs, ref["S"], I, ref["needed"]), not ref["missing"])
    if not judge_auto_ref(ctx, case, ref, ob, mmap, "map"):
        return
    if ref["missing"]:
        if "err" not in mmap or mmap.get("missing") != ref["missing"]:
            ctx.violation(case, "the model's missing roots differ from the reference", found_input=False, item="correspondence:missing", impl=ref, model=mmap)
        return
    if "err" in ob:
        ctx.count(f"map:run-refused-by-both:{ob['err']}")
        return
    ctx.count("map:auto-downstream:ok")
    for o in ref["S"]:
        if ob["outputs"].get(o) != impl["full"][o]:
            ctx.violation(case, f"map(auto_subpipeline=True): `{o}` differs from what the full pipeline computes",
                          impl={"value": ob["outputs"].get(o)}, model={"value": impl["full"][o]})
            return
    if ob["called"] != [n for n in ref["needed"] if any(c[0] == n for c in impl["full_calls"])] or ob["calls"] != impl["full_calls"]:
        ctx.violation(case, f"map(auto_subpipeline=True) invoked {ob['called']} ({len(ob['calls'])} calls) instead of exactly the needed {ref['needed']} "
                            f"({len(impl['full_calls'])} calls)", impl=ob, model=mmap)
        return
    if "err" in mmap or mmap["kept"] != ref["needed"] or mmap["outputs"] != ob["outputs"] or mmap["calls"] != ob["calls"]:
        ctx.violation(case, "model differs from the implementation on map(auto_subpipeline=True)", found_input=False,
                      item="correspondence:auto-downstream", impl=ob, model=mmap)


def judge_map(ctx, case, ref, impl, resps):
    S, I, kind = case["S"], case["I"], case["kind"]
    funcs = case["desc"]["funcs"]
    mmap = model_map(resps[0]["r"])
    legacy = resps[0]["r"]["legacy"]
    ctx.count(f"map:kind:{kind}")
    count_entry(ctx, "map", case)
    if S is None:
        judge_map_auto(ctx, case, ref, impl, mmap)
        return
    prod = {o for f in funcs for o in f["outputs"]}
    orphan = any(all(q in _bound(f) or q in _dflt(f) for q, _ in f["params"]) for f in funcs if f["name"] in ref["needed"])
    ctx.record(case, len(ref["needed"]) < len(funcs) or any(i in prod for i in I) or orphan)
    ob = impl["map"]
    if kind.startswith("bad") or ref["clash"] or ref["surplus"]:
        ctx.count("map:malformed")
        known = {q for f in funcs for q, _ in f["params"]} | prod
        if all(i in known for i in I) and not ref["missing"]:
            ctx.count(f"map:over-provided:{'clash' if ref['clash'] else 'surplus'}")
            bad = sorted(set(ref["clash"]) | set(ref["surplus"]))
            if "err" in ob:
                if not ("err" in mmap and mmap.get("at") == "map" and not any(mentions(ob["msg"], b) for b in bad)):
                    if ob["err"] != "ValueError" or not any(mentions(ob["msg"], b) for b in bad):
                        ctx.violation(case, f"map(output_names=S): over-provided request rejected with {ob['err']} not naming any of {bad}", impl=ob, model=mmap)
                        return
                if ob.get("calls"):
                    ctx.violation(case, "map(output_names=S): user functions ran before the rejection of an over-provided request", impl=ob, model=mmap)
                    return
            else:
                for o in S:
                    if o not in I and ob["outputs"].get(o) != impl["full"][o]:
                        ctx.violation(case, f"map(output_names=S): `{o}` differs from what the full pipeline computes ({kind})",
                                      impl={"value": ob["outputs"].get(o)}, model={"value": impl["full"][o]})
                        return
        if ("err" in ob) != ("err" in mmap):
            ctx.violation(case, f"malformed request {'rejected' if 'err' in ob else 'accepted'} by the implementation only ({kind})",
                          found_input=False, item="correspondence:malformed", impl=ob, model=mmap)
        return
    computable = not ref["missing"]
    count_classes(ctx, "map", classify(funcs, S, I, ref["needed"]), computable)
    ctx.count(f"map:{'computable' if computable else 'not-computable'}")
    if computable and "err" in legacy:
        ctx.count("pinned-code-would-refuse")
    if not computable:
        if "err" not in ob:
            ctx.violation(case, f"map(output_names=S): request that is not computable (missing {ref['missing']}) is accepted", impl=ob, model=mmap)
        elif ob["err"] != "ValueError" or [r for r in ref["missing"] if not mentions(ob["msg"], r)]:
            ctx.violation(case, f"map(output_names=S): the rejection ({ob['err']}) does not name the missing root(s) {ref['missing']}", impl=ob, model=mmap)
        elif ob.get("calls"):
            ctx.violation(case, "map(output_names=S): user functions ran before the rejection", impl=ob, model=mmap)
        elif "err" not in mmap or mmap.get("missing") != ref["missing"]:
            ctx.violation(case, "the model's missing roots differ from the reference", found_input=False, item="correspondence:missing", impl=ref, model=mmap)
        return
    if "err" in ob:
        if "err" in mmap and mmap.get("at") == "map":
            # the partial pipeline is selected but its run is refused for a reason the map model shares (e.g. shapes): not C11's clause
            ctx.count(f"map:run-refused-by-both:{ob['err']}")
            return
        ctx.violation(case, f"map(output_names=S) refuses a computable request ({kind}): {ob['msg'][:140]}", impl=ob, model=mmap)
        return
    for o in S:
        if ob["outputs"].get(o) != impl["full"][o]:
            ctx.violation(case, f"map(output_names=S): `{o}` differs from what the full pipeline computes", impl={"value": ob["outputs"].get(o)},
                          model={"value": impl["full"][o]})
            return
    if ob["called"] != [n for n in ref["needed"] if any(c[0] == n for c in impl["full_calls"])] or ob["calls"] != impl["full_calls"]:
        ctx.violation(case, f"map(output_names=S) invoked {ob['called']} ({len(ob['calls'])} calls) instead of exactly the needed {ref['needed']} "
                            f"({len(impl['full_calls'])} calls)", impl=ob, model=mmap)
        return
    if not judge_variants(ctx, case, impl, {o: impl["full"][o] for o in S}, ob["called"], lambda calls: calls == impl["full_calls"]):
        return
    if "err" in mmap or mmap["kept"] != ref["needed"] or mmap["outputs"] != ob["outputs"] or mmap["calls"] != ob["calls"]:
        ctx.violation(case, "model differs from the implementation on a computable map request", found_input=False,
                      item="correspondence:map", impl=ob, model=mmap)


# ------------------------------------------------------------------------------------------ corpus (DF-17 a-c and relatives)
def _f(name, params, outputs, defaults=(), bound=()):
    return {"name": name, "params": [[p, p] for p in params], "outputs": list(outputs), "defaults": [list(d) for d in defaults], "bound": [list(b) for b in bound]}


CORPUS = [
    # DF-17 (a): nullary dependency
    {"funcs": [_f("k", [], ["k"]), _f("f", ["x", "k"], ["y"])]},
    # DF-17 (a'): all-defaulted dependency and (b) a defaulted root left to its default
    {"funcs": [_f("k", ["c"], ["k"], defaults=[["c", {"s": "dflt:c"}]]), _f("f", ["x", "k"], ["y"]), _f("g", ["y", "d"], ["z"], defaults=[["d", {"s": "dflt:d"}]])]},
    # DF-17 (c): nullary producer requested with no inputs
    {"funcs": [_f("f0", [], ["o0"]), _f("f1", ["o0", "r0"], ["o1"])]},
    # tuple output, one part consumed; bound over an upstream output
    {"funcs": [_f("f0", ["r0"], ["o0a", "o0b"]), _f("f1", ["o0b", "r1"], ["o1"]), _f("f2", ["o1", "o0a"], ["o2"], bound=[["o0a", {"s": "bound:o0a:f2"}]])]},
    # sequence-valued results (terms.SEQ_SUFFIX): a 1-D array per tuple part, a tuple, a list - passed on, requested, provided
    {"funcs": [_f("f0_nd", ["r0"], ["o0a", "o0b"]), _f("f1_pair", ["o0b", "r1"], ["o1"]), _f("f2_lst", ["o1", "o0a"], ["o2"]), _f("f3", ["o2"], ["o3"])]},
]


def _mf(name, params, outputs, mapspec=None, defaults=()):
    return {"name": name, "params": [[p, p] for p in params], "outputs": list(outputs), "mapspec": mapspec, "mapspec_str": mapgen.spec_str(mapspec) if mapspec else None,
            "autogen": False, "ret": None, "internal": None, "defaults": [list(d) for d in defaults], "bound": []}


def _el(tag, name, n):
    return {"arr": [[n], [{"f": tag, "k": [["n", {"s": name}], ["at", {"arr": [[1], [q]]}]]} for q in range(n)]]}


def _ms(ins, outs):
    return {"inputs": [[n, ["i"]] for n in ins], "outputs": [[n, ["i"]] for n in outs]}


# map stream: sequence-valued ELEMENTS (every element of y0a/y0b/y1 is a list / a tuple, the reduction returns an array) and a mapped root
# that has a default of another length (3) and is supplied as well (2): the provided intermediates are fed back into the model as `terms.enc`'d arrays
MAP_CORPUS = [
    {"funcs": [_mf("f0_lst", ["x0"], ["y0a", "y0b"], _ms(["x0"], ["y0a", "y0b"]), defaults=[["x0", _el("dflt", "x0", 3)]]),
               _mf("f1_pair", ["y0b", "c1"], ["y1"], _ms(["y0b"], ["y1"]), defaults=[["c1", {"s": "dflt:c1"}]]),
               _mf("f2_nd", ["y1", "y0a"], ["y2"]), _mf("f3", ["y2"], ["y3"])],
     "inputs": [["c1", {"s": "in:c1"}], ["x0", _el("in", "x0", 2)]], "input_kinds": {"x0": "list"}, "internal": [], "sizes": {"i": 2}},
]


N_PIPE, N_PIPE_DIRECTED, N_MAP = (86, 1200), (10, 120), (74, 1000)       # (quick, thorough) pipelines per stream
N_SCOPED = (8, 110)                                                       # scoped call DAGs (drawn AFTER the other streams: their draws are unchanged)

# scoped names: a chain with a defaulted root under one scope; a diamond over two scopes with a tuple output and an un-scoped root
SCOPED_CORPUS = [
    {"funcs": [_f("f", ["sc.a"], ["sc.y"]), _f("g", ["sc.y", "sc.b"], ["sc.z"], defaults=[["sc.b", {"s": "dflt:sc.b"}]]), _f("h", ["sc.z"], ["sc.w"])]},
    {"funcs": [_f("f0", ["sc.r0", "r1"], ["sc.o0a", "sd.o0b"]), _f("f1", ["sc.o0a", "sd.r2"], ["sd.o1"]), _f("f2", ["sd.o0b", "sd.o1"], ["o2"])]},
]
for _d in SCOPED_CORPUS:
    for _g in _d["funcs"]:
        _g["params"] = [[q, q.split(".", 1)[-1]] for q, _ in _g["params"]]


def run(ctx):
    import shutil
    import tempfile
    ctx._c11_tmp = tempfile.mkdtemp(prefix="verif-c11-")
    try:
        _run(ctx)
    finally:
        shutil.rmtree(ctx._c11_tmp, ignore_errors=True)


def _run(ctx):
    rng = ctx.rng
    items = []
    for d in CORPUS:
        pipe_requests(ctx, copy.deepcopy(d), rng, items)
    for _ in range(ctx.n(N_PIPE[0], N_PIPE[1])):
        pipe_requests(ctx, gen_pipe(rng), rng, items)
    for _ in range(ctx.n(N_PIPE_DIRECTED[0], N_PIPE_DIRECTED[1])):
        pipe_requests(ctx, gen_directed_pipe(rng), rng, items)
    for d in MAP_CORPUS:
        map_requests(ctx, copy.deepcopy(d), rng, items)
    for _ in range(ctx.n(N_MAP[0], N_MAP[1])):
        map_requests(ctx, gen_map(rng), rng, items)
    for d in SCOPED_CORPUS:
        pipe_requests(ctx, copy.deepcopy(d), rng, items, scoped=True)
    for k in range(ctx.n(N_SCOPED[0], N_SCOPED[1])):
        pipe_requests(ctx, scope_desc(rng, gen_directed_pipe(rng) if k % 4 == 3 else gen_pipe(rng)), rng, items, scoped=True)
    from props import c11_comp                         # round 3: `Computable` decided by the model over the full pipeline
    c11_comp.reset()
    comp = [c11_comp.requests(it[0], it[3]) if c11_comp.applies(it[0]) else [] for it in items]
    flat = [r for it, cr in zip(items, comp) for r in it[3] + cr]
    outs = ctx.lean(flat)
    pos = 0
    for (case, ref, impl, reqs), cr in zip(items, comp):
        resps = outs[pos:pos + len(reqs)]
        pos += len(reqs) + len(cr)
        if cr:
            c11_comp.judge(ctx, case, ref, impl, outs[pos - len(cr):pos], resps)
        if case["stream"] == "pipe":
            judge_pipe(ctx, case, ref, impl, resps)
        else:
            judge_map(ctx, case, ref, impl, resps)


def replay(ctx, case):
    if case["stream"] == "pipe":
        p, log = pipegen.build({"funcs": case["funcs"]})
        I, S = case["I"], case["S"]
        nest = case.get("nest", ())
        print("reference:", ref_needed(case["funcs"], S, set(I or [])) if S else None)
        print("implementation subpipeline:", obs_subpipeline(p, I, S))
        if I is not None:
            if "nest" in case:
                print("inputs as spelled:", sorted(spell({k: k for k in I}, nest).items(), key=repr))
            print("implementation map:", obs_map(p, log, spell({k: terms.dec(kwval(k)) for k in I}, nest), S, case["auto"]))
            print("model map:", ctx.lean([_msub_req(case["funcs"], I, S, case["auto"], nest if "nest" in case else None)])[0]["r"])
        print("model:", ctx.lean([{"m": "pipe.sub", "a": {"funcs": case["funcs"], "inputs": I, "outputs": S}}])[0]["r"])
        if I is not None and S:
            funcs = case["funcs"]
            ref = ref_needed(funcs, S, set(I))
            prod = {o for f in funcs for o in f["outputs"]}
            roots = sorted({q for f in funcs for q, _ in f["params"] if q not in prod and q not in _bound(f)})
            full = (spell({k: terms.dec(kwval(k)) for k in list(I) + [r for r in roots if r not in I and r not in ref["roots"]]}, nest), None) \
                if all(i not in prod for i in I) else None
            _replay_variants(ctx, p, log, spell({k: terms.dec(kwval(k)) for k in I}, nest), S, I, funcs, None, full)
    else:
        desc = case["desc"]
        p, log, internal, full_inputs, full_out, full_enc, full_calls = map_full(desc)
        print("full run:", {k: full_enc[k] for k in (case["S"] or full_enc)})
        print("reference:", ref_needed(desc["funcs"], case["S"], set(case["I"])) if case["S"] else ref_auto(desc["funcs"], case["I"]))
        ob, req = map_one(desc, case["S"], case["I"], case["auto"], p, log, internal, full_inputs, full_out, full_enc)
        print("implementation map(output_names=S):", ob)
        print("model:", ctx.lean([req])[0]["r"])
        if case["S"]:
            io = map_io(desc, case["I"], full_out, full_enc, full_inputs)
            isub = {o: sh for o, sh in (internal or {}).items() if o not in case["I"]} or None
            full = (full_inputs, internal) if all(i not in full_out for i in case["I"]) else None
            _replay_variants(ctx, p, log, io[0], case["S"], case["I"], desc["funcs"], isub, full)


def _replay_variants(ctx, p, log, inputs, S, I, funcs, internal, full):
    """every other route to the same partial run (the check draws one per case), incl. every narrower first request of `widened`"""
    import shutil
    import tempfile
    made = ctx_tmp(ctx) is None
    if made:
        ctx._c11_tmp = tempfile.mkdtemp(prefix="verif-c11-")
    try:
        for which in ("subobj", "par", "resume", "narrowed"):
            print(f"variant {which}:", obs_variants(ctx, p, log, inputs, S, I, ctx.rng, internal=internal, full=full, which=which))
        for k in range(1, len(S)):
            for c in itertools.combinations(S, k):
                r = ref_needed(funcs, list(c), set(I))
                if not r["missing"] and not r["surplus"] and not r["clash"]:
                    print(f"variant widened from {list(c)}:", obs_variants(ctx, p, log, inputs, S, I, ctx.rng, internal=internal, narrower=list(c), which="widened"))
    finally:
        if made:
            shutil.rmtree(ctx._c11_tmp, ignore_errors=True)
            ctx._c11_tmp = None
