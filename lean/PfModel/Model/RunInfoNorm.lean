/-
`RunInfo.load ∘ RunInfo.dump` as a normalisation, for EVERY record (no admissibility hypothesis on the names).

`Model/RunInfoCodec.lean` keeps the JSON objects of `shapes` / `shape_masks` / `storage` as lists of pairs, duplicate keys
included.  The code builds them with dict comprehensions (`pipefunc/map/_run_info.py:172-176` in `dump`,
`:189-192` in `load`): keys that become equal after `_maybe_tuple_to_str` (resp. `_maybe_str_to_tuple`) are ONE entry -- at
the position of the first of them, with the value of the last.  This file adds that collapse (`dictOf`) to both directions
(`encodeN`, `decodeN`) and defines, directly on the record, the normal form `normalise r` that `load (dump r)` returns.
Core Lean only.
-/
import PfModel.Model.RunInfoCodec
namespace PF.RIC
open PF PF.Map

/-- `d[k] = v` on an insertion-ordered Python dict: an existing key keeps its position (and the key object) and takes the
    new value; a new key goes to the end -/
def dictSet {κ β} [DecidableEq κ] : List (κ × β) → κ → β → List (κ × β)
  | [], k, v => [(k, v)]
  | (k', v') :: r, k, v => if k' = k then (k', v) :: r else (k', v') :: dictSet r k v

/-- `{k: v for k, v in pairs}` (`_run_info.py:176`, `:190`, `:192`): later value wins, first position is kept -/
def dictOf {κ β} [DecidableEq κ] (l : List (κ × β)) : List (κ × β) :=
  l.foldl (fun d kv => dictSet d kv.1 kv.2) []

/-- `set(names)` (`_run_info.py:188`) on a list: every name once (the model keeps sets as lists; order is not observable) -/
def dedupNames : List String → List String
  | [] => []
  | x :: r => if x ∈ r then dedupNames r else x :: dedupNames r

/-- `{_maybe_tuple_to_str(k): v for k, v in data[key].items()}` (`_run_info.py:175-176`) -/
def joinDict {β} (l : List (Key × β)) : List (String × β) :=
  dictOf (l.map fun kv => (keyStr kv.1, kv.2))

/-- `{_maybe_str_to_tuple(k): … for k, v in data[key].items()}` (`_run_info.py:190`, `:192`) -/
def splitDict {β} (l : List (String × β)) : List (Key × β) :=
  dictOf (l.map fun sv => (strKey sv.1, sv.2))

/-- what one key looks like after `dump` and `load`: `_maybe_str_to_tuple(_maybe_tuple_to_str(k))` (`_run_info.py:349-359`) -/
def normKey (k : Key) : Key := strKey (keyStr k)

/-- a dictionary with `OUTPUT_TYPE` keys after `dump` and `load`: the two comprehensions one after the other (NOT one
    comprehension over `normKey`: see `C04_two_stage_witness`) -/
def normDict {β} (l : List (Key × β)) : List (Key × β) := splitDict (joinDict l)

/-- **`RunInfo.dump`** (`_run_info.py:161-182`) with the key dictionaries as Python dicts: `encode` whose `shapes`,
    `shape_masks` (and `storage` when it is a dictionary) objects are collapsed after `_maybe_tuple_to_str` -/
def encodeN (r : RunInfo) : J :=
  .obj [
    ("all_output_names", .arr ((sortNames r.allOutputNames).map .str)),
    ("shapes", .obj (dictOf (r.shapes.map fun (kv : Key × List Nat) => (keyStr kv.1, J.arr (kv.2.map encNat))))),
    ("internal_shapes", match r.internalShapes with
      | none => .null
      | some m => .obj (m.map fun (kv : String × IShape) => (kv.1, encIShape kv.2))),
    ("shape_masks", .obj (dictOf (r.shapeMasks.map fun (kv : Key × List Bool) => (keyStr kv.1, J.arr (kv.2.map .bool))))),
    ("run_folder", .path .folder),
    ("mapspecs_as_strings", .arr (r.mapspecs.map .str)),
    ("storage", match r.storage with
      | .uniform s => .str s
      | .per m => .obj (dictOf (m.map fun (kv : Key × String) => (keyStr kv.1, J.str kv.2)))),
    ("pipefunc_version", .str r.version),
    ("input_paths", .obj (r.inputs.map fun (kv : String × Val) => (kv.1, .path (.input kv.1)))),
    ("defaults_path", .path .defaults)]

/-- **`RunInfo._dump_all`** (`_run_info.py:44-53`: every input, the defaults, `run_info.json`) with `encodeN` -/
def dumpAllN (fo : Folder) (r : RunInfo) : Folder :=
  let fo1 := write fo .runInfo (.json (encodeN r))
  let fo2 := r.inputs.foldl (fun f (kv : String × Val) => write f (.input kv.1) (.val kv.2)) fo1
  write fo2 .defaults (.kw r.defaults)

/-- `{_maybe_str_to_tuple(k): f(v) for k, v in obj.items()}` (`_run_info.py:190`, `:192`): `decKeyed`, then the dict -/
def decKeyedN {α} (f : J → Option α) : J → Option (List (Key × α))
  | .obj kv => (mapOpt (fun (p : String × J) => (f p.2).map fun v => (strKey p.1, v)) kv).map dictOf
  | _ => none

/-- `if isinstance(data["storage"], dict): …` (`_run_info.py:189-190`) -/
def decStorageN : J → Option Storage
  | .str s => some (.uniform s)
  | o@(.obj _) => (decKeyedN decStr o).map Storage.per
  | _ => none

/-- the body of `RunInfo.load` (`_run_info.py:184-203`) once `run_info.json` is parsed: `decodeJ` with Python dicts and
    `set(all_output_names)` -/
def decodeJN (fo : Folder) (j : J) : Option RunInfo := do
  let names ← (jfield j "all_output_names").bind (decArr decStr)
  let storage ← (jfield j "storage").bind decStorageN
  let shapes ← (jfield j "shapes").bind (decKeyedN (decArr decNat))
  let masks ← (jfield j "shape_masks").bind (decKeyedN (decArr decBool))
  let internal ← (jfield j "internal_shapes").bind decInternal
  let inputs ← (jfield j "input_paths").bind (decInputs fo)
  let defaults ← (jfield j "defaults_path").bind (decDefaults fo)
  let mapspecs ← (jfield j "mapspecs_as_strings").bind (decArr decStr)
  let version ← (jfield j "pipefunc_version").bind decStr
  return { inputs := inputs, defaults := defaults, allOutputNames := dedupNames names, shapes := shapes, internalShapes := internal,
           shapeMasks := masks, mapspecs := mapspecs, storage := storage, version := version }

/-- **`RunInfo.load`** (`_run_info.py:184-203`) -/
def decodeN (fo : Folder) : Option RunInfo :=
  match fo .runInfo with
  | some (.json j) => decodeJN fo j
  | _ => none

/-- `storage` after `dump` and `load` (`_run_info.py:173-176`, `:189-190`): only a dictionary is touched -/
def normStorage : Storage → Storage
  | .uniform s => .uniform s
  | .per m => .per (normDict m)

/-- **what `RunInfo.load(F)` returns after `RunInfo(...).dump()`**, stated on the record itself: the three dictionaries
    keyed by `OUTPUT_TYPE` go through both comprehensions, `all_output_names` is sorted and becomes a set; everything else
    is unchanged (`_run_info.py:161-203`) -/
def normalise (r : RunInfo) : RunInfo :=
  { r with allOutputNames := dedupNames (sortNames r.allOutputNames),
           shapes := normDict r.shapes,
           shapeMasks := normDict r.shapeMasks,
           storage := normStorage r.storage }

/-- the decidable fixed-point condition of `normDict`: the keys are distinct and each is its own normal form -/
def dictFixed {β} (l : List (Key × β)) : Bool :=
  decide ((l.map (·.1)).Nodup) && l.all fun kv => decide (normKey kv.1 = kv.1)

/-- the same for the three dictionaries of a record -/
def recFixed (r : RunInfo) : Bool :=
  dictFixed r.shapes && dictFixed r.shapeMasks && (match r.storage with | .uniform _ => true | .per m => dictFixed m)

end PF.RIC
