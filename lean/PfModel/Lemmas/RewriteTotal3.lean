import PfModel.Lemmas.RewriteTotal2
/-! The model's Kahn check `acyclic` yields an acyclicity witness `AcyclicR`; output names stay unique under nesting. -/
namespace PF.Rw
open PF PF.Pipe

/-- invariant of the Kahn layering: a produced, non-bound parameter of a function still to be scheduled is already done or
    has a smaller rank (the layer in which its producer is scheduled) -/
theorem layersOk_rank (fs : List RFunc) (hu : UniqueOutR fs) : ∀ (fuel : Nat) (done : List String) (rest : List RFunc),
    (∀ f ∈ rest, f ∈ fs) → layersOk fs fuel done rest = true →
    ∃ rk : String → Nat, ∀ f ∈ rest, ∀ o ∈ f.core.outputs, ∀ p ∈ freeParams f, (∃ g ∈ fs, p ∈ g.core.outputs) →
      p ∈ done ∨ rk p < rk o := by
  intro fuel
  induction fuel with
  | zero =>
    intro done rest _ h
    rw [layersOk] at h
    have : rest = [] := by simpa using h
    subst this
    exact ⟨fun _ => 0, by intro f hf; cases hf⟩
  | succ fuel ih =>
    intro done rest hrest h
    rw [layersOk] at h
    by_cases hre : rest.isEmpty = true
    · have : rest = [] := by simpa using hre
      subst this
      exact ⟨fun _ => 0, by intro f hf; cases hf⟩
    · simp only [hre, Bool.false_eq_true, ↓reduceIte] at h
      let ready := rest.filter fun f => (freeParams f).all fun p => (rproducer fs p).isNone || done.contains p
      have h' : (if ready.isEmpty then false else layersOk fs fuel (done ++ ready.flatMap (·.core.outputs))
          (rest.filter fun f => !(ready.any fun g => g.core.outputs = f.core.outputs))) = true := h
      by_cases hrd : ready.isEmpty = true
      · simp [hrd] at h'
      · simp only [hrd, Bool.false_eq_true, ↓reduceIte] at h'
        have hrest' : ∀ f ∈ rest.filter (fun f => !(ready.any fun g => g.core.outputs = f.core.outputs)), f ∈ fs :=
          fun f hf => hrest f (List.mem_filter.mp hf).1
        obtain ⟨rk', hrk'⟩ := ih _ _ hrest' h'
        refine ⟨fun o => if o ∈ ready.flatMap (·.core.outputs) then 0 else rk' o + 1, ?_⟩
        intro f hf o ho p hp hprod
        by_cases hfr : f ∈ ready
        · left
          have hall := (List.mem_filter.mp hfr).2
          rw [List.all_eq_true] at hall
          have hp' := hall p hp
          obtain ⟨c, hc⟩ := rproducer_isSome fs p hprod
          rw [hc] at hp'
          simpa using hp'
        · have hsame : ∀ g ∈ ready, o ∈ g.core.outputs → False := by
            intro g hg hog
            have hgfs := hrest g (List.mem_filter.mp hg).1
            have : f = g := hu f (hrest f hf) g hgfs o ho hog
            subst this
            exact hfr hg
          have hf' : f ∈ rest.filter (fun f => !(ready.any fun g => g.core.outputs = f.core.outputs)) := by
            refine List.mem_filter.mpr ⟨hf, ?_⟩
            cases hany : ready.any (fun g => decide (g.core.outputs = f.core.outputs)) with
            | false => rfl
            | true =>
              obtain ⟨g, hg, hgo⟩ := List.any_eq_true.mp hany
              have hgo' : g.core.outputs = f.core.outputs := by simpa using hgo
              exact (hsame g hg (by rw [hgo']; exact ho)).elim
          have ho_nr : o ∉ ready.flatMap (·.core.outputs) := by
            intro hmem
            obtain ⟨g, hg, hog⟩ := List.mem_flatMap.mp hmem
            exact hsame g hg hog
          rcases hrk' f hf' o ho p hp hprod with hd | hlt
          · rcases List.mem_append.mp hd with hd | hd
            · exact Or.inl hd
            · right
              simp only [hd, ho_nr, ↓reduceIte]
              omega
          · right
            simp only [ho_nr, ↓reduceIte]
            split <;> omega

/-- **The Kahn check gives an acyclicity witness** -/
theorem acyclic_rank (fs : List RFunc) (hu : UniqueOutR fs) (h : acyclic fs = true) : ∃ rank, AcyclicR fs rank := by
  unfold acyclic at h
  obtain ⟨rk, hrk⟩ := layersOk_rank fs hu _ [] fs (fun _ h => h) h
  refine ⟨rk, ⟨?_⟩⟩
  intro f hf o ho p hp hprod
  rcases hrk f hf o ho p hp hprod with hd | hlt
  · cases hd
  · exact hlt

/-- output names stay unique when one group is replaced by its nest -/
theorem uniqueOut_nest1 (fs : List RFunc) (sel : RFunc → Bool) (N : RFunc) (hu : UniqueOutR fs) (hN : IsNest (fs.filter sel) N) :
    UniqueOutR (fs.filter (fun f => !sel f) ++ [N]) := by
  have hcross : ∀ f ∈ fs.filter (fun f => !sel f), ∀ o, o ∈ f.core.outputs → o ∈ N.core.outputs → False := by
    intro f hf o hof hoN
    obtain ⟨hffs, hsf⟩ := List.mem_filter.mp hf
    obtain ⟨h, hh, hoh⟩ := hN.outs o hoN
    obtain ⟨hhfs, hsh⟩ := List.mem_filter.mp hh
    have : f = h := hu f hffs h hhfs o hof hoh
    subst this
    rw [hsh] at hsf
    simp at hsf
  intro f hf g hg o hof hog
  rcases List.mem_append.mp hf with hf1 | hf1 <;> rcases List.mem_append.mp hg with hg1 | hg1
  · exact hu f (List.mem_filter.mp hf1).1 g (List.mem_filter.mp hg1).1 o hof hog
  · have e : g = N := by simpa using hg1
    rw [e] at hog
    exact (hcross f hf1 o hof hog).elim
  · have e : f = N := by simpa using hf1
    rw [e] at hof
    exact (hcross g hg1 o hog hof).elim
  · have e1 : f = N := by simpa using hf1
    have e2 : g = N := by simpa using hg1
    rw [e1, e2]

/-! ### `dupOutputs = false` means unique output names -/

theorem eraseDups_length_aux : ∀ (n : Nat) (l : List String), l.length ≤ n →
    l.eraseDups.length ≤ l.length ∧ (l.eraseDups.length = l.length → l.Nodup) := by
  intro n
  induction n with
  | zero =>
    intro l hl
    have : l = [] := List.eq_nil_of_length_eq_zero (by omega)
    subst this
    simp
  | succ n ih =>
    intro l hl
    cases l with
    | nil => simp
    | cons a as =>
      rw [List.eraseDups_cons]
      have hfl := List.length_filter_le (fun b => !b == a) as
      simp only [List.length_cons] at hl
      obtain ⟨ih1, ih2⟩ := ih (as.filter (fun b => !b == a)) (by omega)
      simp only [List.length_cons]
      refine ⟨by omega, ?_⟩
      intro heq
      have hlen : (as.filter (fun b => !b == a)).length = as.length := by omega
      have hall := List.length_filter_eq_length_iff.mp hlen
      have hself : as.filter (fun b => !b == a) = as := List.filter_eq_self.mpr hall
      have hnd := ih2 (by omega)
      rw [hself] at hnd
      refine List.nodup_cons.mpr ⟨?_, hnd⟩
      intro hmem
      have := hall a hmem
      simp at this

theorem nodup_flatMap_unique : ∀ (fs : List RFunc), (fs.flatMap (·.core.outputs)).Nodup →
    ∀ (i j : Nat) (hi : i < fs.length) (hj : j < fs.length) (o : String), o ∈ fs[i].core.outputs → o ∈ fs[j].core.outputs → i = j := by
  intro fs
  induction fs with
  | nil => intro _ i j hi; simp at hi
  | cons a as ih =>
    intro hnd i j hi hj o hoi hoj
    rw [List.flatMap_cons] at hnd
    obtain ⟨_, h2, h3⟩ := List.nodup_append.mp hnd
    cases i with
    | zero =>
      cases j with
      | zero => rfl
      | succ j =>
        simp only [List.getElem_cons_zero] at hoi
        simp only [List.getElem_cons_succ] at hoj
        simp only [List.length_cons] at hj
        exact absurd rfl (h3 o hoi o (List.mem_flatMap.mpr ⟨as[j], List.getElem_mem _, hoj⟩))
    | succ i =>
      cases j with
      | zero =>
        simp only [List.getElem_cons_zero] at hoj
        simp only [List.getElem_cons_succ] at hoi
        simp only [List.length_cons] at hi
        exact absurd rfl (h3 o hoj o (List.mem_flatMap.mpr ⟨as[i], List.getElem_mem _, hoi⟩))
      | succ j =>
        simp only [List.getElem_cons_succ] at hoi hoj
        simp only [List.length_cons] at hi hj
        have := ih h2 i j (by omega) (by omega) o hoi hoj
        omega

/-- `validate_unique_output_names` passing means no two functions share an output name -/
theorem dupOutputs_unique (fs : List RFunc) (h : dupOutputs fs = false) : UniqueOutR fs := by
  unfold dupOutputs at h
  simp only [ne_eq, decide_not, Bool.not_eq_eq_eq_not, Bool.not_false, decide_eq_true_eq] at h
  have hnd := (eraseDups_length_aux _ (allOutputs fs) (Nat.le_refl _)).2 h.symm
  intro f hf g hg o hof hog
  obtain ⟨i, hi, rfl⟩ := List.getElem_of_mem hf
  obtain ⟨j, hj, rfl⟩ := List.getElem_of_mem hg
  have := nodup_flatMap_unique fs hnd i j hi hj o hof hog
  subst this
  rfl

theorem buildNests_mem_conv : ∀ (l : List (List RFunc × List String)) (Ns : List RFunc), buildNests l = .ok Ns →
    ∀ e ∈ l, ∃ N ∈ Ns, mkNest e.1 (some e.2) = .ok N := by
  intro l
  induction l with
  | nil => intro Ns _ e he; cases he
  | cons e0 es ih =>
    obtain ⟨g, outs⟩ := e0
    intro Ns h e he
    simp only [buildNests] at h
    split at h
    · cases h
    · next N0 hN0 =>
      split at h
      · cases h
      · next Ns' hNs' =>
        injection h with h
        subst h
        rcases List.mem_cons.mp he with rfl | he
        · exact ⟨N0, by simp, hN0⟩
        · obtain ⟨N, hN, hm⟩ := ih Ns' hNs' e he
          exact ⟨N, List.mem_cons_of_mem _ hN, hm⟩

end PF.Rw
