"""C18, container stream: `evaluate_lazy` on nested user containers of deferred objects, and the API around it.

(A) sessions as in props/c18.py (lazy calls inside / outside construct_dag() blocks) followed by steps that are `evaluate_lazy(container)`
    or `evaluate()`; every step is judged on the implementation (shape, leaf values = eager values, one invocation per node, idempotent)
    and compared with `PF.LazyCont` through the driver entry "csession".
(B) implementation against the eager twin only: Pipeline.func, a PipeFunc-level call with deferred arguments, deferred objects as root
    arguments of a second lazy pipeline, a NestedPipeFunc in a lazy pipeline.
"""
from __future__ import annotations

import collections
import copy
import json
import random

import pfimport  # noqa: F401
from pfimport import exc_enum

import networkx as nx
from pipefunc import PipeFunc, Pipeline
from pipefunc.lazy import _LazyFunction, construct_dag
import pipefunc.lazy as pflazy

import pipegen
import terms


def _c18():
    from props import c18
    return c18


def kwval(k):
    return {"s": f"kw:{k}"}


_FA = {"name": "fa", "params": [["x", "x"]], "outputs": ["a"], "defaults": [], "bound": []}
_FB = {"name": "fb", "params": [["a", "a"], ["y", "y"]], "outputs": ["b", "c"], "defaults": [["y", {"s": "dy"}]], "bound": []}
_FD = {"name": "fd", "params": [["a", "p"], ["b", "q"], ["c", "r"]], "outputs": ["d"], "defaults": [], "bound": []}
_KX = [["x", kwval("x")]]
H0, H1, H2 = {"h": 0}, {"h": 1}, {"h": 2}

CORPUS: list = [
    # a list / tuple / dict of the same and of different objects; a set; containers evaluate_lazy does not look into
    {"stream": "cont", "funcs": [_FA, _FB, _FD],
     "ops": [{"op": "call", "out": "d", "kw": _KX}, {"op": "call", "out": "b", "kw": _KX},
             {"op": "evalc", "c": {"list": [H0, {"val": 7}, H0, {"tuple": [H1, {"dict": [["k", H0], ["m", {"val": {"s": "p"}}]]}]}]}},
             {"op": "eval", "h": 1}, {"op": "evalc", "c": {"set": [H0, H1, {"tuple": [H0, {"val": 7}]}, {"val": 7}, H0]}}]},
    {"stream": "cont", "funcs": [_FA, _FB, _FD],
     "ops": [{"op": "enter"}, {"op": "call", "out": "d", "kw": _KX}, {"op": "call", "out": ["b", "c"], "kw": _KX}, {"op": "call", "out": "a", "kw": _KX},
             {"op": "exit"},
             {"op": "evalc", "c": {"list": [{"other": "frozenset", "xs": [H0]}, {"other": "deque", "xs": [H1, {"val": 7}]}]}},
             {"op": "evalc", "c": {"dict": [["u", {"other": "deque", "xs": [H0]}], ["v", H2], ["w", {"list": []}], ["x", {"tuple": [{"val": 8}]}]]}},
             {"op": "evalc", "c": {"tuple": []}}, {"op": "evalc", "c": H1}, {"op": "evalc", "c": {"val": 7}},
             {"op": "evalc", "c": {"set": [{"other": "frozenset", "xs": [H0, H1]}, H1]}}, {"op": "eval", "h": 0}]},
    {"stream": "cont", "funcs": [_FA], "ops": [{"op": "call", "out": "a", "kw": _KX}, {"op": "evalc", "c": {"list": [{"list": [{"list": [H0]}]}, {"set": []}]}},
                                               {"op": "evalc", "c": {"list": [{"list": [{"list": [H0]}]}]}}]},
    # dict VALUES that are containers themselves (every kind below a dict, two levels), then the same tree again
    {"stream": "cont", "funcs": [_FA, _FB, _FD],
     "ops": [{"op": "call", "out": "d", "kw": _KX}, {"op": "call", "out": "a", "kw": _KX},
             {"op": "evalc", "c": {"dict": [["k", {"list": [H1]}], ["m", {"tuple": [{"dict": [["z", H0], ["y", {"set": [H1]}]]}]}], ["n", {"val": 3}]]}},
             {"op": "evalc", "c": {"list": [{"dict": [["k", {"list": [H1]}], ["m", {"tuple": [{"dict": [["z", H0]]}]}]]}, {"val": None}]}}]},
]


# ------------------------------------------------------------------------------------------------ containers
def t_has_lazy(T):
    if "h" in T:
        return True
    for k in ("list", "tuple", "set"):
        if k in T:
            return any(t_has_lazy(x) for x in T[k])
    if "dict" in T:
        return any(t_has_lazy(x) for _, x in T["dict"])
    return False


def t_leaves(T, looked=True, out=None):
    """(handle index, looked into?) of every handle leaf, in traversal order"""
    out = [] if out is None else out
    if "h" in T:
        out.append((T["h"], looked))
    elif "other" in T:
        for x in T["xs"]:
            t_leaves(x, False, out)
    elif "dict" in T:
        for _, x in T["dict"]:
            t_leaves(x, looked, out)
    else:
        for k in ("list", "tuple", "set"):
            if k in T:
                for x in T[k]:
                    t_leaves(x, looked, out)
    return out


def t_depth(T):
    kids = T.get("xs") if "other" in T else [x for _, x in T["dict"]] if "dict" in T else next((T[k] for k in ("list", "tuple", "set") if k in T), None)
    if kids is None:
        return 0
    return 1 + max([t_depth(x) for x in kids], default=0)


def t_kinds(T, out):
    for k in ("list", "tuple", "set", "dict", "other"):
        if k in T:
            out.append(T["other"] if k == "other" else k)
            kids = T["xs"] if k == "other" else [x for _, x in T["dict"]] if k == "dict" else T[k]
            if not kids:
                out.append("empty")
            for x in kids:
                t_kinds(x, out)


def build_obj(T, handles):
    """(python object, T as sent to the model): sets / frozensets are deduplicated and listed in the real set's iteration order"""
    if "h" in T:
        return handles[T["h"]], T
    if "val" in T:
        return terms.dec(T["val"]), T
    if "dict" in T:
        kids = [(k, build_obj(x, handles)) for k, x in T["dict"]]
        return {k: o for k, (o, _) in kids}, {"dict": [[k, s] for k, (_, s) in kids]}
    if "list" in T or "tuple" in T:
        k = "list" if "list" in T else "tuple"
        kids = [build_obj(x, handles) for x in T[k]]
        objs = [o for o, _ in kids]
        return (objs if k == "list" else tuple(objs)), {k: [s for _, s in kids]}
    kids = [build_obj(x, handles) for x in (T["set"] if "set" in T else T["xs"])]
    if "set" in T or T["other"] == "frozenset":
        real = set(o for o, _ in kids)
        sent = []
        for x in list(real):
            sent.append(next(s for o, s in kids if o is x or o == x))
        if "set" in T:
            return real, {"set": sent}
        fs = frozenset(real)
        return fs, {"other": "frozenset", "xs": [next(s for o, s in kids if o is x or o == x) for x in list(fs)]}
    if T["other"] == "deque":
        return collections.deque(o for o, _ in kids), {"other": "deque", "xs": [s for _, s in kids]}
    raise AssertionError(T)


def _norm_false(j):
    """0 == False and 1 == True inside a Python set: one encoding for both"""
    if isinstance(j, dict):
        if j.get("s") == "$False":
            return 0
        if j.get("s") == "$True":
            return 1
        return {k: _norm_false(v) for k, v in j.items()}
    if isinstance(j, list):
        return [_norm_false(x) for x in j]
    return j


def _setnorm(encs):
    return sorted({json.dumps(_norm_false(e), sort_keys=True) for e in encs})


def n_impl(x, T, base):
    """normal form of what evaluate_lazy returned for the container sent as T (types are checked exactly)"""
    if "h" in T or "val" in T:
        return ["v", terms.enc(x)]
    if "other" in T:
        xs = list(x) if type(x).__name__ == T["other"] else None
        return ["other", T["other"] if xs is not None else f"bad:{type(x).__name__}", len(xs) if xs is not None else -1]
    if "dict" in T:
        if type(x) is not dict or [str(k) for k in x] != [k for k, _ in T["dict"]]:
            return ["bad", type(x).__name__, repr(x)[:80]]
        return ["dict", [[k, n_impl(x[k], t, base)] for k, t in T["dict"]]]
    if "set" in T:
        if type(x) is not set:
            return ["bad", type(x).__name__]
        return ["set", _setnorm(_enc_elem(e) for e in x)]
    k = "list" if "list" in T else "tuple"
    if type(x) is not (list if k == "list" else tuple) or len(x) != len(T[k]):
        return ["bad", type(x).__name__, repr(x)[:80]]
    return [k, [n_impl(xi, t, base) for xi, t in zip(x, T[k])]]


def _enc_elem(e):
    if isinstance(e, frozenset):
        return {"opaque": "frozenset"}
    if isinstance(e, tuple):
        return {"arr": [[len(e)], [_enc_elem(x) for x in e]]}
    return terms.enc(e)


def n_want(T, leafval):
    """normal form of the expected result: `leafval(h)` is the eager value of the h-th call"""
    if "h" in T:
        return ["v", leafval(T["h"])]
    if "val" in T:
        return ["v", terms.enc(terms.dec(T["val"]))]
    if "other" in T:
        return ["other", T["other"], len(T["xs"])]
    if "dict" in T:
        return ["dict", [[k, n_want(t, leafval)] for k, t in T["dict"]]]
    if "set" in T:
        return ["set", _setnorm(_flat_want(t, leafval) for t in T["set"])]
    k = "list" if "list" in T else "tuple"
    return [k, [n_want(t, leafval) for t in T[k]]]


def _flat_want(T, leafval):
    if "h" in T:
        return leafval(T["h"])
    if "val" in T:
        return terms.enc(terms.dec(T["val"]))
    if "other" in T:
        return {"opaque": T["other"]}
    if "tuple" in T:
        return {"arr": [[len(T["tuple"])], [_flat_want(t, leafval) for t in T["tuple"]]]}
    raise AssertionError(T)


def n_model(V):
    if "val" in V:
        return ["v", terms.canon(V["val"])]
    if "other" in V:
        return ["other", V["other"], len(V["xs"])]
    if "dict" in V:
        return ["dict", [[k, n_model(v)] for k, v in V["dict"]]]
    if "set" in V:
        return ["set", _setnorm(_flat_model(v) for v in V["set"])]
    k = "list" if "list" in V else "tuple"
    return [k, [n_model(v) for v in V[k]]]


def _flat_model(V):
    if "val" in V:
        return terms.canon(V["val"])
    if "other" in V:
        return {"opaque": V["other"]}
    if "tuple" in V:
        return {"arr": [[len(V["tuple"])], [_flat_model(v) for v in V["tuple"]]]}
    return {"unexpected": sorted(V)}


# ------------------------------------------------------------------------------------------------ implementation side
def run_csession(desc, ops):
    """`props.c18.run_session` (no own cache) with the step `evalc`; the observation of an evalc step also carries the container as sent
    to the model (`sent`)."""
    c18 = _c18()
    closure, lazy_children, node_desc = c18.closure, c18.lazy_children, c18.node_desc
    p, log = pipegen.build(desc, lazy=True)
    pe, elog = pipegen.build(desc)
    eagers = {}
    for i, op in enumerate(ops):
        if op["op"] == "call":
            out = op["out"] if isinstance(op["out"], str) else tuple(op["out"])
            elog.clear()
            try:
                ev = pipegen.quiet(pe, out, **{k: terms.dec(v) for k, v in op["kw"]})
                eagers[i] = {"value": terms.enc(ev), "calls": elog.names()}
            except Exception as e:  # noqa: BLE001
                eagers[i] = {"err": exc_enum(e)}
    base = _LazyFunction._counter
    obs, handles, heager, table = [], [], [], {}
    known = {}
    cm = None
    tg = None
    block_objs = []
    try:
        for opi, op in enumerate(ops):
            kind = op["op"]
            if kind == "enter":
                cm = construct_dag()
                tg = cm.__enter__()
                block_objs = []
                obs.append({"ok": True})
            elif kind == "exit":
                cm.__exit__(None, None, None)
                cm = None
                g = tg.graph
                o = {"nodes": sorted(n - base for n in g.nodes), "edges": sorted([a - base, b - base] for a, b in g.edges),
                     "acyclic": nx.is_directed_acyclic_graph(g), "cache": len(tg.cache.cache),
                     "mapping_ok": sorted(tg.mapping) == sorted(g.nodes) and
                                   all(g.nodes[n].get("lazy_func") is tg.mapping[n] and tg.mapping[n]._id == n for n in tg.mapping),
                     "global_cleared": pflazy.task_graph() is None}
                want = set()
                for n, lf in tg.mapping.items():
                    for c in lazy_children(lf):
                        want.add((c._id - base, n - base))
                o["arg_edges"] = sorted(list(e) for e in want)
                o["closure"] = sorted(i - base for i in closure(block_objs))
                obs.append(o)
                tg = None
            elif kind == "call":
                out = op["out"] if isinstance(op["out"], str) else tuple(op["out"])
                pykw = {k: terms.dec(v) for k, v in op["kw"]}
                before = len(log.names())
                eager = eagers[opi]
                heager.append(eager)
                flags0 = {i: lf._evaluated for i, lf in known.items()}
                try:
                    r = pipegen.quiet(p, out, **pykw)
                except Exception as e:  # noqa: BLE001
                    handles.append(None)
                    obs.append({"err": exc_enum(e), "eager": eager, "invoked": log.names()[before:]})
                    continue
                handles.append(r)
                o = {"eager": eager, "invoked": log.names()[before:], "type": type(r).__name__}
                if isinstance(r, _LazyFunction):
                    o["ret"] = {"ref": r._id - base}
                    block_objs.append(r)
                    for i, lf in closure([r]).items():
                        table[i - base] = node_desc(lf, base)
                        known[i] = lf
                    o["evaluated_by_request"] = sorted(i - base for i, lf in known.items() if lf._evaluated and not flags0.get(i, False))
                else:
                    o["ret"] = {"val": terms.enc(r)}
                obs.append(o)
            elif kind == "eval":
                r = handles[op["h"]]
                before = len(log.names())
                flags = {i: lf._evaluated for i, lf in known.items()}
                need = closure([r]) if isinstance(r, _LazyFunction) else {}
                try:
                    v = pipegen.quiet(r.evaluate)
                    flipped = [i for i, lf in known.items() if lf._evaluated and not flags[i]]
                    obs.append({"value": terms.enc(v), "log": log.names(), "new": log.names()[before:],
                                "flipped": sorted(known[i].func.__name__ for i in flipped if isinstance(known[i].func, PipeFunc)),
                                "left": sorted(i - base for i, lf in need.items() if not lf._evaluated),
                                "needless": sorted(i - base for i in flipped if i not in need),
                                "was_needed": sorted(lf.func.__name__ for i, lf in need.items()
                                                     if isinstance(lf.func, PipeFunc) and not flags.get(i, False))})
                except Exception as e:  # noqa: BLE001
                    obs.append({"err": exc_enum(e), "log": log.names()})
            elif kind == "evalc":
                T = op["c"]
                leaves = t_leaves(T)
                if any(not isinstance(handles[h], _LazyFunction) for h, _ in leaves):
                    obs.append({"skipped": "a handle of the container is not a deferred object"})
                    continue
                before = len(log.names())
                flags = {i: lf._evaluated for i, lf in known.items()}
                try:
                    x, sent = build_obj(T, handles)
                except Exception as e:  # noqa: BLE001   (the harness's own container could not be built: not pipefunc's business)
                    obs.append({"skipped": f"container not built: {exc_enum(e)}"})
                    continue
                looked = [handles[h] for h, lk in t_leaves(sent) if lk]
                need = closure(looked)
                o = {"sent": sent, "leaf_refs": [lf._id - base for lf in looked]}
                try:
                    y = pipegen.quiet(pflazy.evaluate_lazy, x)
                    flipped = [i for i, lf in known.items() if lf._evaluated and not flags[i]]

                    def leafval(h):
                        return heager[h].get("value", {"no-eager-value": h})

                    o.update({"value": n_impl(y, sent, base), "want": n_want(sent, leafval), "log": log.names(), "new": log.names()[before:],
                              "flipped": sorted(known[i].func.__name__ for i in flipped if isinstance(known[i].func, PipeFunc)),
                              "left": sorted(i - base for i, lf in need.items() if not lf._evaluated),
                              "needless": sorted(i - base for i in flipped if i not in need),
                              "was_needed": sorted(lf.func.__name__ for i, lf in need.items()
                                                   if isinstance(lf.func, PipeFunc) and not flags.get(i, False)),
                              "has_lazy": t_has_lazy(sent), "identity_ok": (y is x) if not t_has_lazy(sent) else None,
                              "eager_known": all("value" in heager[h] for h, lk in leaves if lk)})
                    n2 = len(log.names())
                    y2 = pipegen.quiet(pflazy.evaluate_lazy, x)
                    o["again_new"] = log.names()[n2:]
                    o["again_equal"] = n_impl(y2, sent, base) == o["value"]
                except Exception as e:  # noqa: BLE001
                    o.update({"err": exc_enum(e), "msg": str(e)[:200], "log": log.names()})
                obs.append(o)
            else:
                raise AssertionError(kind)
    finally:
        if cm is not None:
            cm.__exit__(None, None, None)
    return {"ops": obs, "table": [[i, table[i]] for i in sorted(table)], "own": None}


def sent_ops(case, impl):
    """the session as sent to the model: containers in the real sets' iteration order"""
    out = []
    for op, ob in zip(case["ops"], impl["ops"] if impl and "ops" in impl else [{}] * len(case["ops"])):
        if op["op"] == "evalc" and "sent" in ob:
            out.append({"op": "evalc", "c": ob["sent"]})
        else:
            out.append({k: v for k, v in op.items()})
    return out


def model_request(case, impl):
    return {"m": "csession", "a": {"funcs": case["funcs"], "ops": _c18().close_blocks(sent_ops(case, impl))}}


# ------------------------------------------------------------------------------------------------ judging
def judge_cont(case, impl):
    """clauses on the implementation for the evalc steps"""
    viol = []
    for i, (op, ob) in enumerate(zip(case["ops"], impl["ops"])):
        if op["op"] != "evalc" or "skipped" in ob:
            continue
        if "err" in ob:
            viol.append(f"step {i}: evaluate_lazy on a container raised {ob['err']}: {ob.get('msg', '')}")
            continue
        if ob["eager_known"] and ob["value"] != ob["want"]:
            viol.append(f"step {i}: evaluate_lazy did not return the container of the same shape holding the eager values: {json.dumps(ob['value'])[:300]} "
                        f"expected {json.dumps(ob['want'])[:300]}")
        elif ob["identity_ok"] is False:
            viol.append(f"step {i}: a container without deferred objects was not handed back as it is")
        elif sorted(ob["new"]) != ob["flipped"]:
            viol.append(f"step {i}: evaluate_lazy invoked {sorted(ob['new'])} but the nodes it evaluated are those of {ob['flipped']}: each node's function "
                        f"must run exactly once")
        elif ob["left"]:
            viol.append(f"step {i}: evaluate_lazy returned although the nodes {ob['left']} its deferred objects depend on are not evaluated")
        elif ob["needless"]:
            viol.append(f"step {i}: evaluate_lazy evaluated the nodes {ob['needless']}, which the container's deferred objects do not depend on")
        elif ob["flipped"] != ob["was_needed"]:
            viol.append(f"step {i}: evaluate_lazy evaluated the nodes of {ob['flipped']}; needed and not yet evaluated were those of {ob['was_needed']}")
        elif ob["again_new"]:
            viol.append(f"step {i}: a second evaluate_lazy on the same container invoked {ob['again_new']} again")
        elif not ob["again_equal"]:
            viol.append(f"step {i}: a second evaluate_lazy on the same container returned another structure")
    return viol


def compare_cont(case, impl, model):
    diffs = []
    prev = []
    for i, (op, a, b) in enumerate(zip(case["ops"], impl["ops"], model["ops"])):
        if op["op"] == "evalc" and "skipped" not in a:
            if ("err" in a) != ("err" in b):
                diffs.append(f"op {i}: evaluate_lazy {'raises' if 'err' in a else 'returns'}; model {'raises' if 'err' in b else 'returns'}")
            elif "err" not in a:
                try:
                    mv = n_model(b["value"])
                except Exception as e:  # noqa: BLE001
                    mv = ["undecodable", repr(e)[:80]]
                if a["value"] != mv:
                    diffs.append(f"op {i}: evaluate_lazy value {json.dumps(a['value'])[:200]} vs model {json.dumps(mv)[:200]}")
                if a["log"] != b["log"]:
                    diffs.append(f"op {i}: call log {a['log']} vs model {b['log']}")
                if a["leaf_refs"] != b.get("leaf_refs", a["leaf_refs"]):
                    diffs.append(f"op {i}: deferred objects looked into {a['leaf_refs']} vs model {b.get('leaf_refs')}")
                if b.get("shape_ok") is False or b.get("again_ok") is False:
                    diffs.append(f"op {i}: the model's own checks fail: shape_ok={b.get('shape_ok')} again_ok={b.get('again_ok')}")
                mnew = b["log"][len(prev):]
                if a["new"] != mnew or len(b.get("new", mnew)) < len(mnew):
                    diffs.append(f"op {i}: newly invoked {a['new']} vs model {mnew} (model nodes {b.get('new')})")
        if isinstance(b, dict) and "log" in b:
            prev = b["log"]
    return diffs


def count_container(ctx, T):
    kinds = []
    t_kinds(T, kinds)
    for k in kinds or ["leaf"]:
        ctx.count(f"cont kind:{k}")
    ctx.count(f"cont depth:{t_depth(T)}")
    hs = [h for h, _ in t_leaves(T)]
    ctx.count(f"cont handle-leaves:{min(len(hs), 6)}{'+' if len(hs) >= 6 else ''}")
    if len(hs) != len(set(hs)):
        ctx.count("cont repeated-leaf")
    if not t_has_lazy(T):
        ctx.count("cont no-lazy-container")
    if any(not lk for _, lk in t_leaves(T)):
        ctx.count("cont lazy-inside-other")


def check_sessions(ctx, cases):
    c18 = _c18()
    impls = []
    for c in cases:
        try:
            impls.append(run_csession({"funcs": c["funcs"]}, c["ops"]))
        except Exception as e:  # noqa: BLE001
            impls.append({"crash": exc_enum(e), "msg": str(e)[:200]})
    todo = []
    for c, impl in zip(cases, impls):
        if "crash" in impl:
            ctx.record(c, False)
            ctx.violation(c, f"valid lazy pipeline refused at construction: {impl['crash']}: {impl['msg']}")
            continue
        bad = None
        for op, ob in zip(c["ops"], impl["ops"]):
            if op["op"] == "call" and ("err" in ob or ob.get("type") != "_LazyFunction"):
                bad = ob
        if bad is not None:
            ctx.record(c, False)
            if "err" in bad and "err" not in bad["eager"]:
                ctx.violation(c, f"lazy call raises {bad['err']} while the eager pipeline returns a value", impl=impl)
            elif "err" not in bad:
                ctx.violation(c, f"a lazy pipeline returned a {bad['type']}, not a deferred object", impl=impl)
            else:
                ctx.skip("cont: the eager pipeline refuses a generated call")
            continue
        todo.append((c, impl))
    outs = ctx.lean([model_request(c, impl) for c, impl in todo]) if todo else []
    for (c, impl), resp in zip(todo, outs):
        model = c18.model_session(resp["r"])
        steps = [op for op in c["ops"] if op["op"] in ("eval", "evalc")]
        ctx.count(f"cont steps-per-session:{len(steps)}")
        ctx.count(f"cont calls-per-session:{sum(1 for op in c['ops'] if op['op'] == 'call')}")
        for op, ob in zip(c["ops"], impl["ops"]):
            if op["op"] == "evalc":
                ctx.count("cont evalc-steps")
                count_container(ctx, ob.get("sent", op["c"]))
                if "skipped" in ob:
                    ctx.count("cont evalc-skipped")
                elif ob.get("new"):
                    ctx.count("cont evalc-invoking")
            elif op["op"] == "eval":
                ctx.count("cont eval-steps")
        nontrivial = any(op["op"] == "evalc" and t_has_lazy(op["c"]) and t_depth(op["c"]) > 0 for op in c["ops"])
        ctx.record(c, nontrivial)
        viol = c18.judge(ctx, c, impl, model) + judge_cont(c, impl)
        for w in viol[:2]:
            ctx.violation(c, w, impl=impl, model=model)
        if not resp["r"].get("wf", True) or not resp["r"].get("roots_ok", True):
            raise AssertionError("a generated pipeline does not satisfy the theorems' well-formedness hypothesis (generator bug?)")
        if not viol:
            diffs = c18.compare(c, impl, model)
            if diffs:
                ctx.violation(c, "lazy session differs from the model: " + diffs[0], found_input=False, item="correspondence:cont-session",
                              impl=impl, model=model)
                continue
            diffs = compare_cont(c, impl, model)
            if diffs:
                ctx.violation(c, "evaluate_lazy on a container differs from the model: " + diffs[0], found_input=False,
                              item="correspondence:cont-evaluate-lazy", impl=impl, model=model)


# ------------------------------------------------------------------------------------------------ generation
PLAIN = [{"val": 7}, {"val": 8}, {"val": {"s": "p0"}}, {"val": {"s": "p1"}}, {"val": {"f": "t", "k": []}}]


def gen_container(rng, nh, depth, hashable=False, lazy_ok=True):
    def leaf():
        if lazy_ok and nh and rng.random() < 0.75:
            return {"h": rng.randrange(nh) if rng.random() < 0.7 else 0}
        return copy.deepcopy(rng.choice(PLAIN))

    if depth <= 0 or rng.random() < 0.15:
        return leaf()
    kinds = ["tuple", "tuple", "frozenset"] if hashable else ["list", "list", "tuple", "dict", "dict", "set", "set", "frozenset", "deque"]
    k = rng.choice(kinds)
    n = rng.choice([0, 1, 1, 2, 2, 3, 4])
    sub_hashable = hashable or k in ("set", "frozenset")
    kids = [gen_container(rng, nh, depth - 1 if rng.random() < 0.7 else rng.randint(0, depth - 1), sub_hashable, lazy_ok) for _ in range(n)]
    if kids and lazy_ok and nh and rng.random() < 0.25:
        kids.append(copy.deepcopy(rng.choice(kids)))          # the same element (the same deferred object) again
    if k == "dict":
        return {"dict": [[f"k{i}", x] for i, x in enumerate(kids)]}
    if k in ("frozenset", "deque"):
        return {"other": k, "xs": kids}
    return {k: kids}


def gen_case(ctx, rng):
    desc = pipegen.gen_dag(rng, max_funcs=rng.choice([1, 2, 3, 4, 5, 6]))
    p, _ = pipegen.build(desc)
    outs = pipegen.all_outputs(desc)
    tuples = [f["outputs"] for f in desc["funcs"] if len(f["outputs"]) > 1]

    def call():
        o = list(rng.choice(tuples)) if tuples and rng.random() < 0.15 else rng.choice(outs)
        return {"op": "call", "out": o, "kw": [[k, kwval(k)] for k in p.root_args(o if isinstance(o, str) else tuple(o))]}

    ncalls = rng.randint(1, 4)
    shape = rng.choice(["plain", "block", "block", "mixed"])
    ctx.count(f"cont shape:{shape}")
    nsteps = rng.randint(1, 4)

    def step(nh):
        if rng.random() < 0.3:
            return {"op": "eval", "h": rng.randrange(nh)}
        return {"op": "evalc", "c": gen_container(rng, nh, rng.choice([0, 1, 1, 2, 2, 3]), lazy_ok=rng.random() >= 0.08)}

    ops, nh = [], 0
    if shape == "plain":
        for _ in range(ncalls):
            ops.append(call()); nh += 1
    elif shape == "block":
        ops.append({"op": "enter"})
        for _ in range(ncalls):
            ops.append(call()); nh += 1
            if nsteps > 1 and rng.random() < 0.2:
                ops.append(step(nh)); nsteps -= 1
        ops.append({"op": "exit"})
    else:
        ops.append(call()); nh += 1
        ops.append({"op": "enter"})
        for _ in range(max(1, ncalls - 2)):
            ops.append(call()); nh += 1
        ops.append({"op": "exit"})
        if ncalls >= 3:
            ops.append(call()); nh += 1
    for _ in range(nsteps):
        ops.append(step(nh))
    return {"stream": "cont", "funcs": desc["funcs"], "ops": ops}


# ------------------------------------------------------------------------------------------------ (B) API against the eager twin
API_SUBS = ["func", "func-twice", "pf-call", "pf-call", "chain", "chain", "nested"]


def _wrap(rng, mk):
    """a wrapper around 1-2 objects made by `mk()`: returns (how, build(lazy objects) -> container, number of objects)"""
    how = rng.choice(["bare", "bare", "list", "tuple", "dict", "nested", "twice"])
    return how


def _apply_wrap(how, a):
    return {"bare": lambda: a, "list": lambda: [a, 7], "tuple": lambda: (7, a), "dict": lambda: {"k": a, "m": "p"},
            "nested": lambda: [{"k": (a,)}, 7], "twice": lambda: [a, a]}[how]()


def api_one(ctx, case):
    sub = case["sub"]
    ctx.count(f"cont api:{sub}")
    rng = random.Random(f"cont-api:{case['seed']}")
    desc = {"funcs": case["funcs"]}
    try:
        pe, elog = pipegen.build(desc)
        outs = pipegen.all_outputs(desc)

        def roots(pp, o):
            return {k: terms.dec(kwval(k)) for k in pp.root_args(o)}

        def eager_of(o):
            elog.clear()
            v = pipegen.quiet(pe, o, **roots(pe, o))
            return v, elog.names()
        o = rng.choice(outs)
        want, want_calls = eager_of(o)
    except Exception as e:  # noqa: BLE001
        ctx.skip(f"cont api: eager reference: {exc_enum(e)}")
        return
    ctx.record(case, True)

    def bad(what, **kw):
        ctx.violation(case, f"{sub}: {what}", **kw)

    try:
        pl, log = pipegen.build(desc, lazy=True)
    except Exception as e:  # noqa: BLE001
        bad(f"lazy pipeline refused at construction: {exc_enum(e)}")
        return
    if sub in ("func", "func-twice"):
        try:
            f = pl.func(o)
            r = pipegen.quiet(f, **roots(pe, o))
            r2 = pipegen.quiet(f, **roots(pe, o)) if sub == "func-twice" else None
            pre = log.names()
            if not isinstance(r, _LazyFunction) or (r2 is not None and not isinstance(r2, _LazyFunction)):
                bad("Pipeline.func of a lazy pipeline returned a value that is not deferred")
                return
            got = pipegen.quiet(r.evaluate)
            after1 = log.names()
            got2 = pipegen.quiet(r2.evaluate) if r2 is not None else got
            pipegen.quiet(r.evaluate)
            after = log.names()
        except Exception as e:  # noqa: BLE001
            bad(f"raised {exc_enum(e)} where the eager pipeline returns", impl={"err": exc_enum(e), "msg": str(e)[:200]})
            return
        if pre:
            bad(f"functions {pre} invoked before evaluate()")
        elif terms.enc(got) != terms.enc(want) or terms.enc(got2) != terms.enc(want):
            bad("evaluate() differs from the eager result", impl={"value": terms.enc(got)}, model={"value": terms.enc(want)})
        elif sorted(after1) != sorted(want_calls):
            bad(f"first evaluate() invoked {sorted(after1)}, the eager call {sorted(want_calls)}")
        elif sorted(after) != sorted(want_calls * (2 if r2 is not None else 1)):
            bad(f"the evaluations invoked {sorted(after)}; each call object's producers run once ({sorted(want_calls)} per object)")
        return
    if sub == "pf-call":
        f = rng.choice([g for g in desc["funcs"]])
        on = f["outputs"][0] if len(f["outputs"]) == 1 else tuple(f["outputs"])
        bound = {p for p, _ in f.get("bound", [])}
        dflt = {p for p, _ in f.get("defaults", [])}
        in_block = rng.random() < 0.4
        ctx.count(f"cont api:pf-call:{'block' if in_block else 'plain'}")
        made = []          # (lazy object, eager value, eager calls)

        def lazy_of(q):
            if made and rng.random() < 0.2:
                cand = [m for m in made if m[3] == q]
                if cand:
                    return cand[0]
            ev, calls = eager_of(q)
            m = (pipegen.quiet(pl, q, **roots(pe, q)), ev, calls, q)
            made.append(m)
            return m
        kw_l, kw_e = {}, {}
        cm = construct_dag() if in_block else None
        try:
            if cm is not None:
                cm.__enter__()
            try:
                for pname, _ in f["params"]:
                    if pname in bound:
                        continue
                    if pname in outs:
                        if rng.random() < 0.75:
                            m = lazy_of(pname)
                            kw_l[pname], kw_e[pname] = m[0], m[1]
                            ctx.count("cont api:pf-call arg:lazy-intermediate")
                        else:
                            kw_l[pname] = kw_e[pname] = terms.dec(kwval(pname))
                    elif pname in dflt and rng.random() < 0.3:
                        continue
                    elif rng.random() < 0.5:
                        how = _wrap(rng, None)
                        m = lazy_of(rng.choice(outs))
                        kw_l[pname], kw_e[pname] = _apply_wrap(how, m[0]), _apply_wrap(how, m[1])
                        ctx.count(f"cont api:pf-call arg:root-{how}")
                    else:
                        kw_l[pname] = kw_e[pname] = terms.dec(kwval(pname))
            finally:
                if cm is not None:
                    cm.__exit__(None, None, None)
            if not all(isinstance(m[0], _LazyFunction) for m in made):
                bad("a lazy pipeline returned a value that is not deferred")
                return
            pre = log.names()
        except Exception as e:  # noqa: BLE001
            bad(f"requesting the deferred arguments raised {exc_enum(e)}", impl={"err": exc_enum(e), "msg": str(e)[:200]})
            return
        try:
            elog.clear()
            wantf = pipegen.quiet(pe[on], **kw_e)
        except Exception as e:  # noqa: BLE001
            ctx.count(f"cont api unsupported:pf-call eager raises {exc_enum(e)}")
            return
        try:
            got = pipegen.quiet(pl[on], **kw_l)
            after = log.names()
            for m in made:
                pipegen.quiet(m[0].evaluate)
            after2 = log.names()
        except Exception as e:  # noqa: BLE001
            bad(f"a PipeFunc of a lazy pipeline called with deferred arguments raised {exc_enum(e)}", impl={"err": exc_enum(e), "msg": str(e)[:200]})
            return
        used = []
        for m in made:
            if not any(m is u for u in used):
                used.append(m)
        per_obj = sorted(n for m in used for n in m[2])
        if pre:
            bad(f"functions {pre} invoked by the lazy requests, before any evaluation")
        elif _c18().has_lazy(got) or isinstance(got, _LazyFunction):
            bad("the PipeFunc-level call returned a deferred object or a value built from one (deferred arguments are evaluated and the function is called at once)")
        elif terms.enc(got) != terms.enc(wantf):
            bad("the PipeFunc-level call with deferred arguments differs from the eager function on the evaluated arguments",
                impl={"value": terms.enc(got)}, model={"value": terms.enc(wantf)})
        elif not (1 <= after.count(f["name"]) <= 1 + per_obj.count(f["name"])) or (not in_block and after.count(f["name"]) != 1 + per_obj.count(f["name"])):
            bad(f"the function was invoked {after.count(f['name'])} times by one PipeFunc-level call (its deferred arguments need it "
                f"{per_obj.count(f['name'])} times): {after}")
        elif after2 != after:
            bad(f"evaluating the arguments afterwards invoked {after2[len(after):]} again")
        else:
            rest = sorted(after)
            rest.remove(f["name"])
            if not in_block and rest != per_obj:
                bad(f"the deferred arguments' producers were invoked {rest}; once per deferred object is {per_obj}")
            elif in_block and (set(rest) != set(per_obj) or any(rest.count(n) > per_obj.count(n) for n in set(rest))):
                bad(f"the deferred arguments' producers were invoked {rest}; needed are {sorted(set(per_obj))}, each at most once per object")
        return
    if sub == "chain":
        rng2 = random.Random(f"cont-api2:{case['seed']}")
        try:
            desc2 = {"funcs": case["funcs2"]}
            pe2, elog2 = pipegen.build(desc2)
            o2 = rng.choice(pipegen.all_outputs(desc2))
            ra2 = list(pe2.root_args(o2))
        except Exception as e:  # noqa: BLE001
            ctx.skip(f"cont api: eager reference: {exc_enum(e)}")
            return
        del rng2
        try:
            pl2, log2 = pipegen.build(desc2, lazy=True)
            kw_l, kw_e, used = {}, {}, []
            for k in ra2:
                if rng.random() < 0.7:
                    q = rng.choice(outs)
                    if used and rng.random() < 0.25:
                        m = rng.choice(used)
                    else:
                        ev, calls = eager_of(q)
                        m = (pipegen.quiet(pl, q, **roots(pe, q)), ev, calls)
                        used.append(m)
                    how = _wrap(rng, None)
                    ctx.count(f"cont api:chain arg:{how}")
                    kw_l[k], kw_e[k] = _apply_wrap(how, m[0]), _apply_wrap(how, m[1])
                else:
                    kw_l[k] = kw_e[k] = terms.dec(kwval(k))
            try:
                elog2.clear()
                want2 = pipegen.quiet(pe2, o2, **kw_e)
                want2_calls = elog2.names()
            except Exception as e:  # noqa: BLE001
                ctx.count(f"cont api unsupported:chain eager raises {exc_enum(e)}")
                return
            r = pipegen.quiet(pl2, o2, **kw_l)
            pre = log.names() + log2.names()
            if not isinstance(r, _LazyFunction):
                bad("the second lazy pipeline returned a value that is not deferred")
                return
            got = pipegen.quiet(r.evaluate)
            a1, a2 = log.names(), log2.names()
            got2 = pipegen.quiet(r.evaluate)
            for m in used:
                if terms.enc(pipegen.quiet(m[0].evaluate)) != terms.enc(m[1]):
                    bad("a deferred object used as an input evaluates to another value than the eager pipeline returns")
                    return
            b1, b2 = log.names(), log2.names()
        except Exception as e:  # noqa: BLE001
            bad(f"deferred objects as root arguments of a second lazy pipeline raised {exc_enum(e)}", impl={"err": exc_enum(e), "msg": str(e)[:200]})
            return
        per_obj = sorted(n for m in used for n in m[2])
        if pre:
            bad(f"functions {pre} invoked before evaluate()")
        elif terms.enc(got) != terms.enc(want2) or terms.enc(got2) != terms.enc(want2):
            bad("evaluate() with deferred inputs differs from the eager pipeline on the eager inputs", impl={"value": terms.enc(got)}, model={"value": terms.enc(want2)})
        elif sorted(a2) != sorted(want2_calls):
            bad(f"the second pipeline invoked {sorted(a2)}, eager {sorted(want2_calls)}")
        elif sorted(a1) != per_obj:
            bad(f"the first pipeline's functions were invoked {sorted(a1)}; once per deferred object is {per_obj}")
        elif (b1, b2) != (a1, a2):
            bad(f"later evaluations invoked {b1[len(a1):] + b2[len(a2):]} again")
        return
    if sub == "nested":
        from pipefunc import NestedPipeFunc
        names = [g["name"] for g in desc["funcs"]]
        if len(names) < 2:
            ctx.count("cont api:nested skipped (one function)")
            return
        i = rng.randrange(len(names) - 1)
        pick = {names[i], names[i + 1]}

        def mk(lazy):
            pp, lg = pipegen.build(desc)
            fs = [g.copy() for g in pp.functions]
            inner = [g for g in fs if g.__name__ in pick]
            rest = [g for g in fs if g.__name__ not in pick]
            return pipegen.quiet(Pipeline, [NestedPipeFunc(inner)] + rest, lazy=lazy), lg
        try:
            pn, lg = mk(False)
            on = rng.choice([x for x in pn.all_output_names])
            kw = {k: terms.dec(kwval(k)) for k in pn.root_args(on)}
            wantn = pipegen.quiet(pn, on, **kw)
            calls = lg.names()
        except Exception as e:  # noqa: BLE001
            ctx.count(f"cont api unsupported:nested eager {exc_enum(e)}")
            return
        try:
            pln, lgl = mk(True)
            r = pipegen.quiet(pln, on, **kw)
            pre = lgl.names()
            if not isinstance(r, _LazyFunction):
                bad("a lazy pipeline with a NestedPipeFunc returned a value that is not deferred")
                return
            got = pipegen.quiet(r.evaluate)
            pipegen.quiet(r.evaluate)
            after = lgl.names()
        except Exception as e:  # noqa: BLE001
            bad(f"a lazy pipeline with a NestedPipeFunc raised {exc_enum(e)} where the eager one returns", impl={"err": exc_enum(e), "msg": str(e)[:200]})
            return
        if pre:
            bad(f"functions {pre} invoked before evaluate()")
        elif terms.enc(got) != terms.enc(wantn):
            bad("evaluate() differs from the eager result", impl={"value": terms.enc(got)}, model={"value": terms.enc(wantn)})
        elif sorted(after) != sorted(calls):
            bad(f"two evaluate() calls invoked {sorted(after)}, the eager call {sorted(calls)}")
        return
    raise AssertionError(sub)


def check_api(ctx, rng, n):
    for i in range(n):
        try:
            desc = pipegen.gen_dag(rng, max_funcs=rng.choice([1, 2, 3, 4, 5]))
            case = {"stream": "cont", "kind": "api", "sub": API_SUBS[i % len(API_SUBS)], "funcs": desc["funcs"], "seed": rng.randrange(1 << 30)}
            if case["sub"] == "chain":
                d2 = pipegen.gen_dag(rng, max_funcs=rng.choice([1, 2, 3]))
                case["funcs2"] = [dict(f, name="g" + f["name"]) for f in d2["funcs"]]
        except Exception as e:  # noqa: BLE001
            ctx.skip(f"cont api generator: {exc_enum(e)}")
            continue
        try:
            api_one(ctx, case)
        except Exception as e:  # noqa: BLE001   the harness's own trouble must not stop the run
            ctx.skip(f"cont api harness: {exc_enum(e)}")


# ------------------------------------------------------------------------------------------------ entry points
def check(ctx, rng, n):
    cases = [copy.deepcopy(c) for c in CORPUS]
    for _ in range(n):
        try:
            cases.append(gen_case(ctx, rng))
        except Exception as e:  # noqa: BLE001
            ctx.skip(f"cont generator: {exc_enum(e)}")
    check_sessions(ctx, cases)
    check_api(ctx, rng, n)


def replay_one(ctx, case):
    if case.get("kind") == "api":
        api_one(ctx, case)
        for v in ctx.violations:
            print("violation:", v["what"], "| implementation:", v["impl"], "| expected:", v["model"])
        if not ctx.violations:
            print("the case passes:", case)
        return
    impl = run_csession({"funcs": case["funcs"]}, case["ops"])
    print("implementation:", impl)
    for w in judge_cont(case, impl):
        print("violation:", w)
    r = ctx.lean([model_request(case, impl)])[0]["r"]
    print("model:", _c18().model_session(r))
