import PfModel.Lemmas.MapRun
/-!
`Conforms`: the decidable description of a *valid map request*, and the first half of the proof that `runMap` never refuses one:
input validation, acyclicity and `map_shapes` succeed and return the declared shape table `declTbl`.
The run phase is in `Lemmas/MapTotalRun.lean`; the theorems are in `Props/C01Total.lean`.
-/
namespace PF.C01
open PF PF.Map

/-! ### the declared shape table -/

/-- shape and mask of every MapSpec array, in the order `map_shapes` records them -/
abbrev Tbl := List (String × (List Nat × List Bool))
def shapesOf (t : Tbl) : List (String × List Nat) := t.map fun e => (e.1, e.2.1)
def masksOf (t : Tbl) : List (String × List Bool) := t.map fun e => (e.1, e.2.2)

/-- a root argument named in some MapSpec contributes the shape of the array given for it (all axes external) -/
def rootStep (fs : List MFunc) (inputs : List (String × Val)) (t : Tbl) (p : String) : Tbl :=
  if (mapspecNames fs).contains p then
    match (alookup (inputs ++ pdefaults fs) p).bind shapeOf with
    | some sh => t ++ [(p, (sh, sh.map fun _ => true))]
    | none => t
  else t

def rootTbl (fs : List MFunc) (inputs : List (String × Val)) : Tbl := (rootArgs fs).foldl (rootStep fs inputs) []

/-- the sizes the inputs of `ms` give to the index `ix` (one entry per input that carries `ix`) -/
def outDims (ms : MSpec) (shapes : List (String × List Nat)) (ix : String) : List Nat :=
  ms.inputs.filterMap fun a =>
    match idxOf a.axes ix with
    | none => none
    | some ax => some (((alookup shapes a.name).getD []).getD ax 0)

/-- the internal shape `MapSpec.shape` consults for `ms`: the one declared for its first output -/
def ishOf (ms : MSpec) (internal : List (String × List Nat)) : Option (List Nat) :=
  alookup (internal.filter fun kv => ms.outputs.any (·.name = kv.1)) (ms.outputs.headD default).name

/-- declared shape and mask of the outputs of `ms`: an axis some input names is external and takes that input's size,
    every other axis is internal and takes the next internal size -/
def goTot (ms : MSpec) (shapes : List (String × List Nat)) (ish : List Nat) : List String → Nat → List Nat × List Bool
  | [], _ => ([], [])
  | ix :: rest, k =>
    match outDims ms shapes ix with
    | d :: _ => (d :: (goTot ms shapes ish rest k).1, true :: (goTot ms shapes ish rest k).2)
    | [] => (ish.getD k 0 :: (goTot ms shapes ish rest (k + 1)).1, false :: (goTot ms shapes ish rest (k + 1)).2)

/-- the inputs carrying an index agree on its size; an index no input carries has an internal size -/
def goOK (ms : MSpec) (shapes : List (String × List Nat)) (ish : Option (List Nat)) : List String → Nat → Bool
  | [], _ => true
  | ix :: rest, k =>
    match outDims ms shapes ix with
    | d :: ds => ds.all (· = d) && goOK ms shapes ish rest k
    | [] => (match ish with | some l => decide (k < l.length) | none => false) && goOK ms shapes ish rest (k + 1)

def funcShape (ms : MSpec) (t : Tbl) (internal : List (String × List Nat)) : List Nat × List Bool :=
  goTot ms (shapesOf t) ((ishOf ms internal).getD []) ms.outputIndices 0

/-- every output of a function with a MapSpec is recorded with the shape of the MapSpec -/
def stepTbl (internal : List (String × List Nat)) (t : Tbl) (f : MFunc) : Tbl :=
  match f.mapspec with
  | none => t
  | some ms => t ++ f.outputs.map fun o => (o, funcShape ms t internal)

/-- what `MapSpec.shape` demands of one function, given the table of everything recorded before it:
    every MapSpec input has a recorded shape of the rank its ArraySpec names; zipped sizes agree; internal sizes exist -/
def stepOK (internal : List (String × List Nat)) (t : Tbl) (f : MFunc) : Bool :=
  match f.mapspec with
  | none => true
  | some ms =>
    (ms.inputs.all fun a =>
      match alookup (shapesOf t) a.name with
      | some sh => sh.length == a.axes.length
      | none => false)
    && goOK ms (shapesOf t) (ishOf ms internal) ms.outputIndices 0

def shapesOK (internal : List (String × List Nat)) : List MFunc → Tbl → Bool
  | [], _ => true
  | f :: rest, t => stepOK internal t f && shapesOK internal rest (stepTbl internal t f)

def tblFrom (internal : List (String × List Nat)) (l : List MFunc) (t : Tbl) : Tbl := l.foldl (stepTbl internal) t

/-- **The declared shape table** of a request: root arrays first, then the functions in execution order. -/
def declTbl (fs : List MFunc) (inputs : List (String × Val)) (ui : List (String × List Nat)) : Tbl :=
  tblFrom (constructInternal fs ui) (generations fs).flatten (rootTbl fs inputs)

/-! ### the clauses of `Conforms` -/

/-- every root argument has an input or a default -/
def inputsComplete (fs : List MFunc) (inputs : List (String × Val)) : Bool :=
  (rootArgs fs).all fun r => (akeys inputs ++ akeys (pdefaults fs)).contains r

/-- there is no surplus input (nor a default for something that is not a root argument) -/
def noSurplus (fs : List MFunc) (inputs : List (String × Val)) : Bool :=
  (akeys inputs ++ akeys (pdefaults fs)).all fun r => (rootArgs fs).contains r

/-- acyclic: the Kahn layering consumes every function -/
def acyclic (fs : List MFunc) : Bool := (generations fs).flatten.length == fs.length

def nodupB : List String → Bool
  | [] => true
  | a :: l => !l.contains a && nodupB l

/-- every root argument that a MapSpec names is given as an array -/
def rootArrays (fs : List MFunc) (inputs : List (String × Val)) : Bool :=
  (rootArgs fs).all fun p =>
    !(mapspecNames fs).contains p || ((alookup (inputs ++ pdefaults fs) p).bind shapeOf).isSome

/-- `v` is an array of shape `sh` holding exactly `prod sh` elements -/
def arrHasShape (v : Val) (sh : List Nat) : Bool :=
  match v with
  | .arr s es => s == sh && es.length == prod sh
  | _ => false

/-- every given value whose name is in the shape table is a well-formed array of the recorded shape -/
def valuesTyped (Γ : Tbl) (kvs : List (String × Val)) : Bool :=
  kvs.all fun kv =>
    match alookup Γ kv.1 with
    | some e => arrHasShape kv.2 e.1
    | none => true

/-- the named axes of one MapSpec input against the shape `shp` of the array: same rank, every named axis is an external
    index of the output (no input index is missing from the output) and the array's size along it is the output's -/
def axesOK (ms : MSpec) (es : List Nat) : List (Option String) → List Nat → Bool
  | [], [] => true
  | none :: axs, _ :: shp => axesOK ms es axs shp
  | some n :: axs, d :: shp =>
    (match ms.externalIndices.findIdx? (· = n) with
     | some q => decide (q < es.length) && es.getD q 0 == d
     | none => false) && axesOK ms es axs shp
  | _, _ => false

/-- a function mapped over its MapSpec inputs, against the table: the first output is recorded (with a mask of the same rank),
    all outputs are recorded with that shape, no MapSpec input is bound, and every MapSpec input is a recorded array
    matching its ArraySpec -/
def mappedTyped (Γ : Tbl) (f : MFunc) (ms : MSpec) : Bool :=
  match f.outputs.head? with
  | none => false
  | some o =>
    match alookup Γ o with
    | none => false
    | some e =>
      e.1.length == e.2.length
      && (ms.inputs.all fun a =>
            (alookup f.bound a.name).isNone &&
            match alookup Γ a.name with
            | some ea => axesOK ms (extOf e.2 e.1) a.axes ea.1
            | none => false)
      && f.outputs.all fun o' => (alookup Γ o').map (·.1) == some e.1

/-- a function called once on whole values (no MapSpec, or `... -> v[j]`): an output the table records must be returned as an
    array of exactly the recorded shape -/
def singleTyped (Γ : Tbl) (f : MFunc) : Bool :=
  f.outputs.all fun o =>
    match alookup Γ o with
    | some e => decide (f.ret = some e.1)
    | none => true

/-- the MapSpec a function is mapped over, if it is mapped -/
def runsMapped (f : MFunc) : Option MSpec :=
  match f.mapspec with
  | some ms => if ms.inputs.isEmpty then none else some ms
  | none => none

def funcTyped (Γ : Tbl) (f : MFunc) : Bool :=
  match runsMapped f with
  | some ms => mappedTyped Γ f ms
  | none => singleTyped Γ f

/-- every ArraySpec of every (given or generated) MapSpec of the pipeline -/
def allSpecs (fs : List MFunc) : List ASpec :=
  fs.flatMap fun f => match f.mapspec with
    | none => []
    | some ms => ms.inputs ++ ms.outputs

/-- two axis lists of one array agree: same rank, and the same index name wherever both name the axis (`:` aside) -/
def axesAgree (a b : List (Option String)) : Bool :=
  a.length == b.length && (a.zip b).all fun xy => xy.1.isNone || xy.2.isNone || xy.1 == xy.2

/-- `validate_consistent_axes` (`map/_mapspec.py:384-412`, called by `prepare_run` before anything runs): all ArraySpecs of one
    array name have the same rank and the same index name at the same position.  `x[i, j] -> a[i, j]` next to `x[j, i] -> b[j, i]`
    is refused by pipefunc by design (an array has ONE axis naming per pipeline) although each MapSpec alone denotes an array;
    the model of `run_map` does not mirror this check, so it is part of what makes a request *valid* here. -/
def consistentAxes (fs : List MFunc) : Bool :=
  (allSpecs fs).all fun a => (allSpecs fs).all fun b => a.name != b.name || axesAgree a.axes b.axes

/-- what pipefunc checks when `MapSpec`, `PipeFunc` and `Pipeline` objects are built and when `map` starts (not needed by `C01_never_refused`; it
    keeps `Conforms` to requests that can be written down with the real library): output names are unique; the MapSpec
    outputs are the function's outputs, every output axis is named and all outputs carry the same axes; MapSpec inputs are
    parameters; a mapped function with internal axes returns arrays of exactly its internal shape -/
def constructible (Γ : Tbl) (fs : List MFunc) : Bool :=
  nodupB (allOutputs fs) && consistentAxes fs &&
  fs.all fun f =>
    !f.outputs.isEmpty &&
    match f.mapspec with
    | none => true
    | some ms =>
      ms.outputs.map (·.name) == f.outputs
      && ms.outputs.all (fun o => o.axes.all Option.isSome && o.axes == (ms.outputs.headD default).axes)
      && ms.inputs.all (fun a => f.params.any (·.1 = a.name))
      && (ms.inputs.isEmpty ||
          match f.outputs.head?.bind (alookup Γ) with
          | some e => e.2.all id || decide (f.ret = some (intOf e.2 e.1))
          | none => true)

/-- **A valid map request** (`fs`: the functions as `map` sees them, `inputs`: the `inputs` dictionary, `userInternal`: the
    `internal_shapes` argument).  Let `Γ = declTbl fs inputs userInternal` be the declared shape table: the shape of the array
    given for every root argument a MapSpec names, then — in execution order — for every function with a MapSpec the shape its
    MapSpec denotes (an output axis some input names takes that input's size, any other axis the next declared internal size).
    One clause per way `run_map` can refuse (every `throw` of `Model/MapRun.lean`):

    1. `inputsComplete` — every root argument has an input or a default                     (`missing inputs`, `parameter not found`)
    2. `noSurplus` — no input (or default) for something that is not a root argument        (`got extra inputs`)
    3. `acyclic` — the Kahn layering `generations` consumes every function                  (`cyclic pipeline`)
    4. function names are unique                                                            (a same-named function would be skipped)
    5. `rootArrays` — every root argument named in a MapSpec is given as an array            (`KeyError`, `no array shape defined`)
    6. `shapesOK` — going through the functions in execution order, for every MapSpec: each MapSpec input already has a recorded
       shape (it is a root array or the output of a function that has a — possibly generated — MapSpec: an un-mapped producer
       consumed through a MapSpec must have a declared shape) of the rank its ArraySpec names; arrays sharing an index name agree
       on that dimension; every output axis no input carries has an internal size
       (`inputs expected by this map were not provided`, `rank mismatch`, `dimension mismatch`, `internal shape … missing/too short`)
    7. `valuesTyped` — every input/default that `Γ` records is a well-formed array (`prod shape` elements) of the recorded shape
    8. `funcTyped`, for every function.  Mapped over its MapSpec inputs (`mappedTyped`): it has an output, recorded in `Γ` with a
       mask of the same rank; all its outputs are recorded with that shape; no MapSpec input is bound; every MapSpec input is
       recorded in `Γ` with the rank of its ArraySpec, each of its named axes is an index of the output and has the output's
       size along that index                                                               (`cannot index`, `KeyError`, `function without outputs`)
       Called once (`singleTyped`: no MapSpec, or `... -> v[j]`): an output recorded in `Γ` is returned (`ret`) as arrays of
       exactly the recorded — i.e. its internal — shape                                     (`cannot index` in a consumer)
    9. `constructible` — what the constructors of pipefunc enforce, and `validate_consistent_axes` (one axis naming per array:
       `consistentAxes`, round 2); not used by the proof.

    6 and 8 overlap on purpose: 6 is what `map_shapes` checks against the table *so far*, 8 is stated against the final table,
    which is what the run consults.  The existence/rank facts in 8 ("recorded in `Γ` with a mask of the same rank") follow from
    the construction of `Γ` for well-formed pipelines; they are stated as checks to keep the proof free of name-uniqueness
    reasoning. -/
def Conforms (fs : List MFunc) (inputs : List (String × Val)) (userInternal : List (String × List Nat)) : Bool :=
  let Γ := declTbl fs inputs userInternal
  inputsComplete fs inputs && noSurplus fs inputs
  && acyclic fs && nodupB (fs.map (·.name))
  && rootArrays fs inputs
  && shapesOK (constructInternal fs userInternal) (generations fs).flatten (rootTbl fs inputs)
  && valuesTyped Γ inputs && valuesTyped Γ (pdefaults fs)
  && fs.all (funcTyped Γ)
  && constructible Γ fs

/-! ### generic helpers -/

theorem forIn_sim {α β γ : Type} (l : List α) (body : α → β → M (ForInStep β)) (step : γ → α → γ) (abs : γ → β)
    (h : ∀ a ∈ l, ∀ c, body a (abs c) = .ok (.yield (abs (step c a)))) (c : γ) :
    forIn l (abs c) body = .ok (abs (l.foldl step c)) := by
  induction l generalizing c with
  | nil => rfl
  | cons a as ih =>
    rw [List.forIn_cons, h a List.mem_cons_self c]
    simp only [bind, Except.bind, List.foldl_cons]
    exact ih (fun x hx => h x (List.mem_cons_of_mem _ hx)) _

theorem shapesOf_append (a b : Tbl) : shapesOf (a ++ b) = shapesOf a ++ shapesOf b := by simp [shapesOf]
theorem masksOf_append (a b : Tbl) : masksOf (a ++ b) = masksOf a ++ masksOf b := by simp [masksOf]

theorem alookup_shapesOf (t : Tbl) (x : String) : alookup (shapesOf t) x = (alookup t x).map (·.1) := by
  induction t with
  | nil => rfl
  | cons e es ih =>
    obtain ⟨k, v⟩ := e
    simp only [shapesOf, List.map_cons, alookup] at ih ⊢
    split <;> simp_all

theorem alookup_masksOf (t : Tbl) (x : String) : alookup (masksOf t) x = (alookup t x).map (·.2) := by
  induction t with
  | nil => rfl
  | cons e es ih =>
    obtain ⟨k, v⟩ := e
    simp only [masksOf, List.map_cons, alookup] at ih ⊢
    split <;> simp_all

/-! ### phase A: `_validate_complete_inputs` -/

theorem validate_ok (fs : List MFunc) (inputs : List (String × Val))
    (h1 : inputsComplete fs inputs = true) (h2 : noSurplus fs inputs = true) : validateInputs fs inputs = .ok () := by
  unfold validateInputs
  have e1 : (rootArgs fs).filter (fun r => !((akeys inputs ++ akeys (pdefaults fs)).contains r)) = [] := by
    rw [List.filter_eq_nil_iff]
    intro a ha
    have := List.all_eq_true.mp h1 a ha
    rw [this]; simp
  have e2 : (akeys inputs ++ akeys (pdefaults fs)).filter (fun r => !((rootArgs fs).contains r)) = [] := by
    rw [List.filter_eq_nil_iff]
    intro a ha
    have := List.all_eq_true.mp h2 a ha
    rw [this]; simp
  simp only [e1, e2, pure, Except.pure]

/-! ### phase C: `map_shapes` -/

/-- a lookup in the table restricted to the inputs of a MapSpec sees what the whole table holds -/
theorem alookup_inShapes (shapes : List (String × List Nat)) (l : List ASpec) (a : ASpec) (ha : a ∈ l) :
    alookup (l.filterMap fun a => (alookup shapes a.name).map fun sh => (a.name, sh)) a.name = alookup shapes a.name := by
  induction l with
  | nil => cases ha
  | cons b bs ih =>
    simp only [List.filterMap_cons]
    cases hb : alookup shapes b.name with
    | none =>
      simp only [Option.map_none]
      rcases List.mem_cons.mp ha with e | e
      · subst e
        rw [hb]
        rw [alookup_none_iff]
        intro hm
        simp only [akeys, List.mem_map, List.mem_filterMap] at hm
        obtain ⟨⟨k, v⟩, ⟨c, _, hc⟩, hk⟩ := hm
        cases hcc : alookup shapes c.name with
        | none => simp [hcc] at hc
        | some sh =>
          simp only [hcc, Option.map_some, Option.some.injEq, Prod.mk.injEq] at hc
          simp only at hk
          rw [← hk, ← hc.1, hcc] at hb
          cases hb
      · exact ih e
    | some sh =>
      simp only [Option.map_some, alookup]
      split
      · next e => rw [← e, hb]
      · next ne =>
        rcases List.mem_cons.mp ha with e | e
        · subst e; exact absurd rfl ne
        · exact ih e

theorem filterMapM_ok {α β : Type} (g : α → M (Option β)) (g' : α → Option β) (l : List α) (h : ∀ a ∈ l, g a = .ok (g' a)) :
    l.filterMapM g = .ok (l.filterMap g') := by
  induction l with
  | nil => simp [List.filterMapM_nil, pure, Except.pure]
  | cons a as ih =>
    rw [List.filterMapM_cons, h a List.mem_cons_self, List.filterMap_cons]
    have := ih (fun x hx => h x (List.mem_cons_of_mem _ hx))
    cases hg : g' a with
    | none => simp only [bind, Except.bind]; exact this
    | some b => simp only [bind, Except.bind, this, pure, Except.pure]

/-- `commonDim` on a table that records every MapSpec input -/
theorem commonDim_eq (ms : MSpec) (ix : String) (S T : List (String × List Nat))
    (hS : ∀ a ∈ ms.inputs, alookup S a.name = alookup T a.name)
    (hall : ∀ a ∈ ms.inputs, (alookup T a.name).isSome = true) :
    commonDim ms ix S =
      match outDims ms T ix with
      | [] => .ok none
      | d :: rest => if rest.all (· = d) then .ok (some d) else .error (.value s!"dimension mismatch along {ix}") := by
  unfold commonDim outDims
  rw [filterMapM_ok _ (fun a => match idxOf a.axes ix with
      | none => none
      | some ax => some (((alookup T a.name).getD []).getD ax 0))]
  · simp only [bind, Except.bind]
    generalize List.filterMap _ ms.inputs = dims
    cases dims with
    | nil => rfl
    | cons d r => simp only []; split <;> rfl
  · intro a ha
    cases idxOf a.axes ix with
    | none => rfl
    | some ax =>
      simp only
      rw [hS a ha]
      have := hall a ha
      cases hl : alookup T a.name with
      | none => simp [hl] at this
      | some sh => simp [pure, Except.pure]

theorem go_ok (ms : MSpec) (S T : List (String × List Nat)) (internal : List (String × List Nat)) (out : ASpec)
    (hS : ∀ a ∈ ms.inputs, alookup S a.name = alookup T a.name)
    (hall : ∀ a ∈ ms.inputs, (alookup T a.name).isSome = true) :
    ∀ (axes : List String) (k : Nat), goOK ms T (alookup internal out.name) axes k = true →
      mspecShape.go ms S internal out axes k = .ok (goTot ms T ((alookup internal out.name).getD []) axes k) := by
  intro axes
  induction axes with
  | nil => intro k _; rfl
  | cons ix rest ih =>
    intro k h
    rw [mspecShape.go, commonDim_eq ms ix S T hS hall]
    simp only [goOK] at h
    simp only [goTot]
    cases hd : outDims ms T ix with
    | nil =>
      simp only [hd, Bool.and_eq_true] at h
      obtain ⟨h1, h2⟩ := h
      simp only [bind, Except.bind]
      cases hi : alookup internal out.name with
      | none => simp [hi] at h1
      | some ish =>
        simp only [hi, decide_eq_true_eq] at h1
        have hk : ish[k]? = some ish[k] := List.getElem?_eq_getElem h1
        rw [hi] at h2 ih
        simp only [hk, ih (k + 1) h2, pure, Except.pure, Option.getD_some]
        simp [List.getD, hk]
    | cons d ds =>
      simp only [hd, Bool.and_eq_true] at h
      obtain ⟨h1, h2⟩ := h
      simp only [h1, ↓reduceIte, bind, Except.bind, ih k h2, pure, Except.pure]

theorem mspecShape_ok (ms : MSpec) (S T : List (String × List Nat)) (internal : List (String × List Nat))
    (hS : ∀ a ∈ ms.inputs, alookup S a.name = alookup T a.name)
    (hin : (ms.inputs.all fun a => match alookup T a.name with
        | some sh => sh.length == a.axes.length
        | none => false) = true)
    (hgo : goOK ms T (alookup internal (ms.outputs.headD default).name) ms.outputIndices 0 = true) :
    mspecShape ms S internal =
      .ok (goTot ms T ((alookup internal (ms.outputs.headD default).name).getD []) ms.outputIndices 0) := by
  have hall : ∀ a ∈ ms.inputs, (alookup T a.name).isSome = true := by
    intro a ha
    have := List.all_eq_true.mp hin a ha
    cases hl : alookup T a.name with
    | none => simp [hl] at this
    | some sh => rfl
  unfold mspecShape
  have hloop : ∀ body : ASpec → PUnit → M (ForInStep PUnit), (∀ a ∈ ms.inputs, body a PUnit.unit = .ok (.yield PUnit.unit)) →
      forIn ms.inputs PUnit.unit body = .ok PUnit.unit := by
    intro body hb
    exact forIn_sim ms.inputs body (fun (c : PUnit) _ => c) id (fun a ha c => hb a ha) PUnit.unit
  rw [hloop]
  · simp only [bind, Except.bind]
    exact go_ok ms S T internal _ hS hall _ 0 hgo
  · intro a ha
    rw [hS a ha]
    have := List.all_eq_true.mp hin a ha
    cases hl : alookup T a.name with
    | none => simp [hl] at this
    | some sh =>
      simp only [hl, beq_iff_eq] at this
      simp [this, pure, Except.pure]

theorem foldl_snoc {α β : Type} (g : α → β) (l : List α) (c : List β) :
    l.foldl (fun c o => c ++ [g o]) c = c ++ l.map g := by
  induction l generalizing c with
  | nil => simp
  | cons a as ih => simp [ih]

/-- the loop of `map_shapes` over the functions, for any body that behaves like the real one -/
theorem loop2_ok (internal : List (String × List Nat))
    (body : MFunc → (List (String × List Nat) × List (String × List Bool)) → M (ForInStep (List (String × List Nat) × List (String × List Bool))))
    (hb : ∀ f (c : Tbl), stepOK internal c f = true →
      body f (shapesOf c, masksOf c) = .ok (.yield (shapesOf (stepTbl internal c f), masksOf (stepTbl internal c f)))) :
    ∀ (l : List MFunc) (c : Tbl), shapesOK internal l c = true →
      forIn l (shapesOf c, masksOf c) body = .ok (shapesOf (tblFrom internal l c), masksOf (tblFrom internal l c)) := by
  intro l
  induction l with
  | nil => intro c _; rfl
  | cons f rest ih =>
    intro c h
    simp only [shapesOK, Bool.and_eq_true] at h
    rw [List.forIn_cons, hb f c h.1]
    simp only [bind, Except.bind]
    exact ih _ h.2

theorem mapShapes_ok (fs : List MFunc) (inputs : List (String × Val)) (internal : List (String × List Nat))
    (hr : rootArrays fs inputs = true)
    (hs : shapesOK internal (generations fs).flatten (rootTbl fs inputs) = true) :
    mapShapes fs inputs internal =
      .ok (shapesOf (tblFrom internal (generations fs).flatten (rootTbl fs inputs)),
           masksOf (tblFrom internal (generations fs).flatten (rootTbl fs inputs))) := by
  unfold mapShapes
  have hloop1 : ∀ body : String → (List (String × List Nat) × List (String × List Bool)) → M (ForInStep _),
      (∀ p ∈ rootArgs fs, ∀ c : Tbl, body p (shapesOf c, masksOf c) =
        .ok (.yield (shapesOf (rootStep fs inputs c p), masksOf (rootStep fs inputs c p)))) →
      forIn (rootArgs fs) (([] : List (String × List Nat)), ([] : List (String × List Bool))) body =
        .ok (shapesOf (rootTbl fs inputs), masksOf (rootTbl fs inputs)) := by
    intro body hb
    exact forIn_sim (rootArgs fs) body (rootStep fs inputs) (fun c : Tbl => (shapesOf c, masksOf c)) hb []
  simp only []
  rw [hloop1]
  · simp only [bind, Except.bind]
    rw [loop2_ok internal _ ?_ _ _ hs]
    · rfl
    · intro f c hok
      unfold stepOK at hok
      unfold stepTbl
      cases hm : f.mapspec with
      | none => rfl
      | some ms =>
        simp only [hm, Bool.and_eq_true] at hok
        simp only []
        rw [mspecShape_ok ms _ (shapesOf c) _ (fun a ha => alookup_inShapes (shapesOf c) ms.inputs a ha) hok.1 hok.2]
        simp only []
        have hin : ∀ (e : List Nat × List Bool)
            (body : String → (List (String × List Nat) × List (String × List Bool)) → M (ForInStep _)),
            (∀ o ∈ f.outputs, ∀ t : Tbl, body o (shapesOf t, masksOf t) =
              .ok (.yield (shapesOf (t ++ [(o, e)]), masksOf (t ++ [(o, e)])))) →
            forIn f.outputs (shapesOf c, masksOf c) body =
              .ok (shapesOf (c ++ f.outputs.map fun o => (o, e)), masksOf (c ++ f.outputs.map fun o => (o, e))) := by
          intro e body hb
          have := forIn_sim f.outputs body (fun (t : Tbl) o => t ++ [(o, e)]) (fun t : Tbl => (shapesOf t, masksOf t)) hb c
          rw [foldl_snoc (fun o => (o, e))] at this
          exact this
        rw [hin (funcShape ms c internal)]
        · rfl
        · intro o _ t
          simp [shapesOf, masksOf, pure, Except.pure, funcShape, ishOf]
  · intro p hp c
    have := List.all_eq_true.mp hr p hp
    unfold rootStep
    by_cases hc : (mapspecNames fs).contains p = true
    · simp only [hc, Bool.not_true, Bool.false_or] at this
      simp only [hc, ↓reduceIte]
      cases hl : alookup (inputs ++ pdefaults fs) p with
      | none => simp [hl] at this
      | some v =>
        cases hv : shapeOf v with
        | none => simp [hl, hv] at this
        | some sh => simp [hv, shapesOf, masksOf, pure, Except.pure]
    · simp only [hc]
      rfl

end PF.C01
