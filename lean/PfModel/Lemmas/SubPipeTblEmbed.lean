import PfModel.Lemmas.SubPipeConforms
import PfModel.Lemmas.SubPipeAcyclic
import PfModel.Lemmas.MapPiecesFlowTbl
/-! The declared table of a sub-pipeline: internal shapes, execution order, root entries. -/
namespace PF.C01
open PF PF.Map

theorem emb_alookup_filter_key {β} (p : String → Bool) (l : List (String × β)) (k : String) :
    alookup (l.filter fun kv => p kv.1) k = if p k = true then alookup l k else none := by
  induction l with
  | nil => simp [alookup]
  | cons e l ih =>
    obtain ⟨a, v⟩ := e
    by_cases hpa : p a = true
    · rw [List.filter_cons_of_pos (by simpa using hpa)]
      simp only [alookup]
      by_cases hak : a = k
      · subst hak; simp [hpa]
      · simp only [hak, if_false]; exact ih
    · rw [List.filter_cons_of_neg (by simpa using hpa), ih]
      simp only [alookup]
      by_cases hak : a = k
      · subst hak; simp [hpa]
      · simp only [hak, if_false]

theorem emb_alookup_none_of_keys {β} (l : List (String × β)) (k : String) (h : ∀ kv ∈ l, kv.1 ≠ k) : alookup l k = none := by
  induction l with
  | nil => rfl
  | cons e l ih =>
    obtain ⟨a, v⟩ := e
    simp only [alookup]
    have := h (a, v) (List.mem_cons_self)
    simp only [ne_eq] at this
    simp only [this, if_false]
    exact ih fun kv hkv => h kv (List.mem_cons_of_mem _ hkv)

theorem emb_alookup_append_congr {β} (l1 l2 l3 : List (String × β)) (k : String) (h : alookup l2 k = alookup l3 k) :
    alookup (l1 ++ l2) k = alookup (l1 ++ l3) k := by
  rw [alookup_append, alookup_append, h]

theorem emb_flatMap_lookup_none {β} (F : MFunc → List (String × β)) (o : String)
    (hF : ∀ g : MFunc, o ∉ g.outputs → alookup (F g) o = none) :
    ∀ l : List MFunc, (∀ g ∈ l, o ∉ g.outputs) → alookup (l.flatMap F) o = none := by
  intro l
  induction l with
  | nil => intro _; rfl
  | cons a l ih =>
    intro h
    rw [List.flatMap_cons, alookup_append, hF a (h a List.mem_cons_self)]
    exact ih fun g hg => h g (List.mem_cons_of_mem _ hg)

theorem emb_flatMap_lookup_sublist {β} (F : MFunc → List (String × β)) (o : String)
    (hF : ∀ g : MFunc, o ∉ g.outputs → alookup (F g) o = none) (fs sub : List MFunc) (hs : sub.Sublist fs) :
    (allOutputs fs).Nodup → ∀ f ∈ sub, o ∈ f.outputs → alookup (sub.flatMap F) o = alookup (fs.flatMap F) o := by
  induction hs with
  | slnil => intro _ f hf; cases hf
  | @cons l₁ l₂ a hs ih =>
    intro ho f hf hof
    simp only [allOutputs, List.flatMap_cons] at ho
    have hd := List.nodup_append.mp ho
    have hoa : o ∉ a.outputs := by
      intro hoa
      exact hd.2.2 o hoa o (List.mem_flatMap.mpr ⟨f, hs.subset hf, hof⟩) rfl
    rw [List.flatMap_cons, alookup_append, hF a hoa]
    exact ih hd.2.1 f hf hof
  | @cons_cons l₁ l₂ a hs ih =>
    intro ho f hf hof
    simp only [allOutputs, List.flatMap_cons] at ho
    have hd := List.nodup_append.mp ho
    rw [List.flatMap_cons, List.flatMap_cons]
    apply emb_alookup_append_congr
    by_cases hoa : o ∈ a.outputs
    · have hn : ∀ g ∈ l₂, o ∉ g.outputs := by
        intro g hg hog
        exact hd.2.2 o hoa o (List.mem_flatMap.mpr ⟨g, hg, hog⟩) rfl
      rw [emb_flatMap_lookup_none F o hF l₂ hn, emb_flatMap_lookup_none F o hF l₁ fun g hg => hn g (hs.subset hg)]
    · rcases List.mem_cons.mp hf with hfa | hf'
      · subst hfa; exact absurd hof hoa
      · exact ih hd.2.1 f hf' hof

theorem emb_constructInternal_sublist (fs sub : List MFunc) (ui : List (String × List Nat)) (hs : sub.Sublist fs)
    (ho : nodupB (allOutputs fs) = true) (f : MFunc) (hf : f ∈ sub) (o : String) (hof : o ∈ f.outputs) :
    alookup (constructInternal sub ui) o = alookup (constructInternal fs ui) o := by
  unfold constructInternal
  apply emb_alookup_append_congr
  apply emb_flatMap_lookup_sublist _ o ?_ fs sub hs (nodupB_nodup _ ho) f hf hof
  intro g hg
  split
  · rfl
  · apply emb_alookup_none_of_keys
    intro kv hkv
    simp only [List.mem_filterMap] at hkv
    obtain ⟨x, hx, hxe⟩ := hkv
    split at hxe
    · cases hxe
    · cases hxe
      intro h
      exact hg (h ▸ hx)

/-- (1) the internal shape a MapSpec consults is the same in a sub-list -/
theorem ishOf_sublist (fs sub : List MFunc) (ui : List (String × List Nat)) (hs : sub.Sublist fs)
    (ho : nodupB (allOutputs fs) = true) (f : MFunc) (hf : f ∈ sub) (ms : MSpec) (hms : ms.outputs.map (·.name) = f.outputs) :
    ishOf ms (constructInternal sub ui) = ishOf ms (constructInternal fs ui) := by
  have e1 := emb_alookup_filter_key (fun k => ms.outputs.any (fun a => decide (a.name = k))) (constructInternal sub ui)
    (ms.outputs.headD default).name
  have e2 := emb_alookup_filter_key (fun k => ms.outputs.any (fun a => decide (a.name = k))) (constructInternal fs ui)
    (ms.outputs.headD default).name
  unfold ishOf
  refine Eq.trans e1 (Eq.trans ?_ e2.symm)
  cases hmo : ms.outputs with
  | nil => simp
  | cons a rest =>
    have hkey : alookup (constructInternal sub ui) ((a :: rest).headD default).name
        = alookup (constructInternal fs ui) ((a :: rest).headD default).name := by
      apply emb_constructInternal_sublist fs sub ui hs ho f hf
      rw [← hms, hmo]
      simp
    rw [hkey]

/-- generalised (2) -/
theorem emb_ordered_split (fs : List MFunc) (f : MFunc) : ∀ (gens : List (List MFunc)) (done : List String) (pre post : List MFunc),
    Ordered fs done gens → gens.flatten = pre ++ f :: post →
    ∀ n ∈ upstream fs f, n ∈ done ∨ ∃ g ∈ pre, g.name = n := by
  intro gens
  induction gens with
  | nil =>
    intro done pre post _ h
    simp at h
  | cons g gs ih =>
    intro done pre post hord h n hn
    simp only [Ordered] at hord
    obtain ⟨hr, hord'⟩ := hord
    rw [List.flatten_cons] at h
    have conv : ∀ pre' : List MFunc, (∀ x ∈ pre', x ∈ pre) → (∀ x ∈ g, x ∈ pre) →
        (n ∈ done ++ g.map (·.name) ∨ ∃ x ∈ pre', x.name = n) → n ∈ done ∨ ∃ x ∈ pre, x.name = n := by
      intro pre' h1 h2 hh
      rcases hh with hh | ⟨x, hx, hxn⟩
      · rcases List.mem_append.mp hh with hh | hh
        · exact Or.inl hh
        · obtain ⟨x, hx, hxn⟩ := List.mem_map.mp hh
          exact Or.inr ⟨x, h2 x hx, hxn⟩
      · exact Or.inr ⟨x, h1 x hx, hxn⟩
    rcases List.append_eq_append_iff.mp h with ⟨a', hpre, hrest⟩ | ⟨c', hg, hrest⟩
    · apply conv a' (fun x hx => by rw [hpre]; exact List.mem_append_right _ hx)
        (fun x hx => by rw [hpre]; exact List.mem_append_left _ hx)
      exact ih _ a' post hord' hrest n hn
    · cases c' with
      | nil =>
        simp only [List.append_nil] at hg
        simp only [List.nil_append] at hrest
        apply conv [] (fun x hx => by cases hx) (fun x hx => by rw [← hg]; exact hx)
        exact ih _ [] post hord' (by rw [← hrest]; rfl) n hn
      | cons x c'' =>
        simp only [List.cons_append, List.cons.injEq] at hrest
        have hfg : f ∈ g := by
          rw [hg, hrest.1]
          exact List.mem_append_right _ List.mem_cons_self
        obtain ⟨p, o, hp, hb, h', hpr, hname⟩ := (mem_upstream fs f n).mp hn
        have hbn : alookup f.bound p = none := by
          cases hbb : alookup f.bound p with
          | none => rfl
          | some v => rw [hbb] at hb; cases hb
        left
        rw [← hname]
        exact hr f hfg p o h' hp hbn hpr

/-- (2) in the execution order, the producers (within the pipeline) of a function's non-bound parameters come earlier -/
theorem order_split (fs : List MFunc) (pre post : List MFunc) (f : MFunc) (h : (generations fs).flatten = pre ++ f :: post) :
    ∀ n ∈ upstream fs f, ∃ g ∈ pre, g.name = n := by
  intro n hn
  rcases emb_ordered_split fs f (generations fs) [] pre post (layers_ordered fs _ [] fs) h n hn with h0 | h1
  · cases h0
  · exact h1

theorem emb_tblFrom_other (internal : List (String × List Nat)) : ∀ (l : List MFunc) (t : Tbl) (k : String),
    (∀ f ∈ l, k ∉ f.outputs) → alookup (tblFrom internal l t) k = alookup t k := by
  intro l
  induction l with
  | nil => intro t k _; rfl
  | cons f l ih =>
    intro t k hl
    simp only [tblFrom, List.foldl_cons]
    have := ih (stepTbl internal t f) k fun g hg => hl g (List.mem_cons_of_mem _ hg)
    simp only [tblFrom] at this
    rw [this]
    unfold stepTbl
    split
    · rfl
    · next ms _ =>
      have hm : alookup (f.outputs.map fun o => (o, funcShape ms t internal)) k = none := by
        apply emb_alookup_none_of_keys
        intro kv hkv
        obtain ⟨o, ho, rfl⟩ := List.mem_map.mp hkv
        intro he
        exact hl f List.mem_cons_self (he ▸ ho)
      rw [alookup_append, hm]
      cases alookup t k <;> rfl

theorem emb_foldl_rootStep_some (fs : List MFunc) (inputs : List (String × Val)) (k : String) (e : List Nat × List Bool) :
    ∀ (l : List String) (t : Tbl), alookup (l.foldl (rootStep fs inputs) t) k = some e →
      alookup t k = some e ∨
        (k ∈ l ∧ (mapspecNames fs).contains k = true ∧ (alookup (inputs ++ pdefaults fs) k).bind shapeOf = some e.1) := by
  intro l
  induction l with
  | nil => intro t h; exact Or.inl h
  | cons q l ih =>
    intro t h
    rw [List.foldl_cons] at h
    rcases ih _ h with h1 | ⟨h1, h2, h3⟩
    · unfold rootStep at h1
      split at h1
      · next hc =>
        split at h1
        · next sh hsh =>
          rw [alookup_append] at h1
          cases ht : alookup t k with
          | some v => rw [ht] at h1; exact Or.inl h1
          | none =>
            rw [ht] at h1
            simp only [alookup] at h1
            split at h1
            · next hqk =>
              cases h1
              subst hqk
              exact Or.inr ⟨List.mem_cons_self, hc, hsh⟩
            · cases h1
        · exact Or.inl h1
      · exact Or.inl h1
    · exact Or.inr ⟨List.mem_cons_of_mem _ h1, h2, h3⟩

theorem emb_flatten_generations_mem (fs : List MFunc) (f : MFunc) (hf : f ∈ (generations fs).flatten) : f ∈ fs := by
  obtain ⟨g, hg, hfg⟩ := List.mem_flatten.mp hf
  exact Sub.layers_mem fs _ _ _ g hg f hfg

/-- (3) what the declared table records for a name that is no output -/
theorem declTbl_nonoutput (fs : List MFunc) (inputs : List (String × Val)) (ui : List (String × List Nat)) (k : String)
    (hk : k ∉ allOutputs fs) (e : List Nat × List Bool) (h : alookup (declTbl fs inputs ui) k = some e) :
    k ∈ rootArgs fs ∧ k ∈ mapspecNames fs ∧ (alookup (inputs ++ pdefaults fs) k).bind shapeOf = some e.1 := by
  unfold declTbl at h
  rw [emb_tblFrom_other] at h
  · unfold rootTbl at h
    rcases emb_foldl_rootStep_some fs inputs k e _ _ h with h0 | ⟨h1, h2, h3⟩
    · cases h0
    · exact ⟨h1, by simpa using h2, h3⟩
  · intro f hf hkf
    exact hk (List.mem_flatMap.mpr ⟨f, emb_flatten_generations_mem fs f hf, hkf⟩)

end PF.C01
