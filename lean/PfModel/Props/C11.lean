import PfModel.Lemmas.SubPipe
import PfModel.Props.C01
import PfModel.Props.C02
/-!
C11 — Selecting outputs / supplying intermediates keeps values, runs only needed work.

`PF.Sub.subpipeline` mirrors the REPAIRED `Pipeline.subpipeline/_find_nodes_between` (DF-17 fix); `Needed` is the least
set containing the producers of `S` and of every non-bound, non-provided parameter of a needed function; `PF.Pipe.compose`
and `PF.Map.specMap` are the value specifications of C02 and C01; `PF.Sub.Legacy.subpipeline` is the pinned code.
-/
namespace PF.C11
open PF PF.Sub PF.Pipe

/-- needed for `S` given the provided names `I`: reachable from the producers of `S` over edges that are not cut -/
def NeededFor {α} (nd : α → Sub.Node) (fs : List α) (I : Option (List String)) (S : List String) (j : Nat) : Prop :=
  Needed nd fs I (S.filterMap (prodIdx nd fs)) j

/-- a root argument of the kept functions that is neither provided nor defaulted by a kept function -/
def MissingRoot {α} (nd : α → Sub.Node) (sub : List α) (inp : List String) (r : String) : Prop :=
  ∃ f ∈ sub, r ∈ (nd f).deps ∧ prodIdx nd sub r = none ∧ r ∉ inp ∧ ∀ g ∈ sub, r ∉ (nd g).dflt

theorem mem_missingRoots {α} (nd : α → Sub.Node) (sub : List α) (inp : List String) (r : String) :
    r ∈ missingRoots nd sub inp ↔ MissingRoot nd sub inp r := by
  simp only [missingRoots, roots, dnames, MissingRoot, List.mem_filter, List.mem_flatMap, Bool.and_eq_true,
    Bool.not_eq_true', List.contains_eq_mem, decide_eq_false_iff_not, Option.isNone_iff_eq_none, decide_eq_true_eq]
  constructor
  · rintro ⟨⟨f, hf, hd, hn⟩, hi, hg⟩
    exact ⟨f, hf, hd, hn, hi, fun g hgs hgd => hg ⟨g, hgs, hgd, hn⟩⟩
  · rintro ⟨f, hf, hd, hn, hi, hg⟩
    exact ⟨⟨f, hf, hd, hn⟩, hi, fun ⟨g, hgs, hgd, _⟩ => hg g hgs hgd⟩

/-- **Kept = needed** (any function type; call and map pipelines alike). Whenever the repaired `subpipeline` returns a
    pipeline, it consists of exactly the needed functions — the producers of `S` and, transitively, the producers of every
    non-bound parameter of a needed function that is not provided — nullary and all-defaulted ones included, in their
    original order; and none of its root arguments is missing. -/
theorem C11_kept_eq_needed {α} (nd : α → Sub.Node) (fs : List α) (I : Option (List String)) (S : List String) (sub : List α)
    (h : subpipeline nd fs I (some S) = .ok sub) :
    (∀ f, f ∈ sub ↔ ∃ j, NeededFor nd fs I S j ∧ fs[j]? = some f) ∧
    (∀ o ∈ S, (prodIdx nd fs o).isSome) ∧
    (∀ inp, I = some inp → ∀ r, ¬ MissingRoot nd sub inp r) := by
  unfold subpipeline at h
  split at h
  · cases h
  · split at h
    · cases h
    · next out hout =>
      obtain ⟨hout1, hout2⟩ := outNodes_some nd fs I S out hout
      split at h
      · cases h
      · next K hK =>
        have hmem : ∀ f, f ∈ keepFrom K 0 fs ↔ ∃ j, NeededFor nd fs I S j ∧ fs[j]? = some f := by
          intro f
          rw [mem_keepFrom]
          simp only [Nat.zero_add, List.contains_eq_mem, decide_eq_true_eq]
          constructor
          · rintro ⟨j, hj, hf⟩
            exact ⟨j, by rw [NeededFor, Needed, ← hout1]; exact (reachSet_iff _ _ _ K hK j).mp hj, hf⟩
          · rintro ⟨j, hj, hf⟩
            rw [NeededFor, Needed, ← hout1] at hj
            exact ⟨j, (reachSet_iff _ _ _ K hK j).mpr hj, hf⟩
        unfold checkRoots at h
        split at h
        · cases h; exact ⟨hmem, hout2, fun inp hI => by cases hI⟩
        · split at h
          · next hempty =>
            cases h
            refine ⟨hmem, hout2, ?_⟩
            intro inp' hI r hr
            cases hI
            rw [List.isEmpty_iff] at hempty
            have := (mem_missingRoots nd _ _ r).mpr hr
            rw [hempty] at this
            cases this
          · cases h

/-- **Rejection names what is missing, and only then.** For requested outputs that exist: the request is accepted iff no
    root argument of the needed functions is missing (not provided, not defaulted by a needed function, not bound);
    otherwise it is rejected with an error that lists exactly the missing root arguments. -/
theorem C11_reject {α} (nd : α → Sub.Node) (fs : List α) (inp S : List String) (K : List Nat)
    (hS : outNodes nd fs (some inp) (some S) = .ok (S.filterMap (prodIdx nd fs)))
    (hK : reachSet (predsIdx nd fs (cutOf (some inp))) (S.filterMap (prodIdx nd fs))
            (fuelFor nd fs (S.filterMap (prodIdx nd fs)).length) = some K) :
    ((∀ r, ¬ MissingRoot nd (keepFrom K 0 fs) inp r) ∧ subpipeline nd fs (some inp) (some S) = .ok (keepFrom K 0 fs)) ∨
    ((∃ r, MissingRoot nd (keepFrom K 0 fs) inp r) ∧
      ∃ ms, subpipeline nd fs (some inp) (some S) = .error (.missing ms) ∧ ms ≠ [] ∧
        ∀ r, r ∈ ms ↔ MissingRoot nd (keepFrom K 0 fs) inp r) := by
  unfold subpipeline
  simp only [Option.isNone_some, Bool.false_and, Bool.false_eq_true, ↓reduceIte, hS, hK, checkRoots]
  by_cases hempty : (missingRoots nd (keepFrom K 0 fs) inp).isEmpty = true
  · left
    simp only [hempty, ↓reduceIte, and_true]
    intro r hr
    rw [List.isEmpty_iff] at hempty
    have := (mem_missingRoots nd _ inp r).mpr hr
    rw [hempty] at this
    cases this
  · right
    simp only [hempty, Bool.false_eq_true, ↓reduceIte]
    have hne : missingRoots nd (keepFrom K 0 fs) inp ≠ [] := by
      intro h; rw [h] at hempty; simp at hempty
    obtain ⟨r0, hr0⟩ := List.exists_mem_of_ne_nil _ hne
    refine ⟨⟨r0, (mem_missingRoots nd _ inp r0).mp hr0⟩, _, rfl, ?_, ?_⟩
    · intro h
      have : r0 ∈ (missingRoots nd (keepFrom K 0 fs) inp).eraseDups := List.mem_eraseDups.mpr hr0
      rw [h] at this; cases this
    · intro r
      rw [List.mem_eraseDups]
      exact mem_missingRoots nd _ inp r

/-- the hypothesis `hS` of `C11_reject` holds exactly when every requested name is an output of the pipeline -/
theorem C11_outputs_known {α} (nd : α → Sub.Node) (fs : List α) (I : Option (List String)) :
    ∀ S : List String, (∀ o ∈ S, (prodIdx nd fs o).isSome) → outNodes nd fs I (some S) = .ok (S.filterMap (prodIdx nd fs)) := by
  intro S
  simp only [outNodes]
  induction S with
  | nil => intro _; rfl
  | cons o S ih =>
    intro h
    obtain ⟨i, hi⟩ := Option.isSome_iff_exists.mp (h o (List.mem_cons_self ..))
    have := ih (fun o' ho' => h o' (List.mem_cons_of_mem _ ho'))
    simp [List.mapM_cons, hi, this, bind, Except.bind, pure, Except.pure]

/-- **Call pipelines: values and call log of the partial pipeline.** If `subpipeline(set(kw), S)` is accepted then for
    every requested output the partial pipeline computes exactly what the full pipeline computes with the provided names
    substituted (`compose`, the specification of C02, same value or same refusal at every depth); the memoised run of the
    partial pipeline returns that value; and its call log names only needed functions. -/
theorem C11_subpipeline (fs : List Func) (kw : List (String × Val)) (S : List String) (sub : List Func)
    (hc : ConsistentDefaults fs) (h : subpipeline funcNode fs (some (akeys kw)) (some S) = .ok sub) :
    (∀ f, f ∈ sub ↔ ∃ j, NeededFor funcNode fs (some (akeys kw)) S j ∧ fs[j]? = some f) ∧
    (∀ o ∈ S, ∀ k, compose sub kw k o = compose fs kw k o) ∧
    (∀ o ∈ S, ∀ n v s', alookup kw o = none → Unique sub → run sub kw n o ⟨kw, [], []⟩ = .ok (v, s') →
        (∃ k, compose fs kw k o = .ok v) ∧
        ∀ c ∈ s'.calls, ∃ j f, NeededFor funcNode fs (some (akeys kw)) S j ∧ fs[j]? = some f ∧ f.name = c) := by
  have hkept := (C11_kept_eq_needed funcNode fs (some (akeys kw)) S sub h).1
  unfold subpipeline at h
  simp only [Option.isNone_some, Bool.false_and, Bool.false_eq_true, ↓reduceIte] at h
  split at h
  · cases h
  · next out hout =>
    obtain ⟨hout1, hout2⟩ := outNodes_some funcNode fs _ S out hout
    split at h
    · cases h
    · next K hK =>
      simp only [checkRoots] at h
      split at h
      · next hempty =>
        cases h
        rw [List.isEmpty_iff] at hempty
        have hkeptName : ∀ o ∈ S, KeptName fs K o := by
          intro o ho
          obtain ⟨j, hj⟩ := Option.isSome_iff_exists.mp (hout2 o ho)
          refine ⟨j, hj, (reachSet_iff _ _ _ K hK j).mpr (Reach.base j ?_)⟩
          rw [hout1]; exact List.mem_filterMap.mpr ⟨o, ho, hj⟩
        have hval : ∀ o ∈ S, ∀ k, compose (keepFrom K 0 fs) kw k o = compose fs kw k o :=
          fun o ho k => compose_sub fs kw out K _ hK hc hempty k o (hkeptName o ho)
        refine ⟨hkept, hval, ?_⟩
        intro o ho n v s' hko hu hrun
        obtain ⟨k, hk⟩ := C02.C02_run_eq_compose _ kw hu n o v s' hko hrun
        refine ⟨⟨k, by rw [← hval o ho k]; exact hk⟩, ?_⟩
        intro c hc'
        -- every call of the run is a call of a function of the partial pipeline, i.e. of a needed function
        have := run_calls (keepFrom K 0 fs) kw (List.range (keepFrom K 0 fs).length) n o ⟨kw, [], []⟩ v s'
          (fun j hj => Reach.base j (by
            have : j < (keepFrom K 0 fs).length := by
              have := List.findIdx?_eq_some_iff_getElem.mp (by simpa [prodIdx] using hj)
              exact this.1
            simpa using this)) hrun c hc'
        rcases this with hn | ⟨j, f, _, hf, hname⟩
        · cases hn
        · exact (fun ⟨j', hj', hf'⟩ => ⟨j', f, hj', hf', hname⟩) ((hkept f).mp (List.mem_of_getElem? hf))
      · cases h

/-- **`run` with intermediates** (`pipeline.run(o, kwargs=I-values)` on the full pipeline): the value is the composition
    with the provided names substituted, and only functions needed for `o` (given the provided names) are invoked — a
    provided name replaces its producer. -/
theorem C11_run_only_needed (fs : List Func) (kw : List (String × Val)) (hu : Unique fs) (n : Nat) (o : String)
    (v : Val) (s' : St) (hko : alookup kw o = none) (h : run fs kw n o ⟨kw, [], []⟩ = .ok (v, s')) :
    (∃ k, compose fs kw k o = .ok v) ∧
    ∀ c ∈ s'.calls, ∃ j f, NeededFor funcNode fs (some (akeys kw)) [o] j ∧ fs[j]? = some f ∧ f.name = c := by
  refine ⟨C02.C02_run_eq_compose fs kw hu n o v s' hko h, ?_⟩
  intro c hc
  have := run_calls fs kw ([o].filterMap (prodIdx funcNode fs)) n o ⟨kw, [], []⟩ v s'
    (fun j hj => Reach.base j (by simp [hj])) h c hc
  rcases this with hn | hn
  · cases hn
  · exact hn

/-- **Map pipelines: `map(output_names=S)` / `map(auto_subpipeline=True, output_names=S)`.** The run is the ordinary map
    run of the partial pipeline: the model of the code returns what the specification of C01 (`specMap`, every array given
    by its denotation) returns for the partial pipeline; the partial pipeline is exactly the needed functions; and every
    invocation in the call log is an invocation of a needed function. -/
theorem C11_map (fs : List Map.MFunc) (inputs : List (String × Val)) (ui : List (String × List Nat)) (S : List String)
    (auto : Bool) (sub : List Map.MFunc) (r : Map.MapResult) (h : mapSub fs inputs ui (some S) auto = .ok (sub, r)) :
    Map.specMap sub inputs ui = .ok r ∧
    (∀ f, f ∈ sub ↔ ∃ j, NeededFor mfuncNode fs (some (akeys inputs)) S j ∧ fs[j]? = some f) ∧
    (∀ c ∈ r.calls, ∃ j f, NeededFor mfuncNode fs (some (akeys inputs)) S j ∧ fs[j]? = some f ∧ f.name = c.name) := by
  unfold mapSub mapWith at h
  split at h
  · cases h
  · next sub' hprep =>
    split at h
    · cases h
    · next r' hrun =>
      cases h
      have hsubp : subpipeline mfuncNode fs (some (akeys inputs)) (some S) = .ok sub := by
        simpa [prepare] using hprep
      have hkept := (C11_kept_eq_needed mfuncNode fs _ S sub hsubp).1
      refine ⟨by rw [← C01.C01_map_eq_denotation]; exact hrun, hkept, ?_⟩
      intro c hc
      obtain ⟨f, hf, hn⟩ := runMapWith_calls _ sub inputs ui r hrun c hc
      obtain ⟨j, hj, hfj⟩ := (hkept f).mp hf
      exact ⟨j, f, hj, hfj, hn.symm⟩

/-- the model of the code and its specification agree on every request, accepted or refused -/
theorem C11_map_eq_spec (fs : List Map.MFunc) (inputs : List (String × Val)) (ui : List (String × List Nat))
    (S : Option (List String)) (auto : Bool) : mapSub fs inputs ui S auto = mapSubSpec fs inputs ui S auto := by
  unfold mapSub mapSubSpec mapWith
  split
  · rfl
  · have := C01.C01_map_eq_denotation
    unfold Map.runMap Map.specMap at this
    rw [this]

/-! ### the pinned code (DF-17) and non-vacuity -/

def fK : Func := ⟨"k", [], ["k"], [], []⟩
def fF : Func := ⟨"f", [("x", "x"), ("k", "k")], ["y"], [], []⟩
def fG : Func := ⟨"g", [("y", "y"), ("d", "d")], ["z"], [("d", .int 3)], []⟩
def fH : Func := ⟨"h", [("w", "w")], ["v"], [], []⟩

/-- **DF-17 (a), witness on the pinned code**: nullary `k()`, `f(x, k) → y`, `I = {x}`, `S = {y}` is refused
    ("would require {x, k}") although `y` is computable from `x`; the repaired code keeps `[k, f]`. -/
theorem C11_current_refuses :
    (Legacy.subpipeline funcNode [fK, fF] (some ["x"]) (some ["y"])).toOption.map (·.map (·.name)) = none ∧
    (subpipeline funcNode [fK, fF] (some ["x"]) (some ["y"])).toOption.map (·.map (·.name)) = some ["k", "f"] := by
  decide

/-- DF-17 (b): a root argument left to its default is refused by the pinned code, accepted by the repaired code;
    DF-17 (c): a nullary producer requested with no inputs is silently dropped by the pinned code (empty pipeline). -/
theorem C11_current_refuses_default_and_drops_nullary :
    (Legacy.subpipeline funcNode [fK, fF, fG] (some ["y"]) (some ["z"])).toOption.map (·.map (·.name)) = none ∧
    (subpipeline funcNode [fK, fF, fG] (some ["y"]) (some ["z"])).toOption.map (·.map (·.name)) = some ["g"] ∧
    (Legacy.subpipeline funcNode [fK, fF] (some []) (some ["k"])).toOption.map (·.map (·.name)) = some [] ∧
    (subpipeline funcNode [fK, fF] (some []) (some ["k"])).toOption.map (·.map (·.name)) = some ["k"] := by
  decide

-- non-vacuity: an accepted request with an interior cut, a rejected one naming the missing root, values and call log
example : (subpipeline funcNode [fK, fF, fG, fH] (some ["x"]) (some ["z"])).toOption.map (·.map (·.name)) = some ["k", "f", "g"] := by decide
example : (match subpipeline funcNode [fK, fF, fG, fH] (some ["d"]) (some ["z"]) with
    | .error (.missing ms) => some ms | _ => none) = some ["x"] := by decide
example : (match subpipeline funcNode [fK, fF, fG, fH] (some ["x"]) (some ["z", "v"]) with
    | .error (.missing ms) => some ms | _ => none) = some ["w"] := by decide
example : (match callSub [fK, fF, fG, fH] [("y", .int 5)] ["z"] "z" with
    | .ok (.ok o) => some o.calls | _ => none) = some ["g"] := by decide
example : (match callSub [fK, fF, fG, fH] [("x", .int 5)] ["z"] "z" with
    | .ok (.ok o) => some o.calls | _ => none) = some ["k", "f", "g"] := by decide
example : ConsistentDefaults [fK, fF, fG, fH] := by
  intro f hf g hg p v w hv hw
  simp only [List.mem_cons, List.mem_nil_iff, or_false] at hf hg
  rcases hf with rfl | rfl | rfl | rfl <;> rcases hg with rfl | rfl | rfl | rfl <;> simp_all [fK, fF, fG, fH]

end PF.C11
