import PfModel.Lemmas.SchedCount
import PfModel.Lemmas.SchedPart
import PfModel.Model.SchedCountPart
/-! Counting lemmas for the sequential partial run (`PF.Pieces.runPart`), to which every scheduled partial run is equal. -/
namespace PF.SchedC
open PF PF.Map PF.Sched PF.Pieces PF.SchedP

theorem runSingle_calls (fs : List MFunc) (env : Env) (f : MFunc) (r : FuncResult) (h : runSingle fs env f = .ok r) :
    r.calls.length = 1 ∧ ∀ c ∈ r.calls, c.name = f.name := by
  obtain ⟨args, hc, _, _⟩ := PF.C01.C01_unmapped_once fs env f r h
  rw [hc]; simp

theorem seqOfP_calls_shape (fs : List MFunc) (old : List (String × Slot)) (env : Env) (f : MFunc) (plan : PlanP) (r : FuncResult)
    (hok : PlanOK old f plan) (h : seqOfP fs old env f plan = .ok r) :
    r.calls.length = demOfPlan old f plan ∧ ∀ c ∈ r.calls, c.name = f.name := by
  cases plan with
  | bad e => simp [seqOfP] at h
  | single =>
    simp only [seqOfP, runSinglePart] at h
    simp only [demOfPlan, loadedOf]
    split at h
    · next he => simp only [he, if_true]; exact runSingle_calls fs env f r h
    · next he =>
      simp only [he]
      split at h
      · next vs hv =>
        simp only [pure, Except.pure, Except.ok.injEq] at h
        subst h; simp [hv]
      · next hv => simp only [hv]; exact runSingle_calls fs env f r h
  | mapped ms sh mk sel todo =>
    simp only [PlanOK] at hok
    simp only [seqOfP, runMappedSel, bind, Except.bind] at h
    split at h
    · cases h
    · next argsAt hm =>
      simp only [pure, Except.pure, Except.ok.injEq] at h
      subst h
      have hlen := mapM_ok_length _ _ _ hm
      refine ⟨by simp [demOfPlan, hlen, hok], ?_⟩
      intro c hc
      simp only [List.mem_map] at hc
      obtain ⟨a, _, rfl⟩ := hc; rfl

theorem runGenWith_count (R : Env → MFunc → M FuncResult) (w : MFunc → Nat) (n : String)
    (hR : ∀ env f r, R env f = .ok r → r.calls.length = w f ∧ ∀ c ∈ r.calls, c.name = f.name) (env : Env) :
    ∀ (gen : List MFunc) (rs : List FuncResult), runGenWith R env gen = .ok rs →
      (rs.flatMap (·.calls)).countP (fun c => c.name == n) = (gen.map fun f => if f.name = n then w f else 0).sum := by
  intro gen
  induction gen with
  | nil => intro rs h; simp only [runGenWith, pure, Except.pure, Except.ok.injEq] at h; subst h; simp
  | cons f rest ih =>
    intro rs h
    simp only [runGenWith, bind, Except.bind] at h
    split at h
    · cases h
    · next r hr =>
      split at h
      · cases h
      · next rs' hrs =>
        simp only [pure, Except.pure, Except.ok.injEq] at h
        subst h
        obtain ⟨hl, hn⟩ := hR env f r hr
        simp only [List.flatMap_cons, List.countP_append, List.map_cons, List.sum_cons, ih rs' hrs,
          countP_name_of_all n f.name r.calls hn, hl]

theorem runGensWith_count (R : Env → MFunc → M FuncResult) (w : MFunc → Nat) (n : String)
    (hR : ∀ env f r, R env f = .ok r → r.calls.length = w f ∧ ∀ c ∈ r.calls, c.name = f.name) :
    ∀ (gens : List (List MFunc)) (env : Env) (r : List FuncResult × Env), runGensWith R gens env = .ok r →
      (r.1.flatMap (·.calls)).countP (fun c => c.name == n) = (gens.flatten.map fun f => if f.name = n then w f else 0).sum := by
  intro gens
  induction gens with
  | nil => intro env r h; simp only [runGensWith, pure, Except.pure, Except.ok.injEq] at h; subst h; simp
  | cons gen rest ih =>
    intro env r h
    simp only [runGensWith, bind, Except.bind] at h
    split at h
    · cases h
    · next rs hrs =>
      split at h
      · cases h
      · next w' hw =>
        obtain ⟨more, envF⟩ := w'
        simp only [pure, Except.pure, Except.ok.injEq] at h
        subst h
        simp only [List.flatMap_append, List.countP_append, List.flatten_cons, List.map_append, List.sum_append,
          runGenWith_count R w n hR env gen rs hrs, ih _ _ hw]

/-- a successful sequential partial run is a successful run of the generation loop on the shapes and masks it reports -/
theorem runPart_ok (fs : List MFunc) (inputs : List (String × Val)) (ui : List (String × List Nat))
    (fixed : Option (List (String × Sel))) (old : List (String × Slot)) (res : PartResult)
    (h : runPart fs inputs ui fixed old = .ok res) :
    (generations fs).flatten.length = fs.length ∧
    ∃ rs env, runGensWith (runFuncPart fs res.res.shapes res.res.masks fixed old) (generations fs) { inputs := inputs, store := [] }
      = .ok (rs, env) ∧ res.res.calls = rs.flatMap (·.calls) := by
  unfold runPart at h
  simp only [bind, Except.bind] at h
  split at h
  · cases h
  · split at h
    · cases h
    · next hcyc =>
      split at h
      · cases h
      · split at h
        · cases h
        · next sm _ =>
          obtain ⟨shapes, masks⟩ := sm
          simp only at h
          split at h
          · cases h
          · next w hw =>
            obtain ⟨rs, env⟩ := w
            simp only [pure, Except.pure, Except.ok.injEq] at h
            subst h
            exact ⟨by simpa using hcyc, rs, env, hw, rfl⟩

end PF.SchedC
