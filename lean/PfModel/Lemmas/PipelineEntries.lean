import PfModel.Model.PipelineEntries
/-! Helper lemmas for `Props/C02Entries.lean`: the binding of `call_with_root_args` and the argument list of `PipeFunc.__call__`. -/
namespace PF.Pipe
open PF

theorem map_fst_zip_take : ∀ (roots : List String) (pos : List Val), pos.length ≤ roots.length →
    akeys (roots.zip pos) = roots.take pos.length := by
  intro roots
  induction roots with
  | nil => intro pos h; cases pos <;> simp_all [akeys]
  | cons r rs ih =>
    intro pos h
    cases pos with
    | nil => simp [akeys]
    | cons p ps =>
      simp only [List.length_cons, Nat.add_le_add_iff_right] at h
      have := ih ps h
      simp only [akeys] at this
      simp [akeys, this]

theorem bindRest_ok (kw : List (String × Val)) : ∀ (rs : List String) (l : List (String × Val)),
    bindRest kw rs = .ok l → akeys l = rs ∧ ∀ e ∈ l, alookup kw e.1 = some e.2 := by
  intro rs
  induction rs with
  | nil => intro l h; simp only [bindRest] at h; cases h; simp [akeys]
  | cons r rs ih =>
    intro l h
    simp only [bindRest] at h
    split at h
    · cases h
    · next v hv =>
      split at h
      · cases h
      · next l' hl' =>
        cases h
        obtain ⟨h1, h2⟩ := ih l' hl'
        refine ⟨by simp only [akeys] at h1; simp [akeys, h1], ?_⟩
        intro e he
        rcases List.mem_cons.mp he with rfl | he
        · exact hv
        · exact h2 e he

theorem bindRest_err_iff (kw : List (String × Val)) : ∀ (rs : List String),
    (∃ e, bindRest kw rs = .error e) ↔ ∃ r ∈ rs, alookup kw r = none := by
  intro rs
  induction rs with
  | nil => simp [bindRest]
  | cons r rs ih =>
    simp only [bindRest]
    cases hv : alookup kw r with
    | none => simp [hv]
    | some v =>
      simp only [List.mem_cons, exists_eq_or_imp, hv]
      rw [← ih]
      cases bindRest kw rs with
      | error e => simp
      | ok l => simp

theorem pfArgs_ok (f : Func) (kw : List (String × Val)) : ∀ (ps : List (String × String)) (a : List (String × Val)),
    pfArgs f kw ps = .ok a → a.length = ps.length ∧
      ∀ i (hi : i < ps.length) (ha : i < a.length), (a[i]).1 = (ps[i]).2 ∧ pfArg f kw (ps[i]).1 = some (a[i]).2 := by
  intro ps
  induction ps with
  | nil => intro a h; simp only [pfArgs] at h; cases h; simp
  | cons pq ps ih =>
    intro a h
    obtain ⟨p, orig⟩ := pq
    simp only [pfArgs] at h
    split at h
    · cases h
    · next v hv =>
      split at h
      · cases h
      · next l hl =>
        cases h
        obtain ⟨h1, h2⟩ := ih l hl
        refine ⟨by simp [h1], ?_⟩
        intro i hi ha
        cases i with
        | zero => exact ⟨rfl, hv⟩
        | succ j => exact h2 j (by simpa using hi) (by simpa using ha)

end PF.Pipe
