import PfModel.Generated.C12Facts
import PfModel.Model.Validate
/-!
C12, the tie to the source: the call order of `prepare_run` / `RunInfo.create`, re-extracted from /repo with `ast` on every run
(`harness/c12_extract.py` → `Generated/C12Facts.lean`).  These two `decide` proofs are the only C12 obligations that can stop
checking when the source is restructured; they live in their own module so that the hand-written theorems of `Props/C12.lean`
stay audited when that happens.  (`cls(...)` no longer writes since the DF-33 repair; `run_info._dump_all()` is the write.)
-/
namespace PF.C12
open PF PF.Validate

/-- every call is classified, every required validation (complete inputs, consistent axes, fixed indices, storage names,
    previous run, `_check_inputs`, `map_shapes`) comes before the first effect (`run_info._dump_all()`, `init_store`, `init_tracker`),
    and nothing validates after it -/
theorem C12_order : validationsPrecedeEffects Generated.prepareRunCalls = true := by decide

/-- the order in which the model's `startSteps` performs its steps is the order of the corresponding calls in the source -/
theorem C12_order_model : isSubseq modelSourceOrder Generated.prepareRunCalls = true := by decide

end PF.C12
