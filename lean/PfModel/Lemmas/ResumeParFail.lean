import PfModel.Model.ResumeParFail
import PfModel.Lemmas.ResumePar
/-! The pool runner with a raising user call: every body that still runs next to the failing one is one of the safe bodies of
    the generation's plan (or a prefix of one), so every prefix of what happens keeps the invariant. -/
namespace PF.ResumeFS
open PF PF.Map

/-- a prefix of a list of events that is safe at every crash point is safe at every crash point -/
theorem Safe.take {J : FS → Prop} {evs : List Ev} (h : Safe J evs) (m : Nat) : Safe J (evs.take m) := by
  intro fs hJ k
  have : crashAt fs (evs.take m) k = crashAt fs evs (min k m) := by
    simp only [crashAt, List.take_take]
  rw [this]
  exact h fs hJ _

theorem truncAt_mem : ∀ (bs : List (List Ev)) (n : Nat) (b' : List Ev), b' ∈ truncAt bs n → ∃ b ∈ bs, ∃ m, b' = b.take m := by
  intro bs
  induction bs with
  | nil => intro n b' h; simp [truncAt] at h
  | cons b rest ih =>
    intro n b' h
    cases n with
    | zero =>
      simp only [truncAt, List.mem_cons] at h
      rcases h with h | h
      · exact ⟨b, by simp, 1, h⟩
      · exact ⟨b', by simp [h], b'.length, by simp⟩
    | succ n =>
      simp only [truncAt, List.mem_cons] at h
      rcases h with h | h
      · exact ⟨b, by simp, b.length, by simp [h]⟩
      · obtain ⟨x, hx, m, hm⟩ := ih n b' h
        exact ⟨x, by simp [hx], m, hm⟩

theorem truncAt_length : ∀ (bs : List (List Ev)) (n : Nat), (truncAt bs n).length = bs.length := by
  intro bs
  induction bs with
  | nil => intro n; simp [truncAt]
  | cons b rest ih => intro n; cases n <;> simp [truncAt, ih]

/-- any selection, in any order, of the bodies of a generation with one of them cut down is safe at every crash point -/
theorem bodies_sub_safe {J : FS → Prop} {l : List Ev} (hb : Bodies J l) (n : Nat) (bs' : List (List Ev))
    (hsub : ∀ b ∈ bs', b ∈ truncAt (splitCalls l) n) : Safe J bs'.flatten := by
  obtain ⟨bs, hf, hall⟩ := hb
  subst hf
  rw [(splitCalls_bodies bs fun b hb => (hall b hb).1).1] at hsub
  have : bs'.flatten = bs'.flatMap id := by simp
  rw [this]
  refine Safe.flatMap _ _ fun b hb => ?_
  obtain ⟨x, hx, m, hm⟩ := truncAt_mem bs n b (hsub b hb)
  simp only [id, hm]
  exact Safe.take (hall x hx).2 m

/-- the generation loop of the pool runner with a raising call: bodies in any order, the failing generation under any
    selection of its bodies -/
theorem runGensPF_spec (W : Right) (names : List String) (fs0 : FS) (cfg0 : Cfg) (h0 : cfg0.failAt = none) (R : Env → MFunc → M FuncResult)
    (step : Env → FS → Nat → MFunc → FOut) (sched fsched : Sched) (hsched : PermSched sched) (hfs : SubSched fsched) (j : Nat)
    (Pf : MFunc → Prop)
    (hstep : ∀ env f r, Pf f → R env f = .ok r → SlotsRight W r.slots → ∀ fs, I W names fs0 fs → ∀ nc, StepOk W names fs0 cfg0 f r (step env fs nc f)) :
    ∀ (gens : List (List MFunc)) (g0 : Nat) (env : Env) (rs : List FuncResult) (envF : Env) (fs : FS) (nc : Nat), (∀ f ∈ gens.flatten, Pf f) →
      runGensWith R gens env = .ok (rs, envF) → (∀ r ∈ rs, SlotsRight W r.slots) → I W names fs0 fs →
      Safe (I W names fs0) (runGensPF step sched fsched j g0 gens env fs nc).evs ∧
      (∀ c ∈ (runGensPF step sched fsched j g0 gens env fs nc).calls, ∃ f ∈ gens.flatten, c.fn = f.name ∧ doneInC cfg0 fs0 f c.li = false) ∧
      ((∃ rs', (runGensPF step sched fsched j g0 gens env fs nc).res = .ok (rs', envF) ∧ rs'.flatMap (·.outputs) = rs.flatMap (·.outputs)) ∨
       (∃ fn, (runGensPF step sched fsched j g0 gens env fs nc).res = .error (.raised fn))) := by
  intro gens
  induction gens with
  | nil =>
    intro g0 env rs envF fs nc _ h _ _
    simp only [runGensWith, pure, Except.pure] at h
    cases h
    exact ⟨Safe.nil _, by simp [runGensPF], Or.inl ⟨[], rfl, rfl⟩⟩
  | cons gen rest ih =>
    intro g0 env rs envF fs nc hP h hSR hI
    simp only [runGensWith, bind, Except.bind] at h
    split at h
    · cases h
    · next rs1 hrs1 =>
      split at h
      · cases h
      · next p hp =>
        obtain ⟨more, envF'⟩ := p
        simp only [pure, Except.pure] at h
        cases h
        obtain ⟨_, b, c, d, e⟩ := runGenR_spec W names fs0 cfg0 R step Pf hstep env gen rs1 fs nc (fun g hg => hP g (by simp [hg])) hrs1
          (fun x hx => hSR x (by simp [hx])) hI
        have hc : ∀ x ∈ (runGenR step env fs nc gen).calls, ∃ f ∈ (gen :: rest).flatten, x.fn = f.name ∧ doneInC cfg0 fs0 f x.li = false := by
          intro x hx; obtain ⟨f, hf, hh⟩ := c x hx; exact ⟨f, by simp [hf], hh⟩
        rcases d with ⟨rs', hres, ho, hs⟩ | ⟨hne, _⟩
        · by_cases hj : nc ≤ j ∧ j < (runGenR step env fs nc gen).nc
          · -- the failing generation
            obtain ⟨bs', hsub, hsch⟩ := hfs g0 (truncAt (splitCalls (runGenR step env fs nc gen).subEvs) (j - nc))
              ((runGenR step env fs nc gen).procEvs.take
                (runGenR step env fs nc (gen.takeWhile (·.name != bodyFn ((splitCalls (runGenR step env fs nc gen).subEvs).getD (j - nc) [])))).procEvs.length)
            simp only [runGensPF, hres, hj, and_self, ↓reduceIte]
            refine ⟨?_, hc, Or.inr ⟨_, rfl⟩⟩
            rw [hsch]
            exact Safe.append (bodies_sub_safe e _ bs' hsub) (Safe.take b _)
          · obtain ⟨bs', hperm, hsch⟩ := hsched g0 (splitCalls (runGenR step env fs nc gen).subEvs) (runGenR step env fs nc gen).procEvs
            have hsafe : Safe (I W names fs0) (sched g0 (splitCalls (runGenR step env fs nc gen).subEvs) (runGenR step env fs nc gen).procEvs) := by
              rw [hsch]; exact Safe.append (bodies_perm_safe e bs' hperm) b
            have henv : ({ env with store := env.store ++ rs'.flatMap (·.slots) } : Env) = { env with store := env.store ++ rs1.flatMap (·.slots) } := by
              rw [hs]
            obtain ⟨a2, c2, d2⟩ := ih (g0 + 1) _ more envF
              (applyAll fs (sched g0 (splitCalls (runGenR step env fs nc gen).subEvs) (runGenR step env fs nc gen).procEvs)) (runGenR step env fs nc gen).nc
              (fun g hg => hP g (by simp only [List.flatten_cons, List.mem_append]; exact Or.inr hg)) hp
              (fun x hx => hSR x (by simp [hx])) (hsafe.final fs hI)
            simp only [runGensPF, hres, hj, ↓reduceIte, henv]
            refine ⟨Safe.append hsafe a2, ?_, ?_⟩
            · intro x hx
              rcases List.mem_append.mp hx with hx | hx
              · exact hc x hx
              · obtain ⟨f, hf, hh⟩ := c2 x hx; exact ⟨f, by simp [hf], hh⟩
            · rcases d2 with ⟨rs2, hres2, ho2⟩ | ⟨fn, hres2⟩
              · rw [hres2]
                exact Or.inl ⟨rs' ++ rs2, rfl, by simp [List.flatMap_append, ho, ho2]⟩
              · rw [hres2]
                exact Or.inr ⟨fn, rfl⟩
        · exact absurd h0 hne

/-- the schedulers the driver builds from data are selections -/
theorem pickSched_sub (orders : List (List Nat)) : SubSched (pickSched orders) := by
  intro g bs pe
  unfold pickSched
  cases orders[g]? with
  | none => exact ⟨bs, fun _ h => h, rfl⟩
  | some o =>
    refine ⟨o.filterMap (bs[·]?), fun b hb => ?_, rfl⟩
    obtain ⟨i, _, hi⟩ := List.mem_filterMap.mp hb
    exact List.mem_of_getElem? hi

end PF.ResumeFS
