import PfModel.Model.SubPipe
import PfModel.Lemmas.Pipeline
import PfModel.Lemmas.MapRun
/-! Helper lemmas for `Props/C11.lean`: the worklist computes reachability; `keepFrom` and `producer`; the partial
pipeline resolves every parameter of a kept function as the full pipeline does. -/
namespace PF.Sub
open PF

/-! ### the worklist -/

theorem dfs_sound (pre : Nat → List Nat) (init : List Nat) : ∀ (fuel : Nat) (stack keep : List Nat),
    (∀ i ∈ stack, Reach pre init i) → (∀ i ∈ keep, Reach pre init i) →
    ∀ i ∈ dfs pre fuel stack keep, Reach pre init i := by
  intro fuel
  induction fuel with
  | zero => intro stack keep _ hk i hi; simp only [dfs] at hi; exact hk i hi
  | succ n ih =>
    intro stack keep hs hk i hi
    cases stack with
    | nil => simp only [dfs] at hi; exact hk i hi
    | cons a rest =>
      simp only [dfs] at hi
      split at hi
      · exact ih rest keep (fun j hj => hs j (List.mem_cons_of_mem _ hj)) hk i hi
      · refine ih (pre a ++ rest) (keep ++ [a]) ?_ ?_ i hi
        · intro j hj
          rcases List.mem_append.mp hj with hj | hj
          · exact Reach.step a j (hs a (List.mem_cons_self ..)) hj
          · exact hs j (List.mem_cons_of_mem _ hj)
        · intro j hj
          rcases List.mem_append.mp hj with hj | hj
          · exact hk j hj
          · simp only [List.mem_singleton] at hj; subst hj; exact hs _ (List.mem_cons_self ..)

theorem closed_complete (pre : Nat → List Nat) (init K : List Nat) (hinit : ∀ i ∈ init, i ∈ K)
    (hc : closed pre K = true) : ∀ i, Reach pre init i → i ∈ K := by
  intro i h
  induction h with
  | base i hi => exact hinit i hi
  | step i j _ hj ih =>
    simp only [closed, List.all_eq_true] at hc
    have := hc i ih j hj
    simpa using this

/-- **the worklist computes exactly the reachable set** (for whatever fuel it was given, when it returns a result) -/
theorem reachSet_iff (pre : Nat → List Nat) (init : List Nat) (fuel : Nat) (K : List Nat)
    (h : reachSet pre init fuel = some K) : ∀ i, i ∈ K ↔ Reach pre init i := by
  unfold reachSet at h
  simp only at h
  split at h
  · next hc =>
    cases h
    simp only [Bool.and_eq_true, List.all_eq_true] at hc
    intro i
    constructor
    · intro hi
      exact dfs_sound pre init fuel init [] (fun j hj => Reach.base j hj) (by intro j hj; cases hj) i hi
    · exact closed_complete pre init _ (fun j hj => by simpa using hc.1 j hj) hc.2 i
  · cases h

theorem reachSet_closed (pre : Nat → List Nat) (init : List Nat) (fuel : Nat) (K : List Nat)
    (h : reachSet pre init fuel = some K) : ∀ i ∈ K, ∀ j ∈ pre i, j ∈ K := by
  intro i hi j hj
  exact (reachSet_iff pre init fuel K h j).mpr (Reach.step i j ((reachSet_iff pre init fuel K h i).mp hi) hj)

/-! ### `keepFrom` -/

theorem mem_keepFrom {α} (K : List Nat) : ∀ (l : List α) (i : Nat) (f : α),
    f ∈ keepFrom K i l ↔ ∃ j, K.contains (i + j) = true ∧ l[j]? = some f := by
  intro l
  induction l with
  | nil => intro i f; simp [keepFrom]
  | cons a r ih =>
    intro i f
    simp only [keepFrom]
    constructor
    · intro h
      split at h
      · next hc =>
        rcases List.mem_cons.mp h with h | h
        · exact ⟨0, by simpa using hc, by simp [h]⟩
        · obtain ⟨j, hj, hg⟩ := (ih (i+1) f).mp h
          exact ⟨j+1, by rw [← hj]; congr 1; omega, by simpa using hg⟩
      · obtain ⟨j, hj, hg⟩ := (ih (i+1) f).mp h
        exact ⟨j+1, by rw [← hj]; congr 1; omega, by simpa using hg⟩
    · rintro ⟨j, hj, hg⟩
      cases j with
      | zero =>
        simp only [Nat.add_zero] at hj
        simp only [List.getElem?_cons_zero, Option.some.injEq] at hg
        have hj' : i ∈ K := by simpa using hj
        simp [hj', hg]
      | succ j =>
        simp only [List.getElem?_cons_succ] at hg
        have : f ∈ keepFrom K (i+1) r := (ih (i+1) f).mpr ⟨j, by rw [← hj]; congr 1; omega, hg⟩
        split
        · exact List.mem_cons_of_mem _ this
        · exact this

theorem keepFrom_subset {α} (K : List Nat) (l : List α) (i : Nat) (f : α) (h : f ∈ keepFrom K i l) : f ∈ l := by
  obtain ⟨j, _, hg⟩ := (mem_keepFrom K l i f).mp h
  exact List.mem_of_getElem? hg

theorem find?_keepFrom_some {α} (p : α → Bool) (K : List Nat) : ∀ (l : List α) (i j : Nat),
    l.findIdx? p = some j → K.contains (i + j) = true → (keepFrom K i l).find? p = l[j]? := by
  intro l
  induction l with
  | nil => intro i j h; simp at h
  | cons a r ih =>
    intro i j h hk
    simp only [List.findIdx?_cons] at h
    split at h
    · next hp =>
      cases h
      simp only [Nat.add_zero] at hk
      have hk' : i ∈ K := by simpa using hk
      simp [keepFrom, hk', hp]
    · next hp =>
      cases hr : r.findIdx? p with
      | none => simp [hr] at h
      | some j' =>
        simp only [hr, Option.map_some, Option.some.injEq] at h
        subst h
        have := ih (i+1) j' hr (by rw [← hk]; congr 1; omega)
        simp only [keepFrom]
        split
        · simp [List.find?_cons, hp, this]
        · simp [this]

theorem find?_keepFrom_none {α} (p : α → Bool) (K : List Nat) : ∀ (l : List α) (i : Nat),
    l.find? p = none → (keepFrom K i l).find? p = none := by
  intro l i h
  rw [List.find?_eq_none] at h ⊢
  intro x hx
  exact h x (keepFrom_subset K l i x hx)

theorem find?_of_findIdx? {α} (p : α → Bool) : ∀ (l : List α) (j : Nat), l.findIdx? p = some j → l.find? p = l[j]? := by
  intro l
  induction l with
  | nil => intro j h; simp at h
  | cons a r ih =>
    intro j h
    simp only [List.findIdx?_cons] at h
    split at h
    · next hp => cases h; simp [hp]
    · next hp =>
      cases hr : r.findIdx? p with
      | none => simp [hr] at h
      | some j' =>
        simp only [hr, Option.map_some, Option.some.injEq] at h
        subst h
        simp [List.find?_cons, hp, ih j' hr]

theorem findIdx?_of_find? {α} (p : α → Bool) : ∀ (l : List α) (g : α), l.find? p = some g →
    ∃ j, l.findIdx? p = some j ∧ l[j]? = some g := by
  intro l
  induction l with
  | nil => intro g h; simp at h
  | cons a r ih =>
    intro g h
    simp only [List.find?_cons] at h
    split at h
    · next hp => cases h; exact ⟨0, by simp [List.findIdx?_cons, hp], by simp⟩
    · next hp =>
      obtain ⟨j, hj, hg⟩ := ih g h
      exact ⟨j+1, by simp [List.findIdx?_cons, hp, hj], by simpa using hg⟩

theorem findIdx?_none_of_find? {α} (p : α → Bool) (l : List α) (h : l.find? p = none) : l.findIdx? p = none := by
  rw [List.findIdx?_eq_none_iff]
  rw [List.find?_eq_none] at h
  intro x hx
  simpa using h x hx

/-! ### the partial pipeline of a call pipeline -/
section pipe
open PF.Pipe

theorem mem_deps (f : Func) (p : String) :
    p ∈ (funcNode f).deps ↔ ∃ orig, (p, orig) ∈ f.params ∧ alookup f.bound p = none := by
  simp only [funcNode, List.mem_filterMap]
  constructor
  · rintro ⟨⟨q, orig⟩, hm, h⟩
    split at h
    · cases h
    · next hb => cases h; exact ⟨orig, hm, by simpa using hb⟩
  · rintro ⟨orig, hm, hb⟩
    exact ⟨(p, orig), hm, by simp [hb]⟩

theorem mem_dflt (f : Func) (p : String) :
    p ∈ (funcNode f).dflt ↔ ∃ v, (p, v) ∈ f.defaults ∧ alookup f.bound p = none := by
  simp only [funcNode, List.mem_filterMap]
  constructor
  · rintro ⟨⟨q, v⟩, hm, h⟩
    split at h
    · cases h
    · next hb => cases h; exact ⟨v, hm, by simpa using hb⟩
  · rintro ⟨v, hm, hb⟩
    exact ⟨(p, v), hm, by simp [hb]⟩

theorem prodIdx_func (l : List Func) (o : String) :
    prodIdx funcNode l o = l.findIdx? (fun f => decide (o ∈ f.outputs)) := rfl

theorem producer_of_prodIdx (l : List Func) (o : String) (j : Nat) (h : prodIdx funcNode l o = some j) :
    producer l o = l[j]? := find?_of_findIdx? _ l j h

theorem prodIdx_of_producer (l : List Func) (o : String) (g : Func) (h : producer l o = some g) :
    ∃ j, prodIdx funcNode l o = some j ∧ l[j]? = some g := findIdx?_of_find? _ l g h

theorem prodIdx_none_of_producer (l : List Func) (o : String) (h : producer l o = none) :
    prodIdx funcNode l o = none := findIdx?_none_of_find? _ l h

theorem resolve_upstream_inv (fs : List Func) (kw : List (String × Val)) (f : Func) (p : String)
    (h : (match resolve fs kw f p with | .upstream => True | _ => False)) :
    alookup f.bound p = none ∧ alookup kw p = none ∧ ∃ g, producer fs p = some g := by
  cases hb : alookup f.bound p with
  | some v => simp [resolve, hb] at h
  | none =>
    cases hk : alookup kw p with
    | some v => simp [resolve, hb, hk] at h
    | none =>
      cases hn : producer fs p with
      | some g => exact ⟨rfl, rfl, g, rfl⟩
      | none =>
        cases hd : pdefault fs p <;> simp [resolve, hb, hk, hn, hd] at h

variable (fs : List Func) (kw : List (String × Val)) (out K : List Nat) (fuel : Nat)

/-- a name whose producer is kept -/
def KeptName (o : String) : Prop := ∃ j, prodIdx funcNode fs o = some j ∧ j ∈ K

theorem producer_sub_kept (o : String) (h : KeptName fs K o) :
    producer (keepFrom K 0 fs) o = producer fs o := by
  obtain ⟨j, hj, hk⟩ := h
  rw [producer_of_prodIdx fs o j hj]
  exact find?_keepFrom_some _ K fs 0 j hj (by simpa using hk)

theorem producer_sub_none (p : String) (h : producer fs p = none) : producer (keepFrom K 0 fs) p = none :=
  find?_keepFrom_none _ K fs 0 h

theorem consistent_sub (hc : ConsistentDefaults fs) : ConsistentDefaults (keepFrom K 0 fs) :=
  fun f hf g hg => hc f (keepFrom_subset K fs 0 f hf) g (keepFrom_subset K fs 0 g hg)

/-- a root argument of the partial pipeline that is not provided has the full pipeline's default, once the
    root-argument check has passed -/
theorem pdefault_sub (hc : ConsistentDefaults fs)
    (hmiss : missingRoots funcNode (keepFrom K 0 fs) (akeys kw) = [])
    (f : Func) (hf : f ∈ keepFrom K 0 fs) (p orig : String) (hp : (p, orig) ∈ f.params)
    (hb : alookup f.bound p = none) (hk : alookup kw p = none) (hn : producer fs p = none) :
    pdefault (keepFrom K 0 fs) p = pdefault fs p := by
  have hns := producer_sub_none fs K p hn
  have hpi := prodIdx_none_of_producer _ p hns
  have hroot : p ∈ roots funcNode (keepFrom K 0 fs) := by
    simp only [roots, List.mem_flatMap, List.mem_filter]
    exact ⟨f, hf, (mem_deps f p).mpr ⟨orig, hp, hb⟩, by simp [hpi]⟩
  have hnk : p ∉ akeys kw := (alookup_none_iff kw p).mp hk
  have hd : p ∈ dnames funcNode (keepFrom K 0 fs) := by
    have : p ∉ missingRoots funcNode (keepFrom K 0 fs) (akeys kw) := by rw [hmiss]; simp
    simp only [missingRoots, List.mem_filter, hroot, true_and, Bool.and_eq_true, Bool.not_eq_true',
      List.contains_eq_mem, decide_eq_false_iff_not, not_and, Decidable.not_not] at this
    exact this hnk
  simp only [dnames, List.mem_flatMap, List.mem_filter] at hd
  obtain ⟨g, hg, hgd, _⟩ := hd
  obtain ⟨v, hv, hgb⟩ := (mem_dflt g p).mp hgd
  have h1 : (p, v) ∈ pdefaults (keepFrom K 0 fs) :=
    (mem_pdefaults _ p v).mpr ⟨g, hg, hv, by simp [hgb], by simp [hns]⟩
  have h2 : (p, v) ∈ pdefaults fs :=
    (mem_pdefaults _ p v).mpr ⟨g, keepFrom_subset K fs 0 g hg, hv, by simp [hgb], by simp [hn]⟩
  rw [(pdefault_eq_some_iff _ (consistent_sub fs K hc) p v).mpr h1, (pdefault_eq_some_iff _ hc p v).mpr h2]

/-- every parameter of a kept function is resolved in the partial pipeline as in the full pipeline, and an upstream
    parameter's producer is kept too -/
theorem resolve_sub (hK : reachSet (predsIdx funcNode fs (cutOf (some (akeys kw)))) out fuel = some K)
    (hc : ConsistentDefaults fs) (hmiss : missingRoots funcNode (keepFrom K 0 fs) (akeys kw) = [])
    (j : Nat) (f : Func) (hj : j ∈ K) (hf : fs[j]? = some f) (p orig : String) (hp : (p, orig) ∈ f.params) :
    resolve (keepFrom K 0 fs) kw f p = resolve fs kw f p ∧
    ((match resolve fs kw f p with | .upstream => True | _ => False) → KeptName fs K p) := by
  have hfs : f ∈ keepFrom K 0 fs := (mem_keepFrom K fs 0 f).mpr ⟨j, by simpa using hj, hf⟩
  cases hb : alookup f.bound p with
  | some v => simp [resolve, hb]
  | none =>
    cases hk : alookup kw p with
    | some v => simp [resolve, hb, hk]
    | none =>
      cases hn : producer fs p with
      | some g =>
        obtain ⟨j', hj', _⟩ := prodIdx_of_producer fs p g hn
        have hnk : p ∉ akeys kw := (alookup_none_iff kw p).mp hk
        have hmem : j' ∈ predsIdx funcNode fs (cutOf (some (akeys kw))) j := by
          simp only [predsIdx, hf, List.mem_filterMap]
          exact ⟨p, (mem_deps f p).mpr ⟨orig, hp, hb⟩, by simp [cutOf, hnk, hj']⟩
        have hkj : j' ∈ K := reachSet_closed _ out fuel K hK j hj j' hmem
        have hkept : KeptName fs K p := ⟨j', hj', hkj⟩
        have := producer_sub_kept fs K p hkept
        refine ⟨?_, fun _ => hkept⟩
        simp [resolve, hb, hk, hn, this]
      | none =>
        have h1 := producer_sub_none fs K p hn
        have h2 := pdefault_sub fs kw K hc hmiss f hfs p orig hp hb hk hn
        cases hd : pdefault fs p <;> simp [resolve, hb, hk, hn, h1, h2, hd]

theorem composeArgs_sub (hK : reachSet (predsIdx funcNode fs (cutOf (some (akeys kw)))) out fuel = some K)
    (hc : ConsistentDefaults fs) (hmiss : missingRoots funcNode (keepFrom K 0 fs) (akeys kw) = [])
    (k : Nat) (ih : ∀ o, KeptName fs K o → compose (keepFrom K 0 fs) kw k o = compose fs kw k o)
    (j : Nat) (f : Func) (hj : j ∈ K) (hf : fs[j]? = some f) :
    ∀ ps, (∀ x ∈ ps, x ∈ f.params) →
      composeArgsWith (compose (keepFrom K 0 fs) kw k) (keepFrom K 0 fs) kw f ps =
      composeArgsWith (compose fs kw k) fs kw f ps := by
  intro ps
  induction ps with
  | nil => intro _; simp [composeArgsWith]
  | cons x ps ihp =>
    obtain ⟨p, orig⟩ := x
    intro hsub
    have hx : (p, orig) ∈ f.params := hsub _ (List.mem_cons_self ..)
    have hrest := ihp (fun y hy => hsub y (List.mem_cons_of_mem _ hy))
    obtain ⟨hr, hup⟩ := resolve_sub fs kw out K fuel hK hc hmiss j f hj hf p orig hx
    simp only [composeArgsWith, hr, hrest]
    split
    · rfl
    · rfl
    · next hres =>
      have := ih p (hup (by simp [hres]))
      simp only [this]

/-- **the partial pipeline computes, for every name whose producer is kept, what the full pipeline computes** -/
theorem compose_sub (hK : reachSet (predsIdx funcNode fs (cutOf (some (akeys kw)))) out fuel = some K)
    (hc : ConsistentDefaults fs) (hmiss : missingRoots funcNode (keepFrom K 0 fs) (akeys kw) = []) :
    ∀ (k : Nat) (o : String), KeptName fs K o → compose (keepFrom K 0 fs) kw k o = compose fs kw k o := by
  intro k
  induction k with
  | zero => intro o _; simp [compose]
  | succ k ih =>
    intro o ho
    rw [compose_succ, compose_succ, producer_sub_kept fs K o ho]
    obtain ⟨j, hj, hjk⟩ := ho
    cases hp : producer fs o with
    | none => rfl
    | some f =>
      have hf : fs[j]? = some f := by rw [← producer_of_prodIdx fs o j hj]; exact hp
      simp only [composeArgs_sub fs kw out K fuel hK hc hmiss k ih j f hjk hf f.params (fun _ h => h)]

/-! ### the call log of the memoised run only names needed functions -/

/-- names of the functions reachable from `init` over the edges not cut by the keywords -/
def NeededName (init : List Nat) (c : String) : Prop :=
  ∃ j f, Reach (predsIdx funcNode fs (cutOf (some (akeys kw)))) init j ∧ fs[j]? = some f ∧ f.name = c

def RecCalls (init : List Nat) (r : String → St → Except Err (Val × St)) : Prop :=
  ∀ o s v s', (∀ j, prodIdx funcNode fs o = some j → Reach (predsIdx funcNode fs (cutOf (some (akeys kw)))) init j) →
    r o s = .ok (v, s') → ∀ c ∈ s'.calls, c ∈ s.calls ∨ NeededName fs kw init c

theorem argsWith_calls (init : List Nat) (r : String → St → Except Err (Val × St)) (hr : RecCalls fs kw init r)
    (j0 : Nat) (f : Func) (hj0 : Reach (predsIdx funcNode fs (cutOf (some (akeys kw)))) init j0) (hf : fs[j0]? = some f) :
    ∀ ps, (∀ x ∈ ps, x ∈ f.params) → ∀ s a s', argsWith r fs kw f ps s = .ok (a, s') →
      ∀ c ∈ s'.calls, c ∈ s.calls ∨ NeededName fs kw init c := by
  intro ps
  induction ps with
  | nil => intro _ s a s' h; simp [argsWith] at h; obtain ⟨_, rfl⟩ := h; intro c hc; exact Or.inl hc
  | cons x ps ih =>
    obtain ⟨p, orig⟩ := x
    intro hsub s a s' h
    have hx : (p, orig) ∈ f.params := hsub _ (List.mem_cons_self ..)
    have ih' := ih (fun y hy => hsub y (List.mem_cons_of_mem _ hy))
    simp only [argsWith] at h
    split at h
    · simp at h
    · next v hv =>
      split at h
      · simp at h
      · next rest s2 hrest =>
        simp at h; obtain ⟨_, rfl⟩ := h
        exact ih' ⟨s.memo, s.calls, s.used ++ [p]⟩ rest s2 hrest
    · next hup =>
      split at h
      · simp at h
      · next v s1 hrun =>
        split at h
        · simp at h
        · next rest s2 hrest =>
          simp at h; obtain ⟨_, rfl⟩ := h
          obtain ⟨hb, hk, g, hg⟩ := resolve_upstream_inv fs kw f p (by simp [hup])
          have hnk : p ∉ akeys kw := (alookup_none_iff kw p).mp hk
          have h1 := hr p s v s1 (by
            intro j' hj'
            refine Reach.step j0 j' hj0 ?_
            simp only [predsIdx, hf, List.mem_filterMap]
            exact ⟨p, (mem_deps f p).mpr ⟨orig, hx, hb⟩, by simp [cutOf, hnk, hj']⟩) hrun
          intro c hc
          rcases ih' ⟨s1.memo, s1.calls, s1.used ++ [p]⟩ rest s2 hrest c hc with h2 | h2
          · exact h1 c h2
          · exact Or.inr h2

theorem run_calls (init : List Nat) : ∀ n, RecCalls fs kw init (run fs kw n) := by
  intro n
  induction n with
  | zero => intro o s v s' _ h; simp [run] at h
  | succ n ih =>
    intro o s v s' hreach h
    rw [run_succ] at h
    split at h
    · simp at h; obtain ⟨_, rfl⟩ := h; intro c hc; exact Or.inl hc
    · split at h
      · simp at h
      · next f hf =>
        obtain ⟨j0, hj0, hfj⟩ := prodIdx_of_producer fs o f hf
        split at h
        · simp at h
        · next args s1 hargs =>
          have h1 := argsWith_calls fs kw init _ ih j0 f (hreach j0 hj0) hfj f.params (fun _ h => h) s args s1 hargs
          split at h
          · simp at h; obtain ⟨_, rfl⟩ := h
            intro c hc
            simp only [List.mem_append, List.mem_singleton] at hc
            rcases hc with hc | hc
            · exact h1 c hc
            · exact Or.inr ⟨j0, f, hreach j0 hj0, hfj, hc.symm⟩
          · simp at h

end pipe

/-! ### requested output nodes -/

theorem outNodes_some {α} (nd : α → Node) (fs : List α) (I : Option (List String)) : ∀ (S : List String) (out : List Nat),
    outNodes nd fs I (some S) = .ok out → out = S.filterMap (prodIdx nd fs) ∧ ∀ o ∈ S, (prodIdx nd fs o).isSome := by
  intro S
  simp only [outNodes]
  induction S with
  | nil => intro out h; simp [List.mapM_nil, pure, Except.pure] at h; subst h; simp
  | cons o S ih =>
    intro out h
    simp only [List.mapM_cons, bind, Except.bind] at h
    cases ho : prodIdx nd fs o with
    | none => simp [ho] at h
    | some i =>
      simp only [ho] at h
      split at h
      · cases h
      · next rest hrest =>
        simp only [pure, Except.pure] at h
        cases h
        obtain ⟨h1, h2⟩ := ih rest hrest
        refine ⟨by simp [List.filterMap_cons, ho, h1], ?_⟩
        intro o' ho'
        rcases List.mem_cons.mp ho' with rfl | ho'
        · simp [ho]
        · exact h2 o' ho'

/-! ### the call log of a map run only names functions of the pipeline that was run -/
section maprun
open PF.Map

theorem runFuncWith_calls (arr : MFunc → List Nat → List Bool → (Nat → List (String × Val)) → String → Val)
    (fs : List MFunc) (shapes : List (String × List Nat)) (masks : List (String × List Bool)) (env : Env) (f : MFunc)
    (r : FuncResult) (h : runFuncWith arr fs shapes masks env f = .ok r) : ∀ c ∈ r.calls, c.name = f.name := by
  have hsingle : ∀ r, runSingle fs env f = .ok r → ∀ c ∈ r.calls, c.name = f.name := by
    intro r h
    unfold runSingle at h
    simp only [bind, Except.bind] at h
    split at h
    · cases h
    · simp only [pure, Except.pure] at h
      cases h
      intro c hc
      simp only [List.mem_singleton] at hc
      subst hc; rfl
  have hmapped : ∀ ms sh mk r, runMappedWith arr fs env f ms sh mk = .ok r → ∀ c ∈ r.calls, c.name = f.name := by
    intro ms sh mk r h
    unfold runMappedWith at h
    simp only [bind, Except.bind] at h
    split at h
    · cases h
    · simp only [pure, Except.pure] at h
      cases h
      intro c hc
      simp only [List.mem_map] at hc
      obtain ⟨a, _, rfl⟩ := hc
      rfl
  unfold runFuncWith at h
  split at h
  · split at h
    · exact hsingle r h
    · split at h
      · cases h
      · split at h
        · split at h
          · cases h
          · exact hmapped _ _ _ r h
        · cases h
  · exact hsingle r h

theorem runGenWith_calls (R : Env → MFunc → M FuncResult)
    (hR : ∀ env f r, R env f = .ok r → ∀ c ∈ r.calls, c.name = f.name) (env : Env) :
    ∀ (gen : List MFunc) (rs : List FuncResult), runGenWith R env gen = .ok rs →
      ∀ r ∈ rs, ∀ c ∈ r.calls, ∃ f ∈ gen, c.name = f.name := by
  intro gen
  induction gen with
  | nil => intro rs h; simp [runGenWith, pure, Except.pure] at h; subst h; intro r hr; cases hr
  | cons f rest ih =>
    intro rs h
    simp only [runGenWith, bind, Except.bind] at h
    split at h
    · cases h
    · next r0 hr0 =>
      split at h
      · cases h
      · next rs0 hrs0 =>
        simp only [pure, Except.pure] at h
        cases h
        intro r hr c hc
        rcases List.mem_cons.mp hr with rfl | hr
        · exact ⟨f, List.mem_cons_self .., hR env f _ hr0 c hc⟩
        · obtain ⟨g, hg, hn⟩ := ih rs0 hrs0 r hr c hc
          exact ⟨g, List.mem_cons_of_mem _ hg, hn⟩

theorem runGensWith_calls (R : Env → MFunc → M FuncResult)
    (hR : ∀ env f r, R env f = .ok r → ∀ c ∈ r.calls, c.name = f.name) :
    ∀ (gens : List (List MFunc)) (env : Env) (rs : List FuncResult) (envF : Env), runGensWith R gens env = .ok (rs, envF) →
      ∀ r ∈ rs, ∀ c ∈ r.calls, ∃ g ∈ gens, ∃ f ∈ g, c.name = f.name := by
  intro gens
  induction gens with
  | nil => intro env rs envF h; simp [runGensWith, pure, Except.pure] at h; obtain ⟨rfl, _⟩ := h; intro r hr; cases hr
  | cons gen rest ih =>
    intro env rs envF h
    simp only [runGensWith, bind, Except.bind] at h
    split at h
    · cases h
    · next rs0 hrs0 =>
      split at h
      · cases h
      · next _ x hx =>
        obtain ⟨more, envF'⟩ := x
        simp only [pure, Except.pure] at h
        cases h
        intro r hr c hc
        rcases List.mem_append.mp hr with hr | hr
        · obtain ⟨f, hf, hn⟩ := runGenWith_calls R hR env gen rs0 hrs0 r hr c hc
          exact ⟨gen, List.mem_cons_self .., f, hf, hn⟩
        · obtain ⟨g, hg, f, hf, hn⟩ := ih _ more _ hx r hr c hc
          exact ⟨g, List.mem_cons_of_mem _ hg, f, hf, hn⟩

theorem layers_mem (fs : List MFunc) : ∀ (fuel : Nat) (done : List String) (rest : List MFunc),
    ∀ g ∈ layers fs fuel done rest, ∀ f ∈ g, f ∈ rest := by
  intro fuel
  induction fuel with
  | zero => intro done rest g hg; simp [layers] at hg
  | succ n ih =>
    intro done rest g hg f hf
    simp only [layers] at hg
    split at hg
    · cases hg
    · split at hg
      · cases hg
      · rcases List.mem_cons.mp hg with rfl | hg
        · exact (List.mem_filter.mp hf).1
        · exact (List.mem_filter.mp (ih _ _ g hg f hf)).1

/-- every call of a map run is a call of a function of the pipeline that was run -/
theorem runMapWith_calls (arr : MFunc → List Nat → List Bool → (Nat → List (String × Val)) → String → Val)
    (fs : List MFunc) (inputs : List (String × Val)) (ui : List (String × List Nat)) (r : MapResult)
    (h : runMapWith arr fs inputs ui = .ok r) : ∀ c ∈ r.calls, ∃ f ∈ fs, c.name = f.name := by
  unfold runMapWith at h
  simp only [bind, Except.bind] at h
  split at h
  · cases h
  · split at h
    · simp only [throw, throwThe, MonadExceptOf.throw] at h
      cases h
    · split at h
      · cases h
      · next sm hsm =>
        split at h
        · cases h
        · next x hx =>
          obtain ⟨rs, env⟩ := x
          simp only [pure, Except.pure] at h
          cases h
          intro c hc
          simp only [List.mem_flatMap] at hc
          obtain ⟨r0, hr0, hc0⟩ := hc
          obtain ⟨g, hg, f, hf, hn⟩ := runGensWith_calls _
            (fun env f r h => runFuncWith_calls arr fs _ _ env f r h) _ _ rs env hx r0 hr0 c hc0
          exact ⟨f, layers_mem fs _ _ _ g hg f hf, hn⟩

end maprun

end PF.Sub
