/-
Model of `validate_consistent_axes` (`pipefunc/map/_mapspec.py:384-412`; called by `prepare_run`, `map/_prepare.py`, before
anything runs): the ALGORITHM — group all ArraySpecs by array name in an insertion-ordered dict, then per name first the rank
check and then the walk over the specs with a `position -> index name` dict.  Core Lean only.

What is deterministic in the real code: the dict of names is insertion ordered, so the FIRST name that is refused is
determined; per name the rank ("length") check comes before the walk, so the KIND of the refusal is determined too.  The order
of the specs inside one `set` is not determined, but the walk refuses iff two specs carry different index names at one
position, whatever the order (`walkE_ok_iff` in `Lemmas/MapConsistent.lean`), so accept/refuse, the name and the kind do not
depend on it.  The `set` also removes duplicates; the model keeps them (a list), which changes neither check.
-/
import PfModel.Model.MapRun
namespace PF.MapAxes
open PF PF.Map

/-- which of the two `ValueError`s of `validate_consistent_axes` (`_mapspec.py:397-402` / `:408-412`) -/
inductive Kind
  | length   -- "All axes should have the same length."
  | name     -- "All axes should have the same name at the same index."
  deriving Repr, DecidableEq, Inhabited

def Kind.str : Kind → String
  | .length => "length"
  | .name => "name"

/-- verdicts are comparable (for `decide` witnesses) -/
instance : DecidableEq (Except (String × Kind) Unit) := fun a b =>
  match a, b with
  | .ok (), .ok () => isTrue rfl
  | .error x, .error y => if h : x = y then isTrue (by rw [h]) else isFalse (by intro e; cases e; exact h rfl)
  | .ok _, .error _ => isFalse (by intro e; cases e)
  | .error _, .ok _ => isFalse (by intro e; cases e)

/-- `for mapspec in mapspecs: for spec in mapspec.inputs: …; for spec in mapspec.outputs: …` (`_mapspec.py:387-391`): the
    specs in the order they are added -/
def specsOf (ms : List MSpec) : List ASpec := ms.flatMap fun m => m.inputs ++ m.outputs

/-- `indices[spec.name].add(spec)` on the insertion-ordered `defaultdict(set)` (`_mapspec.py:386, 389, 391`) -/
def addSpec : List (String × List ASpec) → ASpec → List (String × List ASpec)
  | [], a => [(a.name, [a])]
  | (n, l) :: r, a => if n = a.name then (n, l ++ [a]) :: r else (n, l) :: addSpec r a

/-- `indices` after the first loop (`_mapspec.py:386-391`) -/
def group (specs : List ASpec) : List (String × List ASpec) := specs.foldl addSpec []

/-- `len({len(spec.axes) for spec in specs}) > 1` negated (`_mapspec.py:395-396`): all specs have one rank -/
def lengthsOK : List ASpec → Bool
  | [] => true
  | a :: r => r.all fun b => b.axes.length == a.axes.length

/-- `axes[i]` / `i in axes` on `axes: dict[int, str]` (`_mapspec.py:403, 407`) -/
def plookup : List (Nat × String) → Nat → Option String
  | [], _ => none
  | (k, v) :: r, i => if k = i then some v else plookup r i

/-- `axes[i] = axis` (`_mapspec.py:413`) -/
def pset : List (Nat × String) → Nat → String → List (Nat × String)
  | [], i, n => [(i, n)]
  | (k, v) :: r, i, n => if k = i then (k, n) :: r else (k, v) :: pset r i n

/-- `for i, axis in enumerate(spec.axes)` (`_mapspec.py:405-413`), from position `i` on: `none` = the `ValueError` of `:408-412` -/
def walkAxes (m : List (Nat × String)) (i : Nat) : List (Option String) → Option (List (Nat × String))
  | [] => some m
  | none :: r => walkAxes m (i + 1) r                      -- `if axis is not None`
  | some n :: r =>
    match plookup m i with
    | some n' => if n' != n then none else walkAxes (pset m i n) (i + 1) r   -- `if i in axes and axes[i] != axis: raise`
    | none => walkAxes (pset m i n) (i + 1) r

/-- `for spec in specs:` (`_mapspec.py:404`) -/
def walkSpecs (m : List (Nat × String)) : List ASpec → Option (List (Nat × String))
  | [] => some m
  | a :: r => match walkAxes m 0 a.axes with
    | none => none
    | some m' => walkSpecs m' r

/-- the body of `for name, specs in indices.items()` (`_mapspec.py:393-413`): the rank check first, then the walk -/
def checkName (e : String × List ASpec) : Except (String × Kind) Unit :=
  if !lengthsOK e.2 then .error (e.1, .length)
  else match walkSpecs [] e.2 with
    | none => .error (e.1, .name)
    | some _ => .ok ()

/-- `for name, specs in indices.items()` (`_mapspec.py:393`): the first refusal ends the call -/
def checkAll : List (String × List ASpec) → Except (String × Kind) Unit
  | [] => .ok ()
  | e :: r => match checkName e with
    | .error x => .error x
    | .ok _ => checkAll r

/-- `validate_consistent_axes` on the list of all specs -/
def validateSpecs (specs : List ASpec) : Except (String × Kind) Unit := checkAll (group specs)

/-- `validate_consistent_axes(mapspecs)` (`_mapspec.py:384-413`): `.ok ()` or the first refused array name with the kind -/
def validate (ms : List MSpec) : Except (String × Kind) Unit := validateSpecs (specsOf ms)

/-- the MapSpecs of a function list as `prepare_run` hands them over (functions without MapSpec contribute nothing) -/
def mapspecsOf (fs : List MFunc) : List MSpec := fs.filterMap (·.mapspec)

end PF.MapAxes
