#!/usr/bin/env python3
"""Run the registered quick check of each seeded change's property against a scratch worktree with the change applied;
record the outcome in seeded/<id>/meta.json and print the table (used for DESIGN.md)."""
import json, pathlib, subprocess, sys, os
from concurrent.futures import ThreadPoolExecutor
V = pathlib.Path(__file__).resolve().parent.parent
only = sys.argv[1:]
rows = []
def one(d):
    meta = json.loads((d / "meta.json").read_text())
    if only and not any(o in d.name for o in only):
        return (d.name, meta)
    if meta.get("detected_by") and not os.environ.get("FORCE"):
        return (d.name, meta)
    pid = meta["property"]
    r = subprocess.run([str(V / "tools" / "try_seed.sh"), pid, str(d / "patch.diff")], capture_output=True, text=True,
                       env={**os.environ, "SEEDS": os.environ.get("SEEDS", "0 1")})
    viol = [l for l in r.stdout.splitlines() if l.startswith("VIOLATION")]
    concrete = [l for l in viol if "no-failing-input-found" not in l]
    if r.returncode not in (0, 1):          # infrastructure trouble (killed, build failure): keep the old record
        print(f"{d.name}: try_seed exit {r.returncode}, record kept: {r.stdout[-300:]}", file=sys.stderr)
        return (d.name, meta)
    meta["detected_by"] = {"check": f"./check {pid} --tier quick (seeds {os.environ.get('SEEDS', '0 1')})", "exit": r.returncode,
                           "violation_lines": len(viol), "with_concrete_replay": len(concrete),
                           "first": (concrete or viol or [""])[0][:240]}
    (d / "meta.json").write_text(json.dumps(meta, indent=1))
    print(f"done {d.name} exit={r.returncode} concrete={len(concrete)}/{len(viol)}", file=sys.stderr, flush=True)
    return (d.name, meta)
with ThreadPoolExecutor(int(os.environ.get("JOBS", "1"))) as ex:      # JOBS=n: n scratch copies at a time
    rows = list(ex.map(one, sorted((V / "seeded").iterdir())))
for name, m in rows:
    db = m.get("detected_by") or {}
    print(f"{name:22} {m['property']}  exit={db.get('exit')}  concrete={db.get('with_concrete_replay')}  | {str(m.get('breaks'))[:70]} | needs: {str(m.get('needs'))[:90]}")
