import PfModel.Lemmas.Validate
/-!
C12 — Ill-formed pipelines and inputs are rejected before any user code runs.

`construct` / `startMap` (`Model/Validate.lean`) are the model of the code: the checks of `PipeFunc(...)`, `Pipeline([...])`,
`prepare_run` and `RunInfo.create` in the code's order, with the effects on the run folder and the user calls as an explicit list.
* `C12_reject_*` : each ill-formedness named by the property statement makes `construct` / `startMap` fail
  (whatever else is wrong with the request, and whichever check fires first);
* `C12_construct_iff`, `C12_startMap_iff` (= `C12_complete`): nothing else is ever refused;
* `C12_no_effects` : a refused start has invoked no user function and written nothing; with `cleanup=False` it has done nothing at all;
* `C12_order`, `C12_order_model` : the same ordering fact, re-proved by `decide` on the call order extracted from the source.
-/
namespace PF.C12
open PF PF.Map PF.Validate

/-! ### construction -/

/-- what `PipeFunc(...)` refuses -/
def FuncFault (f : MFunc) : Prop :=
  selfNamed f = true ∨ mapspecInputNotParam f = true ∨ mapspecInputBound f = true ∨ mapspecOutputSetDiffers f = true ∨
  mapspecMalformed f = true

/-- what `Pipeline._validate` refuses -/
def PipelineFault (gs : List MFunc) : Prop :=
  defaultsConsistent gs = false ∨ gs.any mapspecOutputOrderDiffers = true ∨ axesConsistent gs = false ∨ acyclic gs = false

/-- a function is faulty, or adding the functions one at a time (as `Pipeline.__init__` does) meets a clash of output names or
    an invalid intermediate pipeline -/
def IllFormed (fs : List MFunc) : Prop :=
  (∃ f ∈ fs, FuncFault f) ∨ ∃ pre f post, fs = pre ++ f :: post ∧ (clashes f pre = true ∨ PipelineFault (pre ++ [f]))

/-- **Construction refuses exactly the ill-formed pipelines** (reject and complete in one statement). -/
theorem C12_construct_iff (fs : List MFunc) : Refused (construct fs) ↔ IllFormed fs := by
  rw [refused_iff_not_ok, Ne, construct_ok_iff]
  simp only [pipeFuncValidate_ok_iff, pipelineValidate_ok_iff, IllFormed, FuncFault, PipelineFault]
  constructor
  · intro h
    apply Classical.byContradiction
    intro hn
    apply h
    simp only [not_or, not_exists, not_and, Bool.not_eq_true, Bool.not_eq_false] at hn
    refine ⟨fun f hf => ?_, fun pre f post hs => ?_⟩
    · have := hn.1 f hf
      exact ⟨this.1, this.2.1, this.2.2.1, this.2.2.2.1, this.2.2.2.2⟩
    · have := hn.2 pre f post hs
      exact ⟨this.1, this.2.1, this.2.2.1, this.2.2.2.1, this.2.2.2.2⟩
  · intro h hok
    rcases h with ⟨f, hf, hfault⟩ | ⟨pre, f, post, hs, hfault⟩
    · have := hok.1 f hf
      rcases hfault with h | h | h | h | h <;> simp_all
    · have := hok.2 pre f post hs
      rcases hfault with h | h | h | h | h <;> simp_all

/-- **Duplicate output names**: an output of a function is also an output of a function listed before it. -/
theorem C12_reject_duplicate_output (fs pre post : List MFunc) (f : MFunc) (o : String) (hs : fs = pre ++ f :: post)
    (ho : o ∈ f.outputs) (hdup : o ∈ allOutputs pre) : Refused (construct fs) := by
  rw [C12_construct_iff]
  refine Or.inr ⟨pre, f, post, hs, Or.inl ?_⟩
  simp only [clashes, List.any_eq_true, List.contains_iff_mem]
  exact ⟨o, ho, hdup⟩

/-- **An output named like one of the function's own parameters.** -/
theorem C12_reject_self_named (fs : List MFunc) (f : MFunc) (hf : f ∈ fs) (o : String) (ho : o ∈ f.outputs)
    (hp : o ∈ f.params.map (·.1)) : Refused (construct fs) := by
  rw [C12_construct_iff]
  refine Or.inl ⟨f, hf, Or.inl ?_⟩
  simp only [selfNamed, List.any_eq_true, List.contains_iff_mem, paramNames]
  exact ⟨o, ho, hp⟩

/-- **Cyclic dependencies**: a non-empty set of functions each of which consumes (through a parameter that is not bound) an
    output of a function of the set — in particular the functions on a dependency cycle. -/
theorem C12_reject_cycle (fs : List MFunc) (S : List String) (hS : DependencyClosed fs S) (f : MFunc) (hf : f ∈ fs)
    (hfS : f.name ∈ S) : Refused (construct fs) := by
  rw [C12_construct_iff]
  have hne : fs ≠ [] := by intro h; rw [h] at hf; cases hf
  obtain ⟨pre, g, hs, hw⟩ := whole_is_last_prefix fs hne
  refine Or.inr ⟨pre, g, [], hs, Or.inr (Or.inr (Or.inr (Or.inr ?_)))⟩
  rw [hw]
  exact acyclic_false_of_closed fs S hS f hf hfS

/-- **Inconsistent defaults**: some default of a shared root argument differs from the first default recorded for it. -/
theorem C12_reject_inconsistent_defaults (fs : List MFunc) (p : String) (v w : Val) (hv : (p, v) ∈ pdefaults fs)
    (hw : alookup (pdefaults fs) p = some w) (hne : valEq v w = false) : Refused (construct fs) := by
  rw [C12_construct_iff]
  have hnil : fs ≠ [] := by
    intro h; rw [h] at hv; simp [pdefaults] at hv
  obtain ⟨pre, g, hs, hwhole⟩ := whole_is_last_prefix fs hnil
  refine Or.inr ⟨pre, g, [], hs, Or.inr (Or.inl ?_)⟩
  rw [hwhole]
  simp only [defaultsConsistent, List.all_eq_false]
  exact ⟨(p, v), hv, by simp [hw, hne]⟩

/-- **A MapSpec that disagrees with its function's signature**: an input that is not a parameter, a bound input, output names
    that are not the function's (as a set — `PipeFunc` — or in order — `Pipeline`). -/
theorem C12_reject_mapspec_signature (fs : List MFunc) (f : MFunc) (hf : f ∈ fs) (ms : MSpec) (hms : f.mapspec = some ms)
    (h : (∃ a ∈ ms.inputs, a.name ∉ f.params.map (·.1)) ∨ (∃ a ∈ ms.inputs, (alookup f.bound a.name).isSome = true) ∨
         ms.outputs.map (·.name) ≠ f.outputs) : Refused (construct fs) := by
  rw [C12_construct_iff]
  rcases h with ⟨a, ha, hn⟩ | ⟨a, ha, hb⟩ | hne
  · refine Or.inl ⟨f, hf, Or.inr (Or.inl ?_)⟩
    simp only [mapspecInputNotParam, hms, List.any_eq_true, paramNames]
    exact ⟨a, ha, by simpa [List.contains_iff_mem] using hn⟩
  · refine Or.inl ⟨f, hf, Or.inr (Or.inr (Or.inl ?_))⟩
    simp only [mapspecInputBound, hms, List.any_eq_true]
    exact ⟨a, ha, hb⟩
  · -- the order check runs on the pipeline that contains `f`, at the latest on the whole list
    have hnil : fs ≠ [] := by intro h; rw [h] at hf; cases hf
    obtain ⟨pre, g, hs, hwhole⟩ := whole_is_last_prefix fs hnil
    refine Or.inr ⟨pre, g, [], hs, Or.inr (Or.inr (Or.inl ?_))⟩
    rw [hwhole]
    simp only [List.any_eq_true]
    exact ⟨f, hf, by simp [mapspecOutputOrderDiffers, hms, hne]⟩

/-- **A malformed MapSpec** (`MapSpec.__post_init__`): an output axis that is `:`, two outputs with different indices, or an
    input index that the output does not carry. -/
theorem C12_reject_mapspec_malformed (fs : List MFunc) (f : MFunc) (hf : f ∈ fs) (ms : MSpec) (hms : f.mapspec = some ms)
    (h : (∃ o ∈ ms.outputs, none ∈ o.axes) ∨
         (∃ o ∈ ms.outputs.drop 1, o.axes.filterMap id ≠ (ms.outputs.headD default).axes.filterMap id) ∨
         (∃ i ∈ ms.inputIndices, i ∉ ms.outputIndices)) : Refused (construct fs) := by
  rw [C12_construct_iff]
  refine Or.inl ⟨f, hf, Or.inr (Or.inr (Or.inr (Or.inr ?_)))⟩
  simp only [mapspecMalformed, hms, Bool.or_eq_true, List.any_eq_true, Bool.not_eq_eq_eq_not, Bool.not_true, List.all_eq_false]
  rcases h with ⟨o, ho, hn⟩ | ⟨o, ho, hne⟩ | ⟨i, hi, hn⟩
  · exact Or.inl (Or.inl ⟨o, ho, none, hn, rfl⟩)
  · exact Or.inl (Or.inr ⟨o, ho, by simpa using hne⟩)
  · exact Or.inr ⟨i, hi, by simpa [List.contains_iff_mem] using hn⟩

/-- **MapSpecs that disagree with each other about an array's axes**: two specs of the same array with different ranks, or with
    different names for the same axis. -/
theorem C12_reject_axes (fs : List MFunc) (a b : ASpec) (ha : a ∈ allSpecs fs) (hb : b ∈ allSpecs fs) (hn : a.name = b.name)
    (hdis : axesAgree a.axes b.axes = false) : Refused (construct fs) := by
  rw [C12_construct_iff]
  have hnil : fs ≠ [] := by intro h; rw [h] at ha; simp [allSpecs] at ha
  obtain ⟨pre, g, hs, hwhole⟩ := whole_is_last_prefix fs hnil
  refine Or.inr ⟨pre, g, [], hs, Or.inr (Or.inr (Or.inr (Or.inl ?_)))⟩
  rw [hwhole]
  simp only [axesConsistent, List.all_eq_false]
  refine ⟨a, ha, ?_⟩
  simp only [Bool.not_eq_true, List.all_eq_false]
  exact ⟨b, hb, by simp [compatible, hn, hdis]⟩

/-- what `axesAgree = false` means: different rank, or some position where both name the axis, differently -/
theorem C12_axes_disagree_iff (xs ys : List (Option String)) :
    axesAgree xs ys = false ↔ xs.length ≠ ys.length ∨ ∃ (i : Nat) (x y : String), xs[i]? = some (some x) ∧ ys[i]? = some (some y) ∧ x ≠ y := by
  induction xs generalizing ys with
  | nil => cases ys <;> simp [axesAgree]
  | cons x xs ih =>
    cases ys with
    | nil => simp [axesAgree]
    | cons y ys =>
      simp only [axesAgree, Bool.and_eq_false_iff, List.length_cons]
      rw [ih ys]
      constructor
      · rintro (h | h | ⟨i, a, b, h1, h2, h3⟩)
        · right
          cases x with
          | none => simp at h
          | some a =>
            cases y with
            | none => simp at h
            | some b => exact ⟨0, a, b, rfl, rfl, by simpa using h⟩
        · left; omega
        · right; exact ⟨i + 1, a, b, by simpa using h1, by simpa using h2, h3⟩
      · rintro (h | ⟨i, a, b, h1, h2, h3⟩)
        · right; left; omega
        · cases i with
          | zero =>
            simp only [List.getElem?_cons_zero, Option.some.injEq] at h1 h2
            left; subst h1 h2; simpa using h3
          | succ i =>
            right; right; exact ⟨i, a, b, by simpa using h1, by simpa using h2, h3⟩

/-! ### the start of `map` -/

/-- what `prepare_run` / `RunInfo.create` refuse, as a disjunction of the named checks (in the code's order) -/
def MapFault (fs : List MFunc) (r : Req) : Prop :=
  (r.executor = true ∧ r.parallel = false) ∨
  (∃ ns, r.outputNames = some ns ∧ ∃ n ∈ ns, n ∉ nodeNames fs) ∨
  Refused (validateInputs fs r.inputs) ∨
  axesConsistent fs = false ∨
  Refused (PF.Pieces.validateFixed fs (normInputs r.inputs) r.fixed) ∨
  (∃ n ∈ r.storage.names, n ∉ storageRegistry) ∨
  (∃ f, f ∈ storageUnresolved fs r.storage) ∨
  (r.folder = true ∧ r.cleanup = false ∧ ∃ p, r.prev = some p ∧ Refused (comparePrev fs r p)) ∨
  listForNd fs r.inputs = true ∨
  Refused (shapesOf fs r.inputs r.internal)

/-- **The start of `map` refuses exactly the faulty requests** (reject and complete in one statement). -/
theorem C12_startMap_iff (fs : List MFunc) (r : Req) : Refused (startMap fs r).2 ↔ MapFault fs r := by
  rw [startMap, refused_exec_iff]
  unfold MapFault
  rw [← checkExecutor_refused, ← checkStorage_refused, ← checkInputs_refused, ← axesStep_refused, ← checkOutputNames_refused,
    ← checkStorageDefault_refused,
    ← ofMap_refused "complete-inputs" (validateInputs fs r.inputs), ← ofMap_refused "map-shapes" (shapesOf fs r.inputs r.internal),
    ← ofMap_refused "fixed-indices" (PF.Pieces.validateFixed fs (normInputs r.inputs) r.fixed)]
  constructor
  · rintro ⟨n, res, hm, hr⟩
    rcases (check_mem_startSteps fs r n res).mp hm with
      ⟨_, rfl⟩ | ⟨_, rfl⟩ | ⟨_, rfl⟩ | ⟨_, rfl⟩ | ⟨_, rfl⟩ | ⟨_, rfl⟩ | ⟨_, rfl⟩ | ⟨hf, hc, p, hp, _, rfl⟩ | ⟨_, rfl⟩ | ⟨_, rfl⟩
    · exact Or.inl hr
    · exact Or.inr (Or.inl hr)
    · exact Or.inr (Or.inr (Or.inl hr))
    · exact Or.inr (Or.inr (Or.inr (Or.inl hr)))
    · exact Or.inr (Or.inr (Or.inr (Or.inr (Or.inl hr))))
    · exact Or.inr (Or.inr (Or.inr (Or.inr (Or.inr (Or.inl hr)))))
    · exact Or.inr (Or.inr (Or.inr (Or.inr (Or.inr (Or.inr (Or.inl hr))))))
    · exact Or.inr (Or.inr (Or.inr (Or.inr (Or.inr (Or.inr (Or.inr (Or.inl ⟨hf, hc, p, hp, hr⟩)))))))
    · exact Or.inr (Or.inr (Or.inr (Or.inr (Or.inr (Or.inr (Or.inr (Or.inr (Or.inl hr))))))))
    · exact Or.inr (Or.inr (Or.inr (Or.inr (Or.inr (Or.inr (Or.inr (Or.inr (Or.inr hr))))))))
  · intro h
    have mem := fun n res => (check_mem_startSteps fs r n res).mpr
    rcases h with h | h | h | h | h | h | h | ⟨hf, hc, p, hp, h⟩ | h | h
    · exact ⟨_, _, mem _ _ (Or.inl ⟨rfl, rfl⟩), h⟩
    · exact ⟨_, _, mem _ _ (Or.inr (Or.inl ⟨rfl, rfl⟩)), h⟩
    · exact ⟨_, _, mem _ _ (Or.inr (Or.inr (Or.inl ⟨rfl, rfl⟩))), h⟩
    · exact ⟨_, _, mem _ _ (Or.inr (Or.inr (Or.inr (Or.inl ⟨rfl, rfl⟩)))), h⟩
    · exact ⟨_, _, mem _ _ (Or.inr (Or.inr (Or.inr (Or.inr (Or.inl ⟨rfl, rfl⟩))))), h⟩
    · exact ⟨_, _, mem _ _ (Or.inr (Or.inr (Or.inr (Or.inr (Or.inr (Or.inl ⟨rfl, rfl⟩)))))), h⟩
    · exact ⟨_, _, mem _ _ (Or.inr (Or.inr (Or.inr (Or.inr (Or.inr (Or.inr (Or.inl ⟨rfl, rfl⟩))))))), h⟩
    · exact ⟨_, _, mem _ _ (Or.inr (Or.inr (Or.inr (Or.inr (Or.inr (Or.inr (Or.inr (Or.inl ⟨hf, hc, p, hp, rfl, rfl⟩)))))))), h⟩
    · exact ⟨_, _, mem _ _ (Or.inr (Or.inr (Or.inr (Or.inr (Or.inr (Or.inr (Or.inr (Or.inr (Or.inl ⟨rfl, rfl⟩))))))))), h⟩
    · exact ⟨_, _, mem _ _ (Or.inr (Or.inr (Or.inr (Or.inr (Or.inr (Or.inr (Or.inr (Or.inr (Or.inr ⟨rfl, rfl⟩))))))))), h⟩

/-- **An executor combined with `parallel=False`.** -/
theorem C12_reject_executor (fs : List MFunc) (r : Req) (he : r.executor = true) (hp : r.parallel = false) :
    Refused (startMap fs r).2 := (C12_startMap_iff fs r).mpr (Or.inl ⟨he, hp⟩)

/-- **Unknown storage name**: some registry name the `storage=` argument mentions (the string itself, or any value of the
    dictionary form) is not registered. -/
theorem C12_reject_unknown_storage (fs : List MFunc) (r : Req) (n : String) (hn : n ∈ r.storage.names) (h : n ∉ storageRegistry) :
    Refused (startMap fs r).2 := (C12_startMap_iff fs r).mpr (Or.inr (Or.inr (Or.inr (Or.inr (Or.inr (Or.inl ⟨n, hn, h⟩))))))

/-- **A `storage=` dictionary that resolves no storage for a mapped output**: no `""` default and no entry for a function whose
    MapSpec has inputs (`RunInfo.storage_class` would raise in `init_store`, after the folder was written: DF-37). -/
theorem C12_reject_storage_default (fs : List MFunc) (r : Req) (d : List (String × String)) (hs : r.storage = .perOutput d)
    (hd : alookup d "" = none) (f : MFunc) (hf : f ∈ fs) (ms : MSpec) (hms : f.mapspec = some ms) (hin : ms.inputs ≠ [])
    (hk : alookup d (outputKey f) = none) : Refused (startMap fs r).2 := by
  refine (C12_startMap_iff fs r).mpr (Or.inr (Or.inr (Or.inr (Or.inr (Or.inr (Or.inr (Or.inl ⟨f, ?_⟩)))))))
  rw [hs]
  simp only [storageUnresolved, hd, Option.isSome_none, Bool.false_eq_true, ↓reduceIte, List.mem_filter, hms, hk, Option.isNone_none,
    Bool.and_true, Bool.not_eq_eq_eq_not, Bool.not_true, List.isEmpty_eq_false_iff]
  exact ⟨hf, hin⟩

/-- **An unknown name in `output_names=`**: neither an output nor a root argument of the pipeline. -/
theorem C12_reject_unknown_output_name (fs : List MFunc) (r : Req) (ns : List String) (hns : r.outputNames = some ns) (n : String)
    (hn : n ∈ ns) (h : n ∉ nodeNames fs) : Refused (startMap fs r).2 :=
  (C12_startMap_iff fs r).mpr (Or.inr (Or.inl ⟨ns, hns, n, hn, h⟩))

/-- **`fixed_indices` that `_validate_fixed_indices` (C06's model `PF.Pieces.validateFixed`) refuses**: an index out of bounds
    for an input array, an axis name no MapSpec knows, a reduced axis. -/
theorem C12_reject_fixed_indices (fs : List MFunc) (r : Req)
    (h : Refused (PF.Pieces.validateFixed fs (normInputs r.inputs) r.fixed)) : Refused (startMap fs r).2 :=
  (C12_startMap_iff fs r).mpr (Or.inr (Or.inr (Or.inr (Or.inr (Or.inl h)))))

/-- … in particular **an axis name in `fixed_indices` that no MapSpec of the pipeline mentions** (whatever else is wrong). -/
theorem C12_reject_fixed_unknown_axis (fs : List MFunc) (r : Req) (fx : List (String × PF.Pieces.Sel)) (hfx : r.fixed = some fx)
    (kv : String × PF.Pieces.Sel) (hkv : kv ∈ fx) (h : kv.1 ∉ PF.Pieces.knownAxes (PF.Pieces.mapspecAxes fs)) :
    Refused (startMap fs r).2 := by
  apply C12_reject_fixed_indices
  rw [hfx]
  unfold PF.Pieces.validateFixed
  simp only [bind, Except.bind]
  cases PF.Pieces.checkInputs (normInputs r.inputs) fx (PF.Pieces.mapspecAxes fs) with
  | error e => exact ⟨e, rfl⟩
  | ok u =>
    have : (fx.any fun kv => !(PF.Pieces.knownAxes (PF.Pieces.mapspecAxes fs)).contains kv.1) = true := by
      simp only [List.any_eq_true, Bool.not_eq_eq_eq_not, Bool.not_true]
      exact ⟨kv, hkv, by simpa [List.contains_iff_mem] using h⟩
    simp only [this, ↓reduceIte]
    exact ⟨_, rfl⟩

/-- **Missing input**: a root argument with neither an input nor a default. -/
theorem C12_reject_missing_input (fs : List MFunc) (r : Req) (p : String) (hp : p ∈ rootArgs fs)
    (hi : p ∉ akeys r.inputs) (hd : p ∉ akeys (pdefaults fs)) : Refused (startMap fs r).2 := by
  refine (C12_startMap_iff fs r).mpr (Or.inr (Or.inr (Or.inl ?_)))
  unfold validateInputs
  simp only [bind, Except.bind]
  cases hfl : (rootArgs fs).filter (fun x => !(akeys r.inputs ++ akeys (pdefaults fs)).contains x) with
  | nil =>
    have := List.filter_eq_nil_iff.mp hfl p hp
    simp [List.contains_iff_mem, hi, hd] at this
  | cons m tl => exact ⟨_, rfl⟩

/-- **Surplus input**: an input (or default) that is not a root argument of the pipeline. -/
theorem C12_reject_surplus_input (fs : List MFunc) (r : Req) (k : String) (hk : k ∈ akeys r.inputs ++ akeys (pdefaults fs))
    (hr : k ∉ rootArgs fs) : Refused (startMap fs r).2 := by
  refine (C12_startMap_iff fs r).mpr (Or.inr (Or.inr (Or.inl ?_)))
  unfold validateInputs
  simp only [bind, Except.bind]
  cases hfl : (rootArgs fs).filter (fun x => !(akeys r.inputs ++ akeys (pdefaults fs)).contains x) with
  | cons m tl => exact ⟨_, rfl⟩
  | nil =>
    simp only [pure, Except.pure]
    cases hf2 : (akeys r.inputs ++ akeys (pdefaults fs)).filter (fun x => !(rootArgs fs).contains x) with
    | nil =>
      have := List.filter_eq_nil_iff.mp hf2 k hk
      simp [List.contains_iff_mem, hr] at this
    | cons m tl => exact ⟨_, rfl⟩

/-- **A list where an array of rank > 1 is expected.** -/
theorem C12_reject_list_for_nd (fs : List MFunc) (r : Req) (h : listForNd fs r.inputs = true) : Refused (startMap fs r).2 :=
  (C12_startMap_iff fs r).mpr (Or.inr (Or.inr (Or.inr (Or.inr (Or.inr (Or.inr (Or.inr (Or.inr (Or.inl h)))))))))

/-- **Array inputs whose rank or zipped dimensions contradict the MapSpecs** (and every other way `map_shapes` fails: a
    non-array for a mapped input, a missing internal shape): whenever the shape computation of C01's model (`PF.Map.mapShapes`,
    i.e. `MapSpec.shape` per function in topological order) refuses, so does the start of `map`.
    (Formerly `C12_reject_shapes_partial`.)  The missing half — a rank mismatch / unequal zipped dimensions of root inputs make
    `mapShapes` refuse, for all pipelines, and `mapShapes` refuses **iff** an explicit `ShapeFault` holds — is proved in
    `Props/C12Shapes.lean`: `C12_mapShapes_refused_iff`, `C12_reject_rank`, `C12_reject_zipped`, `C12_reject_not_array`. -/
theorem C12_reject_shapes (fs : List MFunc) (r : Req) (h : Refused (shapesOf fs r.inputs r.internal)) : Refused (startMap fs r).2 :=
  (C12_startMap_iff fs r).mpr (Or.inr (Or.inr (Or.inr (Or.inr (Or.inr (Or.inr (Or.inr (Or.inr (Or.inr h)))))))))

/-- **Complete**: a request none of whose checks fails is accepted (the other half of `C12_startMap_iff`, stated on its own). -/
theorem C12_complete (fs : List MFunc) (r : Req) (h : ¬ MapFault fs r) : (startMap fs r).2 = .ok () := by
  have := mt (C12_startMap_iff fs r).mp h
  rcases exec_result_cases (startSteps fs r) with hok | ⟨e, he⟩
  · exact hok
  · exact (this ⟨e, he⟩).elim

/-! ### no effects before a refusal -/

/-- **Before any user function, without altering the run folder.**  Whenever the start of `map` refuses a request, no user
    function has been invoked and nothing has been written; the only effect that can have happened is the wipe the caller
    asked for with `cleanup=True`, and with `cleanup=False` (or without a run folder) nothing has happened at all. -/
theorem C12_no_effects (fs : List MFunc) (r : Req) (e : VErr) (h : (startMap fs r).2 = .error e) :
    (∀ x ∈ (startMap fs r).1, x.isCall = false ∧ x.isWrite = false) ∧
    ((r.cleanup = false ∨ r.folder = false) → (startMap fs r).1 = []) := by
  unfold startMap at h ⊢
  have tail : ∀ e', (exec (tailChecks fs r ++ effectSteps fs r)).2 = .error e' →
      (exec (tailChecks fs r ++ effectSteps fs r)).1 = [] := by
    intro e' he'
    rcases exec_checks _ (tailChecks_isCheck fs r) (effectSteps fs r) with heq | ⟨e2, heq⟩
    · rw [heq, effectSteps, exec_effs] at he'; cases he'
    · rw [heq]
  simp only [startSteps, List.append_assoc] at h ⊢
  rcases exec_checks _ (headChecks_isCheck fs r) (folderSteps fs r ++ (tailChecks fs r ++ effectSteps fs r)) with heq | ⟨e2, heq⟩
  · rw [heq] at h ⊢
    unfold folderSteps at h ⊢
    cases hf : r.folder <;> cases hc : r.cleanup <;> simp only [hf, hc, Bool.false_eq_true, ↓reduceIte, List.nil_append] at h ⊢
    · simp [tail e h]
    · simp [tail e h]
    · cases hp : r.prev with
      | none => simp only [hp, List.nil_append] at h ⊢; simp [tail e h]
      | some p =>
        simp only [hp, List.cons_append, List.nil_append, exec_check] at h ⊢
        cases hcmp : comparePrev fs r p with
        | error e3 => simp
        | ok u => simp only [hcmp] at h ⊢; simp [tail e h]
    · simp only [List.cons_append, List.nil_append, exec] at h ⊢
      simp [tail e h, Effect.isCall, Effect.isWrite]
  · rw [heq]; simp

/-! ### non-vacuity and witnesses -/

private def f (n : String) (ps : List String) (o : String) : MFunc :=
  { name := n, params := ps.map fun p => (p, p), outputs := [o], mapspec := none, ret := none, internal := none, defaults := [], bound := [] }

private def mapped (n x y : String) : MFunc :=
  { f n [x] y with mapspec := some { inputs := [{ name := x, axes := [some "i"] }], outputs := [{ name := y, axes := [some "i"] }] } }

private def req (inputs : List (String × Val)) : Req :=
  { inputs := inputs, internal := [], storage := "dict", folder := true, cleanup := false, executor := false, parallel := false,
    order := [], prev := none }

/-- a well-formed pipeline is constructed, and a well-formed request accepted: write, create the store, call `g` twice -/
example : construct [mapped "g" "x" "y", f "h" ["y"] "z"] = .ok () := by decide
example : startMap [mapped "g" "x" "y"] (req [("x", .arr [2] [.int 1, .int 2])]) =
    ([.writeRunInfo, .writeInputs, .writeDefaults, .mkdirStore "y", .call "g", .call "g"], .ok ()) := by decide
/-- the cycle f → g → f is refused as `NetworkXUnfeasible` -/
example : construct [f "f" ["b"] "a", f "g" ["a"] "b"] = .error ⟨.unfeasible, "cycle"⟩ := by decide
example : DependencyClosed [f "f" ["b"] "a", f "g" ["a"] "b"] ["f", "g"] := by
  intro h hh _; simp only [List.mem_cons, List.not_mem_nil, or_false] at hh
  rcases hh with rfl | rfl
  · exact ⟨"g", by decide, by decide⟩
  · exact ⟨"f", by decide, by decide⟩
example : construct [f "f" ["x"] "a", f "g" ["x"] "a"] = .error ⟨.value, "duplicate-output"⟩ := by decide
example : construct [f "f" ["x"] "x"] = .error ⟨.value, "output-is-own-parameter"⟩ := by decide
example : construct [{ f "f" ["p"] "a" with defaults := [("p", .int 1)] }, { f "g" ["p"] "b" with defaults := [("p", .int 2)] }]
    = .error ⟨.value, "inconsistent-defaults"⟩ := by decide
private def mappedJ : MFunc :=
  { f "h" ["y"] "z" with mapspec := some { inputs := [{ name := "y", axes := [some "j"] }], outputs := [{ name := "z", axes := [some "j"] }] } }
example : construct [mapped "g" "x" "y", mappedJ] = .error ⟨.value, "inconsistent-axes"⟩ := by decide
/-- refusals at the start of `map` leave an existing `cleanup=False` folder alone -/
example : startMap [mapped "g" "x" "y"] (req []) = ([], .error ⟨.value, "complete-inputs"⟩) := by decide
example : startMap [mapped "g" "x" "y"] { req [("x", .arr [2] [.int 1, .int 2])] with storage := "nope" }
    = ([], .error ⟨.value, "unknown-storage"⟩) := by decide
example : startMap [mapped "g" "x" "y"] (req [("x", .arr [2, 1] [.int 1, .int 2])]) = ([], .error ⟨.value, "map-shapes"⟩) := by decide
private def sp (n : String) (ax : List (Option String)) : ASpec := ⟨n, ax⟩
private def zipped : MFunc :=
  { f "g" ["x", "w"] "y" with mapspec := some (MSpec.mk [sp "x" [some "i"], sp "w" [some "i"]] [sp "y" [some "i"]]) }
/-- zipped inputs of different lengths -/
example : startMap [zipped] (req [("x", .arr [2] [.int 1, .int 2]), ("w", .arr [3] [.int 1, .int 2, .int 3])])
    = ([], .error ⟨.value, "map-shapes"⟩) := by decide
/-- a nested list where a 2-D array is expected -/
example : listForNd [{ f "g" ["x"] "y" with mapspec := some (MSpec.mk [sp "x" [some "i", none]] [sp "y" [some "i"]]) }]
    [("x", .tup [.tup [.int 1]])] = true := by decide
example : startMap [mapped "g" "x" "y"] { req [("x", .int 3)] with cleanup := true } = ([.cleanup], .error ⟨.type, "map-shapes"⟩) := by decide

/-! #### round 2: dictionary-valued `storage=`, `output_names=`, `fixed_indices=` -/
private def x2 : List (String × Val) := [("x", .arr [2] [.int 1, .int 2])]
example : startMap [mapped "g" "x" "y"] { req x2 with storage := .perOutput [("y", "nope")] } = ([], .error ⟨.value, "unknown-storage"⟩) := by
  decide
example : startMap [mapped "g" "x" "y"] { req x2 with storage := .perOutput [("q", "dict")] } = ([], .error ⟨.value, "storage-default"⟩) := by
  decide
example : (startMap [mapped "g" "x" "y"] { req x2 with storage := .perOutput [("", "dict")] }).2 = .ok () := by decide
example : (startMap [mapped "g" "x" "y"] { req x2 with storage := .perOutput [("y", "file_array")] }).2 = .ok () := by decide
/-- a function called once (no MapSpec inputs) needs no storage entry -/
example : (startMap [f "h" ["x"] "z"] { req [("x", .int 1)] with storage := .perOutput [] }).2 = .ok () := by decide
example : Refused (startMap [mapped "g" "x" "y"] { req x2 with storage := .perOutput [("q", "dict")] }).2 :=
  C12_reject_storage_default _ _ [("q", "dict")] rfl (by decide) (mapped "g" "x" "y") List.mem_cons_self _ rfl (by decide) (by decide)
example : Refused (startMap [mapped "g" "x" "y"] { req x2 with storage := .perOutput [("y", "dict"), ("", "Dict")] }).2 :=
  C12_reject_unknown_storage _ _ "Dict" (by decide) (by decide)
example : startMap [mapped "g" "x" "y"] { req x2 with outputNames := some ["y", "zz"] } = ([], .error ⟨.key, "output-names"⟩) := by decide
example : (startMap [mapped "g" "x" "y"] { req x2 with outputNames := some ["y"] }).2 = .ok () := by decide
example : Refused (startMap [mapped "g" "x" "y"] { req x2 with outputNames := some ["y", "zz"] }).2 :=
  C12_reject_unknown_output_name _ _ ["y", "zz"] rfl "zz" (by decide) (by decide)
example : startMap [mapped "g" "x" "y"] { req x2 with fixed := some [("q", .idx 0)] } = ([], .error ⟨.value, "fixed-indices"⟩) := by decide
example : startMap [mapped "g" "x" "y"] { req x2 with fixed := some [("i", .idx 7)] } = ([], .error ⟨.index, "fixed-indices"⟩) := by decide
example : (startMap [mapped "g" "x" "y"] { req x2 with fixed := some [("i", .idx 1)] }).2 = .ok () := by decide
/-- a reduced axis: `h` takes `y` whole -/
example : startMap [mapped "g" "x" "y", f "h" ["y"] "z"] { req x2 with fixed := some [("i", .idx 0)] }
    = ([], .error ⟨.value, "fixed-indices"⟩) := by decide
example : Refused (startMap [mapped "g" "x" "y"] { req x2 with fixed := some [("q", .idx 0)] }).2 :=
  C12_reject_fixed_unknown_axis _ _ [("q", .idx 0)] rfl ("q", .idx 0) List.mem_cons_self (by decide)

/-- malformed MapSpecs: `x[i] -> y[:]`, `x[i, j] -> y[i]` -/
example : construct [{ f "g" ["x"] "y" with mapspec := some (MSpec.mk [sp "x" [some "i"]] [sp "y" [none]]) }]
    = .error ⟨.value, "mapspec-malformed"⟩ := by decide
example : Refused (construct [{ f "g" ["x"] "y" with mapspec := some (MSpec.mk [sp "x" [some "i", some "j"]] [sp "y" [some "i"]]) }]) :=
  C12_reject_mapspec_malformed _ _ List.mem_cons_self _ rfl (Or.inr (Or.inr ⟨"j", by decide, by decide⟩))

end PF.C12
