import PfModel.Lemmas.LazySimCount
import PfModel.Lemmas.LazyTotal
import PfModel.Lemmas.LazySimRev
/-!
C18, call level — the functions `evaluate()` invokes are the functions the eager run invokes.

`PF.Pipe.runTop` is C02's model of the EAGER `Pipeline.run` (memo, call log, used parameters); `PF.Lazy.lrunTop`/`evaluate` are the
lazy request and `_LazyFunction.evaluate`.  The theorems of `Props/C18.lean` tie the lazy side to the eager VALUE (`compose`); here the
lazy side is tied to the eager RUN at the level of calls, for all DAGs (`PipeCache.WF`: unique outputs, consistent defaults, acyclic —
what `Pipeline.__init__` validates), by a step-by-step simulation `lrun ~ run` (Lemmas/LazySimRun.lean).

`entries s = []` says that the request can find nothing in a cache: outside `construct_dag()` for a pipeline without a cache of its
own (or with a still empty one), or the first request of a block.  (A request that DOES find a cached `_LazyFunction` shares nodes
with an earlier request by design; then `C18_exact` says what `evaluate()` invokes.)
-/
namespace PF.C18
open PF PF.Pipe PF.Lazy

/-- **Same calls as the eager run.** If the lazy request `pipeline(o, **kw)` is accepted and `evaluate()` of the returned object
    returns, then the eager run `PF.Pipe.runTop` of the same request succeeds, `evaluate()` returns ITS value, and the user functions
    `evaluate()` invokes (`new`: what it appends to the log of invocations) are, as a multiset, exactly the eager call log — every
    function of the eager run once (eager logs have no duplicates: `C02_each_once_deps_first`), no other; all of them are nodes this
    request created. -/
theorem C18_calls_eq_eager (fs : List Func) (kw : List (String × Val)) (rank : String → Nat) (wf : PipeCache.WF fs rank) (s : LSt)
    (hs : Sess fs s) (hfresh : entries s = []) (o : String) (a : LArg) (s' : LSt) (h : lrunTop fs kw (.name o) s = .ok (a, s'))
    (v : Val) (s'' : LSt) (he : evaluate a s' = .ok (v, s'')) :
    ∃ out new, runTop fs kw (.name o) = .ok out ∧ v = out.value ∧ s''.ev.log = s'.ev.log ++ new ∧
      (callNames s''.nodes new).Perm out.calls ∧ (∀ i ∈ new, s.nodes.length ≤ i) := by
  obtain ⟨out, ext, hrun, hext, hcalls, hden, hneeded, hfreshN⟩ := lrunTop_name_sim wf hs hfresh h
  obtain ⟨hev, _, hs'⟩ := C18_deferred fs kw rank wf s hs o a s' h
  obtain ⟨new, h1, h2, h3, h4⟩ := calls_now hs hev hs' ⟨hext, hcalls, hden, hneeded, hfreshN⟩ he
  exact ⟨out, new, hrun, h1, h2, h3, h4⟩

/-- **…whatever happens in between.** Let the session go on after the request (`sL`: any later state of the session — further
    requests that share nodes with this one through a cache, `evaluate()`s of other objects, blocks).  After `evaluate()` of the
    object the request returned, the nodes the request created (ids from `s.nodes.length` up to `s'.nodes.length`) that have been
    invoked so far are exactly the functions of the eager run, each once; and the value is the eager value. -/
theorem C18_calls_eq_eager_later (fs : List Func) (kw : List (String × Val)) (rank : String → Nat) (wf : PipeCache.WF fs rank) (s : LSt)
    (hs : Sess fs s) (hfresh : entries s = []) (o : String) (a : LArg) (s' : LSt) (h : lrunTop fs kw (.name o) s = .ok (a, s'))
    (sL : LSt) (more : List Lazy.Node) (hL : Sess fs sL) (hmore : sL.nodes = s'.nodes ++ more)
    (v : Val) (sL' : LSt) (he : evaluate a sL = .ok (v, sL')) :
    ∃ out, runTop fs kw (.name o) = .ok out ∧ v = out.value ∧
      (callNames sL'.nodes (sL'.ev.log.filter fun i => s.nodes.length ≤ i && i < s'.nodes.length)).Perm out.calls := by
  obtain ⟨out, ext, hrun, hext, hcalls, hden, hneeded, hfreshN⟩ := lrunTop_name_sim wf hs hfresh h
  obtain ⟨h1, h2⟩ := calls_later ⟨hext, hcalls, hden, hneeded, hfreshN⟩ hL hmore he
  exact ⟨out, hrun, h1, h2⟩

/-- the same for a whole-tuple request `pipeline(("b", "c"), **kw)`: `evaluate()` returns the raw tuple of the eager run and
    invokes exactly the eager run's functions, each once -/
theorem C18_calls_eq_eager_whole (fs : List Func) (kw : List (String × Val)) (rank : String → Nat) (wf : PipeCache.WF fs rank) (s : LSt)
    (hs : Sess fs s) (hfresh : entries s = []) (os : List String) (a : LArg) (s' : LSt)
    (h : lrunTop fs kw (.whole os) s = .ok (a, s')) (v : Val) (s'' : LSt) (he : evaluate a s' = .ok (v, s'')) :
    ∃ out new, runTop fs kw (.whole os) = .ok out ∧ v = out.value ∧ s''.ev.log = s'.ev.log ++ new ∧
      (callNames s''.nodes new).Perm out.calls ∧ (∀ i ∈ new, s.nodes.length ≤ i) := by
  obtain ⟨out, ext, hrun, hext, hcalls, hden, hneeded, hfreshN⟩ := lrunTop_whole_sim wf hs hfresh h
  obtain ⟨hev, hs', _⟩ := C18_whole fs kw rank wf s hs os a s' h
  obtain ⟨new, h1, h2, h3, h4⟩ := calls_now hs hev hs' ⟨hext, hcalls, hden, hneeded, hfreshN⟩ he
  exact ⟨out, new, hrun, h1, h2, h3, h4⟩

theorem C18_calls_eq_eager_whole_later (fs : List Func) (kw : List (String × Val)) (rank : String → Nat) (wf : PipeCache.WF fs rank)
    (s : LSt) (hs : Sess fs s) (hfresh : entries s = []) (os : List String) (a : LArg) (s' : LSt)
    (h : lrunTop fs kw (.whole os) s = .ok (a, s'))
    (sL : LSt) (more : List Lazy.Node) (hL : Sess fs sL) (hmore : sL.nodes = s'.nodes ++ more)
    (v : Val) (sL' : LSt) (he : evaluate a sL = .ok (v, sL')) :
    ∃ out, runTop fs kw (.whole os) = .ok out ∧ v = out.value ∧
      (callNames sL'.nodes (sL'.ev.log.filter fun i => s.nodes.length ≤ i && i < s'.nodes.length)).Perm out.calls := by
  obtain ⟨out, ext, hrun, hext, hcalls, hden, hneeded, hfreshN⟩ := lrunTop_whole_sim wf hs hfresh h
  obtain ⟨h1, h2⟩ := calls_later ⟨hext, hcalls, hden, hneeded, hfreshN⟩ hL hmore he
  exact ⟨out, hrun, h1, h2⟩

/-- **`evaluate()` returns.** In every state of a session, `evaluate()` of an object that stands for a value (every object a lazy
    request returned does: `C18_eager`, `C18_whole`) does not fail: it returns that value.  (The existing theorems say "whenever
    `evaluate()` returns"; this discharges the condition: the recursion terminates because arguments are older nodes, and every
    pick node finds its name in the tuple its producer returns.) -/
theorem C18_evaluate_total (fs : List Func) (s : LSt) (hs : Sess fs s) (a : LArg) (v : Val) (hd : den s.nodes a = some v) :
    ∃ s', evaluate a s = .ok (v, s') := evaluate_total hs hd

/-- **Accepted lazy request = eager run, at the level of calls and of the value** (no "whenever" left): if a lazy request that can
    find nothing in a cache is accepted, then the eager run succeeds, `evaluate()` of the returned object DOES return, its value is
    the eager value, and it invokes exactly the eager run's functions, each once. -/
theorem C18_calls_eq_eager_total (fs : List Func) (kw : List (String × Val)) (rank : String → Nat) (wf : PipeCache.WF fs rank) (s : LSt)
    (hs : Sess fs s) (hfresh : entries s = []) (o : String) (a : LArg) (s' : LSt) (h : lrunTop fs kw (.name o) s = .ok (a, s')) :
    ∃ out s'' new, runTop fs kw (.name o) = .ok out ∧ evaluate a s' = .ok (out.value, s'') ∧ s''.ev.log = s'.ev.log ++ new ∧
      (callNames s''.nodes new).Perm out.calls := by
  obtain ⟨_, _, hs'⟩ := C18_deferred fs kw rank wf s hs o a s' h
  obtain ⟨v, _, hd, _⟩ := C18_eager fs kw rank wf s hs o a s' h
  obtain ⟨s'', he⟩ := evaluate_total hs' hd
  obtain ⟨out, new, hrun, hv, hlog, hperm, _⟩ := C18_calls_eq_eager fs kw rank wf s hs hfresh o a s' h v s'' he
  exact ⟨out, s'', new, hrun, by rw [← hv]; exact he, hlog, hperm⟩

/-- **Accepted exactly when the eager pipeline accepts.** A lazy request `pipeline(o, **kw)` that can find nothing in a cache is
    accepted (returns a deferred object) if and only if the eager run of the same request succeeds — missing arguments, unknown
    outputs, surplus keywords, an output supplied as keyword are refused by both or by neither. -/
theorem C18_accepted_iff_eager (fs : List Func) (kw : List (String × Val)) (rank : String → Nat) (wf : PipeCache.WF fs rank) (s : LSt)
    (hs : Sess fs s) (hfresh : entries s = []) (o : String) :
    (∃ a s', lrunTop fs kw (.name o) s = .ok (a, s')) ↔ (∃ out, runTop fs kw (.name o) = .ok out) := by
  constructor
  · rintro ⟨a, s', h⟩
    obtain ⟨out, _, hrun, _⟩ := lrunTop_name_sim wf hs hfresh h
    exact ⟨out, hrun⟩
  · rintro ⟨out, h⟩
    exact lrunTop_name_rev wf hs hfresh h

/-- the same for whole-tuple requests -/
theorem C18_accepted_iff_eager_whole (fs : List Func) (kw : List (String × Val)) (rank : String → Nat) (wf : PipeCache.WF fs rank)
    (s : LSt) (hs : Sess fs s) (hfresh : entries s = []) (os : List String) :
    (∃ a s', lrunTop fs kw (.whole os) s = .ok (a, s')) ↔ (∃ out, runTop fs kw (.whole os) = .ok out) := by
  constructor
  · rintro ⟨a, s', h⟩
    obtain ⟨out, _, hrun, _⟩ := lrunTop_whole_sim wf hs hfresh h
    exact ⟨out, hrun⟩
  · rintro ⟨out, h⟩
    exact lrunTop_whole_rev wf hs hfresh h

/-! ### non-vacuity (the diamond through a tuple-output node of `Props/C18.lean`) -/

/-- lazy: names invoked by `evaluate()` of the fresh object; eager: the call log of `runTop` -/
def demoCalls (dag : Bool) (req : Req := .name "d") : Option (List String) × Option (List String) :=
  (match lrunTop [fD, fB, fA] [("x", .int 1)] req (if dag then enterDag s0 else s0) with
   | .error _ => none
   | .ok (a, s1) => match evaluate a s1 with
     | .error _ => none
     | .ok (_, s2) => some (callNames s2.nodes (s2.ev.log.drop s1.ev.log.length)),
   match runTop [fD, fB, fA] [("x", .int 1)] req with
   | .error _ => none
   | .ok out => some out.calls)

example : entries s0 = [] ∧ entries (enterDag s0) = [] := ⟨rfl, rfl⟩
example : demoCalls false = (some ["fa", "fb", "fd"], some ["fa", "fb", "fd"]) := by decide
example : demoCalls true = (some ["fa", "fb", "fd"], some ["fa", "fb", "fd"]) := by decide
example : demoCalls true (.whole ["b", "c"]) = (some ["fa", "fb"], some ["fa", "fb"]) := by decide
example : demoCalls false (.whole ["b", "c"]) = (some ["fa", "fb"], some ["fa", "fb"]) := by decide

/-- "later": request `d` (fresh block), then request `b` in the same block (served from the block's cache: shares `fa`, `fb`), evaluate
    the SECOND object first, then the first: the nodes of the first request that have been invoked are `fa, fb, fd` -/
def demoLater : Option (List String × List String) :=
  match lrunTop [fD, fB, fA] [("x", .int 1)] (.name "d") (enterDag s0) with
  | .error _ => none
  | .ok (a, s1) => match lrunTop [fD, fB, fA] [("x", .int 1)] (.name "b") s1 with
    | .error _ => none
    | .ok (a2, s2) => match evaluate a2 s2 with
      | .error _ => none
      | .ok (_, s3) => match evaluate a s3 with
        | .error _ => none
        | .ok (_, s4) => some (callNames s4.nodes (s4.ev.log.drop s3.ev.log.length),
                               callNames s4.nodes (s4.ev.log.filter fun i => 0 ≤ i && i < s1.nodes.length))
example : demoLater = some (["fd"], ["fa", "fb", "fd"]) := by decide

/-- both sides refuse: a missing argument, a surplus keyword -/
def demoRefused (kw : List (String × Val)) : Bool × Bool :=
  (match lrunTop [fD, fB, fA] kw (.name "d") s0 with | .ok _ => true | .error _ => false,
   match runTop [fD, fB, fA] kw (.name "d") with | .ok _ => true | .error _ => false)
example : demoRefused [] = (false, false) := by decide
example : demoRefused [("x", .int 1), ("zz", .int 2)] = (false, false) := by decide
example : demoRefused [("x", .int 1)] = (true, true) := by decide
def demoRefusedW (kw : List (String × Val)) : Bool × Bool :=
  (match lrunTop [fD, fB, fA] kw (.whole ["b", "c"]) s0 with | .ok _ => true | .error _ => false,
   match runTop [fD, fB, fA] kw (.whole ["b", "c"]) with | .ok _ => true | .error _ => false)
example : demoRefusedW [] = (false, false) := by decide
example : demoRefusedW [("x", .int 1)] = (true, true) := by decide

end PF.C18
