/-
The Boolean well-formedness flag of C09 (`stable` in the driver) as a model definition, so that `Lemmas/PipeCacheStable.lean`
can link it to the hypotheses `WF` / `WFp` of the C09 theorems.  Core Lean only.
-/
import PfModel.Model.PipeCache
namespace PF.PipeCache
open PF PF.Pipe

/-- unique function names (`WFp.names`) -/
def uniqueNamesB (fs : List Func) : Bool :=
  let ns := fs.map (·.name)
  ns.eraseDups.length == ns.length

/-- the flag the driver evaluates on every case: acyclic with a depth the fuel covers, unique output names,
    consistent defaults (compared through the printer `enc`), unique function names -/
def stableB (enc : Val → String) (fs : List Func) : Bool :=
  rankedB fs && uniqueOutB fs && consistentDefaultsB enc fs && uniqueNamesB fs

end PF.PipeCache
