import PfModel.DriverC04Lib
import PfModel.Model.RunInfoNorm
/-! Handler of the C04 driver entry `runinfo.norm` (round 9): the normal form `PF.RIC.normalise` of an arbitrary record, next
    to the evaluation of `decodeN ∘ dumpAllN` (what `C04_load_dump_normalise` equates it with) and the decidable fixed-point
    condition `recFixed` (`C04_normalise_fix_iff`). -/
open Lean PF PF.Drv PF.Map PF.RIC

namespace PF.C04Drv

/-- arg `{"runinfo": …}`; `fixed`: the three key dictionaries of `normalise r` are those of `r` -/
def handleNorm (a : Json) : R Json := do
  let r ← getRunInfo (← fld a "runinfo")
  let n := normalise r
  return jObj [("normalised", putRunInfo n),
               ("decodedN", jOpt putRunInfo (decodeN (dumpAllN Folder.empty r))),
               ("fixed", jBool (decide (n.shapes = r.shapes) && decide (n.shapeMasks = r.shapeMasks) && decide (n.storage = r.storage))),
               ("recFixed", jBool (recFixed r)),
               ("normKeys", jList (fun (k : Key) => jArr [putKey k, putKey (normKey k)]) (r.shapes.map (·.1)))]

end PF.C04Drv
