import PfModel.Lemmas.ErrorsFile
import PfModel.Lemmas.ErrorsAsync
import PfModel.Props.C13
import PfModel.Props.C13Async
/-!
C13 — clause "… an ErrorSnapshot whose reproduce(), **also after save_to_file/load_from_file**, raises the same exception".

Until round 9 `save`/`load` were the identity of the model and the clause was carried by the correspondence alone.  Here the file is a
token stream written by `dump` and read by a stack machine (`run`, `loads`), a snapshot has ALL the fields of the dataclass, and a
keyword-argument value has a kind (`PV`: atom / tuple / list / dict / dataclass instance, nested).  The theorems are about every
snapshot and every value; `saveWith T` / `asdict` is the model of a save that transforms values (seeded change C13-s4-B).
-/
namespace PF.C13
open PF PF.Map PF.Errors PF.Errors.File

/-- **The loader inverts the dumper**, wherever the dump of a value sits in a stream: running the stack machine over it pushes
    exactly that value (every value kind, every nesting depth, no size bound). -/
theorem C13_file_loader_inverts (v : PV) (rest : List Tok) (st : List PV) : run (dump v ++ rest) st = run rest (v :: st) :=
  run_dump v rest st

/-- **`load_from_file(save_to_file(s)) = s`** for every snapshot: the function, the exception (class and args), `args`, every keyword
    argument — names, order, values with their kinds, dataclass instances included — and the six descriptive fields
    (`traceback`, `timestamp` — which `Pipeline.error_snapshot` orders by —, `user`, `machine`, `ip_address`, `current_directory`). -/
theorem C13_file_roundtrip (s : SnapFile) : loadFile (saveFile s) = some s := loadFile_saveFile s

/-- `load_from_file(...).reproduce()` is `reproduce()` of the snapshot that was saved: the wrapped function is called with the same
    values (what a user function sees of them: `unbox`). -/
theorem C13_file_reproduce (fails : Oracle) (s : SnapFile) :
    reproduceFile fails (saveFile s) = some (reproduce fails s.toSnapshot) := by
  simp [reproduceFile, loadFile_saveFile]

/-- **Snapshot through a file, `Pipeline.map`** (every mode, every schedule): whatever kinds the argument values have — `box k v` is any
    Python object the user function reads as the model value `v` — the snapshot of a raised run, saved and loaded, is the same
    snapshot, and its `reproduce()` raises the exception that reached the caller. -/
theorem C13_snapshot_file (mode : Mode) (fails : Oracle) (sched : Nat → List Nat) (R : Env → MFunc → M FuncResult)
    (gens : List (List MFunc)) (env : Env) (g g' : Nat) (r : Raised) (log : List Task) (store : List (String × Slot))
    (h : runGensE mode fails sched R gens env g = .raised g' r log store)
    (box : String → Val → PV) (hbox : ∀ k v, unbox (box k v) = v) (m : Meta) :
    loadFile (saveFile (ofSnapshot box m r.snap)) = some (ofSnapshot box m r.snap) ∧
    (loadFile (saveFile (ofSnapshot box m r.snap))).map (·.toSnapshot) = some r.snap ∧
    reproduceFile fails (saveFile (ofSnapshot box m r.snap)) = some (.error r.exn) := by
  have hs := (C13_snapshot mode fails sched R gens env g g' r log store h).2.2.2.1
  refine ⟨loadFile_saveFile _, ?_, ?_⟩
  · simp [loadFile_saveFile, toSnapshot_ofSnapshot box hbox]
  · rw [C13_file_reproduce, toSnapshot_ofSnapshot box hbox, hs]

/-- the same for `map_async` (every pool order, every loop order) -/
theorem C13_async_snapshot_file (fails : Oracle) (sched loopo : Nat → List Nat) (R : Env → MFunc → M FuncResult)
    (gens : List (List MFunc)) (env : Env) (g g' : Nat) (r : Raised) (log : List Task) (store : List (String × Slot))
    (h : runGensA fails sched loopo R gens env g = .raised g' r log store)
    (box : String → Val → PV) (hbox : ∀ k v, unbox (box k v) = v) (m : Meta) :
    (loadFile (saveFile (ofSnapshot box m r.snap))).map (·.toSnapshot) = some r.snap ∧
    reproduceFile fails (saveFile (ofSnapshot box m r.snap)) = some (.error r.exn) := by
  have hs := (C13_async_raised fails sched loopo R gens env g g' r log store h).2.2.2.1
  simp only [save, load] at hs
  refine ⟨?_, ?_⟩
  · simp [loadFile_saveFile, toSnapshot_ofSnapshot box hbox]
  · rw [C13_file_reproduce, toSnapshot_ofSnapshot box hbox, hs]

/-- the same for `pipeline(...)` / `Pipeline.run` -/
theorem C13_call_snapshot_file (fails : Oracle) (fs : List Pipe.Func) (kw : List (String × Val)) (req : Pipe.Req) (r : Raised)
    (calls : List Call.Inv) (h : Call.runTopE fails fs kw req = .raised r calls)
    (box : String → Val → PV) (hbox : ∀ k v, unbox (box k v) = v) (m : Meta) :
    (loadFile (saveFile (ofSnapshot box m r.snap))).map (·.toSnapshot) = some r.snap ∧
    reproduceFile fails (saveFile (ofSnapshot box m r.snap)) = some (.error r.exn) := by
  obtain ⟨_, _, _, _, _, _, _, _, _, _, _, hs⟩ := C13_call_surface fails fs kw req r calls h
  simp only [save, load] at hs
  refine ⟨?_, ?_⟩
  · simp [loadFile_saveFile, toSnapshot_ofSnapshot box hbox]
  · rw [C13_file_reproduce, toSnapshot_ofSnapshot box hbox, hs]

/-- the harness's boxing (`terms.box_some`: the arguments named in `boxed` are `DBox` instances) satisfies the hypothesis -/
theorem C13_box_named_looks_through (boxed : List String) (k : String) (v : Val) : unbox (boxNamed boxed k v) = v :=
  unbox_boxNamed boxed k v

/-! ## a save that transforms values -/

/-- a `save_to_file` that applies `T` to the argument values writes a file that loads as the TRANSFORMED snapshot … -/
theorem C13_file_transformed (T : PV → PV) (s : SnapFile) : loadFile (saveWith T s) = some (s.mapVals T) :=
  loadFile_saveFile _

/-- … so the round trip is the identity **iff** `T` fixes every argument value of the snapshot. -/
theorem C13_file_transform_iff (T : PV → PV) (s : SnapFile) :
    loadFile (saveWith T s) = some s ↔ (∀ v ∈ s.args, T v = v) ∧ (∀ kv ∈ s.kwargs, T kv.2 = kv.2) := by
  rw [C13_file_transformed, Option.some.injEq, mapVals_eq_iff]

/-- `dataclasses.asdict` fixes a value **iff** it holds no dataclass instance, at any depth; and its image never holds one. -/
theorem C13_asdict_fixed_iff (v : PV) : (asdict v = v ↔ hasInst v = false) ∧ hasInst (asdict v) = false :=
  ⟨asdict_eq_iff v, hasInst_asdict v⟩

/-- **The seeded change C13-s4-B, exactly**: writing `dataclasses.asdict(snapshot)` round-trips **iff** no argument value of the failing
    invocation holds a dataclass instance — ints, strings, terms, arrays and plain containers never show it (why the generator
    hands over some values as `DBox`). -/
theorem C13_file_asdict_iff (s : SnapFile) : loadFile (saveWith asdict s) = some s ↔ s.hasInst = false := by
  rw [C13_file_transform_iff]
  simp only [asdict_eq_iff, SnapFile.hasInst, Bool.or_eq_false_iff, hasInstL_false_iff, List.mem_map, forall_exists_index, and_imp]
  constructor
  · rintro ⟨h1, h2⟩
    exact ⟨h1, fun v kv hkv e => e ▸ h2 kv hkv⟩
  · rintro ⟨h1, h2⟩
    exact ⟨h1, fun kv hkv => h2 kv.2 kv hkv rfl⟩

/-! ## non-vacuity and witnesses -/

def metaW : Meta := { traceback := "Traceback …", timestamp := "2026-09-30T12:00:00+00:00", user := "u", machine := "m", ip := "10.0.0.1", cwd := "/w" }

/-- fails exactly when `a` is the integer 1 -/
def orcW : Oracle := fun name kw =>
  match name, kw with
  | "h", [("a", .int 1)] => some ⟨"ValueError", [.str "boom"]⟩
  | _, _ => none

/-- the snapshot of `h(a=DBox(1))` -/
def snapW : SnapFile := ofSnapshot (boxNamed ["a"]) metaW { fname := "h", exn := ⟨"ValueError", [.str "boom"]⟩, kwargs := [("a", .int 1)] }

def outcomeOf : Option (Except Exn Unit) → String
  | some (.error x) => x.cls
  | some (.ok _) => "returned"
  | none => "unreadable"

/-- the file of a boxed argument has 15 opcodes and loads; `reproduce()` after the round trip raises the ValueError -/
example : (saveFile snapW).length = 15 ∧ outcomeOf (reproduceFile orcW (saveFile snapW)) = "ValueError" := by decide
/-- **witness of the seeded change**: with `asdict` on the way the loaded snapshot calls `h(a={'v': 1})` and nothing is raised — the
    observation of the check on the seeded tree ("reproduce() after save_to_file/load_from_file … got returned") -/
example : snapW.hasInst = true ∧ outcomeOf (reproduceFile orcW (saveWith asdict snapW)) = "returned" := by decide
/-- … while a snapshot without instances is not affected (`C13_file_asdict_iff`, right to left) -/
example : outcomeOf (reproduceFile orcW (saveWith asdict (ofSnapshot (boxNamed []) metaW snapW.toSnapshot))) = "ValueError" := by decide
/-- a truncated file does not load -/
example : (loadFile ((saveFile snapW).drop 1)).isNone = true ∧ (loadFile ((saveFile snapW).dropLast)).isNone = true := by decide
/-- hypotheses of `C13_snapshot_file` / `C13_call_snapshot_file` are satisfiable: the runs of `Props/C13.lean` raise -/
example : (match runMapE .pool orc (fun _ => [5, 4, 3, 2, 1, 0]) [g0, g1, g2] [("x", x3)] [] with
    | .raised _ r _ _ => outcomeOf (reproduceFile orc (saveFile (ofSnapshot (boxNamed ["a"]) metaW r.snap)))
    | _ => "") = "ValueError" := by decide

end PF.C13
