import PfModel.Model.SchedPart
import PfModel.Lemmas.Sched
import PfModel.Lemmas.MapPieces
/-! Helper lemmas for `Props/C03Part.lean`: the parallel runner on a non-fresh store / with fixed indices, every schedule,
    sync and async awaiting. -/
namespace PF.SchedP
open PF PF.Map PF.Sched PF.Pieces

/-! ### generic facts about `mapM` in `Except` -/

theorem mapM_map_eq {α β γ} (g : α → β) (h : β → M γ) : ∀ (l : List α), (l.map g).mapM h = l.mapM (fun a => h (g a)) := by
  intro l
  induction l with
  | nil => rfl
  | cons a as ih => rw [List.map_cons, List.mapM_cons, List.mapM_cons, ih]

theorem mapM_post {α β γ} (g : α → M β) (c : β → γ) : ∀ (l : List α),
    l.mapM (fun a => (g a).map c) = (l.mapM g).map (List.map c) := by
  intro l
  induction l with
  | nil => rfl
  | cons a as ih =>
    rw [List.mapM_cons, List.mapM_cons, ih]
    cases g a with
    | error e => rfl
    | ok b =>
      cases as.mapM g with
      | error e => rfl
      | ok bs => rfl

/-- iterating over positions and looking the element up is iterating over the elements -/
theorem mapM_range_get {α β} (g : α → M β) (e : Err) : ∀ (l : List α),
    (List.range l.length).mapM (fun k => match l[k]? with | some a => g a | none => throw e) = l.mapM g := by
  intro l
  induction l with
  | nil => rfl
  | cons a as ih =>
    rw [List.length_cons, List.range_succ_eq_map, List.mapM_cons, mapM_map_eq, List.mapM_cons]
    simp only [List.getElem?_cons_zero, List.getElem?_cons_succ]
    rw [ih]

/-! ### the plan is the case analysis of `runFuncPart` -/

/-- the sequential runner on a planned function -/
def seqOfP (fs : List MFunc) (old : List (String × Slot)) (env : Env) (f : MFunc) : PlanP → M FuncResult
  | .mapped ms sh mk sel _ => runMappedSel fs old sel env f ms sh mk
  | .single => runSinglePart fs old env f
  | .bad e => throw e

/-- the list of futures of a mapped plan is `args.missing` of the store -/
def PlanOK (old : List (String × Slot)) (f : MFunc) : PlanP → Prop
  | .mapped _ sh mk sel todo => todo = todoOf f.outputs (prod (extOf mk sh)) sel (oldCells old)
  | _ => True

theorem planOfP_ok (shapes : List (String × List Nat)) (masks : List (String × List Bool)) (fixed : Option (List (String × Sel)))
    (old : List (String × Slot)) (f : MFunc) : PlanOK old f (planOfP shapes masks fixed old f) := by
  unfold planOfP
  split
  · split
    · trivial
    · split
      · trivial
      · split
        · split
          · trivial
          · split
            · trivial
            · rfl
        · trivial
  · trivial

theorem runFuncPart_plan (fs : List MFunc) (shapes : List (String × List Nat)) (masks : List (String × List Bool))
    (fixed : Option (List (String × Sel))) (old : List (String × Slot)) (env : Env) (f : MFunc) :
    runFuncPart fs shapes masks fixed old env f = seqOfP fs old env f (planOfP shapes masks fixed old f) := by
  unfold runFuncPart planOfP
  cases hm : f.mapspec with
  | none => rfl
  | some ms =>
    simp only []
    by_cases he : ms.inputs.isEmpty = true
    · simp only [he, ↓reduceIte]; rfl
    · simp only [he]
      cases ho : f.outputs.head? with
      | none => rfl
      | some o =>
        simp only []
        cases hs : alookup shapes o with
        | none => rfl
        | some sh =>
          cases hk : alookup masks o with
          | none => rfl
          | some mk =>
            simp only []
            by_cases hl : sh.length = mk.length
            · simp only [hl, ne_eq, not_true_eq_false, ↓reduceIte, Bool.false_eq_true]
              unfold runMappedPart
              cases fixedMask fixed ms sh mk with
              | error e => rfl
              | ok fm => rfl
            · simp [hl, seqOfP]

/-! ### a body reads only earlier generations -/

theorem partialSlotsP_keys (shapes : List (String × List Nat)) (masks : List (String × List Bool)) (old : List (String × Slot))
    (gen : List MFunc) (D : Dumps) (p : String) (hp : p ∈ akeys (partialSlotsP shapes masks old gen D)) : ∃ h ∈ gen, p ∈ h.outputs := by
  unfold partialSlotsP akeys at hp
  simp only [List.mem_map, List.mem_flatMap, List.mem_filterMap] at hp
  obtain ⟨⟨k, s⟩, ⟨h, hh, o, ho, hs⟩, rfl⟩ := hp
  refine ⟨h, hh, ?_⟩
  split at hs
  · simp only [Option.some.injEq, Prod.mk.injEq] at hs; rw [← hs.1]; exact ho
  · cases hs

theorem argWhole_viewP (fs : List MFunc) (shapes : List (String × List Nat)) (masks : List (String × List Bool))
    (old : List (String × Slot)) (env : Env) (gen : List MFunc) (D : Dumps) (f : MFunc) (p : String)
    (h : alookup f.bound p = none → ∀ h ∈ gen, p ∉ h.outputs) :
    argWhole fs (viewEnvP shapes masks old env gen D) f p = argWhole fs env f p := by
  unfold argWhole
  cases hb : alookup f.bound p with
  | some v => rfl
  | none =>
    have hk : alookup (partialSlotsP shapes masks old gen D) p = none := by
      rw [alookup_none_iff]
      intro hm
      obtain ⟨g, hg, hpo⟩ := partialSlotsP_keys shapes masks old gen D p hm
      exact h hb g hg hpo
    simp only [viewEnvP, alookup_append, hk]
    cases alookup env.inputs p <;> cases alookup env.store p <;> rfl

/-- **a body reads only earlier generations** — also on a store that already holds elements of its own generation -/
theorem bodyRunP_view (fs : List MFunc) (shapes : List (String × List Nat)) (masks : List (String × List Bool))
    (old : List (String × Slot)) (env : Env) (gen : List MFunc) (D : Dumps) (f : MFunc) (hf : f ∈ gen) (hind : GenIndep gen)
    (plan : PlanP) (k : Nat) :
    bodyRunP fs old (viewEnvP shapes masks old env gen D) f plan k = bodyRunP fs old env f plan k := by
  have key : ∀ q ∈ f.params, argWhole fs (viewEnvP shapes masks old env gen D) f q.1 = argWhole fs env f q.1 := by
    intro q hq
    apply argWhole_viewP
    intro hb h hh
    exact hind f hf h hh q.1 (List.mem_map.mpr ⟨q, hq, rfl⟩) hb
  cases plan with
  | mapped ms sh mk sel todo =>
    simp only [bodyRunP]
    cases todo[k]? with
    | none => rfl
    | some li =>
      simp only [selectArgs]
      congr 1
      apply mapM_congr'
      intro q hq
      obtain ⟨p, orig⟩ := q
      simp only [key (p, orig) hq]
  | single =>
    simp only [bodyRunP]
    cases loadedOf old f with
    | some vs => rfl
    | none =>
      simp only [wholeArgs]
      congr 1
      apply mapM_congr'
      intro q hq
      obtain ⟨p, orig⟩ := q
      simp only [key (p, orig) hq]
  | bad e => rfl

/-! ### closed form of a run of bodies -/

def validIdP (pg : List (MFunc × PlanP)) (id : TaskId) : Prop :=
  ∃ fp, pg[id.1]? = some fp ∧ id.2 < nFutP fp.2

def resOfP (fs : List MFunc) (old : List (String × Slot)) (env : Env) (pg : List (MFunc × PlanP)) (id : TaskId) : M FutRes :=
  match pg[id.1]? with
  | some (f, plan) => bodyRunP fs old env f plan id.2
  | none => throw .fuel

def wdOfP (dumpSub : String → Bool) (fs : List MFunc) (old : List (String × Slot)) (env : Env) (pg : List (MFunc × PlanP))
    (id : TaskId) : Dumps :=
  match pg[id.1]? with
  | some (f, plan) => workerDumpsP dumpSub f plan id.2 (bodyRunP fs old env f plan id.2)
  | none => []

theorem runBodiesP_closed (fs : List MFunc) (shapes : List (String × List Nat)) (masks : List (String × List Bool))
    (dumpSub : String → Bool) (old : List (String × Slot)) (env : Env) (gen : List MFunc) (pg : List (MFunc × PlanP))
    (hpg : ∀ (j : Nat) (fp : MFunc × PlanP), pg[j]? = some fp → fp.1 ∈ gen) (hind : GenIndep gen) :
    ∀ (order : List TaskId) (st : GStateP), (∀ id ∈ order, validIdP pg id) →
      runBodiesP fs shapes masks dumpSub old env gen pg order st =
        { dumps := st.dumps ++ order.flatMap (wdOfP dumpSub fs old env pg),
          futs := st.futs ++ order.map (fun id => (id, resOfP fs old env pg id)),
          ran := st.ran ++ order } := by
  intro order
  induction order with
  | nil => intro st _; simp [runBodiesP]
  | cons id rest ih =>
    intro st hv
    obtain ⟨fp, hfp, hlt⟩ := hv id List.mem_cons_self
    obtain ⟨f, plan⟩ := fp
    have hf : f ∈ gen := hpg _ _ hfp
    have hstep : stepBodyP fs shapes masks dumpSub old env gen pg st id =
        { dumps := st.dumps ++ wdOfP dumpSub fs old env pg id, futs := st.futs ++ [(id, resOfP fs old env pg id)], ran := st.ran ++ [id] } := by
      simp only [stepBodyP, hfp, wdOfP, resOfP]
      simp only at hlt
      simp only [hlt, ↓reduceIte, bodyRunP_view fs shapes masks old env gen st.dumps f hf hind plan id.2]
    simp only [runBodiesP, List.foldl_cons] at ih ⊢
    rw [hstep, ih _ (fun x hx => hv x (List.mem_cons_of_mem _ hx))]
    simp [List.append_assoc]

/-- positions of a generation's functions are determined by any of their output names -/
def PosDisjointP (pg : List (MFunc × PlanP)) : Prop :=
  ∀ (j j' : Nat) (fp fp' : MFunc × PlanP), pg[j]? = some fp → pg[j']? = some fp' →
    ∀ o, o ∈ fp.1.outputs → o ∈ fp'.1.outputs → j = j'

theorem awaitP_eq (fs : List MFunc) (old : List (String × Slot)) (env : Env) (pg : List (MFunc × PlanP)) (order : List TaskId)
    (id : TaskId) (h : id ∈ order) :
    awaitP (order.map (fun id => (id, resOfP fs old env pg id))) id = resOfP fs old env pg id := by
  unfold awaitP
  rw [klookup_graph order (resOfP fs old env pg) id]
  simp [h]

/-- every worker-side dump found in the store after all bodies ran is the element of the task that owns the cell:
    the one whose position `k` in the list of futures has `missing[k]` = the cell's index.  Only the *set* of dump
    operations matters (`W` has the entries of the bodies' dumps, in any order — any interleaving of the single dump
    operations of different bodies): distinct tasks write distinct cells, and equal cells carry equal values. -/
theorem readBackP_eq (dumpSub : String → Bool) (fs : List MFunc) (old : List (String × Slot)) (env : Env)
    (pg : List (MFunc × PlanP)) (order : List TaskId)
    (hdis : PosDisjointP pg) (j : Nat) (f : MFunc) (ms : MSpec) (sh : List Nat) (mk : List Bool) (sel : Nat → Bool) (todo : List Nat)
    (hj : pg[j]? = some (f, .mapped ms sh mk sel todo))
    (hmem : ∀ k, k < todo.length → (j, k) ∈ order)
    (A : Nat → Args)
    (hA : ∀ li ∈ todo, selectArgs fs env f ms (shapeToKey (extOf mk sh) li) = .ok (A li))
    (o : String) (ho : o ∈ f.outputs) (hs : dumpSub o = true)
    (W : Dumps) (hW : ∀ x, x ∈ W ↔ x ∈ order.flatMap (wdOfP dumpSub fs old env pg)) :
    readBackP W o todo = cellsPart f todo A o := by
  unfold readBackP cellsPart
  apply filterMap_some_eq_map
  intro li hli
  have : klookup W (o, li) = some (outVal f (A li) o) := by
    apply klookup_all
    · obtain ⟨k, hk, hget⟩ := List.mem_iff_getElem.mp hli
      have hget' : todo[k]? = some li := by rw [List.getElem?_eq_getElem hk, hget]
      refine ⟨outVal f (A li) o, (hW _).mpr (List.mem_flatMap.mpr ⟨(j, k), hmem k hk, ?_⟩)⟩
      simp only [wdOfP, hj, bodyRunP, hget', hA li hli, Except.map, workerDumpsP, List.mem_map, List.mem_filter]
      exact ⟨o, ⟨ho, hs⟩, rfl⟩
    · intro w hw
      obtain ⟨id', _, hw'⟩ := List.mem_flatMap.mp ((hW _).mp hw)
      unfold wdOfP at hw'
      cases hp : pg[id'.1]? with
      | none => simp [hp] at hw'
      | some fp' =>
        obtain ⟨f', plan'⟩ := fp'
        simp only [hp] at hw'
        cases plan' with
        | single => simp [workerDumpsP] at hw'
        | bad e => simp [workerDumpsP] at hw'
        | mapped ms' sh' mk' sel' todo' =>
          cases hb : bodyRunP fs old env f' (.mapped ms' sh' mk' sel' todo') id'.2 with
          | error e => simp [hb, workerDumpsP] at hw'
          | ok r' =>
            cases r' with
            | loaded vs => simp [hb, workerDumpsP] at hw'
            | called a' =>
              simp only [hb, workerDumpsP] at hw'
              cases ht : todo'[id'.2]? with
              | none => simp [ht] at hw'
              | some li' =>
                simp only [ht, List.mem_map, List.mem_filter] at hw'
                obtain ⟨o', ⟨ho', _⟩, he⟩ := hw'
                simp only [Prod.mk.injEq] at he
                obtain ⟨⟨rfl, hk⟩, rfl⟩ := he
                have hjj : j = id'.1 := hdis j id'.1 _ _ hj hp o' ho ho'
                rw [← hjj, hj] at hp
                simp only [Option.some.injEq, Prod.mk.injEq, PlanP.mapped.injEq] at hp
                obtain ⟨rfl, rfl, rfl, rfl, _, rfl⟩ := hp
                subst hk
                have hmemli : li' ∈ todo := List.mem_of_getElem? ht
                simp only [bodyRunP, ht, hA li' hmemli, Except.map, Except.ok.injEq, FutRes.called.injEq] at hb
                rw [← hb]
  simp only [this, Option.map_some]


/-! ### awaiting: sync and gather -/

theorem awaitAll_sync_closed (fs : List MFunc) (old : List (String × Slot)) (env : Env) (pg : List (MFunc × PlanP))
    (order : List TaskId) (st : GStateP) (hfut : st.futs = order.map (fun id => (id, resOfP fs old env pg id)))
    (ids : List TaskId) (hin : ∀ id ∈ ids, id ∈ order) :
    awaitAll .sync st ids = ids.mapM (resOfP fs old env pg) := by
  simp only [awaitAll]
  apply mapM_congr'
  intro id hid
  rw [hfut, awaitP_eq fs old env pg order id (hin id hid)]

theorem firstFailed_none (futs : List (TaskId × M FutRes)) (ids : List TaskId)
    (h : ∀ id ∈ ids, ∀ e, klookup futs id ≠ some (.error e)) : ∀ (ran : List TaskId), firstFailed futs ids ran = none := by
  intro ran
  induction ran with
  | nil => rfl
  | cons id rest ih =>
    simp only [firstFailed]
    by_cases hc : ids.contains id = true
    · simp only [hc, ↓reduceIte]
      have hid : id ∈ ids := by simpa using hc
      cases hk : klookup futs id with
      | none => simpa using ih
      | some r =>
        cases r with
        | ok v => simpa using ih
        | error e => exact absurd hk (h id hid e)
    · simp only [hc, Bool.false_eq_true, ↓reduceIte]; exact ih

theorem mapM_awaitP_ok (futs : List (TaskId × M FutRes)) : ∀ (ids : List TaskId) (res : List FutRes),
    ids.mapM (awaitP futs) = .ok res → ∀ id ∈ ids, ∀ e, klookup futs id ≠ some (.error e) := by
  intro ids
  induction ids with
  | nil => intro _ _ id h; simp at h
  | cons a as ih =>
    intro res h id hid e
    rw [List.mapM_cons] at h
    cases ha : awaitP futs a with
    | error e' => simp [ha, bind, Except.bind] at h
    | ok b =>
      cases hr : as.mapM (awaitP futs) with
      | error e' => simp [ha, hr, bind, Except.bind] at h
      | ok bs =>
        rcases List.mem_cons.mp hid with rfl | hid'
        · intro hk
          simp only [awaitP, hk] at ha
          cases ha
        · exact ih bs hr id hid' e

/-- `asyncio.gather` on futures that all succeed returns what the blocking loop returns: the results in submission order -/
theorem awaitAll_gather_ok (st : GStateP) (ids : List TaskId) (res : List FutRes)
    (h : awaitAll .sync st ids = .ok res) : awaitAll .gather st ids = .ok res := by
  simp only [awaitAll] at h ⊢
  rw [firstFailed_none st.futs ids (mapM_awaitP_ok st.futs ids res h) st.ran]
  exact h

theorem awaitAll_gather_err (st : GStateP) (ids : List TaskId) (e : Err)
    (h : awaitAll .sync st ids = .error e) : ∃ e', awaitAll .gather st ids = .error e' := by
  simp only [awaitAll] at h ⊢
  cases firstFailed st.futs ids st.ran with
  | some e' => exact ⟨e', rfl⟩
  | none => exact ⟨e, h⟩

/-- what `gather` raises is the exception of the future of this function that failed first in time -/
theorem firstFailed_some (futs : List (TaskId × M FutRes)) (ids : List TaskId) : ∀ (ran : List TaskId) (e : Err),
    firstFailed futs ids ran = some e →
    ∃ l1 id l2, ran = l1 ++ id :: l2 ∧ id ∈ ids ∧ klookup futs id = some (.error e) ∧
      ∀ id' ∈ l1, id' ∈ ids → ∀ e', klookup futs id' ≠ some (.error e') := by
  intro ran
  induction ran with
  | nil => intro e h; simp [firstFailed] at h
  | cons id rest ih =>
    intro e h
    simp only [firstFailed] at h
    by_cases hc : ids.contains id = true
    · simp only [hc, ↓reduceIte] at h
      have hid : id ∈ ids := by simpa using hc
      cases hk : klookup futs id with
      | none =>
        simp only [hk] at h
        obtain ⟨l1, id0, l2, rfl, h1, h2, h3⟩ := ih e h
        refine ⟨id :: l1, id0, l2, rfl, h1, h2, ?_⟩
        intro id' hid' hin e'
        rcases List.mem_cons.mp hid' with rfl | hm
        · rw [hk]; simp
        · exact h3 id' hm hin e'
      | some r =>
        cases r with
        | ok v =>
          simp only [hk] at h
          obtain ⟨l1, id0, l2, rfl, h1, h2, h3⟩ := ih e h
          refine ⟨id :: l1, id0, l2, rfl, h1, h2, ?_⟩
          intro id' hid' hin e'
          rcases List.mem_cons.mp hid' with rfl | hm
          · rw [hk]; simp
          · exact h3 id' hm hin e'
        | error e0 =>
          simp only [hk, Option.some.injEq] at h
          subst h
          exact ⟨[], id, rest, rfl, hid, hk, by simp⟩
    · simp only [hc, Bool.false_eq_true, ↓reduceIte] at h
      obtain ⟨l1, id0, l2, rfl, h1, h2, h3⟩ := ih e h
      refine ⟨id :: l1, id0, l2, rfl, h1, h2, ?_⟩
      intro id' hid' hin e'
      rcases List.mem_cons.mp hid' with rfl | hm
      · exact absurd (by simpa using hin) hc
      · exact h3 id' hm hin e'

/-- "same result when the first succeeds, some failure when the first fails" -/
def Sim {α} (a b : M α) : Prop :=
  match a with
  | .ok r => b = .ok r
  | .error _ => ∃ e', b = .error e'

theorem Sim.refl {α} (a : M α) : Sim a a := by
  cases a with
  | ok r => rfl
  | error e => exact ⟨e, rfl⟩

theorem Sim.bind {α β} {a b : M α} {f g : α → M β} (h : Sim a b) (hf : ∀ r, Sim (f r) (g r)) : Sim (a >>= f) (b >>= g) := by
  cases a with
  | ok r =>
    simp only [Sim] at h
    subst h
    exact hf r
  | error e =>
    obtain ⟨e', rfl⟩ := h
    exact ⟨e', rfl⟩

theorem awaitAll_sim (st : GStateP) (ids : List TaskId) : Sim (awaitAll .sync st ids) (awaitAll .gather st ids) := by
  cases h : awaitAll .sync st ids with
  | ok r => exact awaitAll_gather_ok st ids r h
  | error e => exact awaitAll_gather_err st ids e h

theorem processFuncP_sim (dumpSub : String → Bool) (old : List (String × Slot)) (st : GStateP) (j : Nat) (f : MFunc) (plan : PlanP) :
    Sim (processFuncP .sync dumpSub old st j f plan) (processFuncP .gather dumpSub old st j f plan) := by
  cases plan with
  | bad e => exact Sim.refl _
  | single =>
    simp only [processFuncP]
    exact Sim.bind (awaitAll_sim st _) (fun r => Sim.refl _)
  | mapped ms sh mk sel todo =>
    simp only [processFuncP]
    exact Sim.bind (awaitAll_sim st _) (fun r => Sim.refl _)

theorem processGenP_sim (dumpSub : String → Bool) (old : List (String × Slot)) (st : GStateP) :
    ∀ (pg : List (MFunc × PlanP)) (j : Nat), Sim (processGenP .sync dumpSub old st j pg) (processGenP .gather dumpSub old st j pg) := by
  intro pg
  induction pg with
  | nil => intro j; exact Sim.refl _
  | cons fp rest ih =>
    intro j
    simp only [processGenP]
    exact Sim.bind (processFuncP_sim dumpSub old st j fp.1 fp.2) (fun r => Sim.bind (ih (j + 1)) (fun rs => Sim.refl _))

theorem runGenSchedP_sim (fs : List MFunc) (shapes : List (String × List Nat)) (masks : List (String × List Bool))
    (fixed : Option (List (String × Sel))) (old : List (String × Slot)) (dumpSub : String → Bool)
    (env : Env) (gen : List MFunc) (order : List TaskId) :
    Sim (runGenSchedP .sync fs shapes masks fixed old dumpSub env gen order)
        (runGenSchedP .gather fs shapes masks fixed old dumpSub env gen order) := by
  unfold runGenSchedP
  exact Sim.bind (processGenP_sim dumpSub old _ _ 0) (fun rs => Sim.refl _)

theorem runGensG_sim (G G' : Nat → Env → List MFunc → M (List FuncResult × GenTrace)) (h : ∀ g env gen, Sim (G g env gen) (G' g env gen)) :
    ∀ (gens : List (List MFunc)) (g : Nat) (env : Env), Sim (runGensG G g gens env) (runGensG G' g gens env) := by
  intro gens
  induction gens with
  | nil => intro g env; exact Sim.refl _
  | cons gen rest ih =>
    intro g env
    simp only [runGensG]
    exact Sim.bind (h g env gen) (fun r => Sim.bind (ih (g + 1) _) (fun w => Sim.refl _))

/-! ### parent-side processing = the sequential runner -/

theorem processFuncP_eq (dumpSub : String → Bool) (fs : List MFunc) (old : List (String × Slot)) (env : Env)
    (pg : List (MFunc × PlanP)) (order : List TaskId)
    (st : GStateP) (hfut : st.futs = order.map (fun id => (id, resOfP fs old env pg id)))
    (hd : ∀ x, x ∈ st.dumps ↔ x ∈ order.flatMap (wdOfP dumpSub fs old env pg)) (hdis : PosDisjointP pg)
    (hmem : ∀ id, validIdP pg id → id ∈ order) (j : Nat) (f : MFunc) (plan : PlanP) (hj : pg[j]? = some (f, plan))
    (hok : PlanOK old f plan) :
    processFuncP .sync dumpSub old st j f plan = seqOfP fs old env f plan := by
  cases plan with
  | bad e => rfl
  | single =>
    have hv : validIdP pg (j, 0) := ⟨_, hj, by simp [nFutP]⟩
    simp only [processFuncP, seqOfP]
    rw [awaitAll_sync_closed fs old env pg order st hfut [(j, 0)] (by intro id hid; simp at hid; subst hid; exact hmem _ hv)]
    simp only [List.mapM_cons, List.mapM_nil, resOfP, hj, bodyRunP, runSinglePart, loadedOf]
    by_cases hemp : f.outputs.isEmpty = true
    · simp only [hemp, ↓reduceIte, runSingle, wholeArgs]
      cases f.params.mapM (fun x => match x with | (p, orig) => do let v ← argWhole fs env f p; pure (orig, v)) with
      | error e => rfl
      | ok a => rfl
    · simp only [hemp, Bool.false_eq_true, ↓reduceIte]
      cases loadSingles old f.outputs with
      | some vs => rfl
      | none =>
        simp only [runSingle, wholeArgs]
        cases f.params.mapM (fun x => match x with | (p, orig) => do let v ← argWhole fs env f p; pure (orig, v)) with
        | error e => rfl
        | ok a => rfl
  | mapped ms sh mk sel todo =>
    have hv : ∀ k, k < todo.length → validIdP pg (j, k) := fun k hk => ⟨_, hj, by simpa [nFutP] using hk⟩
    simp only [PlanOK] at hok
    simp only [processFuncP, seqOfP]
    rw [awaitAll_sync_closed fs old env pg order st hfut _ (by
      intro id hid
      obtain ⟨k, hk, rfl⟩ := List.mem_map.mp hid
      exact hmem _ (hv k (List.mem_range.mp hk)))]
    rw [mapM_map_eq]
    have hres : (List.range todo.length).mapM (fun k => resOfP fs old env pg (j, k)) =
        (todo.mapM (fun li => selectArgs fs env f ms (shapeToKey (extOf mk sh) li))).map (List.map FutRes.called) := by
      rw [← mapM_post, ← mapM_range_get (fun li => (selectArgs fs env f ms (shapeToKey (extOf mk sh) li)).map FutRes.called) .fuel todo]
      apply mapM_congr'
      intro k _
      simp only [resOfP, hj, bodyRunP]
      cases todo[k]? <;> rfl
    rw [hres]
    unfold runMappedSel
    simp only []
    rw [← hok]
    cases hm : todo.mapM (fun li => selectArgs fs env f ms (shapeToKey (extOf mk sh) li)) with
    | error e => rfl
    | ok argsAt =>
      have hA := mapM_ok_tlookup _ ([] : Args) _ _ hm
      simp only [Except.map, bind, Except.bind, pure, Except.pure, List.map_map]
      have hid : (FutRes.args ∘ FutRes.called) = id := by funext a; rfl
      simp only [hid, List.map_id]
      congr 2
      apply List.map_congr_left
      intro o ho
      by_cases hs : dumpSub o = true
      · simp only [hs, ↓reduceIte]
        rw [readBackP_eq dumpSub fs old env pg order hdis j f ms sh mk sel todo hj (fun k hk => hmem _ (hv k hk)) _ hA o ho hs st.dumps hd]
      · simp [hs]

theorem mem_idsFromP : ∀ (pg : List (MFunc × PlanP)) (j0 : Nat) (id : TaskId),
    id ∈ idsFromP j0 pg ↔ ∃ fp, j0 ≤ id.1 ∧ pg[id.1 - j0]? = some fp ∧ id.2 < nFutP fp.2 := by
  intro pg
  induction pg with
  | nil => intro j0 id; simp [idsFromP]
  | cons fp rest ih =>
    intro j0 id
    obtain ⟨a, b⟩ := id
    simp only [idsFromP, List.mem_append, List.mem_map, List.mem_range, Prod.mk.injEq, ih]
    constructor
    · rintro (⟨k, hk, rfl, rfl⟩ | ⟨fp', hle, hget, hlt⟩)
      · exact ⟨fp, Nat.le_refl _, by simp, hk⟩
      · refine ⟨fp', by omega, ?_, hlt⟩
        have : a - j0 = (a - (j0 + 1)) + 1 := by omega
        rw [this, List.getElem?_cons_succ]; exact hget
    · rintro ⟨fp', hle, hget, hlt⟩
      by_cases he : a = j0
      · subst he
        simp only [Nat.sub_self, List.getElem?_cons_zero, Option.some.injEq] at hget
        subst hget
        exact Or.inl ⟨b, hlt, rfl, rfl⟩
      · right
        refine ⟨fp', by omega, ?_, hlt⟩
        have : a - j0 = (a - (j0 + 1)) + 1 := by omega
        rw [this, List.getElem?_cons_succ] at hget; exact hget

theorem mem_idsP_iff_valid (pg : List (MFunc × PlanP)) (id : TaskId) : id ∈ idsFromP 0 pg ↔ validIdP pg id := by
  rw [mem_idsFromP]; simp [validIdP]

theorem idsFromP_nodup : ∀ (pg : List (MFunc × PlanP)) (j0 : Nat), (idsFromP j0 pg).Nodup := by
  intro pg
  induction pg with
  | nil => intro j0; simp [idsFromP]
  | cons fp rest ih =>
    intro j0
    simp only [idsFromP]
    rw [List.nodup_append]
    refine ⟨?_, ih (j0 + 1), ?_⟩
    · refine List.Pairwise.map _ ?_ List.nodup_range
      intro a b h e; exact h (by simpa using e)
    · intro a ha b hb
      obtain ⟨k, _, rfl⟩ := List.mem_map.mp ha
      obtain ⟨fp', hle, _, _⟩ := (mem_idsFromP rest (j0 + 1) b).mp hb
      intro e; rw [← e] at hle; simp only at hle; omega

theorem processGenP_eq (dumpSub : String → Bool) (fs : List MFunc) (shapes : List (String × List Nat)) (masks : List (String × List Bool))
    (fixed : Option (List (String × Sel))) (old : List (String × Slot))
    (env : Env) (pg : List (MFunc × PlanP)) (order : List TaskId)
    (st : GStateP) (hfut : st.futs = order.map (fun id => (id, resOfP fs old env pg id)))
    (hd : ∀ x, x ∈ st.dumps ↔ x ∈ order.flatMap (wdOfP dumpSub fs old env pg)) (hdis : PosDisjointP pg)
    (hmem : ∀ id, validIdP pg id → id ∈ order) :
    ∀ (rest : List MFunc) (j0 : Nat), (∀ i, pg[j0 + i]? = (plannedP shapes masks fixed old rest)[i]?) →
      processGenP .sync dumpSub old st j0 (plannedP shapes masks fixed old rest) =
        runGenWith (runFuncPart fs shapes masks fixed old) env rest := by
  intro rest
  induction rest with
  | nil => intro j0 _; rfl
  | cons f rest ih =>
    intro j0 hs
    have h0 : pg[j0]? = some (f, planOfP shapes masks fixed old f) := by simpa [plannedP] using hs 0
    have ht : ∀ i, pg[j0 + 1 + i]? = (plannedP shapes masks fixed old rest)[i]? := by
      intro i
      have := hs (i + 1)
      simp only [plannedP, List.map_cons, List.getElem?_cons_succ] at this ⊢
      rw [← this]; congr 1; omega
    simp only [plannedP, List.map_cons, processGenP, runGenWith]
    rw [processFuncP_eq dumpSub fs old env pg order st hfut hd hdis hmem j0 f _ h0 (planOfP_ok shapes masks fixed old f),
        ← runFuncPart_plan]
    have := ih (j0 + 1) ht
    simp only [plannedP] at this
    rw [this]

theorem posDisjointP_of_pairwise (shapes : List (String × List Nat)) (masks : List (String × List Bool))
    (fixed : Option (List (String × Sel))) (old : List (String × Slot)) (gen : List MFunc)
    (h : gen.Pairwise fun a b => ∀ o, o ∈ a.outputs → o ∉ b.outputs) : PosDisjointP (plannedP shapes masks fixed old gen) := by
  intro j j' fp fp' hj hj' o ho ho'
  simp only [plannedP, List.getElem?_map, Option.map_eq_some_iff] at hj hj'
  obtain ⟨f, hf, rfl⟩ := hj
  obtain ⟨f', hf', rfl⟩ := hj'
  obtain ⟨hjl, rfl⟩ := List.getElem?_eq_some_iff.mp hf
  obtain ⟨hjl', rfl⟩ := List.getElem?_eq_some_iff.mp hf'
  rw [List.pairwise_iff_getElem] at h
  rcases Nat.lt_trichotomy j j' with hlt | heq | hgt
  · exact absurd ho' (h j j' hjl hjl' hlt o ho)
  · exact heq
  · exact absurd ho (h j' j hjl' hjl hgt o ho')

theorem plannedP_mem (shapes : List (String × List Nat)) (masks : List (String × List Bool))
    (fixed : Option (List (String × Sel))) (old : List (String × Slot)) (gen : List MFunc) :
    ∀ (j : Nat) (fp : MFunc × PlanP), (plannedP shapes masks fixed old gen)[j]? = some fp → fp.1 ∈ gen := by
  intro j fp h
  simp only [plannedP, List.getElem?_map, Option.map_eq_some_iff] at h
  obtain ⟨f, hf, rfl⟩ := h
  exact List.mem_of_getElem? hf

/-- **one generation, any schedule, any store**: the results are those of the sequential partial run -/
theorem runGenSchedP_results (fs : List MFunc) (shapes : List (String × List Nat)) (masks : List (String × List Bool))
    (fixed : Option (List (String × Sel))) (old : List (String × Slot))
    (dumpSub : String → Bool) (env : Env) (gen : List MFunc) (order : List TaskId)
    (hperm : order.Perm (idsFromP 0 (plannedP shapes masks fixed old gen)))
    (hind : GenIndep gen) (hdis : gen.Pairwise fun a b => ∀ o, o ∈ a.outputs → o ∉ b.outputs) :
    (runGenSchedP .sync fs shapes masks fixed old dumpSub env gen order).map (·.1) =
      runGenWith (runFuncPart fs shapes masks fixed old) env gen := by
  have hpg := plannedP_mem shapes masks fixed old gen
  have hval : ∀ id ∈ order, validIdP (plannedP shapes masks fixed old gen) id := fun id h =>
    (mem_idsP_iff_valid _ id).mp (hperm.mem_iff.mp h)
  have hmem : ∀ id, validIdP (plannedP shapes masks fixed old gen) id → id ∈ order := fun id h =>
    hperm.mem_iff.mpr ((mem_idsP_iff_valid _ id).mpr h)
  have hcl := runBodiesP_closed fs shapes masks dumpSub old env gen (plannedP shapes masks fixed old gen) hpg hind order {} hval
  have hpe := processGenP_eq dumpSub fs shapes masks fixed old env (plannedP shapes masks fixed old gen) order
    (runBodiesP fs shapes masks dumpSub old env gen (plannedP shapes masks fixed old gen) order {})
    (by rw [hcl]; simp) (by rw [hcl]; intro x; simp) (posDisjointP_of_pairwise shapes masks fixed old gen hdis) hmem gen 0 (by intro i; simp)
  unfold runGenSchedP
  simp only [bind, Except.bind, hpe]
  cases runGenWith (runFuncPart fs shapes masks fixed old) env gen <;> rfl

/-! ### the generic generation loop -/

theorem runGensG_results (G : Nat → Env → List MFunc → M (List FuncResult × GenTrace)) (R : Env → MFunc → M FuncResult)
    (Q : List MFunc → Prop) (hG : ∀ g env gen, Q gen → (G g env gen).map (·.1) = runGenWith R env gen) :
    ∀ (gens : List (List MFunc)) (g : Nat) (env : Env), (∀ gen ∈ gens, Q gen) →
      (runGensG G g gens env).map (fun r => (r.1, r.2.1)) = runGensWith R gens env := by
  intro gens
  induction gens with
  | nil => intro g env _; rfl
  | cons gen rest ih =>
    intro g env hp
    have hres := hG g env gen (hp gen List.mem_cons_self)
    simp only [runGensG, runGensWith]
    cases hrg : G g env gen with
    | error e =>
      rw [hrg] at hres
      simp only [Except.map] at hres
      simp only [bind, Except.bind, ← hres, Except.map]
    | ok v =>
      obtain ⟨rs, tr⟩ := v
      rw [hrg] at hres
      simp only [Except.map] at hres
      have ih' := ih (g + 1) { env with store := env.store ++ rs.flatMap (·.slots) } (fun x hx => hp x (List.mem_cons_of_mem _ hx))
      simp only [bind, Except.bind, ← hres]
      cases hrr : runGensG G (g + 1) rest { env with store := env.store ++ rs.flatMap (·.slots) } with
      | error e =>
        rw [hrr] at ih'
        simp only [Except.map] at ih'
        simp only [← ih', Except.map]
      | ok w =>
        obtain ⟨more, envF, trs⟩ := w
        rw [hrr] at ih'
        simp only [Except.map] at ih'
        simp only [← ih', Except.map, pure, Except.pure]

/-- lift a property of successful generations to all traces of a run -/
theorem runGensG_traces (G : Nat → Env → List MFunc → M (List FuncResult × GenTrace)) (P : GenTrace → Prop) (Q : List MFunc → Prop)
    (hP : ∀ g env gen rs tr, Q gen → G g env gen = .ok (rs, tr) → P tr) :
    ∀ (gens : List (List MFunc)) (g : Nat) (env : Env) (r : List FuncResult × Env × List GenTrace),
      (∀ gen ∈ gens, Q gen) → runGensG G g gens env = .ok r → ∀ tr ∈ r.2.2, P tr := by
  intro gens
  induction gens with
  | nil =>
    intro g env r _ h tr htr
    simp only [runGensG, pure, Except.pure, Except.ok.injEq] at h
    subst h; simp at htr
  | cons gen rest ih =>
    intro g env r hq h tr htr
    simp only [runGensG, bind, Except.bind] at h
    split at h
    · cases h
    · next v hv =>
      obtain ⟨rs, tr0⟩ := v
      simp only at h
      split at h
      · cases h
      · next w hw =>
        obtain ⟨more, envF, trs⟩ := w
        simp only [pure, Except.pure, Except.ok.injEq] at h
        subst h
        simp only [List.mem_cons] at htr
        rcases htr with rfl | htr
        · exact hP g env gen rs _ (hq gen List.mem_cons_self) hv
        · exact ih (g + 1) _ _ (fun x hx => hq x (List.mem_cons_of_mem _ hx)) hw tr htr

theorem runGensG_calls_perm (G : Nat → Env → List MFunc → M (List FuncResult × GenTrace)) (Q : List MFunc → Prop)
    (hG : ∀ g env gen rs tr, Q gen → G g env gen = .ok (rs, tr) → tr.calls.Perm (rs.flatMap (·.calls))) :
    ∀ (gens : List (List MFunc)) (g : Nat) (env : Env) (r : List FuncResult × Env × List GenTrace),
      (∀ gen ∈ gens, Q gen) → runGensG G g gens env = .ok r →
      (r.2.2.flatMap (·.calls)).Perm (r.1.flatMap (·.calls)) := by
  intro gens
  induction gens with
  | nil =>
    intro g env r _ h
    simp only [runGensG, pure, Except.pure, Except.ok.injEq] at h
    subst h; simp
  | cons gen rest ih =>
    intro g env r hq h
    simp only [runGensG, bind, Except.bind] at h
    split at h
    · cases h
    · next v hv =>
      obtain ⟨rs, tr0⟩ := v
      simp only at h
      split at h
      · cases h
      · next w hw =>
        obtain ⟨more, envF, trs⟩ := w
        simp only [pure, Except.pure, Except.ok.injEq] at h
        subst h
        simp only [List.flatMap_cons, List.flatMap_append]
        exact (hG g env gen rs tr0 (hq gen List.mem_cons_self) hv).append
          (ih (g + 1) _ _ (fun x hx => hq x (List.mem_cons_of_mem _ hx)) hw)


/-! ### traces -/

/-- what a successful generation leaves in its trace -/
theorem runGenSchedP_trace (mode : Await) (fs : List MFunc) (shapes : List (String × List Nat)) (masks : List (String × List Bool))
    (fixed : Option (List (String × Sel))) (old : List (String × Slot))
    (dumpSub : String → Bool) (env : Env) (gen : List MFunc) (order : List TaskId)
    (hperm : order.Perm (idsFromP 0 (plannedP shapes masks fixed old gen))) (hind : GenIndep gen)
    (rs : List FuncResult) (tr : GenTrace) (h : runGenSchedP mode fs shapes masks fixed old dumpSub env gen order = .ok (rs, tr)) :
    tr.ids = idsFromP 0 (plannedP shapes masks fixed old gen) ∧ tr.ran = order ∧
    tr.calls = callsOfP (plannedP shapes masks fixed old gen)
      (order.map fun id => (id, resOfP fs old env (plannedP shapes masks fixed old gen) id)) ∧
    tr.dumps = workerEvs (order.flatMap (wdOfP dumpSub fs old env (plannedP shapes masks fixed old gen)))
      ++ parentDumpsGen dumpSub (order.map fun id => (id, resOfP fs old env (plannedP shapes masks fixed old gen) id)) 0
          (plannedP shapes masks fixed old gen) := by
  have hpg := plannedP_mem shapes masks fixed old gen
  have hval : ∀ id ∈ order, validIdP (plannedP shapes masks fixed old gen) id := fun id h =>
    (mem_idsP_iff_valid _ id).mp (hperm.mem_iff.mp h)
  have hcl := runBodiesP_closed fs shapes masks dumpSub old env gen (plannedP shapes masks fixed old gen) hpg hind order {} hval
  unfold runGenSchedP at h
  simp only [bind, Except.bind, hcl] at h
  split at h
  · cases h
  · simp only [pure, Except.pure, Except.ok.injEq, Prod.mk.injEq] at h
    obtain ⟨_, rfl⟩ := h
    simp

/-- the call a resolved future contributes to the log: none when the outputs were loaded -/
def callOfP (fs : List MFunc) (old : List (String × Slot)) (env : Env) (pg : List (MFunc × PlanP)) (id : TaskId) : Option Call :=
  match pg[id.1]?, resOfP fs old env pg id with
  | some (f, _), .ok (.called a) => some { name := f.name, args := a }
  | _, _ => none

theorem callsOfP_graph (fs : List MFunc) (old : List (String × Slot)) (env : Env) (pg : List (MFunc × PlanP)) (order : List TaskId) :
    callsOfP pg (order.map fun id => (id, resOfP fs old env pg id)) = order.filterMap (callOfP fs old env pg) := by
  unfold callsOfP
  rw [List.filterMap_map]
  congr 1

theorem mapM_ok_get' {α β} (g : α → M β) (l : List α) (r : List β) (h : l.mapM g = .ok r) (i : Nat) (hi : i < l.length) :
    ∃ hr : i < r.length, g l[i] = .ok r[i] := by
  have hl := mapM_ok_length g l r h
  exact ⟨by omega, mapM_ok_get g l r h i hi (by omega)⟩

theorem processGenP_calls (mode : Await) (dumpSub : String → Bool) (fs : List MFunc) (old : List (String × Slot)) (env : Env)
    (pg : List (MFunc × PlanP)) (order : List TaskId)
    (st : GStateP) (hfut : st.futs = order.map (fun id => (id, resOfP fs old env pg id)))
    (hmem : ∀ id, validIdP pg id → id ∈ order) :
    ∀ (rest : List (MFunc × PlanP)) (j0 : Nat) (rs : List FuncResult), (∀ i, pg[j0 + i]? = rest[i]?) →
      processGenP mode dumpSub old st j0 rest = .ok rs →
      (idsFromP j0 rest).filterMap (callOfP fs old env pg) = rs.flatMap (·.calls) := by
  intro rest
  induction rest with
  | nil =>
    intro j0 rs _ h
    simp only [processGenP, pure, Except.pure, Except.ok.injEq] at h
    subst h; simp [idsFromP]
  | cons fp rest ih =>
    intro j0 rs hs h
    obtain ⟨f, plan⟩ := fp
    have h0 : pg[j0]? = some (f, plan) := by simpa using hs 0
    have ht : ∀ i, pg[j0 + 1 + i]? = rest[i]? := by
      intro i
      have := hs (i + 1)
      simp only [List.getElem?_cons_succ] at this
      rw [← this]; congr 1; omega
    simp only [processGenP, bind, Except.bind] at h
    split at h
    · cases h
    · next r hr =>
      split at h
      · cases h
      · next rs' hrs =>
        simp only [pure, Except.pure, Except.ok.injEq] at h
        subst h
        simp only [idsFromP, List.filterMap_append, List.flatMap_cons, ih (j0 + 1) rs' ht hrs]
        congr 1
        rw [List.filterMap_map]
        -- whatever the way of awaiting, a successful wait returns the blocking loop's list
        have hsync : ∀ ids res, awaitAll mode st ids = .ok res → awaitAll .sync st ids = .ok res := by
          intro ids res hh
          cases mode with
          | sync => exact hh
          | gather =>
            simp only [awaitAll] at hh ⊢
            split at hh
            · cases hh
            · exact hh
        cases plan with
        | bad e => simp [processFuncP] at hr
        | single =>
          have hv : validIdP pg (j0, 0) := ⟨_, h0, by simp [nFutP]⟩
          simp only [processFuncP, bind, Except.bind] at hr
          split at hr
          · cases hr
          · next res hres =>
            have hs' := hsync _ _ hres
            rw [awaitAll_sync_closed fs old env pg order st hfut [(j0, 0)]
              (by intro id hid; simp at hid; subst hid; exact hmem _ hv)] at hs'
            simp only [List.mapM_cons, List.mapM_nil, bind, Except.bind, pure, Except.pure] at hs'
            split at hs'
            · cases hs'
            · next r0 hr0 =>
              simp only [Except.ok.injEq] at hs'
              subst hs'
              cases r0 with
              | called a =>
                simp only [pure, Except.pure, Except.ok.injEq] at hr
                subst hr
                simp [nFutP, List.range_succ, callOfP, h0, hr0]
              | loaded vs =>
                simp only [pure, Except.pure, Except.ok.injEq] at hr
                subst hr
                simp [nFutP, List.range_succ, callOfP, h0, hr0]
        | mapped ms sh mk sel todo =>
          have hv : ∀ k, k < todo.length → validIdP pg (j0, k) := fun k hk => ⟨_, h0, by simpa [nFutP] using hk⟩
          simp only [processFuncP, bind, Except.bind] at hr
          split at hr
          · cases hr
          · next res hres =>
            simp only [pure, Except.pure, Except.ok.injEq] at hr
            subst hr
            have hs' := hsync _ _ hres
            rw [awaitAll_sync_closed fs old env pg order st hfut _ (by
              intro id hid
              obtain ⟨k, hk, rfl⟩ := List.mem_map.mp hid
              exact hmem _ (hv k (List.mem_range.mp hk))), mapM_map_eq] at hs'
            have hlen := mapM_ok_length _ _ _ hs'
            simp only [List.length_range] at hlen
            simp only [nFutP, List.map_map]
            rw [← hlen, ← range_map_getD res (.called []) ((fun a => ({ name := f.name, args := a } : Call)) ∘ FutRes.args)]
            apply filterMap_some_eq_map
            intro k hk
            have hk' : k < res.length := List.mem_range.mp hk
            obtain ⟨_, hget⟩ := mapM_ok_get' _ _ _ hs' k (by simpa [hlen] using hk')
            simp only [List.getElem_range] at hget
            have hres_k : res.getD k (.called []) = res[k] := by simp [List.getD, List.getElem?_eq_getElem hk']
            rw [hres_k]
            -- the body of a mapped task always *calls*
            have hcalled : ∃ a, res[k] = .called a := by
              simp only [resOfP, h0, bodyRunP] at hget
              cases ht : todo[k]? with
              | none => simp [ht] at hget
              | some li =>
                simp only [ht] at hget
                cases hsel : selectArgs fs env f ms (shapeToKey (extOf mk sh) li) with
                | error e => simp [hsel, Except.map] at hget
                | ok a => simp only [hsel, Except.map, Except.ok.injEq] at hget; exact ⟨a, hget.symm⟩
            obtain ⟨a, ha⟩ := hcalled
            simp [callOfP, h0, hget, ha, FutRes.args]

theorem runGenSchedP_calls_perm (mode : Await) (fs : List MFunc) (shapes : List (String × List Nat)) (masks : List (String × List Bool))
    (fixed : Option (List (String × Sel))) (old : List (String × Slot))
    (dumpSub : String → Bool) (env : Env) (gen : List MFunc) (order : List TaskId)
    (hperm : order.Perm (idsFromP 0 (plannedP shapes masks fixed old gen))) (hind : GenIndep gen)
    (rs : List FuncResult) (tr : GenTrace) (h : runGenSchedP mode fs shapes masks fixed old dumpSub env gen order = .ok (rs, tr)) :
    tr.calls.Perm (rs.flatMap (·.calls)) := by
  obtain ⟨_, _, hc, _⟩ := runGenSchedP_trace mode fs shapes masks fixed old dumpSub env gen order hperm hind rs tr h
  have hpg := plannedP_mem shapes masks fixed old gen
  have hval : ∀ id ∈ order, validIdP (plannedP shapes masks fixed old gen) id := fun id h =>
    (mem_idsP_iff_valid _ id).mp (hperm.mem_iff.mp h)
  have hmem : ∀ id, validIdP (plannedP shapes masks fixed old gen) id → id ∈ order := fun id h =>
    hperm.mem_iff.mpr ((mem_idsP_iff_valid _ id).mpr h)
  have hcl := runBodiesP_closed fs shapes masks dumpSub old env gen (plannedP shapes masks fixed old gen) hpg hind order {} hval
  rw [hc, callsOfP_graph]
  unfold runGenSchedP at h
  simp only [bind, Except.bind] at h
  split at h
  · cases h
  · next rs0 hrs =>
    simp only [pure, Except.pure, Except.ok.injEq, Prod.mk.injEq] at h
    obtain ⟨rfl, _⟩ := h
    have := processGenP_calls mode dumpSub fs old env (plannedP shapes masks fixed old gen) order
      (runBodiesP fs shapes masks dumpSub old env gen (plannedP shapes masks fixed old gen) order {}) (by rw [hcl]; simp) hmem
      (plannedP shapes masks fixed old gen) 0 rs0 (by intro i; simp) hrs
    rw [← this]
    exact hperm.filterMap _

end PF.SchedP
