import PfModel.DriverLib
import PfModel.Model.MapSpecParse
import PfModel.Model.MapSpecRegex
import PfModel.Model.MapSpecAxes
import PfModel.Model.MapSpecSpaced
/-! Driver for C08 (`mapspec.parse`, `mapspec.ops`, `mapspec.consistent`, `mapspec.axes`).
    Run: `lake env lean --run Driver/C08.lean < requests.jsonl`. -/
open Lean PF.Drv PF.MS

def errJ : Err → Json
  | .valueError => jObj [("err", jStr "ValueError")]
  | .indexError => jObj [("err", jStr "IndexError")]
  | .keyError => jObj [("err", jStr "KeyError")]
  | .assertionError => jObj [("err", jStr "AssertionError")]

def exJ {α} (f : α → Json) : Except Err α → Json
  | .ok v => jObj [("ok", f v)]
  | .error e => errJ e

def getSpec (j : Json) : R ArraySpec := do
  let (n, ax) ← asPair asStr (asList (asOpt asStr)) j
  return ⟨n, ax⟩

def getMS (j : Json) : R MapSpec := do
  return ⟨← listF getSpec j "inputs", ← listF getSpec j "outputs"⟩

def putSpec (a : ArraySpec) : Json := jArr [jStr a.name, jList (jOpt jStr) a.axes]
def putMS (m : MapSpec) : Json := jObj [("inputs", jList putSpec m.inputs), ("outputs", jList putSpec m.outputs)]

def getDict (j : Json) : R ShapeDict := asList (asPair asStr (asList asNat)) j

def ascii (s : String) : Bool := s.toList.all fun c => c.toNat < 128
def specAscii (a : ArraySpec) : Bool := ascii a.name && a.axes.all fun | none => true | some s => ascii s
def msAscii (m : MapSpec) : Bool := m.inputs.all specAscii && m.outputs.all specAscii

def getChars (j : Json) : R (List Char) := do return (← asStr j).toList

def getSpAxis (j : Json) : R SpAxis := do
  match ← asArr j with
  | [l, ax, r] => return ⟨← getChars l, ← asOpt asStr ax, ← getChars r⟩
  | _ => .error "axis triple expected"

def getSpArr (j : Json) : R SpArr := do
  match ← asArr j with
  | [l, n, axes, r] => return ⟨← getChars l, ← asStr n, ← asList getSpAxis axes, ← getChars r⟩
  | _ => .error "array quadruple expected"

def getSpSpec (j : Json) : R SpSpec := do
  return ⟨← listF getSpArr j "inputs", (← strF j "dl").toList, (← strF j "al").toList, (← strF j "ar").toList,
          ← listF getSpArr j "outputs"⟩

/-- `WF` of Lemmas/MapSpecParse.lean, decided: the constructor accepts the spec and every rank is ≥ 1 -/
def wfB (m : MapSpec) : Bool :=
  (match construct m.inputs m.outputs with | .ok _ => true | .error _ => false) &&
  (m.inputs ++ m.outputs).all fun a => !a.axes.isEmpty

def putKeys (l : List (String × List (Option Nat))) : Json := jList (jPair jStr (jList (jOpt jNat))) l

def allOk {α} : List (Except Err α) → Option (List α)
  | [] => some []
  | .ok v :: r => (allOk r).map (v :: ·)
  | .error _ :: _ => none

/-- one operation on an already constructed spec -/
def doOp (m : MapSpec) (op : Json) : R Json := do
  let args ← asArr op
  match args with
  | [] => .error "empty op"
  | name :: rest =>
    match ← asStr name, rest with
    | "str", [] => return jStr (toStr m)
    | "roundtrip", [] => return exJ putMS (parse (toStr m))
    | "ext", [] => return jList jStr (externalIndices m)
    | "shape", [ins, internal] => return exJ (jPair (jList jNat) (jList jBool)) (shape m (← getDict ins) (← getDict internal))
    | "outkey", [s, i] => return exJ (jList jNat) (outputKey m (← asList asNat s) (← asNat i))
    | "outkeys", [s] =>
      let s ← asList asNat s
      let ks := (List.range (PF.prod s)).map (outputKey m s)
      match allOk ks with
      | some l => return jObj [("ok", jList (jList jNat) l), ("spec_agrees", jBool (l == PF.allIdx s))]
      | none => return exJ (jList jNat) (outputKey m s 0)
    | "inkeys", [s, i] => return exJ putKeys (inputKeys m (← asList asNat s) (← asNat i))
    | "inkeys_all", [s] =>
      let s ← asList asNat s
      let ks := (List.range (PF.prod s)).map (inputKeys m s)
      match allOk ks with
      | some l => return jObj [("ok", jList putKeys l)]
      | none => return exJ putKeys (inputKeys m s 0)
    | "to_string", [] => return jStr (toStr m)
    | "rename_seq", [ρ, σ] =>
      return exJ putMS (rename (← asList (asPair asStr asStr) ρ) m >>= rename (← asList (asPair asStr asStr) σ))
    | "add_axes_seq", [ax, bx] =>
      return exJ putMS (addAxes (← asList (asOpt asStr) ax) m >>= addAxes (← asList (asOpt asStr) bx))
    | "rename", [ρ] => return exJ putMS (rename (← asList (asPair asStr asStr) ρ) m)
    | "add_axes", [ax] => return exJ putMS (addAxes (← asList (asOpt asStr) ax) m)
    | n, _ => .error s!"unknown op {n}"

/-- a spec-producing operation (`rename` / `add_axes`, one call or two in a row) -/
def specOp (m : MapSpec) (op : Json) : R (Except Err MapSpec) := do
  match ← asArr op with
  | [] => .error "empty op"
  | name :: rest =>
    match ← asStr name, rest with
    | "rename", [ρ] => return rename (← asList (asPair asStr asStr) ρ) m
    | "add_axes", [ax] => return addAxes (← asList (asOpt asStr) ax) m
    | "rename_seq", [ρ, σ] =>
      return rename (← asList (asPair asStr asStr) ρ) m >>= rename (← asList (asPair asStr asStr) σ)
    | "add_axes_seq", [ax, bx] =>
      return addAxes (← asList (asOpt asStr) ax) m >>= addAxes (← asList (asOpt asStr) bx)
    | n, _ => .error s!"unknown spec op {n}"

/-- `["then", op1, subops, history, touch]`: the sub-operations run on the spec `op1` produces from `m` (the model has no object state:
    `history` and `touch` only tell the harness what to do with the Python objects before) -/
def doOpT (m : MapSpec) (op : Json) : R Json := do
  match ← asArr op with
  | name :: rest =>
    if (← asStr name) == "then" then
      match rest with
      | [op1, subs, hist, touch] =>
        let h ← asStr hist
        if h != "used" && h != "fresh" then .error s!"unknown history {h}"
        let _ ← asBool touch
        match ← specOp m op1 with
        | .error e => return errJ e
        | .ok m' =>
          let rs ← (← asArr subs).mapM (doOp m')
          return jObj [("ok", putMS m'), ("then", jArr rs)]
      | _ => .error "then: [op1, subops, history, touch] expected"
    else doOp m op
  | [] => .error "empty op"

def handle (m : String) (a : Json) : R Json := do
  match m with
  | "parse" =>
    let s ← strF a "s"
    if !ascii s then return jObj [("skip", jStr "non-ascii")]
    return exJ putMS (parse s)
  | "parse_legacy" =>
    let s ← strF a "s"
    if !ascii s then return jObj [("skip", jStr "non-ascii")]
    return exJ putMS (parseLegacy s)
  | "ops" =>
    let ms ← getMS (← fld a "spec")
    if !msAscii ms then return jObj [("skip", jStr "non-ascii")]
    match construct ms.inputs ms.outputs with
    | .error e => return jObj [("construct", errJ e)]
    | .ok m =>
      let ops ← listF pure a "ops"
      let rs ← ops.mapM (doOpT m)
      return jObj [("construct", jObj [("ok", putMS m)]), ("ops", jArr rs)]
  | "spaced" =>
    -- a whitespace-decorated spec (Model/MapSpecSpaced.lean): its text, the spec it stands for, whether the hypotheses of
    -- `C08_parse_spaced` hold, what `from_string` answers on the text, and the theorem re-evaluated on this case
    let t ← getSpSpec (← fld a "t")
    let m := t.erase
    if !(msAscii m && ascii t.print) then return jObj [("skip", jStr "non-ascii")]
    let hyp := t.ok && wfB m
    let p := parse t.print
    let thm := !hyp || (match p with | .ok m' => decide (m' = m) | .error _ => false)
    return jObj [("text", jStr t.print), ("erase", putMS m), ("decoration_ok", jBool t.ok), ("wf", jBool (wfB m)),
                 ("parse", exJ putMS p), ("theorem_holds", jBool thm),
                 ("is_str", jBool (t.print == toStr m)),
                 ("constructs", jBool (match construct m.inputs m.outputs with | .ok _ => true | .error _ => false))]
  | "findall" =>
    -- `re.findall(array_pattern, s)` by the regex engine; `scanner_agrees` re-checks `C08_regex_findall` on this text
    let s ← strF a "s"
    if !ascii s then return jObj [("skip", jStr "non-ascii")]
    let xs := s.toList
    let ms := reFindAll arrayRe (xs.length + 1) xs
    let strs := ms.map fun (g1, g2) => [String.ofList g1, String.ofList g2]
    return jObj [("ok", jList (jList jStr) strs),
                 ("scanner_agrees", jBool (decide (ms.map toSpec = findAll xs.length xs))),
                 ("parse_agrees", jBool (match parse s, parseRe s with
                    | .ok m1, .ok m2 => decide (m1 = m2)
                    | .error e1, .error e2 => decide (e1 = e2)
                    | _, _ => false))]
  | "consistent_loop" =>
    let ms ← listF getMS a "specs"
    return jBool (consistentAxesLoop ms)
  | "dims" =>
    let ms ← listF getMS a "specs"
    return jObj [("ok", jList (jPair jStr jNat) (mapspecDimensions ms))]
  | "trace" =>
    let ms ← listF getMS a "specs"
    match traceDependencies ms with
    | none => return jObj [("err", jStr "RecursionError")]
    | some t => return jObj [("ok", jList (jPair jStr (jList (jPair jStr (jList jStr)))) t)]
  | "consistent" =>
    let ms ← listF getMS a "specs"
    return jBool (consistentAxes ms)
  | "axes" =>
    let ms ← listF getMS a "specs"
    return jObj [("ok", jList (jPair jStr (jList (jOpt jStr))) (mapspecAxes ms))]
  | _ => .error s!"unknown entry {m}"

def main : IO Unit := loop handle
