import PfModel.Props.C04
import PfModel.Lemmas.RunInfoNorm
/-!
C04 (round 9) — `RunInfo.load ∘ RunInfo.dump` is a normalisation, for EVERY record.

`C04_runinfo_roundtrip` speaks of records whose keys survive the `,` encoding (`NamesOK`).  Here the hypothesis is gone:
`PF.RIC.encodeN` / `decodeN` (Model/RunInfoNorm.lean) build the JSON objects and the reloaded dictionaries the way the
code does -- with dict comprehensions, so that keys which become equal are one entry (first position, last value) -- and
`normalise : RunInfo → RunInfo`, defined on the record, is what comes back.  The fixed points of `normalise` are
characterised exactly, the old theorem is the special case `NamesOK`, and `decide` witnesses show what happens outside.
-/
namespace PF.C04
open PF PF.Map PF.RIC

/-! ### load ∘ dump = normalise -/

/-- **`RunInfo.load(F)` after `_dump_all` returns `normalise r`**, for every record whose `inputs` is a dictionary and every
    folder content before the dump: no hypothesis on names, keys or their distinctness.  (`shapes`, `shape_masks`,
    a `storage` dictionary: both comprehensions; `all_output_names`: sorted, then a set; the rest unchanged.) -/
theorem C04_load_dump_normalise (fo : Folder) (r : RunInfo) (hin : (akeys r.inputs).Nodup) :
    decodeN (dumpAllN fo r) = some (normalise r) :=
  decodeN_of_reads _ r (dumpAllN_runInfo fo r) (fun kv hkv => dumpAllN_input fo r hin kv hkv) (dumpAllN_defaults fo r)

/-- `load` never fails on what `dump` wrote (the corollary the harness counts as `loaded`) -/
theorem C04_load_dump_total (fo : Folder) (r : RunInfo) (hin : (akeys r.inputs).Nodup) : (decodeN (dumpAllN fo r)).isSome = true := by
  rw [C04_load_dump_normalise fo r hin]; rfl

/-- what `normalise` never touches -/
theorem C04_normalise_frame (r : RunInfo) :
    (normalise r).inputs = r.inputs ∧ (normalise r).defaults = r.defaults ∧ (normalise r).internalShapes = r.internalShapes ∧
    (normalise r).mapspecs = r.mapspecs ∧ (normalise r).version = r.version ∧
    (∀ s, r.storage = .uniform s → (normalise r).storage = .uniform s) ∧
    (∀ x, x ∈ (normalise r).allOutputNames ↔ x ∈ r.allOutputNames) ∧ (normalise r).allOutputNames.Nodup := by
  refine ⟨rfl, rfl, rfl, rfl, rfl, ?_, ?_, dedupNames_nodup _⟩
  · intro s hs; simp only [normalise, hs, normStorage]
  · intro x; simp only [normalise]; rw [mem_dedupNames, mem_sortNames]

/-- the dictionaries of the normal form are Python dicts (distinct keys), whose keys are normal forms of the given keys -/
theorem C04_normalise_keys (r : RunInfo) :
    ((normalise r).shapes.map (·.1)).Nodup ∧ ((normalise r).shapeMasks.map (·.1)).Nodup ∧
    (∀ k ∈ (normalise r).shapes.map (·.1), ∃ k' ∈ r.shapes.map (·.1), k = normKey k') ∧
    (∀ k ∈ (normalise r).shapeMasks.map (·.1), ∃ k' ∈ r.shapeMasks.map (·.1), k = normKey k') :=
  ⟨normDict_keys_nodup _, normDict_keys_nodup _, fun k hk => normDict_keys _ k hk, fun k hk => normDict_keys _ k hk⟩

/-! ### fixed points -/

/-- **A dictionary is unchanged by `dump` + `load` exactly when** its keys are distinct and each key is its own normal
    form (`dictFixed`, a decidable condition). -/
theorem C04_normDict_fix_iff {β : Type} (l : List (Key × β)) :
    normDict l = l ↔ ((l.map (·.1)).Nodup ∧ ∀ kv ∈ l, normKey kv.1 = kv.1) := by
  constructor
  · intro h; exact (dictFixed_iff l).mp (normDict_fix_conv l h)
  · rintro ⟨h1, h2⟩; exact normDict_fix l h1 h2

/-- **A record round-trips (up to the order of `all_output_names`) exactly when** `recFixed r` -- the three dictionaries
    satisfy `dictFixed` -- and `all_output_names` has no duplicate. -/
theorem C04_normalise_fix_iff (r : RunInfo) :
    normalise r = { r with allOutputNames := sortNames r.allOutputNames } ↔ (recFixed r = true ∧ r.allOutputNames.Nodup) :=
  normalise_fix_iff r

/-- `recFixed` spelled out -/
theorem C04_recFixed_iff (r : RunInfo) :
    recFixed r = true ↔
      ((r.shapes.map (·.1)).Nodup ∧ ∀ kv ∈ r.shapes, normKey kv.1 = kv.1) ∧
      ((r.shapeMasks.map (·.1)).Nodup ∧ ∀ kv ∈ r.shapeMasks, normKey kv.1 = kv.1) ∧
      ∀ m, r.storage = .per m → ((m.map (·.1)).Nodup ∧ ∀ kv ∈ m, normKey kv.1 = kv.1) := by
  rw [recFixed_iff, dictFixed_iff, dictFixed_iff]
  constructor
  · rintro ⟨h1, h2, h3⟩; exact ⟨h1, h2, fun m e => (dictFixed_iff m).mp (h3 m e)⟩
  · rintro ⟨h1, h2, h3⟩; exact ⟨h1, h2, fun m e => (dictFixed_iff m).mpr (h3 m e)⟩

/-- **The old theorem is the special case `NamesOK`**: for an admissible record whose dictionaries have distinct keys and whose
    output names are distinct, `normalise` only sorts `all_output_names`, the collapsed `dump` writes exactly what the plain
    `dumpAll` writes, and the collapsed `load` reads from it exactly what the plain `decode` reads. -/
theorem C04_normalise_of_namesOK (fo : Folder) (r : RunInfo) (h : NamesOK r) (hs : (r.shapes.map (·.1)).Nodup)
    (hm : (r.shapeMasks.map (·.1)).Nodup) (hst : ∀ m, r.storage = .per m → (m.map (·.1)).Nodup) (hn : r.allOutputNames.Nodup) :
    normalise r = { r with allOutputNames := sortNames r.allOutputNames } ∧
    dumpAllN fo r = dumpAll fo r ∧
    decodeN (dumpAll fo r) = decode (dumpAll fo r) := by
  have hf := recFixed_of_keyOK r h hs hm hst
  have e1 := normalise_of_fixed r hf hn
  have e2 : dumpAllN fo r = dumpAll fo r := by simp only [dumpAllN, dumpAll, encodeN_eq_of_fixed r hf]
  refine ⟨e1, e2, ?_⟩
  rw [← e2, C04_load_dump_normalise fo r h.inputs, e1, ← (C04_runinfo_roundtrip fo r h).1, e2]

/-! ### the normal form of one key -/

/-- admissible keys are their own normal form (so `normKey` is idempotent on them) -/
theorem C04_normKey_fixed_of_keyOK (k : Key) (h : KeyOK k) : normKey k = k ∧ normKey (normKey k) = normKey k := by
  have e : normKey k = k := strKey_keyStr k h
  exact ⟨e, by rw [e, e]⟩

/-- `normKey` is NOT idempotent: a 1-tuple whose name ends in a comma needs two rounds -/
theorem C04_normKey_not_idempotent_witness :
    normKey (.many ["a,"]) = .many ["a", ""] ∧ normKey (.many ["a", ""]) = .many ["a"] ∧ normKey (.many ["a"]) = .many ["a"] := by decide

/-- … and no fixed number of rounds is enough: every round removes ONE trailing comma (`str.removesuffix`), so
    `normKey³ ≠ normKey²` here (and `n` trailing commas need `n` rounds) -/
theorem C04_normKey_no_bound_witness :
    normKey (.one "a,b,,,") = .many ["a", "b", "", ""] ∧ normKey (.many ["a", "b", "", ""]) = .many ["a", "b", ""] ∧
    normKey (.many ["a", "b", ""]) = .many ["a", "b"] ∧ normKey (.many ["a", "b"]) = .many ["a", "b"] := by decide

/-- the fixed keys are more than the admissible ones: an empty name is fine unless it is the last of several -/
theorem C04_normKey_fixed_not_keyOK_witness :
    normKey (.many [""]) = .many [""] ∧ normKey (.many ["", "a"]) = .many ["", "a"] ∧ normKey (.many ["", ""]) = .many [""] ∧
    normKey (.many []) = .one "" := by decide

/-- **`normDict` is idempotent exactly when** every key of the normal form is its own normal form. -/
theorem C04_normDict_idempotent_iff {β : Type} (l : List (Key × β)) :
    normDict (normDict l) = normDict l ↔ ∀ kv ∈ normDict l, normKey kv.1 = kv.1 := normDict_idem_iff l

/-- **`normalise` is idempotent (up to the order of `all_output_names`) exactly when** `recFixed (normalise r)`. -/
theorem C04_normalise_idempotent_iff (r : RunInfo) :
    normalise (normalise r) = { normalise r with allOutputNames := sortNames (normalise r).allOutputNames } ↔
      recFixed (normalise r) = true := by
  rw [C04_normalise_fix_iff]
  constructor
  · exact fun h => h.1
  · exact fun h => ⟨h, dedupNames_nodup _⟩

/-- sufficient: no key of `r` needs a second round (in particular: every key admissible) -/
theorem C04_normalise_idempotent_partial (r : RunInfo)
    (hs : ∀ kv ∈ r.shapes, normKey (normKey kv.1) = normKey kv.1) (hm : ∀ kv ∈ r.shapeMasks, normKey (normKey kv.1) = normKey kv.1)
    (hst : ∀ m, r.storage = .per m → ∀ kv ∈ m, normKey (normKey kv.1) = normKey kv.1) :
    recFixed (normalise r) = true := by
  rw [recFixed_iff]
  refine ⟨dictFixed_normDict_of _ hs, dictFixed_normDict_of _ hm, ?_⟩
  intro m e
  simp only [normalise] at e
  cases hst' : r.storage with
  | uniform s => rw [hst'] at e; simp [normStorage] at e
  | per m' =>
    rw [hst'] at e
    simp only [normStorage, Storage.per.injEq] at e
    rw [← e]
    exact dictFixed_normDict_of _ (hst m' hst')

/-- `normalise` is not idempotent in general: the 1-tuple key `("a,",)` -/
theorem C04_normalise_not_idempotent_witness :
    normDict [(Key.many ["a,"], [2])] = [(.many ["a", ""], [2])] ∧ normDict [(Key.many ["a", ""], [2])] = [(.many ["a"], [2])] := by decide

/-! ### collisions -/

/-- the name `"y,"` and the 1-tuple `("y",)` are one JSON key: ONE entry comes back, a 1-tuple, with the LATER value -/
theorem C04_collision_one_tuple_witness :
    normDict [(Key.one "y,", [1]), (.many ["y"], [2])] = [(.many ["y"], [2])] ∧
    normDict [(Key.many ["y"], [2]), (.one "y,", [1])] = [(.many ["y"], [1])] := by decide

/-- the merged entry stays at the position of the FIRST of the colliding keys -/
theorem C04_collision_position_witness :
    normDict [(Key.one "y,", [1]), (.one "z", [5]), (.many ["y"], [2])] = [(.many ["y"], [2]), (.one "z", [5])] := by decide

/-- the empty tuple and the empty name collide (`"".join(()) == ""`), and come back as the name -/
theorem C04_collision_empty_witness :
    normDict [(Key.many [], [1]), (.one "", [2])] = [(.one "", [2])] := by decide

/-- keys that differ as JSON keys can still merge in `load` (`"a,b"` and `"a,b,"` both read as `("a", "b")`) -/
theorem C04_collision_load_witness :
    normDict [(Key.many ["a", "b"], [1]), (.many ["a", "b", ""], [2])] = [(.many ["a", "b"], [2])] ∧
    keyStr (.many ["a", "b"]) ≠ keyStr (.many ["a", "b", ""]) := by decide

/-- the two comprehensions are not one comprehension over `normKey`: with `"a,b"`, `"a,b,"`, `("a","b")` in this order the
    value that survives is the SECOND one (the last JSON key), not the last one -/
theorem C04_two_stage_witness :
    normDict [(Key.one "a,b", [1]), (.one "a,b,", [2]), (.many ["a", "b"], [3])] = [(.many ["a", "b"], [2])] ∧
    dictOf ([(Key.one "a,b", [1]), (.one "a,b,", [2]), (.many ["a", "b"], [3])].map fun kv => (normKey kv.1, kv.2)) = [(.many ["a", "b"], [3])] := by
  decide

/-- the whole pipeline on a record: `shapes` and `shape_masks` merge, the `storage` dictionary too, names become a sorted set -/
theorem C04_load_dump_witness :
    (match decodeN (dumpAllN Folder.empty
        { inputs := [], defaults := [], allOutputNames := ["z", "y", "z"], shapes := [(.many ["y"], [2]), (.one "y,", [3])],
          internalShapes := none, shapeMasks := [(.many ["y"], [true]), (.one "y,", [false])], mapspecs := [],
          storage := .per [(.one "a,b", "dict"), (.many ["a", "b"], "file_array")], version := "v" }) with
     | some r' => decide (r'.shapes = [(.many ["y"], [3])] ∧ r'.shapeMasks = [(.many ["y"], [false])] ∧
                  r'.storage = .per [(.many ["a", "b"], "file_array")] ∧ r'.allOutputNames = ["y", "z"])
     | none => false) = true := by decide

/-! ### non-vacuity -/

example : ∃ (fo : Folder) (r : RunInfo), (akeys r.inputs).Nodup ∧ r.shapes = [(.one "y,", [1]), (.many ["y"], [2])] ∧
    decodeN (dumpAllN fo r) = some (normalise r) ∧ (normalise r).shapes = [(.many ["y"], [2])] :=
  ⟨Folder.empty,
   { inputs := [("x", .int 1)], defaults := [], allOutputNames := ["y"], shapes := [(.one "y,", [1]), (.many ["y"], [2])], internalShapes := none,
     shapeMasks := [], mapspecs := [], storage := .uniform "dict", version := "v" },
   by decide, rfl, C04_load_dump_normalise _ _ (by decide), by decide⟩

example : ∃ l : List (Key × List Nat), l ≠ [] ∧ normDict l = l := ⟨[(.many ["y"], [1]), (.one "y", [2])], by decide, by decide⟩
example : ∃ l : List (Key × List Nat), normDict l ≠ l := ⟨[(.one "a,b", [1])], by decide⟩

example : ∃ r : RunInfo, recFixed r = true ∧ r.allOutputNames.Nodup ∧ r.shapes ≠ [] :=
  ⟨{ inputs := [], defaults := [], allOutputNames := ["z", "y"], shapes := [(.many ["y", "z"], [2])], internalShapes := none,
     shapeMasks := [(.many ["y", "z"], [true])], mapspecs := [], storage := .per [(.one "", "dict")], version := "v" }, by decide, by decide, by decide⟩
example : ∃ r : RunInfo, recFixed r = false :=
  ⟨{ inputs := [], defaults := [], allOutputNames := [], shapes := [(.one "a,b", [2])], internalShapes := none,
     shapeMasks := [], mapspecs := [], storage := .uniform "dict", version := "v" }, by decide⟩

example : ∃ r : RunInfo, NamesOK r ∧ (r.shapes.map (·.1)).Nodup ∧ (r.shapeMasks.map (·.1)).Nodup ∧
    (∀ m, r.storage = .per m → (m.map (·.1)).Nodup) ∧ r.allOutputNames.Nodup ∧ r.shapes ≠ [] :=
  ⟨{ inputs := [("x", .int 1)], defaults := [], allOutputNames := ["z", "y"], shapes := [(.many ["y"], [2]), (.one "y", [2])], internalShapes := none,
     shapeMasks := [(.many ["y"], [true])], mapspecs := [], storage := .per [(.one "", "dict"), (.many ["y"], "file_array")], version := "v" },
   { shapes := by
       intro kv hkv; simp only [List.mem_cons, List.not_mem_nil, or_false] at hkv
       rcases hkv with rfl | rfl <;> (simp only [KeyOK]; decide)
     masks := by
       intro kv hkv; simp only [List.mem_cons, List.not_mem_nil, or_false] at hkv
       subst hkv; simp only [KeyOK]; decide
     storage := by
       intro m e; cases e
       intro kv hkv; simp only [List.mem_cons, List.not_mem_nil, or_false] at hkv
       rcases hkv with rfl | rfl <;> (simp only [KeyOK]; decide)
     inputs := by decide },
   by decide, by decide, by intro m e; cases e; decide, by decide, by decide⟩

example : ∃ k, KeyOK k ∧ k = .many ["y"] := ⟨.many ["y"], by simp only [KeyOK]; decide, rfl⟩

example : ∃ r : RunInfo, (∀ kv ∈ r.shapes, normKey (normKey kv.1) = normKey kv.1) ∧ (∀ kv ∈ r.shapeMasks, normKey (normKey kv.1) = normKey kv.1) ∧
    (∀ m, r.storage = .per m → ∀ kv ∈ m, normKey (normKey kv.1) = normKey kv.1) ∧ recFixed r = false :=
  ⟨{ inputs := [], defaults := [], allOutputNames := [], shapes := [(.one "a,b", [2]), (.many ["a", "b"], [3])], internalShapes := none,
     shapeMasks := [], mapspecs := [], storage := .per [(.one "y,", "dict")], version := "v" },
   by decide, by decide, by intro m e; cases e; decide, by decide⟩

example : ∃ l : List (Key × List Nat), (∀ kv ∈ normDict l, normKey kv.1 = kv.1) ∧ normDict l ≠ l :=
  ⟨[(.one "a,b", [1])], by decide, by decide⟩

end PF.C04
