"""Worker side of the C13 harness: runs the real pipefunc with an injected failure under a watchdog and reports what the
caller of `pipeline(...)` / `Pipeline.map` / `map_async` can observe.  One worker process handles one job (a pipeline and a
list of injections) and sends one observation per injection back through a pipe; a hang ends the worker."""
from __future__ import annotations

import asyncio
import json
import os
import shutil
import signal
import tempfile
import traceback

import pfimport  # noqa: F401

import c13_exc
import mapgen
import pipegen
import terms

SOFT_TIMEOUT = float(os.environ.get("VERIF_C13_TIMEOUT", "20"))


class Hang(BaseException):
    """Raised by the watchdog alarm: the call did not return."""


def _alarm(signum, frame):
    raise Hang()


class FileLog:
    """A call log like `terms.CallLog`, but picklable (no lock): invocations are appended to a file with single O_APPEND
    writes, so it works across threads, process pools and cloudpickled snapshots."""

    def __init__(self, path):
        self.path = path

    def add(self, name, kw_enc, phase="call"):
        line = (json.dumps([name, kw_enc, phase, os.getpid()], sort_keys=True) + "\n").encode()
        fd = os.open(self.path, os.O_WRONLY | os.O_APPEND | os.O_CREAT, 0o644)
        try:
            os.write(fd, line)
        finally:
            os.close(fd)

    def clear(self):
        if os.path.exists(self.path):
            os.unlink(self.path)

    def read(self):
        if not os.path.exists(self.path):
            return []
        with open(self.path) as f:
            return [tuple(json.loads(l)) for l in f if l.strip()]


class Hook:
    """The `fail=` hook of one generated function: raises for the invocations named in `state['targets']`.
    A target is [fname, kw_key | None, kind, tag]; kw_key is the canonical JSON of the own-name keyword arguments."""

    def __init__(self, fname, state):
        self.fname = fname
        self.state = state

    def __call__(self, kw_enc, idx):
        key = json.dumps(kw_enc, sort_keys=True)
        for fname, kw_key, kind, tag in self.state["targets"]:
            if fname == self.fname and (kw_key is None or kw_key == key):
                return c13_exc.make(kind, tag)
        return None

    def for_picker(self, out, name):
        """the `output_picker` of this function raises (for every output it is asked to pick)"""
        for fname, kind, tag in self.state.get("picker", []):
            if fname == self.fname:
                return c13_exc.make(kind, tag)
        return None


def describe_exc(e):
    cause = e.__cause__
    d = {"cls": c13_exc.clsname(e), "args": [c13_exc.enc_arg(a) for a in e.args], "notes": list(getattr(e, "__notes__", []) or []),
         "cause": c13_exc.clsname(cause) if cause is not None else None}
    if cause is not None:
        try:
            d["cause_exc"] = {"cls": c13_exc.clsname(cause), "args": [c13_exc.enc_arg(a) for a in cause.args],
                              "notes": list(getattr(cause, "__notes__", []) or [])}
        except Exception:  # noqa: BLE001
            pass
    return d


def enc_kwargs(kw):
    return sorted(([k, terms.enc(terms.freeze(v))] for k, v in kw.items()), key=lambda kv: kv[0])


def observe_snapshot(snap, base):
    if snap is None:
        return None
    o = {}
    try:
        o["fname"] = snap.function.__name__
        o["kwargs"] = enc_kwargs(snap.kwargs)
        o["args"] = [terms.enc(a) for a in snap.args]
        o["exc"] = describe_exc(snap.exception)
        try:
            mapgen.quiet(snap.reproduce)
            o["reproduce"] = "returned"
        except Hang:
            raise
        except BaseException as e:  # noqa: BLE001  (a snapshot may hold a BaseException-only class)
            o["reproduce"] = describe_exc(e)
        path = os.path.join(base, f"snap-{os.getpid()}-{id(snap)}.pkl")
        try:
            snap.save_to_file(path)
            again = type(snap).load_from_file(path)
            r = {"fname": again.function.__name__, "kwargs": enc_kwargs(again.kwargs), "exc": describe_exc(again.exception)}
            try:
                mapgen.quiet(again.reproduce)
                r["reproduce"] = "returned"
            except Hang:
                raise
            except BaseException as e:  # noqa: BLE001
                r["reproduce"] = describe_exc(e)
            o["reloaded"] = r
        except Exception as e:  # noqa: BLE001
            o["reloaded"] = {"err": pfimport.exc_enum(e), "msg": str(e)[:200]}
        finally:
            if os.path.exists(path):
                os.unlink(path)
    except Exception as e:  # noqa: BLE001
        o["err"] = pfimport.exc_enum(e) + ": " + str(e)[:200]
    return o


FRESH_SRC = """
import sys, json
sys.path.insert(0, {harness!r})
import pfimport, io, contextlib
import c13_exc, c13_worker, terms
from pipefunc._pipefunc import ErrorSnapshot
snap = ErrorSnapshot.load_from_file({path!r})
out = {{"fname": snap.function.__name__, "kwargs": c13_worker.enc_kwargs(snap.kwargs), "exc": c13_worker.describe_exc(snap.exception)}}
try:
    with contextlib.redirect_stdout(io.StringIO()):
        snap.reproduce()
    out["reproduce"] = "returned"
except BaseException as e:
    out["reproduce"] = c13_worker.describe_exc(e)
print("@@" + json.dumps(out))
"""


def fresh_reproduce(snap, base):
    """`save_to_file` here, `load_from_file` + `reproduce()` in a FRESH interpreter (nothing of this process survives but the file)."""
    import subprocess
    import sys
    path = os.path.join(base, f"fresh-{os.getpid()}-{id(snap)}.pkl")
    try:
        snap.save_to_file(path)
        src = FRESH_SRC.format(harness=os.path.dirname(os.path.abspath(__file__)), path=path)
        env = dict(os.environ)
        r = subprocess.run([sys.executable, "-c", src], capture_output=True, text=True, timeout=60, env=env)
        for line in r.stdout.splitlines():
            if line.startswith("@@"):
                return json.loads(line[2:])
        return {"err": "no answer from the fresh interpreter", "stderr": r.stderr[-400:]}
    except Exception as e:  # noqa: BLE001
        return {"err": pfimport.exc_enum(e) + ": " + str(e)[:200]}
    finally:
        if os.path.exists(path):
            os.unlink(path)


def read_calls(log):
    return [[c[0], c[1]] for c in log.read() if c[2] == "call"]


def read_events(log):
    """the log in the order it was written (single O_APPEND writes: the real-time order of the run, also across pool threads): every
    invocation ENTERED ("call") and every invocation that RETURNED its result ("done"; a raising invocation has no "done" record)"""
    return [[c[0], c[1], c[2]] for c in log.read() if c[2] in ("call", "done")]


def _guarded(fn, obs):
    """Run `fn` under the watchdog; classify how it ended."""
    signal.signal(signal.SIGALRM, _alarm)
    signal.setitimer(signal.ITIMER_REAL, SOFT_TIMEOUT)
    try:
        fn()
        obs["outcome"] = "returned"
    except Hang:
        obs["outcome"] = "hang"
    except Exception as e:  # noqa: BLE001
        obs["outcome"] = "raised"
        obs["exc"] = describe_exc(e)
    except BaseException as e:  # noqa: BLE001
        obs["outcome"] = "raised"
        obs["exc"] = describe_exc(e)
        obs["base_exception"] = True
    finally:
        signal.setitimer(signal.ITIMER_REAL, 0)


def run_map_once(p, desc, mode, storage, folder, obs):
    from concurrent.futures import ProcessPoolExecutor, ThreadPoolExecutor

    inputs = {k: terms.box_some(k, v) for k, v in mapgen.py_inputs(desc).items()}     # some argument values are dataclass instances
    ish = mapgen.internal_shapes_arg(desc)
    ex = None
    if mode in ("thread", "async"):
        ex = ThreadPoolExecutor(3)
    elif mode == "thread1":
        ex = ThreadPoolExecutor(1)
    elif mode == "process":
        ex = ProcessPoolExecutor(2)

    def call():
        if mode == "seq":
            mapgen.quiet(p.map, inputs, run_folder=folder, internal_shapes=ish, parallel=False, storage=storage)
        elif mode in ("thread", "thread1", "process"):
            mapgen.quiet(p.map, inputs, run_folder=folder, internal_shapes=ish, executor=ex, storage=storage)
        elif mode == "process_default":
            mapgen.quiet(p.map, inputs, run_folder=folder, internal_shapes=ish, parallel=True, storage=storage)
        elif mode == "async":
            async def main():
                r = p.map_async(inputs, run_folder=folder, internal_shapes=ish, executor=ex, storage=storage)
                return await r.task
            mapgen.quiet(asyncio.run, main())
        else:
            raise AssertionError(mode)

    _guarded(call, obs)
    if ex is not None:
        # let the pool finish what was submitted, so that the call log and the run folder are final
        drain = {}
        _guarded(lambda: ex.shutdown(wait=True), drain)
        if drain["outcome"] == "hang" and obs["outcome"] != "hang":
            obs["drain_hang"] = True


def map_injection(desc, inj, base, n):
    """One failing map run (and, for `then`, a second failing run on the same pipeline object)."""
    state = {"targets": inj["targets"]}
    logpath = os.path.join(base, f"log-{os.getpid()}-{n}.jsonl")
    log = FileLog(logpath)
    hooks = {f["name"]: Hook(f["name"], state) for f in desc["funcs"]}
    out = {"runs": []}
    try:
        p, _ = mapgen.build(desc, log=log, fail=hooks)
    except Exception as e:  # noqa: BLE001
        return {"construct_err": pfimport.exc_enum(e), "msg": str(e)[:200]}
    steps = [inj] + ([inj["then"]] if inj.get("then") else [])
    for f in p.functions:                         # a raising `output_picker` (user code that is not the wrapped function)
        if any(t[0] == f.__name__ for s in steps for t in s.get("picker", [])):
            f._output_picker = c13_exc.RaisingPicker(list(f.output_name), hooks[f.__name__])
    for step in steps:
        state["targets"] = step["targets"]
        state["picker"] = step.get("picker", [])
        log.clear()
        obs = {}
        storage = step.get("storage", inj.get("storage", "file_array"))
        folder = tempfile.mkdtemp(dir=base) if storage == "file_array" else None
        try:
            run_map_once(p, desc, step.get("mode", inj["mode"]), storage, folder, obs)
            obs["calls"] = read_calls(log)
            if folder is not None and obs["outcome"] == "raised":
                obs["events"] = read_events(log)
            if obs["outcome"] != "hang":
                try:
                    obs["gens"] = [[f.__name__ for f in g] for g in p.topological_generations.function_lists]
                    obs["snap_pipeline"] = observe_snapshot(p.error_snapshot, base)
                    obs["snap_func"] = {f.__name__: observe_snapshot(f.error_snapshot, base) for f in p.functions if f.error_snapshot is not None}
                except Exception as e:  # noqa: BLE001
                    obs["snap_err"] = pfimport.exc_enum(e) + ": " + str(e)[:200]
                if folder is not None:
                    from pipefunc.map import load_outputs
                    loaded = {}
                    for f in desc["funcs"]:
                        for o in f["outputs"]:
                            try:
                                loaded[o] = terms.enc(mapgen.quiet(load_outputs, o, run_folder=folder))
                            except Exception as e:  # noqa: BLE001
                                loaded[o] = {"err": pfimport.exc_enum(e), "msg": str(e)[:120]}
                    obs["loaded"] = loaded
                if step.get("fresh") and obs.get("snap_pipeline") is not None and p.error_snapshot is not None:
                    obs["fresh"] = fresh_reproduce(p.error_snapshot, base)
                if step.get("resume") and folder is not None and obs["outcome"] == "raised":
                    # the re-run on the folder the failed run left: nothing raises, `cleanup=False`, sequential
                    state["targets"], state["picker"] = [], []
                    log.clear()
                    robs = {}
                    inputs, ish = {k: terms.box_some(k, v) for k, v in mapgen.py_inputs(desc).items()}, mapgen.internal_shapes_arg(desc)
                    _guarded(lambda: mapgen.quiet(p.map, inputs, run_folder=folder, internal_shapes=ish, parallel=False,
                                                  storage="file_array", cleanup=False), robs)
                    robs["calls"] = read_calls(log)
                    from pipefunc.map import load_outputs
                    robs["loaded"] = {}
                    for f in desc["funcs"]:
                        for o in f["outputs"]:
                            try:
                                robs["loaded"][o] = terms.enc(mapgen.quiet(load_outputs, o, run_folder=folder))
                            except Exception as e:  # noqa: BLE001
                                robs["loaded"][o] = {"err": pfimport.exc_enum(e), "msg": str(e)[:120]}
                    obs["resume"] = robs
        finally:
            if folder:
                shutil.rmtree(folder, ignore_errors=True)
        out["runs"].append(obs)
        if obs["outcome"] == "hang":
            break
    if os.path.exists(logpath):
        os.unlink(logpath)
    return out


def call_injection(desc, inj, base, n):
    """One failing `pipeline(...)` / `Pipeline.run` / `Pipeline.func(o)(...)` call."""
    state = {"targets": inj["targets"]}
    logpath = os.path.join(base, f"clog-{os.getpid()}-{n}.jsonl")
    log = FileLog(logpath)
    hooks = {f["name"]: Hook(f["name"], state) for f in desc["funcs"]}
    try:
        p, _ = pipegen.build(desc, log=log, fail=hooks)
    except Exception as e:  # noqa: BLE001
        return {"construct_err": pfimport.exc_enum(e), "msg": str(e)[:200]}
    out = {"runs": []}
    steps = [inj] + ([inj["then"]] if inj.get("then") else [])
    for step in steps:
        state["targets"] = step["targets"]
        log.clear()
        obs = {}
        o = step["out"] if isinstance(step["out"], str) else tuple(step["out"])
        kw = {k: terms.box_some(k, terms.dec(v)) for k, v in step["kw"]}           # some argument values are dataclass instances
        entry = step.get("entry", "call")

        q = p
        variant_err = None
        try:
            if entry == "scope":                  # every input and output under the scope "s": called with the scoped names
                q = p.copy()
                q.update_scope("s", inputs="*", outputs="*")
            elif entry == "nested":               # all functions the call invokes nested into one NestedPipeFunc
                q = p.copy()
                q.nest_funcs(set(step["nest_out"]), tuple(step["nest_out"]))
            elif entry == "nested_rest":          # every function but the failing one nested: the NestedPipeFunc itself never fails
                q = p.copy()
                q.nest_funcs(set(step["nest_out"]))
        except Exception as e:  # noqa: BLE001
            variant_err = pfimport.exc_enum(e) + ": " + str(e)[:200]

        def call():
            if entry == "scope":
                so = "s." + o if isinstance(o, str) else tuple("s." + x for x in o)
                pipegen.quiet(q, so, **{"s." + k: v for k, v in kw.items()})
            elif entry in ("nested", "nested_rest"):
                pipegen.quiet(q, o, **kw)
            elif entry == "call":
                pipegen.quiet(p, o, **kw)
            elif entry == "run":
                pipegen.quiet(p.run, o, kwargs=kw)
            elif entry == "full":
                pipegen.quiet(p.run, o, full_output=True, kwargs=kw)
            elif entry == "func":
                pipegen.quiet(p.func(o), **kw)
            else:
                raise AssertionError(entry)

        if variant_err is None:
            _guarded(call, obs)
        else:
            obs["outcome"] = "variant_err"
            obs["msg"] = variant_err
        obs["calls"] = read_calls(log)
        if obs["outcome"] not in ("hang", "variant_err"):
            try:
                obs["snap_pipeline"] = observe_snapshot(q.error_snapshot, base)
                obs["snap_func"] = {f.__name__: observe_snapshot(f.error_snapshot, base) for f in q.functions
                                    if getattr(f, "error_snapshot", None) is not None}
                if step.get("fresh") and q.error_snapshot is not None:
                    obs["fresh"] = fresh_reproduce(q.error_snapshot, base)
            except Exception as e:  # noqa: BLE001
                obs["snap_err"] = pfimport.exc_enum(e) + ": " + str(e)[:200]
        out["runs"].append(obs)
        if obs["outcome"] == "hang":
            break
    log.clear()
    return out


def worker_main(conn, job):
    """Entry point of a worker process: one observation per injection, in order."""
    global SOFT_TIMEOUT
    if job.get("soft_timeout"):          # the confirmation run of a suspected hang: a longer watchdog
        SOFT_TIMEOUT = float(job["soft_timeout"])
    base = tempfile.mkdtemp(prefix="verif-c13-w-", dir=job["base"])
    devnull = os.open(os.devnull, os.O_WRONLY)
    os.dup2(devnull, 1)          # PipeFunc.__call__ prints on failure, also from pool threads
    try:
        for n, inj in enumerate(job["injections"]):
            try:
                if job["kind"] == "map":
                    obs = map_injection(job["desc"], inj, base, n)
                else:
                    obs = call_injection(job["desc"], inj, base, n)
            except BaseException as e:  # noqa: BLE001  the harness must never crash because pipefunc misbehaves
                obs = {"harness_err": f"{type(e).__name__}: {e}", "tb": traceback.format_exc()[-1500:]}
            conn.send(obs)
            if any(r.get("outcome") == "hang" or r.get("drain_hang") for r in obs.get("runs", [])):
                break           # threads of a hung run may still be blocked: start afresh
    finally:
        shutil.rmtree(base, ignore_errors=True)
        conn.close()
        os._exit(0)
