import PfModel.Lemmas.RewriteMap3
/-!
Renaming the index (axis) names inside the MapSpecs under `Pipeline.map`: index names are only compared for equality
(`idxOf`, `externalIndices`, `findIdx?`), so an injective renaming leaves the result of `specMap` literally unchanged.
Part 1: MapSpec accessors, shapes.
-/
namespace PF.Rw
open PF PF.Map

def axisA (α : String → String) (a : ASpec) : ASpec := { a with axes := a.axes.map (Option.map α) }
def axisS (α : String → String) (ms : MSpec) : MSpec := { inputs := ms.inputs.map (axisA α), outputs := ms.outputs.map (axisA α) }
/-- a consistent renaming of the index names of every MapSpec -/
def axisM (α : String → String) (f : MFunc) : MFunc := { f with mapspec := f.mapspec.map (axisS α) }
def axisR (α : String → String) (f : RFunc) : RFunc := { f with mapspec := f.mapspec.map (axisS α) }

theorem toMFunc_axisR (α : String → String) (fs : List RFunc) : (fs.map (axisR α)).map toMFunc = (fs.map toMFunc).map (axisM α) := by
  simp only [List.map_map]
  apply List.map_congr_left
  intro f _; rfl

/-- the index names a MapSpec uses (axes of its first output, axes of its inputs) lie in `NI` -/
def IdxIn (NI : String → Prop) (ms : MSpec) : Prop := (∀ n ∈ ms.outputIndices, NI n) ∧ ∀ n ∈ ms.inputIndices, NI n

theorem Sim.refl {α : Type} (a : M α) : Sim Eq a a := by cases a <;> simp [Sim]

theorem Sim.refl' {α : Type} {R : α → α → Prop} (hR : ∀ x, R x x) (a : M α) : Sim R a a := by
  cases a with
  | error e => exact trivial
  | ok x => exact hR x

theorem stepRel_eq_refl {β : Type} (x : ForInStep β) : StepRel Eq x x := by cases x <;> rfl

theorem mapM_congr' {α β : Type} (l : List α) (g g' : α → M β) (h : ∀ a ∈ l, g a = g' a) : l.mapM g = l.mapM g' := by
  induction l with
  | nil => rfl
  | cons a as ih =>
    rw [List.mapM_cons, List.mapM_cons, h a List.mem_cons_self, ih (fun b hb => h b (List.mem_cons_of_mem _ hb))]

theorem filterMap_id_axes (α : String → String) (axes : List (Option String)) :
    (axes.map (Option.map α)).filterMap id = (axes.filterMap id).map α := by
  induction axes with
  | nil => rfl
  | cons a as ih => cases a <;> simp [ih]

theorem outputIndices_axis (α : String → String) (ms : MSpec) : (axisS α ms).outputIndices = ms.outputIndices.map α := by
  unfold MSpec.outputIndices axisS
  cases ms.outputs with
  | nil => rfl
  | cons o os => simp only [List.map_cons, axisA, filterMap_id_axes]

theorem inputIndices_axis (α : String → String) (ms : MSpec) : (axisS α ms).inputIndices = ms.inputIndices.map α := by
  unfold MSpec.inputIndices axisS
  induction ms.inputs with
  | nil => rfl
  | cons a as ih => simp only [List.map_cons, List.flatMap_cons, List.map_append, ih, axisA, filterMap_id_axes]

theorem mem_inputIndices (ms : MSpec) (a : ASpec) (ha : a ∈ ms.inputs) (n : String) (hn : some n ∈ a.axes) : n ∈ ms.inputIndices := by
  unfold MSpec.inputIndices
  rw [List.mem_flatMap]
  exact ⟨a, ha, List.mem_filterMap.mpr ⟨some n, hn, rfl⟩⟩

section
variable (α : String → String) (NI : String → Prop) (hinj : ∀ a b, NI a → NI b → α a = α b → a = b)
include hinj

theorem externalIndices_axis (ms : MSpec) (hms : IdxIn NI ms) : (axisS α ms).externalIndices = ms.externalIndices.map α := by
  unfold MSpec.externalIndices
  rw [outputIndices_axis, inputIndices_axis]
  apply filter_map_rename α
  intro x hx
  exact contains_map_rename α NI hinj _ x hms.2 (hms.1 x hx)

theorem findIdx_map_inj (l : List String) (n : String) (hl : ∀ x ∈ l, NI x) (hn : NI n) :
    (l.map α).findIdx? (· = α n) = l.findIdx? (· = n) := by
  induction l with
  | nil => rfl
  | cons a as ih =>
    have ha : NI a := hl a (by simp)
    have ih' := ih (fun x hx => hl x (List.mem_cons_of_mem _ hx))
    simp only [List.map_cons, List.findIdx?_cons, decide_rename_eq α NI hinj a n ha hn, ih']

theorem idxOf_axis (axes : List (Option String)) (n : String) (hl : ∀ m, some m ∈ axes → NI m) (hn : NI n) :
    idxOf (axes.map (Option.map α)) (α n) = idxOf axes n := by
  unfold idxOf
  induction axes with
  | nil => rfl
  | cons a as ih =>
    have ih' := ih (fun m hm => hl m (List.mem_cons_of_mem _ hm))
    simp only [List.map_cons, List.findIdx?_cons, ih']
    cases a with
    | none => simp
    | some m =>
      have hm : NI m := hl m (by simp)
      have : decide (Option.map α (some m) = some (α n)) = decide (some m = some n) := by
        simp only [Option.map_some, Option.some.injEq]
        exact decide_rename_eq α NI hinj m n hm hn
      rw [this]

theorem inputKey_axis (ms : MSpec) (a : ASpec) (E : List Nat) (hms : IdxIn NI ms) (ha : a ∈ ms.inputs) :
    inputKey (axisS α ms) (axisA α a) E = inputKey ms a E := by
  unfold inputKey
  rw [externalIndices_axis α NI hinj ms hms]
  simp only [axisA, List.map_map]
  apply List.map_congr_left
  intro ax hax
  cases ax with
  | none => rfl
  | some n =>
    have hn : NI n := hms.2 n (mem_inputIndices ms a ha n hax)
    simp only [Function.comp, Option.map_some]
    rw [findIdx_map_inj α NI hinj ms.externalIndices n _ hn]
    intro x hx
    exact hms.1 x (List.mem_filter.mp hx).1

omit hinj in
theorem inputSpec_axis (ms : MSpec) (p : String) : (axisS α ms).inputSpec p = (ms.inputSpec p).map (axisA α) := by
  unfold MSpec.inputSpec axisS
  simp only [List.find?_map]
  rfl

theorem commonDim_axis (ms : MSpec) (ix : String) (shapes : List (String × List Nat)) (hms : IdxIn NI ms) (hix : NI ix) :
    Sim Eq (commonDim ms ix shapes) (commonDim (axisS α ms) (α ix) shapes) := by
  unfold commonDim
  apply Sim.bind (R := Eq)
  · apply filterMapM_Sim (axisA α) _ _ ms.inputs _ rfl
    intro a ha
    simp only [axisA]
    rw [idxOf_axis α NI hinj a.axes ix (fun m hm => hms.2 m (mem_inputIndices ms a ha m hm)) hix]
    exact Sim.refl _
  · intro x y hxy
    subst hxy
    cases x with
    | nil => exact Sim.pure rfl
    | cons d rest => exact Sim.ite _ (Sim.pure rfl) (Sim.throw _ _)

theorem go_axis (ms : MSpec) (shapes internal : List (String × List Nat)) (out : ASpec) (hms : IdxIn NI ms) :
    ∀ (axes : List String) (k : Nat), (∀ n ∈ axes, NI n) →
      Sim Eq (mspecShape.go ms shapes internal out axes k)
        (mspecShape.go (axisS α ms) shapes internal (axisA α out) (axes.map α) k) := by
  intro axes
  induction axes with
  | nil => intro k _; exact Sim.pure rfl
  | cons ix rest ih =>
    intro k hax
    have hrest : ∀ n ∈ rest, NI n := fun n hn => hax n (List.mem_cons_of_mem _ hn)
    rw [List.map_cons, mspecShape.go, mspecShape.go]
    apply Sim.bind (commonDim_axis α NI hinj ms ix shapes hms (hax ix (by simp)))
    intro x y hxy
    subst hxy
    cases x with
    | some d =>
      apply Sim.bind (ih k hrest)
      intro x y hxy
      subst hxy
      exact Sim.pure rfl
    | none =>
      simp only [axisA]
      cases alookup internal out.name with
      | none => exact Sim.throw _ _
      | some ish =>
        simp only []
        cases ish[k]? with
        | none => exact Sim.throw _ _
        | some d =>
          apply Sim.bind (ih (k + 1) hrest)
          intro x y hxy
          subst hxy
          exact Sim.pure rfl

theorem mspecShape_axis (ms : MSpec) (shapes internal : List (String × List Nat)) (hms : IdxIn NI ms) :
    Sim Eq (mspecShape ms shapes internal) (mspecShape (axisS α ms) shapes internal) := by
  unfold mspecShape
  apply Sim.bind (R := fun _ _ => True)
  · apply forIn_Sim (fun _ _ => True) (axisA α) ms.inputs _ rfl
    · intro a ha c c' _
      have hlen : (axisA α a).axes.length = a.axes.length := by simp only [axisA, List.length_map]
      have hname : (axisA α a).name = a.name := rfl
      simp only [hname, hlen]
      cases alookup shapes a.name with
      | none => exact trivial
      | some sh => exact Sim.ite _ trivial (Sim.pure trivial)
    · trivial
  · intro _ _ _
    simp only []
    rw [outputIndices_axis]
    have ho : (axisS α ms).outputs = ms.outputs.map (axisA α) := rfl
    rw [ho]
    cases hmo' : ms.outputs with
    | nil =>
      have : ms.outputIndices = [] := by simp [MSpec.outputIndices, hmo']
      rw [this]
      exact Sim.pure rfl
    | cons o os =>
      simp only [List.map_cons, List.headD_cons]
      exact go_axis α NI hinj ms shapes internal o hms _ 0 hms.1

end
end PF.Rw
