import PfModel.Model.CachePolicyShared
/-!
The container accesses of `LRUCache`'s critical sections, statement by statement (C14, shared mode).

`Shared.lruBody` (Model/CachePolicyShared.lean) decomposes every `LRUCache` operation into the micro-steps of its
`with self._cache_lock:` block.  `lruLabels` names, for every one of those micro-steps, the container accesses the source
statement performs (`attribute.method`, spelled as `pipefunc/cache.py:308-370` (LRUCache.get / put / __contains__ / __len__ / clear) spells them) in the register/state it is run in —
`[]` when the statement is skipped on that path.  `microTrace` runs the micro-steps and collects the labels: the sequence of
accesses one operation makes.  The harness records the same sequence on the real `LRUCache` (proxies around `_cache_dict` and
`_cache_queue`, `harness/c14_preempt.py`) and compares — this ties `lruBody` to the source by execution instead of by reading.
-/
namespace PF.Cache.Shared

/-- run micro-steps, collecting what each one's label function says in the state it starts from -/
def microTrace {σ L : Type} : List (Micro σ L) → List (L × σ → List String) → L × σ → List String
  | f :: fs, g :: gs, x => g x ++ microTrace fs gs (f x)
  | _, _, _ => []

/-- labels of the micro-steps of `lruBody`, in the same order -/
def lruLabels : Op → List (LReg × LRU → List String)
  | .get _ =>
    [ fun _ => ["_cache_dict.__contains__"],                                   -- `if key not in self._cache_dict: return None`
      fun x => if x.1.hit then ["_cache_dict.__getitem__"] else [],           -- `value = self._cache_dict[key]`
      fun x => if x.1.hit then ["_cache_queue.remove"] else [],
      fun x => if x.1.hit then ["_cache_queue.append"] else [] ]
  | .put _ _ _ =>
    [ fun _ => ["_cache_dict.__contains__"],                                   -- `if key in self._cache_dict:`
      fun _ => ["_cache_dict.__setitem__"],                                    -- `self._cache_dict[key] = value` (both branches)
      fun x => if x.1.hit then ["_cache_queue.remove"]
               else if x.2.queue.length < x.2.max then ["_cache_queue.__len__"]
               else ["_cache_queue.__len__", "_cache_queue.pop"],              -- `cache_size = len(queue)`; `queue.pop(0)`
      fun x => match x.1.evict with | some _ => ["_cache_dict.pop"] | none => [],
      fun _ => ["_cache_queue.append"] ]
  | .has _ => [ fun _ => ["_cache_dict.__contains__"] ]
  | .len => [ fun _ => ["_cache_dict.__len__"] ]
  | .clear =>
    [ fun x => "_cache_dict.keys" :: List.replicate x.2.dict.length "_cache_dict.__delitem__",   -- `keys = list(d.keys())`; `del d[key]` each
      fun _ => ["_cache_queue.__delitem__"] ]                                   -- `del self._cache_queue[:]`
  | .reopen _ _ => []

/-- the accesses `LRUCache` makes inside the lock for `op` started in state `s` -/
def lruAccesses (s : LRU) (op : Op) : List String :=
  microTrace (lruBody.micro op) (lruLabels op) (lruBody.init op, s)

end PF.Cache.Shared
