"""C01, second generator: what `pipefunc/map/_run.py`, `_prepare.py`, `_shapes.py`, `_run_info.py` do on requests mapgen never builds.

A description is mapgen's (`mapgen.model_request(desc)` stays the faithful Lean request) plus *decorations* that only change HOW the
same pipeline / the same inputs are handed to the real library:

  desc["gen2"] = True
  desc["input_kinds"][root]  "list" | "array" | "range" | "intlist" | "intarray" | "series" | "series-int"
                             (for the int kinds the ELEMENTS of desc["inputs"] are JSON ints: `atom`s of the model)
  desc["internal_int"]       names whose entry of `internal_shapes=` is given as an int instead of a 1-tuple
  desc["output_names"]       None | sorted list S  -> `map(output_names=set(S))`, model = `PF.Sub.mapSub` (driver C01Sub entry "map.sub")
  f["wrap"]                  "func" | "lambda" | "class" | "instance" | "partial"     what `PipeFunc` wraps
  f["picker"]                tuple-output function returns a dict; `output_picker=lambda r, n: r[n]`
  f["resources"]             {"kind": "static"|"callable", "scope": "map"|"element", "cpus": n} -> `resources=`, `resources_variable="res_"`
  f["numeric"]               "array" | "list": an interpreted constant function (`_zero`/`_false`) returns `np.zeros(ret, int|bool)` /
                             a python list instead of an object array
  f["internal_int"]          `PipeFunc(internal_shape=n)` instead of `(n,)`
  desc["template"]           which shape template built it ("mapgen" for a decorated mapgen case)

Templates (axis sizes 0-3): rank-3 outer product, transposed zip `x[i, j], z[j, i] -> y[..]` (z a root or a mapped output),
reduction chains of 4-6 functions, a zip/internal/generator mix.
"""
from __future__ import annotations

import contextlib
import functools
import io
import itertools
import shutil
import tempfile

import numpy as np

import pfimport  # noqa: F401
from pfimport import exc_enum
from pipefunc import PipeFunc, Pipeline
from pipefunc.resources import Resources

import mapgen
import terms

try:
    import pandas as pd
except Exception:  # noqa: BLE001
    pd = None

AX = ["i", "j", "k"]
RES_VAR = "res_"
_NORES = object()


# ------------------------------------------------------------------------------------------------ builder of descriptions
class Builder:
    """mapgen-format descriptions, well-formed by construction (every array carries named axes)."""

    def __init__(self, rng, sizes, p_rename=0.15, p_tuple=0.25):
        self.rng, self.sizes, self.p_rename, self.p_tuple = rng, sizes, p_rename, p_tuple
        self.funcs, self.roots, self.arrays, self.internal_map = [], {}, {}, []

    def root(self, axes):
        name = f"x{len(self.roots)}"
        self.roots[name] = tuple(axes)
        self.arrays[name] = tuple(axes)
        return name

    def scalar(self):
        name = f"c{len(self.roots)}"
        self.roots[name] = None
        return name

    def _func(self, ins, nout=None):
        rng = self.rng
        fi = len(self.funcs)
        nout = nout or (2 if rng.random() < self.p_tuple else 1)
        outs = [f"y{fi}"] if nout == 1 else [f"y{fi}a", f"y{fi}b"]
        ins = list(dict.fromkeys(ins))
        params = [[p, f"a{q}" if rng.random() < self.p_rename else p] for q, p in enumerate(ins)]
        f = {"name": f"f{fi}", "params": params, "outputs": outs, "mapspec": None, "mapspec_str": None, "autogen": False,
             "ret": None, "internal": None, "defaults": [], "bound": []}
        self.funcs.append(f)
        return f

    def mapped(self, spec_in, extra=(), out_axes=None, internal=None, nout=None):
        """spec_in: [(array, [axis | None, ...])]; extra: unlisted (whole) parameters; internal: (position, axis) or None."""
        rng = self.rng
        f = self._func([n for n, _ in spec_in] + list(extra), nout)
        used = []
        for _, axes in spec_in:
            for a in axes:
                if a is not None and a not in used:
                    used.append(a)
        assert used
        if out_axes is None:
            out_axes = list(used)
            rng.shuffle(out_axes)
        out_axes = list(out_axes)
        if internal is not None:
            pos, ia = internal
            out_axes.insert(min(pos, len(out_axes)), ia)
            f["ret"] = [self.sizes[ia]]
            if rng.random() < 0.6:
                f["internal"] = [self.sizes[ia]]
            else:
                self.internal_map += [[o, [self.sizes[ia]]] for o in f["outputs"]]
        ms = {"inputs": [[n, list(a)] for n, a in spec_in], "outputs": [[o, list(out_axes)] for o in f["outputs"]]}
        f["mapspec"], f["mapspec_str"] = ms, mapgen.spec_str(ms)
        for o in f["outputs"]:
            self.arrays[o] = tuple(out_axes)
        return f["outputs"]

    def plain(self, ins, nout=None):
        return self._func(ins, nout)["outputs"]

    def gen(self, axes, ins, nout=None):
        """'... -> v[axes]' producer"""
        rng = self.rng
        f = self._func(ins, nout)
        shp = [self.sizes[a] for a in axes]
        f["ret"] = shp
        ms = {"inputs": [], "outputs": [[o, list(axes)] for o in f["outputs"]]}
        f["mapspec"], f["mapspec_str"] = ms, mapgen.spec_str(ms)
        if rng.random() < 0.5:
            f["internal"] = shp
        else:
            self.internal_map += [[o, shp] for o in f["outputs"]]
        for o in f["outputs"]:
            self.arrays[o] = tuple(axes)
        return f["outputs"]

    def finish(self, template, p_list=0.4, p_default=0.3, p_bound=0.1):
        rng, funcs, sizes = self.rng, self.funcs, self.sizes
        produced = {o for f in funcs for o in f["outputs"]}
        used_params = {p for f in funcs for p, _ in f["params"]}
        inputs, kinds = [], {}
        for p in sorted(used_params - produced):
            axes = self.roots.get(p)
            if axes is None:
                inputs.append([p, {"s": f"in:{p}"}])
                continue
            shape = [sizes[a] for a in axes]
            elems = [{"f": "in", "k": [["n", {"s": p}], ["at", {"arr": [[len(ix)], list(ix)]}]]} for ix in itertools.product(*map(range, shape))]
            inputs.append([p, {"arr": [shape, elems]}])
            kinds[p] = "list" if len(shape) == 1 and rng.random() < p_list else "array"
        for f in funcs:
            for p, _ in f["params"]:
                if p in produced or self.roots.get(p) is not None:
                    continue
                r = rng.random()
                if r < p_default:
                    f["defaults"].append([p, {"s": f"dflt:{p}"}])
                elif r < p_default + p_bound:
                    f["bound"].append([p, {"s": f"bound:{p}:{f['name']}"}])
            dn = {d[0] for d in f["defaults"]}
            f["params"] = [q for q in f["params"] if q[0] not in dn] + [q for q in f["params"] if q[0] in dn]
        keep = []
        for name, v in inputs:
            users = [f for f in funcs if any(p == name for p, _ in f["params"])]
            if all(any(b[0] == name for b in f["bound"]) for f in users):
                continue
            if any(any(d[0] == name for d in f["defaults"]) for f in users) and rng.random() < 0.5:
                continue
            keep.append([name, v])
        import pipegen
        pipegen.assign_consts(rng, funcs)
        return {"funcs": funcs, "inputs": keep, "input_kinds": kinds, "internal": self.internal_map, "sizes": sizes, "template": template}


def draw_sizes(rng):
    mode = rng.random()
    if mode < 0.15:
        return {a: 1 for a in AX}, "all-ones"
    sizes = {a: rng.randint(1, 3) for a in AX}
    if mode < 0.45:
        sizes[rng.choice(AX)] = 0
        if rng.random() < 0.2:
            sizes[rng.choice(AX)] = 0
        return sizes, "zero-axis"
    return sizes, "1-3"


def _maybe_scalar(b, p=0.3):
    return [b.scalar()] if b.rng.random() < p else []


def t_outer3(b):
    rng = b.rng
    x, w, u = b.root(["i"]), b.root(["j"]), b.root(["k"])
    ys = b.mapped([(x, ["i"]), (w, ["j"]), (u, ["k"])], extra=_maybe_scalar(b))
    y = rng.choice(ys)
    if rng.random() < 0.6:
        axes = list(b.arrays[y])
        drop = rng.sample(range(3), rng.randint(1, 2))
        zs = b.mapped([(y, [None if q in drop else a for q, a in enumerate(axes)])])
        if rng.random() < 0.5:
            b.plain([rng.choice(zs)] + _maybe_scalar(b))
    elif rng.random() < 0.5:
        b.plain([y])


def t_transpose(b):
    rng = b.rng
    a1, a2 = rng.sample(AX, 2)
    x = b.root([a1, a2])
    if rng.random() < 0.5:
        z = b.root([a2, a1])
    else:
        w = b.root([a2, a1])
        z = rng.choice(b.mapped([(w, [a2, a1])], out_axes=[a2, a1], extra=_maybe_scalar(b, 0.2)))
    if rng.random() < 0.4:
        b.mapped([(x, [a1, a2])], out_axes=[a1, a2])            # the same root consumed a second time, straight
    ys = b.mapped([(x, [a1, a2]), (z, [a2, a1])], out_axes=rng.choice([[a1, a2], [a2, a1]]))
    if rng.random() < 0.5:
        y = rng.choice(ys)
        axes = list(b.arrays[y])
        drop = rng.randrange(2)
        b.mapped([(y, [None if q == drop else a for q, a in enumerate(axes)]), (z, [a2, None] if axes[1 - drop] == a2 else [None, a1])])


def t_chain(b):
    """mapped -> partial ':' reduction -> mapped (internal axis) -> full reduction -> mapped with the scalar -> full reduction"""
    rng = b.rng
    depth = rng.randint(4, 6)
    a1, a2, a3 = rng.sample(AX, 3)
    x, w = b.root([a1]), b.root([a2])
    a = rng.choice(b.mapped([(x, [a1]), (w, [a2])]))
    axes = list(b.arrays[a])
    drop = rng.randrange(2)
    keep = axes[1 - drop]
    r1 = rng.choice(b.mapped([(a, [None if q == drop else ax for q, ax in enumerate(axes)])], extra=_maybe_scalar(b, 0.2)))
    internal = (rng.randint(0, 1), a3) if rng.random() < 0.5 else None
    c = rng.choice(b.mapped([(r1, [keep])], internal=internal))
    d = rng.choice(b.plain([c] + _maybe_scalar(b, 0.2)))
    if depth >= 5:
        root_of = x if keep == a1 else w
        e = rng.choice(b.mapped([(root_of, [keep]), (r1, [keep])], extra=[d]))
        if depth >= 6:
            b.plain([e, a] if rng.random() < 0.5 else [e])


def t_mix(b):
    rng = b.rng
    a1, a2 = rng.sample(AX, 2)
    x, w = b.root([a1]), b.root([a1])
    free = [a for a in AX if a != a1]
    internal = (rng.randint(0, 1), rng.choice(free)) if rng.random() < 0.6 else None
    y = rng.choice(b.mapped([(x, [a1]), (w, [a1])], internal=internal, extra=_maybe_scalar(b)))
    v = rng.choice(b.gen([a2], [b.scalar()]))
    axes = list(b.arrays[y])
    if len(axes) == 1 or axes == [a1, a2] or axes == [a2, a1]:
        spec = [(y, axes), (v, [a2])]
    else:
        spec = [(y, [None if ax != a1 else ax for ax in axes]), (v, [a2])]
    z = rng.choice(b.mapped(spec))
    if rng.random() < 0.5:
        b.plain([z, v] if rng.random() < 0.5 else [z])


TEMPLATES = {"outer3": t_outer3, "transpose": t_transpose, "chain": t_chain, "mix": t_mix}


def gen_template(rng, template=None):
    template = template or rng.choice(sorted(TEMPLATES))
    sizes, mode = draw_sizes(rng)
    b = Builder(rng, sizes)
    TEMPLATES[template](b)
    desc = b.finish(template)
    desc["size_mode"] = mode
    return desc


# ------------------------------------------------------------------------------------------------ decorations
def _roots_needed(desc, S):
    """functions and root names needed for the outputs S (through parameters that are not bound)"""
    funcs = desc["funcs"]
    prod = {o: f for f in funcs for o in f["outputs"]}
    need_f, roots, todo = [], set(), list(S)
    while todo:
        o = todo.pop()
        f = prod.get(o)
        if f is None:
            roots.add(o)
            continue
        if f["name"] in need_f:
            continue
        need_f.append(f["name"])
        bound = {b[0] for b in f["bound"]}
        todo += [p for p, _ in f["params"] if p not in bound]
    return need_f, roots


def decorate(rng, desc, p_sub=0.2):
    """Adds the decorations (see module docstring) to a mapgen-format description, in place."""
    desc["gen2"] = True
    desc.setdefault("template", "mapgen")
    funcs = desc["funcs"]
    # (1) containers of root arrays
    for q, (name, v) in enumerate(desc["inputs"]):
        if not (isinstance(v, dict) and "arr" in v):
            continue
        shape, elems = v["arr"]
        if len(shape) == 1:
            pool = ["list", "array", "range", "range", "intlist", "intarray"] + (["series", "series-int"] if pd is not None else [])
        else:
            pool = ["array", "array", "intarray"]
        kind = rng.choice(pool)
        desc["input_kinds"][name] = kind
        if kind in ("range", "intlist", "intarray", "series-int"):
            base = 100 * (q + 1) + rng.randint(0, 5)
            desc["inputs"][q] = [name, {"arr": [shape, [base + t for t in range(len(elems))]]}]
    # (3) wrappers, picker, resources, numeric dtype
    for f in funcs:
        f["wrap"] = rng.choice(["func", "lambda", "lambda", "partial", "partial", "class", "instance"] if f["defaults"] else
                               ["func", "func", "lambda", "class", "instance", "partial"])
        if len(f["outputs"]) > 1 and rng.random() < 0.5:
            f["picker"] = True
        if rng.random() < 0.15:
            f["resources"] = {"kind": rng.choice(["static", "callable"]), "scope": rng.choice(["map", "element"]), "cpus": rng.randint(1, 4)}
        if f["ret"] is not None and rng.random() < 0.4:
            is_c, c = terms.const_of(f["name"])
            if not is_c:
                f["name"] += rng.choice(["_zero", "_false"])
                is_c, c = terms.const_of(f["name"])
            if c is not None and c != "":
                f["numeric"] = "list" if len(f["ret"]) == 1 and rng.random() < 0.3 else "array"
        # (4) int instead of tuple
        if f["internal"] is not None and len(f["internal"]) == 1 and rng.random() < 0.5:
            f["internal_int"] = True
    desc["internal_int"] = [o for o, s in desc["internal"] if len(s) == 1 and rng.random() < 0.5]
    # (5) output_names
    desc["output_names"] = None
    outs = [o for f in funcs for o in f["outputs"]]
    if len(funcs) > 1 and rng.random() < p_sub:
        S = sorted(rng.sample(outs, rng.randint(1, min(3, len(outs)))))
        need_f, roots = _roots_needed(desc, S)
        desc["output_names"] = S
        desc["inputs"] = [kv for kv in desc["inputs"] if kv[0] in roots]
        # a root left to a default that only a function OUTSIDE the partial pipeline declares must be provided
        have = {kv[0] for kv in desc["inputs"]}
        dflt = {d[0] for f in funcs if f["name"] in need_f for d in f["defaults"]}
        for r in sorted(roots - have - dflt):
            desc["inputs"].append([r, {"s": f"in:{r}"}])
    return desc


def features(desc):
    """distribution keys of one description"""
    out = [f"template:{desc.get('template')}"]
    if desc.get("size_mode"):
        out.append(f"sizes:{desc['size_mode']}")
    for name, v in desc["inputs"]:
        if isinstance(v, dict) and "arr" in v:
            out.append(f"container:{desc['input_kinds'].get(name, 'array')}:rank{len(v['arr'][0])}")
            if 0 in v["arr"][0]:
                out.append("empty-root-array")
    for f in desc["funcs"]:
        out.append(f"wrap:{f.get('wrap', 'func')}")
        if f.get("wrap") in ("partial", "lambda") and f["defaults"]:
            out.append(f"wrap:{f['wrap']}-with-defaults")
        if f.get("picker"):
            out.append("output_picker" + (":mapped" if f["mapspec"] and f["mapspec"]["inputs"] else ":unmapped"))
        if f.get("resources"):
            out.append(f"resources:{f['resources']['kind']}:{f['resources']['scope']}" + (":mapped" if f["mapspec"] and f["mapspec"]["inputs"] else ":unmapped"))
        if f.get("numeric"):
            out.append(f"numeric-return:{f['numeric']}:{'bool' if f['name'].endswith('_false') else 'int'}")
        if f.get("internal_int"):
            out.append("internal_shape-int:PipeFunc")
        ms = f["mapspec"]
        if ms and ms["inputs"]:
            named = {a for s in ms["inputs"] for a in s[1] if a}
            if len(named) == 3:
                out.append("rank3-outer-product")
            if f["ret"] is not None and 0 in f["ret"]:
                out.append("empty-internal-axis")
            sz = desc.get("sizes", {})
            if any(sz.get(a) == 0 for a in named):
                out.append("mapped-over-empty-axis")
            for s1, s2 in itertools.combinations(ms["inputs"], 2):
                if len(s1[1]) == 2 and None not in s1[1] and s1[1] == list(reversed(s2[1])):
                    out.append("transposed-zip")
    if desc.get("internal_int"):
        out.append("internal_shape-int:map-argument")
    if desc.get("output_names") is not None:
        out.append("output_names")
    if len(desc["funcs"]) >= 4:
        out.append(f"chain-depth:{len(desc['funcs'])}")
    return out


# ------------------------------------------------------------------------------------------------ real objects
def _norm(v):
    """a `range` / pandas Series delivered whole is the 1-D array of its elements (ASSUMPTIONS of C01)"""
    if isinstance(v, range):
        return list(v)
    if pd is not None and isinstance(v, pd.Series):
        return v.to_numpy()
    return v


def make_callable(f, origs, sig_defaults, log, reslog):
    """The callable `PipeFunc` wraps for function description `f` (own parameter names `origs`)."""
    name, outputs = f["name"], f["outputs"]
    base = terms.make_func(name, origs, outputs, internal_shape=tuple(f["ret"]) if f["ret"] is not None else None, log=log)
    is_c, const = terms.const_of(name)
    numeric, picker, res = f.get("numeric"), f.get("picker"), f.get("resources")

    def post1(r):
        if numeric == "array":
            return np.zeros(tuple(f["ret"]), dtype=bool if const is False else int)
        if numeric == "list":
            return [const] * f["ret"][0]
        return r

    def _core(kw, r_=_NORES):
        kw = {k: _norm(v) for k, v in kw.items()}
        if res is not None:
            reslog.append([name, type(r_).__name__, getattr(r_, "cpus", None)])
        r = base(**kw)
        if len(outputs) == 1:
            return post1(r)
        r = tuple(post1(x) for x in r)
        return dict(zip(outputs, r)) if picker else r

    plain = [p for p in origs if p not in sig_defaults]
    dflt = [p for p in origs if p in sig_defaults]
    wrap = f.get("wrap", "func")
    resp = [RES_VAR] if res is not None else []
    call = f"_core(dict({', '.join(f'{p}={p}' for p in origs)}){', ' + RES_VAR if res is not None else ''})"
    ns = {"_core": _core, "_d": sig_defaults, "functools": functools}
    pyname = name if name.isidentifier() else "fn"
    if wrap == "partial":
        # defaults are supplied by the partial (keyword-bound => keyword-only parameters with a default), one positional tag is pre-bound
        sig = ", ".join(["_tag"] + plain + resp + dflt)
        src = (f"def _inner({sig}):\n    assert _tag == 'T'\n    return {call}\n"
               f"{pyname} = functools.partial(_inner, 'T', **{{p: _d[p] for p in {dflt!r}}})\n{pyname}.__name__ = {name!r}\n")
    else:
        sig = ", ".join(plain + resp + [f"{p}=_d[{p!r}]" for p in dflt])
        if wrap == "lambda":
            src = f"{pyname} = lambda {sig}: {call}\n"
        elif wrap == "class":
            src = f"class {pyname}:\n    def __new__(cls{', ' if sig else ''}{sig}):\n        return {call}\n"
        elif wrap == "instance":
            src = (f"class _K:\n    def __call__(self{', ' if sig else ''}{sig}):\n        return {call}\n"
                   f"{pyname} = _K()\n{pyname}.__name__ = {name!r}\n")
        else:
            src = f"def {pyname}({sig}):\n    return {call}\n"
    exec(src, ns)  # noqa: S102
    return ns[pyname]


def _pick(r, n):
    return r[n]


def _const_resources(cpus):
    def resources(kw):  # noqa: ARG001
        return Resources(cpus=cpus)
    return resources


def build(desc, log=None, order=None, **pipeline_kwargs):
    log = log if log is not None else terms.CallLog()
    log.res = []
    pfs = []
    idxs = list(range(len(desc["funcs"]))) if order is None else order
    for i in idxs:
        f = desc["funcs"][i]
        origs = [orig for _, orig in f["params"]]
        renames = {orig: p for p, orig in f["params"] if orig != p}
        inv = {p: orig for p, orig in f["params"]}
        sig_defaults = {inv[p]: terms.dec(v) for p, v in f["defaults"]}
        fn = make_callable(f, origs, sig_defaults, log, log.res)
        on = f["outputs"][0] if len(f["outputs"]) == 1 else tuple(f["outputs"])
        kw = {}
        if f["bound"]:
            kw["bound"] = {p: terms.dec(v) for p, v in f["bound"]}
        if f.get("picker"):
            kw["output_picker"] = _pick
        if f.get("resources"):
            r = f["resources"]
            kw.update(resources={"cpus": r["cpus"]} if r["kind"] == "static" else _const_resources(r["cpus"]),
                      resources_variable=RES_VAR, resources_scope=r["scope"])
        ish = None
        if f["internal"] is not None:
            ish = f["internal"][0] if f.get("internal_int") else tuple(f["internal"])
        pfs.append(PipeFunc(fn, on, renames=renames, mapspec=f["mapspec_str"], internal_shape=ish, **kw))
    with contextlib.redirect_stdout(io.StringIO()):
        p = Pipeline(pfs, **pipeline_kwargs)
    return p, log


def py_inputs(desc):
    out = {}
    for name, v in desc["inputs"]:
        kind = desc["input_kinds"].get(name)
        val = terms.dec(v)
        if isinstance(v, dict) and "arr" in v:
            shape, elems = v["arr"]
            if kind in ("list", "intlist"):
                val = list(val)
            elif kind == "range":
                val = range(elems[0], elems[0] + len(elems)) if elems else range(0)
            elif kind == "intarray":
                val = np.array(elems, dtype=int).reshape(shape)
            elif kind == "series":
                val = pd.Series(list(val), dtype=object)
            elif kind == "series-int":
                val = pd.Series(np.array(elems, dtype=int))
        out[name] = val
    return out


def internal_shapes_arg(desc):
    as_int = set(desc.get("internal_int") or [])
    return {o: (s[0] if o in as_int else tuple(s)) for o, s in desc["internal"]} or None


def run_impl(desc, storage, base):
    """As `props.c01.run_impl`, for decorated descriptions (also `output_names`, the Resources each function received)."""
    try:
        p, log = build(desc, order=desc.get("order"))
    except Exception as e:  # noqa: BLE001
        return {"err": exc_enum(e), "at": "construct", "msg": str(e)[:200]}
    folder = None
    if storage != "dict" or base is not None and desc.get("force_folder"):
        folder = tempfile.mkdtemp(dir=base)
    S = desc.get("output_names")
    extra = {"output_names": set(S)} if S is not None else {}
    created = []
    try:
        if S is None:
            res = mapgen.quiet(p.map, py_inputs(desc), run_folder=folder, internal_shapes=internal_shapes_arg(desc), parallel=False,
                               storage=storage, **extra)
        else:
            with _RunInfoCreated() as created:
                res = mapgen.quiet(p.map, py_inputs(desc), run_folder=folder, internal_shapes=internal_shapes_arg(desc), parallel=False,
                                   storage=storage, **extra)
    except Exception as e:  # noqa: BLE001
        if folder:
            shutil.rmtree(folder, ignore_errors=True)
        return {"err": exc_enum(e), "at": "map", "msg": str(e)[:200]}
    obs = {"outputs": {}, "stored": {}}
    try:
        for name, r in res.items():
            obs["outputs"][name] = terms.enc(r.output)
            st = r.store
            if hasattr(st, "to_array"):
                obs["stored"][name] = terms.enc(st.to_array())
            elif hasattr(st, "value"):
                obs["stored"][name] = terms.enc(st.value)
            else:
                from pipefunc.map import load_outputs
                obs["stored"][name] = terms.enc(load_outputs(name, run_folder=folder))
        obs["calls"] = sorted(([c[0], c[1]] for c in log.read() if c[2] == "call"), key=repr)
        obs["order"] = [c[0] for c in log.read() if c[2] == "call"]
        obs["res"] = list(log.res)
        if S is None:
            try:
                from pipefunc.map._shapes import map_shapes
                sh, mk = map_shapes(p, py_inputs(desc), internal_shapes_arg(desc))
                obs["shapes"] = {k: list(v) for k, v in sh.items() if isinstance(k, str)}
                obs["masks"] = {k: list(v) for k, v in mk.items() if isinstance(k, str)}
            except Exception as e:  # noqa: BLE001
                obs["shapes"] = {"err": exc_enum(e)}
        else:
            # the run belongs to the PARTIAL pipeline: its shapes / masks are what the run itself recorded — `run_info.json` of the run
            # folder when there is one, else the RunInfo object `prepare_run` created for this run (never `map_shapes` of the whole pipeline)
            try:
                if folder is not None:
                    from pipefunc.map import RunInfo
                    ri, obs["shapes_from"] = RunInfo.load(folder), "run_info.json"
                elif len(created) == 1:
                    ri, obs["shapes_from"] = created[0], "RunInfo.create"
                else:
                    raise LookupError(f"{len(created)} RunInfo objects created by one map call")  # noqa: TRY301
                obs["shapes"] = {k: [int(n) for n in v] for k, v in ri.shapes.items() if isinstance(k, str)}
                obs["masks"] = {k: [bool(b) for b in v] for k, v in ri.shape_masks.items() if isinstance(k, str)}
            except Exception as e:  # noqa: BLE001
                obs["shapes"] = {"err": exc_enum(e)}
    except Exception as e:  # noqa: BLE001
        return {"err": exc_enum(e), "at": "read", "msg": str(e)[:200]}
    finally:
        if folder:
            shutil.rmtree(folder, ignore_errors=True)
    return obs


class _RunInfoCreated:
    """Records the RunInfo objects `pipefunc.map._run_info.RunInfo.create` returns while a `map` call runs (a run without a run folder
    leaves no other record of its shapes / masks); the method is put back on exit. Observation only: arguments and result pass through."""

    def __enter__(self):
        from pipefunc.map import _run_info
        self.cls = _run_info.RunInfo
        self.orig = self.cls.__dict__["create"]
        got, f = [], self.orig.__func__

        def create(cls, *a, **kw):
            ri = f(cls, *a, **kw)
            got.append(ri)
            return ri

        self.cls.create = classmethod(create)
        return got

    def __exit__(self, *exc):
        self.cls.create = self.orig
        return False


def expected_res(desc):
    """what the `resources_variable` parameter must have received: a `Resources` with the declared cpus, once per call"""
    return {f["name"]: ["Resources", f["resources"]["cpus"]] for f in desc["funcs"] if f.get("resources")}


def regenerated_away(desc):
    """names of the kept functions whose AUTOGENERATED MapSpec the partial pipeline does not have: `Pipeline._validate_mapspec`
    (`_pipeline/_base.py:1157-1170`, run by every `drop` of `subpipeline`) forgets generated '... -> t[…]' MapSpecs and generates them again
    from the MapSpecs of the functions that are left (`create_missing_mapspecs`: a name that is an input of some MapSpec); a producer whose
    consumers were all dropped is a plain function of the partial pipeline (nothing of it in RunInfo.shapes). `PF.Sub.prepare` only selects
    functions, so the request hands the producer over without that MapSpec (glue on this side: see REPORT, what to distrust)."""
    need_f, _ = _roots_needed(desc, desc["output_names"])
    kept = [f for f in desc["funcs"] if f["name"] in need_f]
    consumed = {s[0] for f in kept if f["mapspec"] for s in f["mapspec"]["inputs"]}
    return [f["name"] for f in kept if f.get("autogen") and f["mapspec"] and not f["mapspec"]["inputs"] and not consumed & set(f["outputs"])]


def sub_request(desc):
    """the whole description (generated MapSpecs included) + which functions carry a GENERATED MapSpec: the Lean model
    (`PF.Sub.mapRegen`, Model/SubPipeRegen.lean) forgets those on the partial pipeline and generates them again, as
    `Pipeline._validate_mapspec` does; `regenerated_away` (the Python prediction of round 9's first version) is only cross-checked"""
    req = mapgen.model_request(desc)
    req.update({"outputs": desc["output_names"], "auto": False,
                "generated": [f["name"] for f in desc["funcs"] if f.get("autogen") and f["mapspec"] and not f["mapspec"]["inputs"]]})
    return {"m": "map.sub", "a": req}


def sub_model_obs(r):
    """model observation of a `map.sub` answer of driver C01Sub: the dictionary of `props.c01.model_obs` (outputs, stored, calls, shapes,
    masks, gens — all of the run of the PARTIAL pipeline) + kept, spec_agrees"""
    if "err" in r:
        return {"err": r["err"], "msg": f"{r.get('why')} at {r.get('at')}"}
    from props.c01 import model_obs
    obs = model_obs(r)
    obs["kept"], obs["spec_agrees"] = r["kept"], r["spec_agrees"]
    obs["plain_now"] = sorted(r.get("plain_now", []))
    return obs


# ------------------------------------------------------------------------------------------------ observations (not promised)
def _probe(build_and_run, reference=None):
    try:
        got = build_and_run()
    except Exception as e:  # noqa: BLE001
        return f"refused:{exc_enum(e)}"
    if reference is None:
        return "accepted"
    return "same-as-ndarray" if got == reference else "DIFFERS-from-ndarray"


def probes(ctx):
    """What the real code does with requests the documentation does not promise to accept (`inputs`: "lists of values or
    numpy.ndarrays"; `array_shape`: anything with `.shape`, `list`, `range`).  Counted, never a violation."""
    def f(x, c=1):
        return terms.Term("f", [("x", terms.freeze(x)), ("c", c)])

    def run(inp, ms="x[i] -> y[i]", fn=f, **kw):
        p = Pipeline([PipeFunc(fn, "y", mapspec=ms, **kw)])
        r = mapgen.quiet(p.map, {"x": inp}, parallel=False, storage="dict")
        return terms.enc(r["y"].output)

    ref1 = run(mapgen.to_np_object([5, 6, 7]))
    a2 = np.empty((2, 2), dtype=object)
    a2[:] = [[1, 2], [3, 4]]
    ref2 = run(a2, "x[i, j] -> y[i, j]")
    one = {"tuple": lambda: (5, 6, 7), "iterator": lambda: iter([5, 6, 7]), "generator": lambda: (q for q in [5, 6, 7]),
           "dict-keys": lambda: {5: 0, 6: 0, 7: 0}.keys()}
    if pd is not None:
        one["series-permuted-int-index"] = lambda: pd.Series([5, 6, 7], index=[2, 0, 1])
        one["series-string-index"] = lambda: pd.Series([5, 6, 7], index=["a", "b", "c"])
    for k, mk in one.items():
        ctx.count(f"observation:container-1d:{k}:{_probe(lambda: run(mk()), ref1)}")      # noqa: B023
    two = {"nested-list": lambda: [[1, 2], [3, 4]], "nested-tuple": lambda: ((1, 2), (3, 4))}
    if pd is not None:
        two["dataframe"] = lambda: pd.DataFrame([[1, 2], [3, 4]])
    for k, mk in two.items():
        ctx.count(f"observation:container-2d:{k}:{_probe(lambda: run(mk(), 'x[i, j] -> y[i, j]'), ref2)}")      # noqa: B023

    # the same array named with different axes in two MapSpecs of one pipeline (explicitly refused by `validate_consistent_axes`)
    def two_orders():
        g = lambda x: terms.Term("g", [("x", terms.freeze(x))])  # noqa: E731
        p = Pipeline([PipeFunc(f, "a", mapspec="x[i, j] -> a[i, j]"), PipeFunc(g, "b", mapspec="x[j, i] -> b[j, i]")])
        mapgen.quiet(p.map, {"x": a2}, parallel=False, storage="dict")
    ctx.count(f"observation:same-array-two-axis-orders:{_probe(two_orders)}")
    # internal_shape="?" (not supported by this version)
    ctx.count("observation:internal_shape-question-mark:" + _probe(lambda: run([1, 2], "x[i] -> y[i, j]", fn=lambda x: np.zeros(2), internal_shape="?")))

    # callables without __name__
    class K:
        def __call__(self, x, c=1):
            return f(x, c)
    ctx.count("observation:wrap-without-__name__:callable-instance:" + _probe(lambda: run([5, 6, 7], fn=K()), ref1))
    ctx.count("observation:wrap-without-__name__:functools.partial:" + _probe(lambda: run([5, 6, 7], fn=functools.partial(f, c=1)), ref1))

    # custom output_picker on a SINGLE output name: applied by the mapped path, not by the un-mapped path
    def d(x):
        return {"y": terms.Term("d", [("x", terms.freeze(x))])}
    want = terms.enc(terms.Term("d", [("x", 5)]))
    def picked(ms):
        p = Pipeline([PipeFunc(d, "y", mapspec=ms, output_picker=_pick)])
        r = mapgen.quiet(p.map, {"x": [5] if ms else 5}, parallel=False, storage="dict")["y"].output
        return "picked" if terms.enc(r[0] if ms else r) == want else "not-picked"
    for ms in ("x[i] -> y[i]", None):
        try:
            ctx.count(f"observation:single-output-picker:{'mapped' if ms else 'unmapped'}:{picked(ms)}")
        except Exception as e:  # noqa: BLE001
            ctx.count(f"observation:single-output-picker:{'mapped' if ms else 'unmapped'}:refused:{exc_enum(e)}")
