#!/usr/bin/env python3
"""Regenerate /verif/MANIFEST.json from the table below (one entry per claimed property) and validate it."""
import json
import pathlib
import sys

V = pathlib.Path(__file__).resolve().parent.parent
props = [json.loads(l) for l in open(V / "properties.jsonl")]

PROOF_NOTE = ("Trusts Lean's kernel (axioms audited on every run: subset of propext, Classical.choice, Quot.sound; no sorry/native_decide), "
              "the hand-written model's fidelity as established by the differential correspondence run on every invocation against /repo's working tree, and the harness. ")

CLAIMED = {
    "C20": dict(
        text="Theorems over the Lean model PF.Res of resources.py (combine_max dominates every operand by size/duration and invents nothing, with_defaults overlay, purity, dict round-trip, slurm flags, validation) for all inputs; the model is compared with the real Resources class on thousands of generated operations per run and the property's clauses are also evaluated directly on the implementation's answers.",
        note=PROOF_NOTE + "Float-vs-exact memory sizes agree away from near-ties (skipped, counted). ASCII strings, integer extra_args.",
        technique="Lean 4 proof over a hand-written model + differential correspondence against the real class"),
    "C02": dict(
        text="Refinement theorem: the memoised Pipeline._run model equals the memo-free composition along the DAG for every function list (tuple outputs, defaults, bound values, renames, supplied intermediates), plus argument precedence, full_output = memo of the same evaluation, independence of listing order (permutation invariance) and rejection of surplus keywords; the model (incl. arg_combinations/root_args/func_dependencies) is compared with real pipelines of term-building functions on ~2000 calls per run under 3 listing orders.",
        note=PROOF_NOTE + "inspect.signature and networkx are outside the model (the model is fed the generated parameter lists; graph construction is mirrored by `preds`). 'Each function once, dependencies first' and 'every listed argument combination is accepted' are carried by the correspondence (call logs, every listed combination is called) rather than by a theorem.",
        technique="Lean 4 refinement proof (memoised run = composition) + differential correspondence on generated DAGs"),
}


def check(pid, c):
    return {"property_id": pid, "quick_cmd": f"./check {pid} --tier quick", "thorough_cmd": f"./check {pid} --tier thorough",
            "evidence_file": f"evidence/{pid}.json", "replay_cmd_template": f"./check {pid} --replay {{path}}",
            "engine": "lean4-model+correspondence",
            "level_claimed": {"category": "proof", "text": c["text"], "design_ref": f"DESIGN.md section 6, {pid}"},
            "level_note": c["note"], "technique": c["technique"]}


extra = V / "tools" / "manifest_entries.json"
if extra.exists():
    CLAIMED.update(json.loads(extra.read_text()))
claimed = {p: c for p, c in CLAIMED.items() if (V / "harness" / "props" / f"{p.lower()}.py").exists()}
m = {"version": 1, "setup_cmd": "./setup.sh",
     "hooks": {"guard": "PIPEFUNC_VERIF",
               "enable": "no hooks are compiled into pipefunc; checks export PIPEFUNC_VERIF=1 for the contract's sake and observe pipefunc through its public API, generated term-building user functions, the executor= argument, strace and child interpreters",
               "baseline_off_cmd": "tools/baseline.py /repo", "source_commits": [], "add_only": True},
     "engines": [{"name": "lean4-model+correspondence", "path": "lean/ + harness/", "serves_properties": sorted(claimed),
                  "kind_free_text": "hand-written executable Lean 4 models with kernel-checked theorems (lean/PfModel/Props), tied to /repo on every run by a differential correspondence harness (harness/props) that drives the real pipefunc and the model's definitions (lean/Driver, JSON lines) on the same generated cases"}],
     "checks": [check(p, claimed[p]) for p in sorted(claimed)],
     "not_applicable": [{"property_id": p["id"], "reason": "check under construction in this build session (model and harness not yet integrated); not claimed until it is"}
                        for p in props if p["id"] not in claimed],
     "notes": "See DESIGN.md and BUILDING.md. ./check CXX --tier quick|thorough; exit 0 ok, 1 violation (VIOLATION line), 2 infrastructure. VERIF_SEED selects the random stream."}
(V / "MANIFEST.json").write_text(json.dumps(m, indent=1))
try:
    import jsonschema
    jsonschema.validate(m, json.load(open("/root/.vp/MANIFEST.schema.json")))
    print("manifest valid;", len(claimed), "claimed:", " ".join(sorted(claimed)))
except ImportError:
    print("jsonschema not available; wrote manifest for", sorted(claimed))
