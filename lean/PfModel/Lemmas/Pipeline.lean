import PfModel.Model.Pipeline
/-! Helper lemmas for `Props/C02.lean`: fuel monotonicity of the specification and soundness of the memoised run. -/
namespace PF.Pipe
open PF

variable (fs : List Func) (kw : List (String × Val))

/-- argument evaluation is monotone in the recursive evaluator -/
theorem composeArgsWith_mono (r r' : String → Except Err Val) (h : ∀ o v, r o = .ok v → r' o = .ok v) (f : Func) :
    ∀ ps a, composeArgsWith r fs kw f ps = .ok a → composeArgsWith r' fs kw f ps = .ok a := by
  intro ps
  induction ps with
  | nil => intro a h; simpa [composeArgsWith] using h
  | cons p ps ih =>
    obtain ⟨p, orig⟩ := p
    intro a ha
    simp only [composeArgsWith] at ha ⊢
    split at ha
    · simp at ha
    · next v hv =>
      split at ha
      · simp at ha
      · next rest hr => rw [ih rest hr]; simpa using ha
    · next hu =>
      split at ha
      · simp at ha
      · next v hv =>
        rw [h p v hv]
        split at ha
        · simp at ha
        · next rest hr => rw [ih rest hr]; simpa using ha

theorem compose_succ (n : Nat) (o : String) : compose fs kw (n+1) o =
    match producer fs o with
    | none => .error (.noFunc o)
    | some f =>
      match composeArgsWith (compose fs kw n) fs kw f f.params with
      | .error e => .error e
      | .ok args =>
        match alookup (outVals f args) o with
        | some v => .ok v
        | none => .error (.noFunc o) := by
  rw [compose]; rfl

theorem run_succ (n : Nat) (o : String) (s : St) : run fs kw (n+1) o s =
    match alookup s.memo o with
    | some v => .ok (v, s)
    | none =>
      match producer fs o with
      | none => .error (.noFunc o)
      | some f =>
        match argsWith (run fs kw n) fs kw f f.params s with
        | .error e => .error e
        | .ok (args, s') =>
          match alookup (outVals f args) o with
          | some v => .ok (v, { s' with memo := outVals f args ++ s'.memo, calls := s'.calls ++ [f.name] })
          | none => .error (.noFunc o) := by
  rw [run]; rfl

theorem compose_mono_step : ∀ (k : Nat) o v, compose fs kw k o = .ok v → compose fs kw (k+1) o = .ok v := by
  intro k
  induction k with
  | zero => intro o v h; simp [compose] at h
  | succ k ih =>
    intro o v h
    rw [compose_succ] at h ⊢
    split at h
    · simp at h
    · next f hf =>
      split at h
      · simp at h
      · next args ha =>
        rw [composeArgsWith_mono fs kw _ _ ih f f.params args ha]; simpa using h

theorem compose_mono {k k' : Nat} (hk : k ≤ k') {o v} (h : compose fs kw k o = .ok v) :
    compose fs kw k' o = .ok v := by
  induction hk with
  | refl => exact h
  | step _ ih => exact compose_mono_step fs kw _ o v ih

theorem compose_det {k k' : Nat} {o v v'} (h : compose fs kw k o = .ok v) (h' : compose fs kw k' o = .ok v') :
    v = v' := by
  have a := compose_mono fs kw (Nat.le_max_left k k') h
  have b := compose_mono fs kw (Nat.le_max_right k k') h'
  rw [a] at b; injection b

/-- every memo entry that is not a keyword argument is the specification's value -/
def Good (s : St) : Prop :=
  ∀ p v, alookup kw p = none → alookup s.memo p = some v → ∃ k, compose fs kw k p = .ok v

/-- output names identify their producer (`validate_unique_output_names`) -/
def Unique : Prop := ∀ f q, producer fs q = some f → ∀ q' ∈ f.outputs, producer fs q' = some f

theorem outVals_mem (f : Func) (args : List (String × Val)) (q : String) (w : Val)
    (hq : alookup (outVals f args) q = some w) : q ∈ f.outputs := by
  unfold outVals at hq
  split at hq
  · next o' ho' => simp only [alookup] at hq; split at hq <;> simp_all
  · next hne =>
    generalize f.outputs = os at hq
    induction os with
    | nil => simp [alookup] at hq
    | cons a as iha =>
      simp only [List.map, alookup] at hq
      split at hq
      · next e => simp [e]
      · exact List.mem_cons_of_mem _ (iha hq)

/-- what the recursive evaluator must guarantee -/
def RecSound (r : String → St → Except Err (Val × St)) : Prop :=
  ∀ o s v s', Good fs kw s → r o s = .ok (v, s') →
    (alookup kw o = none → ∃ k, compose fs kw k o = .ok v) ∧ Good fs kw s'

theorem argsWith_sound (r : String → St → Except Err (Val × St)) (hr : RecSound fs kw r) (f : Func) :
    ∀ ps s a s', Good fs kw s → argsWith r fs kw f ps s = .ok (a, s') →
      (∃ k, composeArgsWith (compose fs kw k) fs kw f ps = .ok a) ∧ Good fs kw s' := by
  intro ps
  induction ps with
  | nil => intro s a s' hg h; simp [argsWith] at h; obtain ⟨rfl, rfl⟩ := h; exact ⟨⟨0, by simp [composeArgsWith]⟩, hg⟩
  | cons p ps ih =>
    obtain ⟨p, orig⟩ := p
    intro s a s' hg h
    simp only [argsWith] at h
    split at h
    · simp at h
    · next v hv =>
      split at h
      · simp at h
      · next rest s2 hrest =>
        simp at h; obtain ⟨rfl, rfl⟩ := h
        obtain ⟨⟨k, hk⟩, hg2⟩ := ih _ rest s2 (by exact hg) hrest
        exact ⟨⟨k, by simp [composeArgsWith, hv, hk]⟩, hg2⟩
    · next hup =>
      split at h
      · simp at h
      · next v s1 hrun =>
        split at h
        · simp at h
        · next rest s2 hrest =>
          simp at h; obtain ⟨rfl, rfl⟩ := h
          obtain ⟨hv, hg1⟩ := hr p s v s1 hg hrun
          have hkwp : alookup kw p = none := by
            unfold resolve at hup
            split at hup
            · simp at hup
            · split at hup
              · simp at hup
              · next hk => exact hk
          obtain ⟨k1, hk1⟩ := hv hkwp
          obtain ⟨⟨k2, hk2⟩, hg2⟩ := ih _ rest s2 (by exact hg1) hrest
          refine ⟨⟨max k1 k2, ?_⟩, hg2⟩
          have a1 := compose_mono fs kw (Nat.le_max_left k1 k2) hk1
          have a2 := composeArgsWith_mono fs kw (compose fs kw k2) (compose fs kw (max k1 k2))
            (fun o v h => compose_mono fs kw (Nat.le_max_right k1 k2) h) f ps rest hk2
          simp [composeArgsWith, hup, a1, a2]

theorem run_sound (hu : Unique fs) : ∀ (n : Nat), RecSound fs kw (run fs kw n) := by
  intro n
  induction n with
  | zero => intro o s v s' _ h; simp [run] at h
  | succ n ihn =>
    intro o s v s' hg h
    rw [run_succ] at h
    split at h
    · next w hw => simp at h; obtain ⟨rfl, rfl⟩ := h; exact ⟨fun hk => hg o w hk hw, hg⟩
    · next hmiss =>
      split at h
      · simp at h
      · next f hf =>
        split at h
        · simp at h
        · next args s1 hargs =>
          obtain ⟨⟨k, hk⟩, hg1⟩ := argsWith_sound fs kw _ ihn f f.params s args s1 hg hargs
          split at h
          · next w hw =>
            simp at h; obtain ⟨rfl, rfl⟩ := h
            have hall : ∀ q w', alookup (outVals f args) q = some w' →
                compose fs kw (k+1) q = .ok w' := by
              intro q w' hq
              have hqmem : q ∈ f.outputs := outVals_mem f args q w' hq
              have hp : producer fs q = some f := hu f o hf q hqmem
              rw [compose_succ]; simp [hp, hk, hq]
            refine ⟨fun _ => ⟨k+1, hall o w hw⟩, ?_⟩
            intro p v' hkwp hp
            simp only [] at hp
            rw [alookup_append] at hp
            split at hp
            · next w' hw' => injection hp with e; subst e; exact ⟨k+1, hall p w' hw'⟩
            · exact hg1 p v' hkwp hp
          · simp at h

end PF.Pipe

namespace PF.Pipe
open PF

/-! ### the specification depends on the function list only through `producer` and `pdefault` -/

theorem resolve_congr (fs fs' : List Func) (kw : List (String × Val))
    (hp : ∀ o, producer fs o = producer fs' o) (hd : ∀ p, pdefault fs p = pdefault fs' p) (f : Func) (p : String) :
    resolve fs kw f p = resolve fs' kw f p := by
  simp only [resolve, hp, hd]

theorem composeArgsWith_congr (fs fs' : List Func) (kw : List (String × Val))
    (hp : ∀ o, producer fs o = producer fs' o) (hd : ∀ p, pdefault fs p = pdefault fs' p)
    (r r' : String → Except Err Val) (hr : ∀ o, r o = r' o) (f : Func) :
    ∀ ps, composeArgsWith r fs kw f ps = composeArgsWith r' fs' kw f ps := by
  intro ps
  induction ps with
  | nil => simp [composeArgsWith]
  | cons p ps ih =>
    obtain ⟨p, orig⟩ := p
    simp only [composeArgsWith, resolve_congr fs fs' kw hp hd, ih, hr]

theorem compose_congr (fs fs' : List Func) (kw : List (String × Val))
    (hp : ∀ o, producer fs o = producer fs' o) (hd : ∀ p, pdefault fs p = pdefault fs' p) : ∀ (k : Nat) o,
    compose fs kw k o = compose fs' kw k o := by
  intro k
  induction k with
  | zero => intro o; simp [compose]
  | succ k ih =>
    intro o
    rw [compose_succ, compose_succ, hp]
    simp only [composeArgsWith_congr fs fs' kw hp hd _ _ ih]

/-- no two functions share an output name (`validate_unique_output_names`) -/
def UniqueOut (fs : List Func) : Prop :=
  ∀ f ∈ fs, ∀ g ∈ fs, ∀ o, o ∈ f.outputs → o ∈ g.outputs → f = g

theorem producer_some_iff (fs : List Func) (hu : UniqueOut fs) (o : String) (f : Func) :
    producer fs o = some f ↔ f ∈ fs ∧ o ∈ f.outputs := by
  unfold producer
  constructor
  · intro h
    have h1 := List.find?_some h
    have h2 := List.mem_of_find?_eq_some h
    exact ⟨h2, by simpa using h1⟩
  · intro ⟨hf, ho⟩
    cases h : fs.find? (fun f => o ∈ f.outputs) with
    | none =>
      rw [List.find?_eq_none] at h
      exact absurd (by simpa using ho) (h f hf)
    | some g =>
      have h1 := List.find?_some h
      have h2 := List.mem_of_find?_eq_some h
      rw [hu g h2 f hf o (by simpa using h1) ho]

theorem producer_perm (fs fs' : List Func) (hperm : fs.Perm fs') (hu : UniqueOut fs) (o : String) :
    producer fs o = producer fs' o := by
  have hu' : UniqueOut fs' := fun f hf g hg => hu f (hperm.mem_iff.mpr hf) g (hperm.mem_iff.mpr hg)
  cases h : producer fs o with
  | some f =>
    obtain ⟨hf, ho⟩ := (producer_some_iff fs hu o f).mp h
    exact ((producer_some_iff fs' hu' o f).mpr ⟨hperm.mem_iff.mp hf, ho⟩).symm
  | none =>
    cases h' : producer fs' o with
    | none => rfl
    | some g =>
      obtain ⟨hg, ho⟩ := (producer_some_iff fs' hu' o g).mp h'
      rw [(producer_some_iff fs hu o g).mpr ⟨hperm.mem_iff.mpr hg, ho⟩] at h
      cases h

/-- all functions agree on the default of a shared parameter (`validate_consistent_defaults`) -/
def ConsistentDefaults (fs : List Func) : Prop :=
  ∀ f ∈ fs, ∀ g ∈ fs, ∀ p v w, (p, v) ∈ f.defaults → (p, w) ∈ g.defaults → v = w

theorem alookup_isSome_of_mem {β} (l : List (String × β)) (x : String) (v : β) (h : (x, v) ∈ l) :
    ∃ w, alookup l x = some w := by
  induction l with
  | nil => simp at h
  | cons e es ih =>
    obtain ⟨k, w⟩ := e
    simp only [alookup]
    split
    · exact ⟨w, rfl⟩
    · next ne =>
      rcases List.mem_cons.mp h with h | h
      · cases h; exact absurd rfl ne
      · exact ih h

theorem mem_pdefaults (fs : List Func) (p : String) (v : Val) :
    (p, v) ∈ pdefaults fs ↔ ∃ f ∈ fs, (p, v) ∈ f.defaults ∧ (alookup f.bound p).isNone ∧ (producer fs p).isNone := by
  simp only [pdefaults, List.mem_flatMap, List.mem_filter, Bool.and_eq_true]

theorem pdefault_eq_some_iff (fs : List Func) (hc : ConsistentDefaults fs) (p : String) (v : Val) :
    pdefault fs p = some v ↔ (p, v) ∈ pdefaults fs := by
  unfold pdefault
  constructor
  · intro h; exact List.mem_reverse.mp (alookup_some_mem _ _ _ h)
  · intro h
    obtain ⟨w, hw⟩ := alookup_isSome_of_mem _ p v (List.mem_reverse.mpr h)
    have hw' := List.mem_reverse.mp (alookup_some_mem _ _ _ hw)
    obtain ⟨f, hf, hfm, _⟩ := (mem_pdefaults fs p v).mp h
    obtain ⟨g, hg, hgm, _⟩ := (mem_pdefaults fs p w).mp hw'
    rw [hw, hc f hf g hg p v w hfm hgm]

theorem pdefault_perm (fs fs' : List Func) (hperm : fs.Perm fs') (hu : UniqueOut fs) (hc : ConsistentDefaults fs)
    (p : String) : pdefault fs p = pdefault fs' p := by
  have hc' : ConsistentDefaults fs' := fun f hf g hg => hc f (hperm.mem_iff.mpr hf) g (hperm.mem_iff.mpr hg)
  have key : ∀ v, (p, v) ∈ pdefaults fs ↔ (p, v) ∈ pdefaults fs' := by
    intro v
    rw [mem_pdefaults, mem_pdefaults]
    constructor
    · rintro ⟨f, hf, a, b, c⟩; exact ⟨f, hperm.mem_iff.mp hf, a, b, by rw [← producer_perm fs fs' hperm hu]; exact c⟩
    · rintro ⟨f, hf, a, b, c⟩; exact ⟨f, hperm.mem_iff.mpr hf, a, b, by rw [producer_perm fs fs' hperm hu]; exact c⟩
  cases h : pdefault fs p with
  | some v =>
    exact ((pdefault_eq_some_iff fs' hc' p v).mpr ((key v).mp ((pdefault_eq_some_iff fs hc p v).mp h))).symm
  | none =>
    cases h' : pdefault fs' p with
    | none => rfl
    | some w =>
      rw [(pdefault_eq_some_iff fs hc p w).mpr ((key w).mpr ((pdefault_eq_some_iff fs' hc' p w).mp h'))] at h
      cases h

end PF.Pipe
