import PfModel.DriverVal
import PfModel.Model.LazyCont
import PfModel.Model.PipeCache
/-! Driver entry `"csession"` of C18: the `"session"` entry of `Driver/C18.lean` (lazy calls, `evaluate()`s, `construct_dag()` blocks on
    one pipeline) with one more op, `evaluate_lazy` on a container (`PF.Lazy.evaluateCont`):
    `{"op": "evalc", "c": T}`, `T ::= {"h": handleIndex} | {"val": v} | {"list": [T…]} | {"tuple": [T…]} | {"dict": [[key, T]…]} |
    {"set": [T…]} (iteration order) | {"other": tag, "xs": [T…]}`.
    Answer: `{"value": V, "log": [names], "ids": [node ids of the log], "new": [node ids this step appended], "leaf_refs": [ids],
    "shape_ok": bool, "again_ok": bool}`; `V` has the shape of `T` with `{"val": v}` leaves; an `other` container comes back as sent
    (handles resolved to `{"ref": id}` / `{"val": v}`). -/
namespace PF.DrvC18Cont
open Lean PF PF.Drv PF.Pipe PF.Lazy

def getFunc (j : Json) : R Func := do
  return { name := ← strF j "name", params := ← listF (asPair asStr asStr) j "params", outputs := ← listF asStr j "outputs",
           defaults := (← optF getKw j "defaults").getD [], bound := (← optF getKw j "bound").getD [] }

def putErr : Err → Json
  | .fuel => jObj [("err", jStr "RecursionError")]
  | .missing _ => jObj [("err", jStr "ValueError")]
  | .noFunc _ => jObj [("err", jStr "KeyError")]
  | .unused ps => jObj [("err", jStr "UnusedParametersError"), ("unused", jList jStr ps)]
  | .outputInKwargs => jObj [("err", jStr "ValueError")]
  | .mapspec => jObj [("err", jStr "RuntimeError")]

def putEErr : EErr → Json
  | .fuel => jObj [("err", jStr "RecursionError")]
  | .dangling _ => jObj [("err", jStr "KeyError")]
  | .notTuple => jObj [("err", jStr "TypeError")]

def getReq (j : Json) : R Req := do
  match j with
  | .str s => return .name s
  | _ => return .whole (← asList asStr j)

def putLArg : LArg → Json
  | .val v => jObj [("val", putVal v)]
  | .ref i => jObj [("ref", jNat i)]

def putNode : Lazy.Node → Json
  | .call f args => jObj [("kind", jStr "call"), ("f", jStr f.name), ("args", jList (fun (_, a) => putLArg a) args)]
  | .pick f src name => jObj [("kind", jStr "pick"), ("f", jStr f.name), ("args", jArr [putLArg src, jObj [("val", putVal (.str name))]])]

def putGraph (g : TG) : Json :=
  jObj [("nodes", jList jNat g.gnodes), ("edges", jList (fun (a, b) => jArr [jNat a, jNat b]) g.edges),
        ("cache", jNat g.cache.length)]

/-- a container tree; `{"h": n}` is the object the `n`-th call returned -/
partial def getCont (handles : List (Option LArg)) (j : Json) : R Cont :=
  -- (`{"val": null}` is the value `None`: `fld?` would read it as absent)
  match fld? j "h", (j.getObjVal? "val").toOption, fld? j "list", fld? j "tuple", fld? j "dict", fld? j "set", fld? j "other" with
  | some h, none, none, none, none, none, none => do
    let h ← asNat h
    match handles[h]? with
    | some (some a) => return .leaf a
    | _ => .error s!"evalc: handle {h}: no such object"
  | none, some v, none, none, none, none, none => do return .leaf (.val (← getVal v))
  | none, none, some l, none, none, none, none => do return .list (← asList (getCont handles) l)
  | none, none, none, some l, none, none, none => do return .tuple (← asList (getCont handles) l)
  | none, none, none, none, some l, none, none => do return .dict (← asList (asPair asStr (getCont handles)) l)
  | none, none, none, none, none, some l, none => do return .set (← asList (getCont handles) l)
  | none, none, none, none, none, none, some t => do return .other (← asStr t) (← listF (getCont handles) j "xs")
  | _, _, _, _, _, _, _ => .error "evalc: exactly one of h | val | list | tuple | dict | set | other expected"

partial def putCont : Cont → Json
  | .leaf a => putLArg a
  | .list xs => jObj [("list", jList putCont xs)]
  | .tuple xs => jObj [("tuple", jList putCont xs)]
  | .dict kvs => jObj [("dict", jList (fun (k, c) => jArr [jStr k, putCont c]) kvs)]
  | .set xs => jObj [("set", jList putCont xs)]
  | .other t xs => jObj [("other", jStr t), ("xs", jList putCont xs)]

partial def putCVal : CVal → Json
  | .leaf v => jObj [("val", putVal v)]
  | .list xs => jObj [("list", jList putCVal xs)]
  | .tuple xs => jObj [("tuple", jList putCVal xs)]
  | .dict kvs => jObj [("dict", jList (fun (k, c) => jArr [jStr k, putCVal c]) kvs)]
  | .set xs => jObj [("set", jList putCVal xs)]
  | .other t xs => jObj [("other", jStr t), ("xs", jList putCont xs)]

partial def shapeEq : Shape → Shape → Bool
  | .leaf, .leaf => true
  | .list a, .list b | .tuple a, .tuple b | .set a, .set b => a.length == b.length && (a.zip b).all fun (x, y) => shapeEq x y
  | .dict a, .dict b => a.length == b.length && (a.zip b).all fun ((k, x), (l, y)) => k == l && shapeEq x y
  | .other s a, .other t b => s == t && a.length == b.length && (a.zip b).all fun (x, y) => shapeEq x y
  | _, _ => false

/-- one step of a session; `handles` are the objects the calls returned so far -/
def step (fs : List Func) (s : LSt) (handles : List (Option LArg)) (op : Json) : R (Json × LSt × List (Option LArg)) := do
  match ← strF op "op" with
  | "enter" => return (jObj [("ok", jBool true)], enterDag s, handles)
  | "exit" =>
    match s.tg with
    | none => .error "exit without enter"
    | some g => return (putGraph g, exitDag s, handles)
  | "call" =>
    let kw ← getKw (← fld op "kw")
    let req ← getReq (← fld op "out")
    match lrunTop fs kw req s with
    | .error e => return (putErr e, s, handles ++ [none])
    | .ok (a, s1) =>
      let spec : Json := match req with
        | .name n => match compose fs kw (fuelFor fs) n with | .ok v => putVal v | .error _ => Json.null
        | .whole _ => Json.null
      let eager : Json := match runTop fs kw req with | .ok o => jObj [("value", putVal o.value), ("calls", jList jStr o.calls)] | .error e => putErr e
      return (jObj [("ret", putLArg a), ("den", jOpt putVal (den s1.nodes a)), ("spec", spec), ("eager", eager),
                    ("log", jList jStr (callNames s1.nodes s1.ev.log))], s1, handles ++ [some a])
  | "eval" =>
    let h ← natF op "h"
    match handles[h]? with
    | some (some a) =>
      match evaluate a s with
      | .error e => return (putEErr e, s, handles)
      | .ok (v, s1) => return (jObj [("value", putVal v), ("log", jList jStr (callNames s1.nodes s1.ev.log))], s1, handles)
    | _ => .error s!"eval of handle {h}: no such object"
  | "evalc" =>
    let c ← getCont handles (← fld op "c")
    match evaluateCont c s with
    | .error e => return (putEErr e, s, handles)
    | .ok (cv, s1) =>
      -- the theorems' clauses, evaluated alongside: same shape; evaluating again changes nothing
      let again := match evaluateCont c s1 with
        | .ok (cv2, s2) => shapeEq cv2.shape cv.shape && s2.ev.log == s1.ev.log && (putCVal cv2).compress == (putCVal cv).compress
        | .error _ => false
      return (jObj [("value", putCVal cv), ("log", jList jStr (callNames s1.nodes s1.ev.log)), ("ids", jList jNat s1.ev.log),
                    ("new", jList jNat (s1.ev.log.drop s.ev.log.length)), ("leaf_refs", jList jNat c.leafRefs),
                    ("shape_ok", jBool (shapeEq cv.shape c.shape)), ("again_ok", jBool again)], s1, handles)
  | o => .error s!"unknown op {o}"

def session (fs : List Func) : List Json → LSt → List (Option LArg) → List Json → R (List Json × LSt)
  | [], s, _, acc => .ok (acc.reverse, s)
  | op :: ops, s, hs, acc => do
    let (r, s1, hs1) ← step fs s hs op
    session fs ops s1 hs1 (r :: acc)

/-- the entry `"csession"` -/
def handle (a : Json) : R Json := do
  let fs ← listF getFunc a "funcs"
  let ops ← asArr (← fld a "ops")
  let own := (← optF asBool a "own").getD false
  let cfn := (← optF (asList (asList asStr)) a "cached").getD []
  let s0 : LSt := { memo := [], used := [], usedNone := false, nodes := [], tg := none, ev := ⟨[], []⟩,
                    own := if own then some [] else none, cfn := cfn }
  let (rs, s) ← session fs ops s0 [] []
  let wf := PipeCache.rankedB fs && PipeCache.uniqueOutB fs && PipeCache.consistentDefaultsB PipeCache.encVal fs
  return jObj [("ops", jArr rs), ("table", jList putNode s.nodes), ("wf", jBool wf), ("roots_ok", jBool (PipeCache.rootsAgreeB fs)),
               ("own", jOpt (fun c => jNat c.length) s.own)]

end PF.DrvC18Cont
