import PfModel.Lemmas.RewriteAxisKahn
import PfModel.Lemmas.RewriteAxisStruct
import PfModel.Props.C01
/-!
C10, clause "`add_mapspec_axis(p, axis=k)` lifts the pipeline pointwise": the model `PF.Rw.addAxis` (the recursion of
`pipefunc/_pipeline/_mapspec.py:15-43`) against the model of `Pipeline.map` (`PF.Map.runMap`, which `C01_map_eq_denotation`
equates with its denotation `specMap`), for pipelines whose functions have no MapSpec before the call (any number of
functions, tuple outputs, defaults, bound values, any return shapes), any fresh axis name and any number `K ≥ 1` of variants.

`Reach fs p o` — "output `o` depends on `p`": `o` is produced by a function that takes, as a non-bound parameter, `p` or
something that depends on `p`.  `HeightF fs h` is an acyclicity witness (a height decreasing along every edge, bounded by the
number of functions), in the style of the rank witnesses of C02/C09.
-/
namespace PF.C10
open PF PF.Map PF.Rw PF.Rw.Ax PF.C01

/-- **`add_mapspec_axis` on ANY pipeline** (prior MapSpecs allowed, any `p`, any axis name): function by function nothing but
    the MapSpec changes (names, parameters, outputs, defaults, bound values, bodies, return shapes stay), and every axis name
    in a MapSpec of the result is the new axis or an axis name the pipeline already used: no other axis is introduced. -/
theorem C10_add_axis_structure (p axis : String) (fs : List RFunc) :
    (addAxis p axis fs).map stripSpec = fs.map stripSpec ∧
    ∀ g ∈ addAxis p axis fs, ∀ ms, g.mapspec = some ms →
      ∀ a ∈ ms.inputs ++ ms.outputs, ∀ x, some x ∈ a.axes → x = axis ∨ x ∈ axesOf fs :=
  addAxis_structure p axis fs

/-- **What `add_mapspec_axis` does to the MapSpecs** (no prior MapSpecs): nothing but the MapSpecs changes; a function that
    depends on `p` gets a MapSpec that maps exactly its non-bound parameters that are `p` or depend on `p`, and ALL its outputs,
    along the new axis and along nothing else; every other function stays without MapSpec.  So every output that depends on
    `p` gains the axis, and no other axis is introduced. -/
theorem C10_add_axis_spec (fs : List RFunc) (p axis : String) (hplain : ∀ f ∈ fs, f.mapspec = none) (hu : UniqueOutR fs)
    (hne : ∀ g ∈ fs, g.core.outputs ≠ []) (hroot : rproducer fs p = none) (h : List String → Nat) (hh : HeightF fs h) :
    ∃ τ : List String → Option MSpec, addAxis p axis fs = fs.map (setSpecR τ) ∧
      ∀ g ∈ fs,
        ((∃ y ∈ freeParams g, Reach fs p y) →
          ∃ ins, τ g.core.outputs = some ⟨ins, g.core.outputs.map fun o => ⟨o, [some axis]⟩⟩ ∧
            (∀ a ∈ ins, a.axes = [some axis] ∧ a.name ∈ freeParams g ∧ Reach fs p a.name) ∧
            (∀ y ∈ freeParams g, Reach fs p y → ∃ a ∈ ins, a.name = y)) ∧
        ((¬ ∃ y ∈ freeParams g, Reach fs p y) → τ g.core.outputs = none) := by
  obtain ⟨τ, e, hG, hC⟩ := addAxis_spec fs p axis hplain hu hne hroot h hh
  refine ⟨τ, e, ?_⟩
  intro g hg
  constructor
  · rintro ⟨y, hy, hr⟩
    obtain ⟨ms, hm, _⟩ := hC y hr g hg hy
    obtain ⟨h1, _, h3, _⟩ := hG g hg ms hm
    refine ⟨ms.inputs, ?_, ?_, ?_⟩
    · rw [hm, ← h1]
    · intro a ha
      obtain ⟨a1, a2, a3⟩ := h3 a ha
      exact ⟨a1, a2, hG.reach a3⟩
    · intro y' hy' hr'
      obtain ⟨ms', hm', a, ha, han⟩ := hC y' hr' g hg hy'
      rw [hm] at hm'
      injection hm' with hm'
      subst hm'
      exact ⟨a, ha, han⟩
  · intro hno
    cases hm : τ g.core.outputs with
    | none => rfl
    | some ms =>
      obtain ⟨_, _, _, y, hy, hr⟩ := hG g hg ms hm
      exact absurd ⟨y, hy, hr⟩ hno

/-- **Pointwise lifting.**  `fs`: a pipeline without MapSpecs (unique outputs and function names, every function has an
    output, acyclic), `p` a root argument, `axis` any axis name, `vs` the `K ≥ 1` variants of `p`.  If `Pipeline.map` of the
    ORIGINAL pipeline runs for every variant (`p = vs[n]`, the other inputs `rest` fixed), then `map` of the pipeline returned
    by `add_mapspec_axis(p, axis)` runs on `p = array(vs)`, and for every output `o`:
    * `o` depends on `p` ⇒ its value is the array of shape `[K]` whose `n`-th slice is the original result for `p = vs[n]`;
    * `o` does not depend on `p` ⇒ its value is what the original returns (for every variant);
    * the lifted run returns a value for exactly the names the original runs return one for.
    The same holds for what the run folder holds afterwards (`stored`). -/
theorem C10_add_axis (fs : List RFunc) (p axis : String) (hplain : ∀ f ∈ fs, f.mapspec = none) (hu : UniqueOutR fs)
    (hne : ∀ g ∈ fs, g.core.outputs ≠ []) (hn : nodupB (fs.map (·.core.name)) = true) (hroot : rproducer fs p = none)
    (h : List String → Nat) (hh : HeightF fs h)
    (vs : List Val) (hK : 0 < vs.length) (rest : List (String × Val)) (ui : List (String × List Nat)) (Rn : Nat → MapResult)
    (hruns : ∀ n, n < vs.length → runMap (fs.map toMFunc) ((p, vs.getD n .none) :: rest) ui = .ok (Rn n)) :
    PointwiseLift fs p axis vs rest ui Rn := by
  unfold PointwiseLift
  obtain ⟨τ, e, hG, hC⟩ := addAxis_spec fs p axis hplain hu hne hroot h hh
  have ok := liftOK_of_good hplain hu hne hn hroot hG hC
  simp only [C01_map_eq_denotation] at hruns ⊢
  obtain ⟨R', hR', hvo, hvs⟩ := lift_specMap vs.length vs rest ok rfl hK ui Rn hruns
  rw [e, map_toMFunc_setSpecR]
  refine ⟨R', hR', ?_, ?_, ?_⟩
  · intro g hg o ho hr
    have hL := (isL_iff_reach hu hroot hG hC g hg o ho).mpr hr
    exact ⟨hvo.lifted o hL, hvs.lifted o hL⟩
  · intro g hg o ho hr n hn'
    have hL : isL τ (fs.map toMFunc) o = false := by
      cases hb : isL τ (fs.map toMFunc) o with
      | false => rfl
      | true => exact absurd ((isL_iff_reach hu hroot hG hC g hg o ho).mp hb) hr
    exact ⟨hvo.same o hL n hn', hvs.same o hL n hn'⟩
  · intro x n hn'
    exact ⟨hvo.pres x n hn', hvs.pres x n hn'⟩

/-- **Pointwise lifting, every structural hypothesis decidable** (what the driver evaluates on each generated case as
    `fragment`): no MapSpecs before the call, `validate_unique_output_names` (`dupOutputs = false`), every function has an output,
    distinct function names, `p` is a root argument, and the model's Kahn check `acyclic fs = true`. -/
theorem C10_add_axis_kahn (fs : List RFunc) (p axis : String) (hplain : ∀ f ∈ fs, f.mapspec = none) (hdup : dupOutputs fs = false)
    (hne : ∀ g ∈ fs, g.core.outputs ≠ []) (hn : nodupB (fs.map (·.core.name)) = true) (hroot : rproducer fs p = none)
    (hacy : acyclic fs = true)
    (vs : List Val) (hK : 0 < vs.length) (rest : List (String × Val)) (ui : List (String × List Nat)) (Rn : Nat → MapResult)
    (hruns : ∀ n, n < vs.length → runMap (fs.map toMFunc) ((p, vs.getD n .none) :: rest) ui = .ok (Rn n)) :
    PointwiseLift fs p axis vs rest ui Rn := by
  have hu := dupOutputs_unique fs hdup
  obtain ⟨h, hh⟩ := heightF_of_acyclic fs hu hne hacy
  exact C10_add_axis fs p axis hplain hu hne hn hroot h hh vs hK rest ui Rn hruns

/-- the same with the lifting condition as a decidable check on the result (`liftOKb`, what the driver evaluates on every
    generated case), without an acyclicity witness: whenever the MapSpecs of `addAxis p axis fs` pass the check, the lifted
    pipeline computes slice by slice what the original computes -/
theorem C10_add_axis_checked (fs : List RFunc) (p axis : String) (τ : List String → Option MSpec)
    (hτ : addAxis p axis fs = fs.map (setSpecR τ)) (hb : liftOKb p axis (addAxis p axis fs) = true)
    (hplain : ∀ f ∈ fs, f.mapspec = none) (hu : uniqueOutB fs = true) (hn : nodupB (fs.map (·.core.name)) = true)
    (hroot : rproducer fs p = none)
    (vs : List Val) (hK : 0 < vs.length) (rest : List (String × Val)) (ui : List (String × List Nat)) (Rn : Nat → MapResult)
    (hruns : ∀ n, n < vs.length → runMap (fs.map toMFunc) ((p, vs.getD n .none) :: rest) ui = .ok (Rn n)) :
    ∃ R', runMap ((addAxis p axis fs).map toMFunc) ((p, .arr [vs.length] vs) :: rest) ui = .ok R' ∧
      VRel τ (fs.map toMFunc) vs.length R'.outputs (fun n => (Rn n).outputs) ∧
      VRel τ (fs.map toMFunc) vs.length R'.stored (fun n => (Rn n).stored) := by
  rw [hτ] at hb
  have ok := liftOK_of_b τ fs p axis hplain hu hn hroot hb
  simp only [C01_map_eq_denotation] at hruns ⊢
  rw [hτ, map_toMFunc_setSpecR]
  exact lift_specMap vs.length vs rest ok rfl hK ui Rn hruns

/-! ### non-vacuity -/

def a0 : PF.Pipe.Func := ⟨"f0", [("x", "x"), ("c", "c")], ["y0"], [], []⟩
def a1 : PF.Pipe.Func := ⟨"f1", [("y0", "y0"), ("d", "d")], ["y1a", "y1b"], [("d", .int 4)], []⟩
def a2 : PF.Pipe.Func := ⟨"f2", [("c", "c")], ["z"], [], []⟩
def PA : List RFunc := [a0, a1, a2].map embed

def hA : List String → Nat := fun os => if os = ["y0"] then 2 else if os = ["y1a", "y1b"] then 1 else 0

theorem C10_ex_unique : UniqueOutR PA := by
  intro f hf g hg o h1 h2
  simp only [PA, List.map_cons, List.map_nil, List.mem_cons, List.not_mem_nil, or_false] at hf hg
  rcases hf with rfl | rfl | rfl <;> rcases hg with rfl | rfl | rfl <;>
    first | rfl | (exfalso; simp [embed, a0, a1, a2] at h1 h2; simp_all)

theorem C10_ex_height : HeightF PA hA := ⟨by decide, by decide⟩

/-- the MapSpecs `add_mapspec_axis("x", axis="w")` attaches: `x[w] -> y0[w]`, `y0[w] -> y1a[w], y1b[w]`, none for `f2` -/
example : (addAxis "x" "w" PA).map (fun f => f.mapspec) =
    [some ⟨[⟨"x", [some "w"]⟩], [⟨"y0", [some "w"]⟩]⟩, some ⟨[⟨"y0", [some "w"]⟩], [⟨"y1a", [some "w"]⟩, ⟨"y1b", [some "w"]⟩]⟩, none] := by
  decide
example : liftOKb "x" "w" (addAxis "x" "w" PA) = true := by decide
example : ∀ f ∈ PA, f.mapspec = none := by decide
example : ∀ g ∈ PA, g.core.outputs ≠ [] := by decide
example : nodupB (PA.map (·.core.name)) = true := by decide
example : rproducer PA "x" = none := by decide
/-- the original runs for each of two variants, and the lifted pipeline runs on the array -/
example : ∀ n, n < 2 → (runMap (PA.map toMFunc) [("x", [Val.str "a", Val.str "b"].getD n .none), ("c", .int 1)] []).toOption.isSome = true := by
  decide
example : ((runMap ((addAxis "x" "w" PA).map toMFunc) [("x", .arr [2] [.str "a", .str "b"]), ("c", .int 1)] []).toOption.map
    fun r => r.shapes) = some [("x", [2]), ("y0", [2]), ("y1a", [2]), ("y1b", [2])] := by decide
/-- a pipeline WITH a prior MapSpec (`x[i] -> y0[i]`, then an un-mapped consumer): the axis names afterwards -/
example : ((addAxis "c" "w" ([{ (embed a0) with mapspec := some ⟨[⟨"x", [some "i"]⟩], [⟨"y0", [some "i"]⟩]⟩ }, embed a1])).map fun f =>
    f.mapspec.map fun ms => (ms.inputs ++ ms.outputs).map fun a => (a.name, a.axes)) =
    [some [("x", [some "i"]), ("c", [some "w"]), ("y0", [some "i", some "w"])],
     some [("y0", [none, some "w"]), ("y1a", [some "w"]), ("y1b", [some "w"])]] := by decide

/-- the two pointwise runs of the original -/
def RnA (n : Nat) : MapResult :=
  match runMap (PA.map toMFunc) [("x", [Val.str "a", Val.str "b"].getD n .none), ("c", .int 1)] [] with
  | .ok r => r
  | .error _ => ⟨[], [], [], [], [], []⟩

theorem C10_ex_runs : ∀ n, n < 2 →
    runMap (PA.map toMFunc) [("x", [Val.str "a", Val.str "b"].getD n .none), ("c", .int 1)] [] = .ok (RnA n) := by
  intro n hn
  have hs : (runMap (PA.map toMFunc) [("x", [Val.str "a", Val.str "b"].getD n .none), ("c", .int 1)] []).toOption.isSome = true := by
    revert n; decide
  unfold RnA
  cases h : runMap (PA.map toMFunc) [("x", [Val.str "a", Val.str "b"].getD n .none), ("c", .int 1)] [] with
  | ok r => rfl
  | error e => rw [h] at hs; cases hs

/-- all hypotheses of `C10_add_axis` hold together on `PA`: the theorem applies -/
example : ∃ R', runMap ((addAxis "x" "w" PA).map toMFunc) [("x", .arr [2] [.str "a", .str "b"]), ("c", .int 1)] [] = .ok R' ∧
    (∀ v', alookup R'.outputs "y1a" = some v' →
      v' = .arr [2] ((List.range 2).map fun n => (alookup (RnA n).outputs "y1a").getD .none)) ∧
    alookup R'.outputs "z" = alookup (RnA 0).outputs "z" := by
  obtain ⟨R', h1, h2, h3, _⟩ := C10_add_axis PA "x" "w" (by decide) C10_ex_unique (by decide) (by decide) (by decide) hA C10_ex_height
    [.str "a", .str "b"] (by decide) [("c", .int 1)] [] RnA C10_ex_runs
  refine ⟨R', h1, (h2 (embed a1) (by simp [PA]) "y1a" (by decide)
    (.step (embed a1) (by simp [PA]) "y0" (by decide) (.step (embed a0) (by simp [PA]) "x" (by decide) .root "y0" (by decide)) "y1a" (by decide))).1,
    (h3 (embed a2) (by simp [PA]) "z" (by decide) ?_ 0 (by decide)).1⟩
  intro hr
  rcases hr.last with e | ⟨g, hg, y, hy, hry, hz⟩
  · exact absurd e (by decide)
  · simp only [PA, List.map_cons, List.map_nil, List.mem_cons, List.not_mem_nil, or_false] at hg
    rcases hg with rfl | rfl | rfl
    · simp [embed, a0] at hz
    · simp [embed, a1] at hz
    · have : y = "c" := by simpa [freeParams, embed, a2, alookup] using hy
      subst this
      rcases hry.last with e | ⟨g', hg', _, _, _, hc⟩
      · exact absurd e (by decide)
      · simp only [PA, List.map_cons, List.map_nil, List.mem_cons, List.not_mem_nil, or_false] at hg'
        rcases hg' with rfl | rfl | rfl <;> simp [embed, a0, a1, a2] at hc

/-- `y1a` depends on `x`, `z` does not -/
example : Reach PA "x" "y1a" :=
  .step (embed a1) (by simp [PA]) "y0" (by decide) (.step (embed a0) (by simp [PA]) "x" (by decide) .root "y0" (by decide)) "y1a" (by decide)

end PF.C10
