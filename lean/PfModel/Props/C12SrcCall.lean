import PfModel.Generated.C12Facts
import PfModel.Model.ValidateCall
/-!
C12, the tie to the source, round 9 (its own module: a failure here does not hide the other source-tie theorems): the CALL path.
`startCall` / `startFunc` / `constructThenCall` (`Model/ValidateCall.lean`) say that the three lazy checks — the cycle test among
them — precede the gate and the first user call of `run` / `__call__` / `func(out)(**kw)`, and that construction meets the cycle on
every path.  Neither `run` nor the constructor has a dedicated cycle test: the cycle is noticed where `topological_generations`
happens to be evaluated.  These theorems check, by `decide` on call / cached-property-read lists re-extracted from the repository
under test on every run (`harness/c12_extract.py`), every link of the two chains.  (Seeded change C12-s4-A cuts both: an early
`return` in `_autogen_mapspec_axes` before `topological_generations` is read, and `mapspecs(ordered=False)` in `mapspec_names`.)
-/
namespace PF.C12
open PF PF.Validate

/-- `Pipeline.run`: the cached property `mapspec_names` is read FIRST and on every path, `func_dependencies` is called on every path,
    both `raise`s of the gate precede the one call of `_run`, and `run` executes no user function itself (`callChecks` order) -/
theorem C12_call_run_gate : runGateOK Generated.callRunCalls Generated.callRunUncond = true := by decide

/-- the chain `mapspec_names` → `self.mapspecs()` (no `ordered=False`; the default is `True`) → `sorted_functions` →
    `topological_generations` (read on every path) → `nx.topological_generations` (called on every path) and `graph` →
    `validate_unique_output_names_of`, `validate_consistent_defaults` (on every path, before `nx.DiGraph`): the three `lazySteps`
    are what the first statement of `run` evaluates -/
theorem C12_call_cycle_chain :
    cycleChainOK Generated.callMapspecNamesCalls Generated.callMapspecsOrderedDefault Generated.callMapspecsCalls
      Generated.callSortedFunctionsUncond Generated.callTopoUncond Generated.pipelineTopoCalls Generated.callGraphUncond = true := by decide

/-- `__call__` and `_PipelineAsFunc.__call__` are `run`; `func` computes `root_args` → `arg_combinations` → `node_mapping` → `graph`
    (`funcChecks`); `func_dependencies` looks the name up in `node_mapping` (`unknown-output`) -/
theorem C12_call_entries :
    callEntriesOK Generated.callDunderCalls Generated.callAsFuncCalls Generated.callFuncCalls Generated.callRootArgsCalls
      Generated.callArgCombinationsCalls Generated.callNodeMappingCalls Generated.callFuncDependenciesCalls = true := by decide

/-- `_run` executes a user function in exactly one place (`_execute_func`), after `_get_func_args` -/
theorem C12_call_first_user_call : innerRunOK Generated.callInnerRunCalls = true := by decide

/-- construction: `add` → `_validate` → `_validate_mapspec` → `_autogen_mapspec_axes` → `topological_generations`, each link made on
    EVERY path through the function (top-level statements, nothing before it can return): the cycle clause of `pipelineValidate` -/
theorem C12_ctor_cycle_unconditional :
    ctorCycleUncondOK Generated.ctorAddUncond Generated.ctorValidateUncond Generated.ctorValidateMapspecUncond
      Generated.ctorAutogenUncond = true := by decide

end PF.C12
