import PfModel.Lemmas.TypingX
/-!
C16 over the extended annotation language `XTy` (`Literal[...]`, `tuple[T, ...]`): the algebraic clauses of the statement for
`compatX`, and the exact rules of the two new constructors.  All statements are for every annotation of `XTy` (no size bound, no
well-formedness hypothesis).
-/
namespace PF.C16
open PF.Typing

/-- reflexive (so the `==` shortcut of `typing.py:88` changes no answer on the extended language either) -/
theorem C16X_refl (a : XTy) : compatX a a = true := compatX_refl a

/-- `Any` accepts everything -/
theorem C16X_any_top (a : XTy) : compatX a .any = true := compatX_any_r a

/-- a missing annotation is compatible with everything, on either side -/
theorem C16X_missing (a : XTy) : compatX .noann a = true ∧ compatX a .noann = true := ⟨compatX_noann_l a, compatX_noann_r a⟩

/-- a union source needs all members accepted -/
theorem C16X_union_left (as : List XTy) (b : XTy) : compatX (.union as) b = true ↔ ∀ a ∈ as, compatX a b = true :=
  compatX_union_l as b

/-- a union target accepts what one member accepts -/
theorem C16X_union_right_intro {a b : XTy} {bs : List XTy} (hb : b ∈ bs) (h : compatX a b = true) : compatX a (.union bs) = true :=
  compatX_union_r hb h

example : compatX (.lit [.int 1]) (.union [.base .str, .lit [.int 1, .int 2]]) = true :=
  C16X_union_right_intro (b := .lit [.int 1, .int 2]) (by simp) (by unfgx; decide)

/-- for a `Literal` or variadic-tuple source a union target needs one accepting member (the converse of the introduction rule) -/
theorem C16X_union_right (a : XTy) (bs : List XTy) (ha : (∃ vs, a = .lit vs) ∨ (∃ t, a = .vtuple t)) :
    compatX a (.union bs) = true ↔ ∃ b ∈ bs, compatX a b = true := by
  rcases ha with ⟨vs, rfl⟩ | ⟨t, rfl⟩ <;> (unfgx; exact compatAnyX_iff)

example : ∃ a bs, ((∃ vs, a = XTy.lit vs) ∨ (∃ t, a = XTy.vtuple t)) ∧ compatX a (.union bs) = true :=
  ⟨.lit [.int 1], [.lit [.int 1]], Or.inl ⟨_, rfl⟩, by unfgx; rw [compatAnyX]; unfgx; decide⟩

/-- plain `Annotated` is transparent on the source side, and a required one accepts what its primary accepts -/
theorem C16X_annotated (p b : XTy) : compatX (.annot p) b = compatX p b ∧ (compatX b p = true → compatX b (.annot p) = true) :=
  ⟨by rw [compatX], compatX_annot_r⟩

/-- `Literal` against `Literal`: exactly inclusion of the values (order and repetition are irrelevant; `True` is not `1`) -/
theorem C16X_literal (vs ws : List LitV) : compatX (.lit vs) (.lit ws) = true ↔ ∀ v ∈ vs, v ∈ ws := by
  unfgx; exact litSub_iff

/-- a `Literal` is related to no class, generic, object array or `Array`, in either direction: `Literal[1] -> int` is REJECTED by the
    code (outside the property text, which does not list `Literal`; every value of `Literal[1]` is an `int`) -/
theorem C16X_literal_nominal (vs : List LitV) (x : Base) (g : Gen) (ts : List XTy) (t : XTy) :
    compatX (.lit vs) (.base x) = false ∧ compatX (.base x) (.lit vs) = false ∧
    compatX (.lit vs) (.gen g ts) = false ∧ compatX (.gen g ts) (.lit vs) = false ∧
    compatX (.lit vs) (.vtuple t) = false ∧ compatX (.vtuple t) (.lit vs) = false ∧
    compatX (.lit vs) (.array t) = false ∧ compatX (.array t) (.lit vs) = false := by
  refine ⟨?_, ?_, ?_, ?_, ?_, ?_, ?_, ?_⟩ <;> simp [compatX]

/-- `Literal[True]` is not accepted for `Literal[1]` although `True == 1` in Python (`type(v) is type(w)`) -/
theorem C16X_literal_bool_int_witness : compatX (.lit [.bool true]) (.lit [.int 1]) = false := by
  unfgx; decide

/-- variadic tuples are covariant -/
theorem C16X_variadic_covariant (s t : XTy) : compatX (.vtuple s) (.vtuple t) = compatX s t := by
  unfgx

/-- a fixed-arity tuple is accepted for `tuple[T, ...]` exactly when every element type is accepted by `T` (bare `tuple`: always);
    no other builtin generic is -/
theorem C16X_fixed_to_variadic (g : Gen) (as : List XTy) (t : XTy) :
    compatX (.gen g as) (.vtuple t) = true ↔ g = .tuple ∧ ∀ a ∈ as, compatX a t = true := by
  unfgx; simp [compatAllX_iff]

/-- `tuple[S, ...]` is accepted for a fixed-arity generic only when that is the bare `tuple` -/
theorem C16X_variadic_to_fixed (s : XTy) (g : Gen) (bs : List XTy) :
    compatX (.vtuple s) (.gen g bs) = true ↔ g = .tuple ∧ bs = [] := by
  unfgx; simp

/-- DF-C16-variadic-compat, the two directions the pinned code got wrong: `tuple[int, int] -> tuple[int, ...]` is accepted and
    `tuple[int, ...] -> tuple[int]` is rejected -/
theorem C16X_variadic_witness :
    compatX (.gen .tuple [.base .int, .base .int]) (.vtuple (.base .int)) = true ∧
    compatX (.vtuple (.base .int)) (.gen .tuple [.base .int]) = false := by
  constructor
  · exact (C16X_fixed_to_variadic _ _ _).mpr ⟨rfl, by intro a ha; simp at ha; subst ha; exact compatX_refl _⟩
  · simp [compatX]

/-- covariance of the old generics and of `Array` holds on the extended language (`list[A] -> list[B]` is `A -> B`) -/
theorem C16X_covariant (g : Gen) (a b : XTy) :
    compatX (.gen g [a]) (.gen g [b]) = compatX a b ∧ compatX (.array a) (.array b) = compatX a b := by
  constructor
  · rw [compatX, compatZipX, compatZipX]
    · simp
    · intros; contradiction
  · unfgx

end PF.C16
