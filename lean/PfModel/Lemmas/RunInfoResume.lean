import PfModel.Model.RunInfoResume
import PfModel.Lemmas.RunInfoCodec
/-! Helper lemmas for `RunInfo.create` on a folder that already holds a run (Model/RunInfoResume.lean). -/
namespace PF.RIC
open PF PF.Map

theorem writeStore_meta (pm : Bool) (backend : String → Option Backend) (store : List (String × Slot)) (fo : Folder) (q : Path)
    (h : ∀ o, pathOf o q = false) : writeStore pm backend store fo q = fo q :=
  foldl_writeSlot_other _ _ _ _ _ (fun os _ => h os.1)

theorem decode_writeStore_dumpAll (pm : Bool) (backend : String → Option Backend) (store : List (String × Slot)) (fo : Folder)
    (r : RunInfo) (hok : NamesOK r) :
    decode (writeStore pm backend store (dumpAll fo r)) = some { r with allOutputNames := sortNames r.allOutputNames } := by
  apply decode_of_reads _ r hok
  · rw [writeStore_meta _ _ _ _ _ (by intro o; rfl)]; exact dumpAll_runInfo _ r
  · intro kv hkv
    rw [writeStore_meta _ _ _ _ _ (by intro o; rfl)]; exact dumpAll_input _ r hok.inputs kv hkv
  · rw [writeStore_meta _ _ _ _ _ (by intro o; rfl)]; exact dumpAll_defaults _ r

/-- an accepted `RunInfo.create` leaves `dumpAll base r` for some base folder (the old one, or the empty one after a clean-up) -/
theorem createOn_ok (eqv : Val → Val → Bool) (cleanup : Bool) (fo fo' : Folder) (r : RunInfo)
    (h : createOn eqv cleanup fo r = .ok fo') : ∃ base, fo' = dumpAll base r := by
  unfold createOn at h
  split at h
  · exact ⟨Folder.empty, by cases h; rfl⟩
  · cases hc : compareToPrevious eqv fo r with
    | error e => simp [hc, Except.map] at h
    | ok u =>
      simp only [hc, Except.map] at h
      exact ⟨fo, by cases h; rfl⟩

theorem runOn_ok (eqv : Val → Val → Bool) (pm : Bool) (fo fo' : Folder) (x : Run) (h : runOn eqv pm fo x = .ok fo') :
    ∃ base, fo' = writeStore pm x.backend x.store (dumpAll base x.info) := by
  unfold runOn at h
  cases hc : createOn eqv x.cleanup fo x.info with
  | error e => simp [hc, Except.map] at h
  | ok f1 =>
    simp only [hc, Except.map] at h
    obtain ⟨base, hb⟩ := createOn_ok eqv x.cleanup fo f1 x.info hc
    exact ⟨base, by cases h; rw [hb]⟩

theorem history_append (eqv : Val → Val → Bool) (pm : Bool) (fo : Folder) (xs : List Run) (x : Run) :
    history eqv pm fo (xs ++ [x]) = match history eqv pm fo xs with
      | .error e => .error e
      | .ok f1 => runOn eqv pm f1 x := by
  induction xs generalizing fo with
  | nil =>
    simp only [List.nil_append, history]
    cases runOn eqv pm fo x <;> rfl
  | cons y ys ih =>
    simp only [List.cons_append, history]
    cases runOn eqv pm fo y with
    | error e => rfl
    | ok f1 => exact ih f1

end PF.RIC
