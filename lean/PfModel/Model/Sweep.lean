/-!
# Model of `pipefunc/sweep.py` (C17)

An executable model of `Sweep`, `MultiSweep` and `count_sweep`, polymorphic in the type `V` of swept values.  Python
dictionaries are association lists in insertion order (`Dict`); `d[k] = v`, `setdefault`, `update` keep positions the way a
Python `dict` does, so that the model follows the code statement by statement.  Derivers and exclude predicates are
arbitrary Lean functions.  Exceptions the code can raise for ill-formed sweeps are values of `Err`.

The model mirrors the code *after* the `fix:` commits DF-06, DF-08, DF-09, DF-26, DF-C17-01 (see `fixes/C17`); DF-07
(`product` with `dims=None` on the left operand) is a known finding and is modelled as the code behaves.
-/

namespace PF.Sweep

abbrev Key := String

/-- exceptions raised by the modelled code -/
inductive Err
  | key        -- KeyError: a dims group / key list names a dimension that does not exist
  | value      -- ValueError: `_check_dim_lengths`
  | index      -- IndexError: an empty dims group `()`
  | assertion  -- AssertionError: `_combine_dicts` found a repeated key
  deriving DecidableEq, Repr

/-- A Python `dict` with string keys, in insertion order. -/
abbrev Dict (α : Type) := List (Key × α)

section Dict
variable {α : Type}

/-- `d.get(k)` -/
def lookup : Dict α → Key → Option α
  | [], _ => none
  | (k', v) :: r, k => if k' = k then some v else lookup r k

/-- `d[k] = v` (an existing key keeps its position) -/
def insert : Dict α → Key → α → Dict α
  | [], k, v => [(k, v)]
  | (k', v') :: r, k, v => if k' = k then (k', v) :: r else (k', v') :: insert r k v

/-- `d.setdefault(k, v)` -/
def setdefault (d : Dict α) (k : Key) (v : α) : Dict α :=
  match lookup d k with
  | some _ => d
  | none => d ++ [(k, v)]

/-- `d.update(e)` / `for k, v in e: d[k] = v` -/
def update (d : Dict α) (e : List (Key × α)) : Dict α :=
  e.foldl (fun acc kv => insert acc kv.1 kv.2) d

/-- `dict(pairs)` -/
def ofPairs (l : List (Key × α)) : Dict α := update [] l

def keys (d : Dict α) : List Key := d.map Prod.fst
def vals (d : Dict α) : List α := d.map Prod.snd

end Dict

/-- an element of `dims`: a name or a tuple of names -/
inductive Group
  | str (k : Key)
  | tup (ks : List Key)
  deriving DecidableEq, Repr

/-- `at_least_tuple(dim_group)` (`_utils.py:24`) -/
def Group.keys : Group → List Key
  | .str k => [k]
  | .tup ks => ks

/-- `Sweep.__init__` (`sweep.py:93-105`) -/
structure Sweep (V : Type) where
  items : Dict (List V)
  dims : Option (List Group) := none
  exclude : Option (Dict V → Bool) := none
  constants : Option (Dict V) := none
  derivers : Option (Dict (Dict V → V)) := none

/-- `itertools.product(*ls)`: the first list varies slowest (row-major) -/
def cart {α : Type} : List (List α) → List (List α)
  | [] => [[]]
  | l :: ls => l.flatMap (fun x => (cart ls).map (fun r => x :: r))

/-- `zip(*seqs)` as a list of rows (stops at the shortest sequence; no rows for no sequences) -/
def zipRows {α : Type} : List (List α) → List (List α)
  | [] => []
  | [s] => s.map (fun v => [v])
  | s :: ss => List.zipWith (fun v r => v :: r) s (zipRows ss)

/-- `set(self.dims) == self.items.keys()` (`sweep.py:120`): every element of dims is a *name* of a dimension and every
    dimension is named; a tuple never equals a name. -/
def setEqKeys (d : List Group) (ks : List Key) : Bool :=
  d.all (fun g => match g with | .str k => ks.contains k | .tup _ => false) && ks.all (fun k => d.contains (.str k))

section Gen
variable {V : Type}

/-- the test that selects the "full Cartesian product" branch of `generate`, `__len__` and `filtered_sweep` -/
def fullBranch (s : Sweep V) : Bool :=
  match s.dims with
  | none => true
  | some d => setEqKeys d (keys s.items)

/-- `[self.items[dim] for dim in dims]` (`sweep.py:139`) -/
def cols (items : Dict (List V)) : List Key → Except Err (List (List V))
  | [] => .ok []
  | k :: ks =>
    match lookup items k with
    | none => .error .key
    | some c =>
      match cols items ks with
      | .error e => .error e
      | .ok cs => .ok (c :: cs)

/-- `_check_dim_lengths` (`sweep.py:392-398`): every sequence as long as the first -/
def sameLen : List (List V) → Bool
  | [] => true
  | c :: cs => cs.all (fun c' => c'.length == c.length)

/-- one `product_parts` entry (`sweep.py:137-141`) -/
def part (items : Dict (List V)) (g : Group) : Except Err (List (Dict V)) :=
  match cols items g.keys with
  | .error e => .error e
  | .ok [] => .error .index                       -- `seqs[0]` of an empty group
  | .ok (c :: cs) =>
    if sameLen (c :: cs) then .ok ((zipRows (c :: cs)).map (fun r => ofPairs (g.keys.zip r)))
    else .error .value

/-- the loop building `product_parts` (`sweep.py:136-141`) -/
def parts (items : Dict (List V)) : List Group → Except Err (List (List (Dict V)))
  | [] => .ok []
  | g :: gs =>
    match part items g with
    | .error e => .error e
    | .ok p =>
      match parts items gs with
      | .error e => .error e
      | .ok ps => .ok (p :: ps)

/-- `{k: v for item in combo for k, v in item.items()}` (`sweep.py:143`) -/
def mergeDicts (combo : List (Dict V)) : Dict V := combo.foldl update []

/-- `combination.setdefault(key, value)` for every constant (`sweep.py:126-128`, `144-146`) -/
def addConstants (cs : Option (Dict V)) (c : Dict V) : Dict V :=
  match cs with
  | none => c
  | some l => l.foldl (fun acc kv => setdefault acc kv.1 kv.2) c

/-- `combination[key] = func(combination)` for every deriver, in order (`sweep.py:129-131`, `147-149`) -/
def applyDerivers (ds : Option (Dict (Dict V → V))) (c : Dict V) : Dict V :=
  match ds with
  | none => c
  | some l => l.foldl (fun acc kf => insert acc kf.1 (kf.2 acc)) c

/-- `self.exclude is None or not self.exclude(combination)` negated -/
def excluded (e : Option (Dict V → Bool)) (c : Dict V) : Bool :=
  match e with
  | none => false
  | some f => f c

/-- the body shared by both loops of `generate`: constants, derivers, exclude; `none` = not yielded -/
def finish (s : Sweep V) (c : Dict V) : Option (Dict V) :=
  let c' := applyDerivers s.derivers (addConstants s.constants c)
  if excluded s.exclude c' then none else some c'

/-- `Sweep.generate` / `list` / `__iter__` (`sweep.py:107-160`) -/
def generate (s : Sweep V) : Except Err (List (Dict V)) :=
  if s.items.isEmpty then .ok []
  else if fullBranch s then
    .ok ((cart (vals s.items)).filterMap (fun res => finish s (ofPairs ((keys s.items).zip res))))
  else
    match parts s.items (s.dims.getD []) with
    | .error e => .error e
    | .ok ps => .ok ((cart ps).filterMap (fun combo => finish s (mergeDicts combo)))

/-! ### Specification: what `list()` is, with no mechanism -/

/-- the value list of a dimension -/
def col (items : Dict (List V)) (k : Key) : List V := (lookup items k).getD []

/-- the groups that are enumerated, slowest first: the dimensions one by one in item order when `dims` is omitted (or is
    just the set of names), else the groups of `dims` in the order given -/
def effGroups (s : Sweep V) : List (List Key) :=
  if fullBranch s then (keys s.items).map (fun k => [k]) else (s.dims.getD []).map Group.keys

/-- the rows of a zipped group, each as a dictionary -/
def zipGroup (items : Dict (List V)) (ks : List Key) : List (Dict V) :=
  (zipRows (ks.map (col items))).map (fun r => ks.zip r)

/-- the documented combinations: the Cartesian product of the zipped groups in row-major order, constants added, derivers
    applied, excluded combinations removed; nothing for a sweep without items -/
def specList (s : Sweep V) : List (Dict V) :=
  if s.items.isEmpty then []
  else
    (((cart ((effGroups s).map (zipGroup s.items))).map List.flatten).map
      (fun c => applyDerivers s.derivers (addConstants s.constants c))).filter (fun c => !excluded s.exclude c)

/-- a dims group is well formed: not empty, names existing dimensions, all of the same length -/
def groupOK (items : Dict (List V)) (g : Group) : Bool :=
  !g.keys.isEmpty && g.keys.all (fun k => (keys items).contains k) && sameLen (g.keys.map (col items))

/-- well-formed sweep: `items` is a dict (distinct names) and `dims`, when given, consists of well-formed groups that
    name no dimension twice (it need not name all of them) -/
def wf (s : Sweep V) : Bool :=
  decide (keys s.items).Nodup &&
    match s.dims with
    | none => true
    | some d => decide (d.flatMap Group.keys).Nodup && d.all (groupOK s.items)

/-- the loop of `__len__` over dims groups (`sweep.py:229-234`): no length check, only the first name of a group -/
def lenDims (items : Dict (List V)) : List Group → Except Err Nat
  | [] => .ok 1
  | g :: gs =>
    match g.keys with
    | [] => .error .index
    | k :: _ =>
      match lookup items k with
      | none => .error .key
      | some c =>
        match lenDims items gs with
        | .error e => .error e
        | .ok n => .ok (c.length * n)

/-- `Sweep.__len__` (`sweep.py:216-234`, with the DF-06 fix: no items → 0) -/
def len (s : Sweep V) : Except Err Nat :=
  if s.items.isEmpty then .ok 0
  else if s.exclude.isSome then
    match generate s with
    | .error e => .error e
    | .ok l => .ok l.length
  else if fullBranch s then .ok ((vals s.items).foldl (fun acc c => acc * c.length) 1)
  else lenDims s.items (s.dims.getD [])

/-! ### MultiSweep -/

/-- a `Sweep` or a `MultiSweep` (whose members may again be `MultiSweep`s) -/
inductive SW (V : Type) where
  | single (s : Sweep V)
  | multi (l : List (SW V))

mutual
/-- `generate` of a `Sweep` / `MultiSweep.generate` (`sweep.py:350-361`) -/
def SW.generate : SW V → Except Err (List (Dict V))
  | .single s => PF.Sweep.generate s
  | .multi l => SW.generateL l
def SW.generateL : List (SW V) → Except Err (List (Dict V))
  | [] => .ok []
  | x :: xs =>
    match SW.generate x with
    | .error e => .error e
    | .ok a =>
      match SW.generateL xs with
      | .error e => .error e
      | .ok b => .ok (a ++ b)
end

mutual
/-- `MultiSweep.__len__` (`sweep.py:363-365`): the sum of the members' lengths -/
def SW.len : SW V → Except Err Nat
  | .single s => PF.Sweep.len s
  | .multi l => SW.lenL l
def SW.lenL : List (SW V) → Except Err Nat
  | [] => .ok 0
  | x :: xs =>
    match SW.len x with
    | .error e => .error e
    | .ok a =>
      match SW.lenL xs with
      | .error e => .error e
      | .ok b => .ok (a + b)
end

/-- `Sweep.__add__` / `MultiSweep.__add__` / `combine` (`sweep.py:236-245`, `376-389`): a `Sweep` on the left wraps both
    operands, a `MultiSweep` on the left absorbs the members of a `MultiSweep` on the right -/
def SW.add : SW V → SW V → SW V
  | .single s, o => .multi [.single s, o]
  | .multi l, .multi l' => .multi (l ++ l')
  | .multi l, .single o => .multi (l ++ [.single o])

/-! ### product -/

/-- `_combined_exclude` (`sweep.py:18-27`) -/
def combinedExclude (es : List (Option (Dict V → Bool))) : Option (Dict V → Bool) :=
  match es.filterMap id with
  | [] => none
  | [f] => some f
  | fs => some (fun x => fs.any (fun f => f x))

/-- `_combine_dicts` (`sweep.py:30-39`) -/
def combineDicts {β : Type} (ds : List (Option (Dict β))) : Except Err (Option (Dict β)) :=
  match ds.filterMap id with
  | [] => .ok none
  | [d] => .ok (some d)
  | l => if (l.flatMap keys).Nodup then .ok (some (l.foldl update [])) else .error .assertion

/-- the dims contributed by one further operand (`sweep.py:280-283`) -/
def dimsOf (o : Sweep V) : List Group :=
  match o.dims with
  | some d => d
  | none => (keys o.items).map Group.str

/-- `Sweep.product` (`sweep.py:247-295`, with the DF-08 and DF-26 fixes; DF-07 as the code behaves: the result has
    `dims=None` whenever the receiver has) -/
def product (s : Sweep V) (others : List (Sweep V)) : Except Err (Sweep V) :=
  if s.items.isEmpty || others.any (fun o => o.items.isEmpty) then .ok { items := [] }
  else
    let items := others.foldl (fun acc o => update acc o.items) s.items
    let dims := match s.dims with
      | none => none
      | some d => some (others.foldl (fun acc o => acc ++ dimsOf o) d)
    match combineDicts ((s :: others).map (·.constants)) with
    | .error e => .error e
    | .ok cs =>
      match combineDicts ((s :: others).map (·.derivers)) with
      | .error e => .error e
      | .ok ds =>
        .ok { items := items, dims := dims, exclude := combinedExclude ((s :: others).map (·.exclude)),
              constants := cs, derivers := ds }

/-! ### filtered_sweep -/

variable [DecidableEq V]

/-- insertion into the `ordered_set` dict (`sweep.py:164-169`): first occurrence kept -/
def distinctFold {α : Type} [DecidableEq α] (l : List α) : List α :=
  l.foldl (fun acc x => if x ∈ acc then acc else acc ++ [x]) []

/-- `{k: combo[k] for k in keys}` -/
def projectD (ks : List Key) (c : Dict V) : Except Err (Dict V) :=
  match ks with
  | [] => .ok []
  | k :: r =>
    match lookup c k with
    | none => .error .key
    | some v =>
      match projectD r c with
      | .error e => .error e
      | .ok d => .ok (update [(k, v)] d)

/-- all projections, stopping at the first `KeyError` -/
def projectAll (ks : List Key) : List (Dict V) → Except Err (List (Dict V))
  | [] => .ok []
  | c :: cs =>
    match projectD ks c with
    | .error e => .error e
    | .ok p =>
      match projectAll ks cs with
      | .error e => .error e
      | .ok ps => .ok (p :: ps)

/-- `new_items.setdefault(k, []).append(v)` -/
def appendTo (d : Dict (List V)) (k : Key) (v : V) : Dict (List V) :=
  match lookup d k with
  | some l => insert d k (l ++ [v])
  | none => d ++ [(k, [v])]

/-- the loop building `new_items` from the distinct value tuples (`sweep.py:173-176`) -/
def columnsOf (ks : List Key) (rows : List (List V)) : Dict (List V) :=
  rows.foldl (fun acc row => (ks.zip row).foldl (fun acc kv => appendTo acc kv.1 kv.2) acc) []

/-- the dims of the filtered sweep in the branch without derivers (`sweep.py:190-204`) -/
def filteredDims (s : Sweep V) (ks : List Key) : List Group :=
  if fullBranch s then ((keys s.items).filter (fun k => ks.contains k)).map Group.str
  else (s.dims.getD []).filterMap (fun g =>
    match g with
    | .str k => if ks.contains k then some (.str k) else none
    | .tup t =>
      match t.filter (fun k => ks.contains k) with
      | [] => none
      | [k] => some (.str k)
      | l => some (.tup l))

/-- `[row[i] for row in rows]` for every position of the group -/
def unzipRows (ks : List Key) (rows : List (List V)) : List (Key × List V) :=
  (ks.zipIdx).map (fun ki => (ki.1, rows.filterMap (fun r => r[ki.2]?)))

/-- one iteration of the de-duplication loop added by the DF-09 fix: the rows of the group are read from the *original*
    items; unknown names and unequal lengths leave the items as they are -/
def dedupGroup (orig : Dict (List V)) (items : Dict (List V)) (g : Group) : Dict (List V) :=
  match cols orig g.keys with
  | .error _ => items
  | .ok [] => items
  | .ok (c :: cs) =>
    if sameLen (c :: cs) then update items (unzipRows g.keys (distinctFold (zipRows (c :: cs)))) else items

/-- `Sweep.filtered_sweep` (`sweep.py:161-214`, with the DF-09 and DF-C17-01 fixes) -/
def filtered (s : Sweep V) (ks : List Key) : Except Err (Sweep V) :=
  if s.derivers.isSome then
    match generate s with
    | .error e => .error e
    | .ok combos =>
      match projectAll ks combos with
      | .error e => .error e
      | .ok ps => .ok { items := columnsOf ks (distinctFold (ps.map vals)), dims := some [.tup ks] }
  else if !(ks.any (fun k => (keys s.items).contains k)) then .ok { items := [] }
  else
    match (if s.exclude.isNone then len s else .ok 1) with
    | .error e => .error e
    | .ok 0 => .ok { items := [] }
    | .ok _ =>
      let dims := filteredDims s ks
      .ok { items := dims.foldl (dedupGroup s.items) s.items, dims := some dims, exclude := s.exclude,
            constants := s.constants, derivers := none }

/-! ### count_sweep -/

/-- `tuple(combo[arg] for arg in arg_combination)` -/
def argTuple (args : List Key) (c : Dict V) : Except Err (List V) :=
  match args with
  | [] => .ok []
  | a :: r =>
    match lookup c a with
    | none => .error .key
    | some v =>
      match argTuple r c with
      | .error e => .error e
      | .ok t => .ok (v :: t)

/-- `_cnt[key] = _cnt.get(key, 0) + 1` on a dict keyed by value tuples -/
def bump : List (List V × Nat) → List V → List (List V × Nat)
  | [], t => [(t, 1)]
  | (t', n) :: r, t => if t' = t then (t', n + 1) :: r else (t', n) :: bump r t

/-- `_cnt.get(key, 0)` -/
def cntGet : List (List V × Nat) → List V → Nat
  | [], _ => 0
  | (t', n) :: r, t => if t' = t then n else cntGet r t

/-- the combination has the root-argument tuple `t` -/
def hasTuple (args : List Key) (t : List V) (c : Dict V) : Bool :=
  match argTuple args c with
  | .ok t' => decide (t' = t)
  | .error _ => false

/-- the inner loop of `count_sweep` (`sweep.py:510-514`) -/
def countArgs (args : List Key) : List (Dict V) → List (List V × Nat) → Except Err (List (List V × Nat))
  | [], acc => .ok acc
  | c :: cs, acc =>
    match argTuple args c with
    | .error e => .error e
    | .ok t => countArgs args cs (bump acc t)

/-- `count_sweep` (`sweep.py:461-515`) for the dependencies `deps = [(output_name, root_args)]` of the requested output,
    in the order of `pipeline.func_dependencies` -/
def countSweep (deps : List (String × List Key)) (combos : List (Dict V)) :
    Except Err (List (String × List (List V × Nat))) :=
  match deps with
  | [] => .ok []
  | (o, args) :: r =>
    match countArgs args combos [] with
    | .error e => .error e
    | .ok cnt =>
      match countSweep r combos with
      | .error e => .error e
      | .ok rest => .ok ((o, cnt) :: rest)

end Gen
end PF.Sweep
