import PfModel.Core.Fill
namespace PF

/-- row-major enumeration: the keys of linear indices `0 … N-1` are exactly `iterate_shape_indices`, in order.
    (prototype of `C08_output_key_enumerates` / `map_unravel_range`) -/
theorem range_flatMap (d p : Nat) :
    List.range (d * p) = (List.range d).flatMap (fun k => (List.range p).map (fun r => k * p + r)) := by
  induction d with
  | zero => simp
  | succ d ih =>
    rw [List.range_succ, List.flatMap_append, ← ih]
    simp only [List.flatMap_cons, List.flatMap_nil, List.append_nil]
    have : (d + 1) * p = d * p + p := by rw [Nat.add_mul]; simp
    rw [this, List.range_add]

theorem shapeToKey_split (d : Nat) (ds : List Nat) (k r : Nat) (hk : k < d) (hr : r < prod ds) :
    shapeToKey (d :: ds) (k * prod ds + r) = k :: shapeToKey ds r := by
  rw [shapeToKey_cons]
  have hp : 0 < prod ds := by omega
  have e1 : (k * prod ds + r) / prod ds = k := by
    rw [Nat.mul_comm, Nat.mul_add_div hp, Nat.div_eq_of_lt hr]; simp
  rw [e1, Nat.mod_eq_of_lt hk]
  congr 1
  -- the tail key only sees r
  have gen : ∀ (s' : List Nat) (m r : Nat), shapeToKey s' (m * prod s' + r) = shapeToKey s' r := by
    intro s'
    induction s' with
    | nil => intro m r; simp [shapeToKey, strides]
    | cons e es ih =>
      intro m r
      rw [shapeToKey_cons, shapeToKey_cons]
      have hh : m * prod (e :: es) + r = (m * e) * prod es + r := by simp [prod, Nat.mul_assoc]
      rw [hh, ih (m * e) r]; congr 1
      by_cases hz : prod es = 0
      · simp [hz]
      · have hp : 0 < prod es := Nat.pos_of_ne_zero hz
        rw [Nat.mul_comm (m*e), Nat.mul_add_div hp, Nat.mul_comm m e, Nat.mul_add_mod]
  exact gen ds k r

theorem flatMap_congr' {α β} (l : List α) (f g : α → List β) (h : ∀ x ∈ l, f x = g x) :
    l.flatMap f = l.flatMap g := by
  induction l with
  | nil => rfl
  | cons a as ih =>
    simp only [List.flatMap_cons]
    rw [h a List.mem_cons_self, ih (fun x hx => h x (List.mem_cons_of_mem _ hx))]

theorem map_key_range : ∀ (s : List Nat), (List.range (prod s)).map (shapeToKey s) = allIdx s
  | [] => by simp [prod, allIdx, shapeToKey, strides]
  | d :: ds => by
      have ih := map_key_range ds
      simp only [prod, allIdx]
      rw [range_flatMap, List.map_flatMap]
      apply flatMap_congr'
      intro k hk
      have hk' := List.mem_range.mp hk
      rw [← ih, List.map_map, List.map_map]
      apply List.map_congr_left
      intro r hr
      have hr' := List.mem_range.mp hr
      simp only [Function.comp]
      exact shapeToKey_split d ds k r hk' hr'

end PF
