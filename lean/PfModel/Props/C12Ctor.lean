import PfModel.Lemmas.ValidateCtor
/-!
C12, constructor stream: an ill-formed `PipeFunc(...)` call is refused, with no effect at all, and nothing else is.

`ctorResult a = (exec (pipeFuncInit a)).2` is what the driver entry `"ctor"` executes; `CtorFault` is the explicit disjunction of
`PF.ValidateCtor` (Lemmas/ValidateCtor.lean).  `effective a` is `a` itself without `scope=` and the re-keyed arguments with it.
-/
namespace PF.C12
open PF PF.Map PF.Validate PF.ValidateCtor

/-- the constructor is refused exactly for the ill-formed calls -/
theorem C12_ctorargs_iff (a : CtorArgs) : Refused (ctorResult a) ↔ CtorFault a := refused_ctor_iff a

/-- … and every other call is accepted -/
theorem C12_ctorargs_complete (a : CtorArgs) (h : ¬ CtorFault a) : ctorResult a = .ok () := by
  apply Classical.byContradiction
  intro hne
  exact h ((C12_ctorargs_iff a).mp ((refused_iff_not_ok (ctorResult a)).mpr hne))

/-- the constructor performs no effect: no user function runs, nothing is written (accepted or refused) -/
theorem C12_ctorargs_no_effects (a : CtorArgs) : (exec (pipeFuncInit a)).1 = [] := exec_rows_effects (table a)

/-- every step of the constructor is a check -/
theorem C12_ctorargs_only_checks (a : CtorArgs) (x : Effect) : Step.eff x ∉ pipeFuncInit a := eff_not_mem_rows (table a) x

/-- the exception is that of the first check (in the code's order) that fires -/
theorem C12_ctorargs_first (a : CtorArgs) (e : VErr) (h : ctorResult a = .error e) :
    ∃ pre t post, table a = pre ++ t :: post ∧ anyFires pre = false ∧ t.2.2 = true ∧ e = ⟨t.2.1, t.1⟩ := exec_rows_first (table a) e h

/-- a `TypeError` is only raised for an `output_name` that is neither a string nor a tuple -/
theorem C12_ctorargs_type_error (a : CtorArgs) (e : VErr) (h : ctorResult a = .error e) (ht : e.exc = .type) :
    (∃ l, a.outputName = .lst l) ∨ a.outputName = .bad := by
  obtain ⟨pre, t, post, htab, _, hf, rfl⟩ := C12_ctorargs_first a e h
  exact type_row a t (by rw [htab]; simp) ht hf

/-! #### one theorem per way of being ill-formed (hypotheses on the effective arguments; `effective a = a` without `scope=`) -/

theorem C12_ctorargs_effective_noscope (a : CtorArgs) (h : a.scope = none) : effective a = a := effective_of_none a h

theorem C12_ctorargs_reject_mapspec_malformed (a : CtorArgs) (ms : MSpec) (hm : a.mapspec = some ms)
    (h : (∃ o ∈ ms.outputs, none ∈ o.axes) ∨ (∃ i ∈ ms.inputIndices, i ∉ ms.outputIndices)) : Refused (ctorResult a) := by
  refine (C12_ctorargs_iff a).mpr (Or.inl ⟨ms, hm, ?_⟩)
  simp only [msMalformed, Bool.or_eq_true, List.any_eq_true]
  rcases h with ⟨o, ho, hn⟩ | ⟨i, hi, hn⟩
  · exact Or.inl (Or.inl ⟨o, ho, none, hn, rfl⟩)
  · exact Or.inr ⟨i, hi, by simpa [List.contains_iff_mem] using hn⟩

theorem C12_ctorargs_reject_defaults_and_bound (a : CtorArgs) (k : String) (hd : k ∈ (effective a).defaults) (hb : k ∈ (effective a).bound) :
    Refused (ctorResult a) := refused_of_names a (Or.inl ⟨k, hd, hb⟩)

theorem C12_ctorargs_reject_output_type (a : CtorArgs) (h : (∃ l, a.outputName = .lst l) ∨ a.outputName = .bad) :
    Refused (ctorResult a) := refused_of_names a (Or.inr (Or.inl (by rwa [effective_outputName])))

theorem C12_ctorargs_reject_resources_variable (a : CtorArgs) (r : String) (hr : a.resourcesVariable = some r) (hs : r ∉ a.sig) :
    Refused (ctorResult a) :=
  refused_of_names a (Or.inr (Or.inr (Or.inl ⟨r, by rwa [effective_resourcesVariable], by rwa [effective_sig]⟩)))

theorem C12_ctorargs_reject_output_is_parameter (a : CtorArgs) (p : String) (hp : p ∈ parameters (effective a)) (ho : p ∈ outNames (effective a)) :
    Refused (ctorResult a) := refused_of_names a (Or.inr (Or.inr (Or.inr (Or.inl ⟨p, hp, ho⟩))))

theorem C12_ctorargs_reject_renames_not_one_to_one (a : CtorArgs) (h : ¬ ((effective a).renames.map (·.2)).Nodup) :
    Refused (ctorResult a) := refused_of_names a (Or.inr (Or.inr (Or.inr (Or.inr (Or.inl h)))))

theorem C12_ctorargs_reject_renames_unknown_key (a : CtorArgs) (k v : String) (hm : (k, v) ∈ (effective a).renames)
    (hp : k ∉ origParams a) (ho : k ∉ a.outputName.names) : Refused (ctorResult a) := by
  refine refused_of_names a (Or.inr (Or.inr (Or.inr (Or.inr (Or.inr (Or.inl ⟨(k, v), hm, ?_, ?_⟩))))))
  · simpa only [origParams, effective_sig, effective_resourcesVariable] using hp
  · simpa only [effective_outputName] using ho

theorem C12_ctorargs_reject_renames_identifier (a : CtorArgs) (k v : String) (hm : (k, v) ∈ (effective a).renames)
    (h : validIdent k = false ∨ validIdent v = false) : Refused (ctorResult a) :=
  refused_of_names a (Or.inr (Or.inr (Or.inr (Or.inr (Or.inr (Or.inr (Or.inl ⟨(k, v), hm, h⟩)))))))

theorem C12_ctorargs_reject_defaults_unknown (a : CtorArgs) (k : String) (hk : k ∈ (effective a).defaults) (hp : k ∉ parameters (effective a)) :
    Refused (ctorResult a) :=
  refused_of_names a (Or.inr (Or.inr (Or.inr (Or.inr (Or.inr (Or.inr (Or.inr (Or.inl ⟨k, hk, hp⟩))))))))

theorem C12_ctorargs_reject_defaults_identifier (a : CtorArgs) (k : String) (hk : k ∈ (effective a).defaults) (hp : validIdent k = false) :
    Refused (ctorResult a) :=
  refused_of_names a (Or.inr (Or.inr (Or.inr (Or.inr (Or.inr (Or.inr (Or.inr (Or.inr (Or.inl ⟨k, hk, hp⟩)))))))))

theorem C12_ctorargs_reject_bound_unknown (a : CtorArgs) (k : String) (hk : k ∈ (effective a).bound) (hp : k ∉ parameters (effective a)) :
    Refused (ctorResult a) :=
  refused_of_names a (Or.inr (Or.inr (Or.inr (Or.inr (Or.inr (Or.inr (Or.inr (Or.inr (Or.inr (Or.inl ⟨k, hk, hp⟩))))))))))

theorem C12_ctorargs_reject_bound_identifier (a : CtorArgs) (k : String) (hk : k ∈ (effective a).bound) (hp : validIdent k = false) :
    Refused (ctorResult a) :=
  refused_of_names a (Or.inr (Or.inr (Or.inr (Or.inr (Or.inr (Or.inr (Or.inr (Or.inr (Or.inr (Or.inr (Or.inl ⟨k, hk, hp⟩)))))))))))

theorem C12_ctorargs_reject_output_identifier (a : CtorArgs) (o : String) (ho : o ∈ outNames (effective a)) (hp : validIdent o = false) :
    Refused (ctorResult a) :=
  refused_of_names a (Or.inr (Or.inr (Or.inr (Or.inr (Or.inr (Or.inr (Or.inr (Or.inr (Or.inr (Or.inr (Or.inr (Or.inl ⟨o, ho, hp⟩))))))))))))

theorem C12_ctorargs_reject_mapspec_input (a : CtorArgs) (ms : MSpec) (x : ASpec) (hm : (effective a).mapspec = some ms) (hx : x ∈ ms.inputs)
    (hp : x.name ∉ parameters (effective a)) : Refused (ctorResult a) :=
  refused_of_names a (Or.inr (Or.inr (Or.inr (Or.inr (Or.inr (Or.inr (Or.inr (Or.inr (Or.inr (Or.inr (Or.inr (Or.inr (Or.inl
    ⟨ms, hm, x, hx, hp⟩)))))))))))))

theorem C12_ctorargs_reject_mapspec_bound (a : CtorArgs) (ms : MSpec) (x : ASpec) (hm : (effective a).mapspec = some ms) (hx : x ∈ ms.inputs)
    (hb : x.name ∈ (effective a).bound) : Refused (ctorResult a) :=
  refused_of_names a (Or.inr (Or.inr (Or.inr (Or.inr (Or.inr (Or.inr (Or.inr (Or.inr (Or.inr (Or.inr (Or.inr (Or.inr (Or.inr (Or.inl
    ⟨ms, hm, x, hx, hb⟩))))))))))))))

theorem C12_ctorargs_reject_mapspec_outputs (a : CtorArgs) (ms : MSpec) (hm : (effective a).mapspec = some ms)
    (h : (∃ x ∈ ms.outputs, x.name ∉ outNames (effective a)) ∨ ∃ o ∈ outNames (effective a), o ∉ ms.outputs.map (·.name)) :
    Refused (ctorResult a) :=
  refused_of_names a (Or.inr (Or.inr (Or.inr (Or.inr (Or.inr (Or.inr (Or.inr (Or.inr (Or.inr (Or.inr (Or.inr (Or.inr (Or.inr (Or.inr
    ⟨ms, hm, h⟩))))))))))))))

/-! #### `scope=` -/

theorem C12_ctorargs_reject_scope_is_parameter (a : CtorArgs) (s p : String) (hs : a.scope = some s) (hp : p ∈ parameters a)
    (hu : unscope p = s) : Refused (ctorResult a) := refused_of_scope a s hs (Or.inr (Or.inl ⟨p, hp, hu⟩))

theorem C12_ctorargs_reject_scope_is_output (a : CtorArgs) (s : String) (hs : a.scope = some s) (ho : s ∈ outNames a) :
    Refused (ctorResult a) := refused_of_scope a s hs (Or.inr (Or.inr (Or.inr (Or.inl ho))))

theorem C12_ctorargs_reject_scope_identifier (a : CtorArgs) (s k : String) (hs : a.scope = some s) (hk : k ∈ parameters a ++ outNames a)
    (h : validIdent k = false ∨ validIdent (prependScope k s) = false) : Refused (ctorResult a) :=
  refused_of_scope a s hs (Or.inr (Or.inr (Or.inr (Or.inr (Or.inr (Or.inl ⟨k, hk, h⟩))))))

theorem C12_ctorargs_reject_scope_nothing (a : CtorArgs) (s : String) (hs : a.scope = some s) (h : parameters a ++ outNames a = []) :
    Refused (ctorResult a) := refused_of_scope a s hs (Or.inr (Or.inr (Or.inr (Or.inr (Or.inl h)))))

/-- a scope that is no identifier is refused whenever there is anything to scope -/
theorem C12_ctorargs_reject_scope_not_identifier (a : CtorArgs) (s k : String) (hs : a.scope = some s) (hk : k ∈ parameters a ++ outNames a)
    (h : validIdent (prependScope k s) = false) : Refused (ctorResult a) := C12_ctorargs_reject_scope_identifier a s k hs hk (Or.inr h)

/-- `validate_scopes`: a scope some function uses that is also a parameter or output name of some function -/
theorem C12_ctorargs_scope_clash_iff (fs : List (List String × List String × List String)) :
    scopeClash fs = true ↔ ∃ f ∈ fs, ∃ sc ∈ f.1, ∃ g ∈ fs, sc ∈ g.2.1 ∨ sc ∈ g.2.2 := by
  simp only [scopeClash, List.any_eq_true, List.mem_flatMap, List.contains_iff_mem, List.mem_append]
  constructor
  · rintro ⟨sc, ⟨f, hf, hsc⟩, g, hg, h⟩
    exact ⟨f, hf, sc, hsc, g, hg, h⟩
  · rintro ⟨f, hf, sc, hsc, g, hg, h⟩
    exact ⟨sc, ⟨f, hf, hsc⟩, g, hg, h⟩

/-! #### non-vacuity and witnesses -/

example : ctorResult (call ["a", "b"] (.str "y") [("a", "x")] ["x"] ["b"] (some (ms1 "x" "y" "i")) none none) = .ok () := by decide
/-- with `scope="s"` everything is re-keyed and accepted -/
example : ctorResult (call ["a", "b"] (.str "y") [("a", "x")] ["x"] ["b"] (some (ms1 "x" "y" "i")) none (some "s")) = .ok () := by decide
example : parameters (effective (call ["a", "b"] (.str "y") [("a", "x")] ["x"] ["b"] none none (some "s"))) = ["s.x", "s.b"] := by decide
example : (effective (call ["a", "b"] (.str "y") [("a", "x")] ["x"] ["b"] none none (some "s"))).defaults = ["s.x"] := by decide
example : ¬ CtorFault (call ["a", "b"] (.str "y") [] [] [] none none none) := by
  rw [← C12_ctorargs_iff, refused_iff_not_ok]; decide
example : Refused (ctorResult (call ["a"] (.str "y") [] [] [] (some (ms1 "a" "y" "k")) none none)) :=
  C12_ctorargs_reject_mapspec_malformed _ _ rfl (Or.inr ⟨"k", by decide, by decide⟩)
example : Refused (ctorResult (call ["a"] (.str "y") [] ["a"] ["a"] none none none)) :=
  C12_ctorargs_reject_defaults_and_bound _ "a" (by decide) (by decide)
example : Refused (ctorResult (call ["a"] .bad [] [] [] none none none)) := C12_ctorargs_reject_output_type _ (Or.inr rfl)
example : ctorResult (call ["a"] (.lst ["y"]) [] [] [] none none none) = .error ⟨.type, "output-name-type"⟩ := by decide
example : ctorResult (call ["a"] .bad [] [] [] none none (some "s")) = .error ⟨.type, "scope-output-type"⟩ := by decide
example : (∃ l, (call ["a"] (.lst ["y"]) [] [] [] none none none).outputName = .lst l) ∨ (call ["a"] (.lst ["y"]) [] [] [] none none none).outputName = .bad :=
  C12_ctorargs_type_error _ ⟨.type, "output-name-type"⟩ (by decide) rfl
example : Refused (ctorResult (call ["a"] (.str "y") [] [] [] none (some "res") none)) :=
  C12_ctorargs_reject_resources_variable _ "res" rfl (by decide)
example : ctorResult (call ["a"] (.str "y") [] [] [] none (some "res") (some "s")) = .error ⟨.key, "scope-resources-variable"⟩ := by decide
example : Refused (ctorResult (call ["a"] (.str "y") [("y", "a")] [] [] none none none)) :=
  C12_ctorargs_reject_output_is_parameter _ "a" (by decide) (by decide)
example : Refused (ctorResult (call ["a", "b"] (.str "y") [("a", "x"), ("b", "x")] [] [] none none none)) :=
  C12_ctorargs_reject_renames_not_one_to_one _ (by decide)
example : Refused (ctorResult (call ["a"] (.str "y") [("zz", "q")] [] [] none none none)) :=
  C12_ctorargs_reject_renames_unknown_key _ "zz" "q" (by decide) (by decide) (by decide)
example : Refused (ctorResult (call ["a"] (.str "y") [("a", "1x")] [] [] none none none)) :=
  C12_ctorargs_reject_renames_identifier _ "a" "1x" (by decide) (Or.inr (by decide))
example : validIdent "s.x_1" = true ∧ validIdent "a..b" = false ∧ validIdent "" = false ∧ validIdent "a b" = false := by decide
example : Refused (ctorResult (call ["a"] (.str "y") [("a", "x")] ["a"] [] none none none)) :=
  C12_ctorargs_reject_defaults_unknown _ "a" (by decide) (by decide)
example : Refused (ctorResult (call ["a b"] (.str "y") [] ["a b"] [] none none none)) :=
  C12_ctorargs_reject_defaults_identifier _ "a b" (by decide) (by decide)
example : Refused (ctorResult (call ["a"] (.str "y") [] [] ["zz"] none none (some "s"))) :=
  C12_ctorargs_reject_bound_unknown _ "zz" (by decide) (by decide)
example : Refused (ctorResult (call ["a b"] (.str "y") [] [] ["a b"] none none none)) :=
  C12_ctorargs_reject_bound_identifier _ "a b" (by decide) (by decide)
example : Refused (ctorResult (call ["a"] (.str "my out") [] [] [] none none none)) :=
  C12_ctorargs_reject_output_identifier _ "my out" (by decide) (by decide)
example : Refused (ctorResult (call ["a"] (.str "y") [("a", "x")] [] [] (some (ms1 "a" "y" "i")) none none)) :=
  C12_ctorargs_reject_mapspec_input _ _ ⟨"a", [some "i"]⟩ rfl (by decide) (by decide)
example : Refused (ctorResult (call ["a"] (.str "y") [] [] ["a"] (some (ms1 "a" "y" "i")) none none)) :=
  C12_ctorargs_reject_mapspec_bound _ _ ⟨"a", [some "i"]⟩ rfl (by decide) (by decide)
example : Refused (ctorResult (call ["a"] (.str "y") [] [] [] (some (ms1 "a" "zz" "i")) none none)) :=
  C12_ctorargs_reject_mapspec_outputs _ _ rfl (Or.inl ⟨⟨"zz", [some "i"]⟩, by decide, by decide⟩)
example : Refused (ctorResult (call ["a"] (.str "y") [("a", "t.x")] [] [] none none (some "x"))) :=
  C12_ctorargs_reject_scope_is_parameter _ "x" "t.x" rfl (by decide) (by decide)
example : Refused (ctorResult (call ["a"] (.str "y") [] [] [] none none (some "y"))) :=
  C12_ctorargs_reject_scope_is_output _ "y" rfl (by decide)
example : Refused (ctorResult (call ["a"] (.str "y") [] [] [] none none (some ""))) :=
  C12_ctorargs_reject_scope_not_identifier _ "" "a" rfl (by decide) (by decide)
example : Refused (ctorResult (call ["a"] (.tup []) [] [] [] none (some "a") (some "s"))) :=
  C12_ctorargs_reject_scope_nothing _ "s" rfl (by decide)
example : scopeClash [(parameterScopes ["s.a", "b"], ["s.a", "b"], ["y"]), ([], ["y"], ["s"])] = true := by decide
example : scopeClash [(parameterScopes ["s.a", "b"], ["s.a", "b"], ["y"]), ([], ["y"], ["z"])] = false := by decide
/-- the code's behaviour, mirrored: renaming one parameter to the name of another one passes every check (two parameters called `b`) -/
example : ctorResult (call ["a", "b"] (.str "y") [("a", "b")] [] [] none none none) = .ok () ∧
    parameters (call ["a", "b"] (.str "y") [("a", "b")] [] [] none none none) = ["b", "b"] := by decide
/-- … and `scope=` turns renames that are not one-to-one into accepted ones -/
example : ctorResult (call ["a", "b"] (.str "y") [("a", "x"), ("b", "x")] [] [] none none (some "s")) = .ok () := by decide

end PF.C12
