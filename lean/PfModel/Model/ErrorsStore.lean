/-
What a failed `Pipeline.map(..., run_folder=F, storage="file_array")` leaves in the run folder (C13, extension), as a folder
state of the resume model `PF.ResumeFS` (C05): the element files the workers wrote, `run_info.json`, the inputs and defaults.

Mirrored code: `RunInfo.create` → `_dump_all` (`map/_run_info.py`: inputs, defaults, `run_info.json` are written before the first
user call); `_update_array(..., in_post_process=False)` → `FileArray.dump` in the worker (`map/_run.py:505-525`,
`map/_storage_array/_file.py`: one file `__<li>__.pickle` per element, written under a temporary name and renamed);
`_dump_single_output` (whole-value outputs, written by the parent after `.result()`).
Core Lean only.
-/
import PfModel.Model.ErrorsAsync
import PfModel.Model.ResumeFS
namespace PF.Errors
open PF PF.Map PF.ResumeFS

/-- the run folder holding the store `st` of a failed run: one element file per stored cell, one file per stored whole value,
    no temporary files, complete meta files -/
def folderOf (inputs : List (String × Val)) (st : List (String × Slot)) : FS :=
  { files := fun p =>
      match p with
      | .runInfo => some (.complete (metaVal "run_info"))
      | .defaults => some (.complete (metaVal "defaults"))
      | .input n => (alookup inputs n).map .complete
      | .cell o li =>
        match alookup st o with
        | some (.array _ _ cells) => (cellLookup cells li).map .complete
        | _ => none
      | .single o =>
        match alookup st o with
        | some (.single v) => some (.complete v)
        | _ => none
      | .dictArr _ => none
      | .tmp _ => none,
    dirs := fun _ => true }

/-- slot `s` holds nothing that slot `s'` does not hold: same whole value / same shape and mask and every stored element of
    `s` is the element `s'` stores at that index -/
def SlotSub : Slot → Slot → Prop
  | .single v, .single w => v = w
  | .array sh mk c, .array sh' mk' c' => sh = sh' ∧ mk = mk' ∧ ∀ li v, cellLookup c li = some v → cellLookup c' li = some v
  | _, _ => False

/-- every slot of `st` is a sub-slot of a slot of the same output in `full` -/
def SubStore (st full : List (String × Slot)) : Prop := ∀ o s, (o, s) ∈ st → ∃ s', (o, s') ∈ full ∧ SlotSub s s'

/-- the external linear indices a slot holds -/
def slotIndices : Slot → List Nat
  | .single _ => []
  | .array _ _ cells => cells.map (·.1)

end PF.Errors
