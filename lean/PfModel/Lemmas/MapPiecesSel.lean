import PfModel.Model.MapPieces
/-! Lemmas about selections (`int | slice`) for `Props/C06.lean`: Python's `slice.indices` + `range`, NumPy basic indexing. -/
namespace PF.Pieces
open PF PF.Map

/-- every element `range(a, b, st)` produces lies between the bounds -/
theorem pyRange_bounds : ∀ (fuel : Nat) (a b st x : Int), x ∈ pyRange fuel a b st →
    (0 < st → a ≤ x ∧ x < b) ∧ (st < 0 → b < x ∧ x ≤ a) := by
  intro fuel
  induction fuel with
  | zero => intro a b st x h; simp [pyRange] at h
  | succ fuel ih =>
    intro a b st x h
    simp only [pyRange] at h
    split at h
    · next hc =>
      rcases List.mem_cons.mp h with h | h
      · subst h
        constructor
        · intro hp; rcases hc with hc | hc <;> omega
        · intro hn; rcases hc with hc | hc <;> omega
      · have := ih (a + st) b st x h
        constructor
        · intro hp; have := this.1 hp; omega
        · intro hn; have := this.2 hn; omega
    · simp at h

theorem pyRange_nodup : ∀ (fuel : Nat) (a b st : Int), (pyRange fuel a b st).Nodup := by
  intro fuel
  induction fuel with
  | zero => intro a b st; simp [pyRange]
  | succ fuel ih =>
    intro a b st
    simp only [pyRange]
    split
    · next hc =>
      rw [List.nodup_cons]
      refine ⟨?_, ih _ _ _⟩
      intro hmem
      have := pyRange_bounds fuel (a + st) b st a hmem
      rcases hc with hc | hc
      · have := this.1 hc.1; omega
      · have := this.2 hc.1; omega
    · simp

/-- counting up by one from `a`: `range(a, a + k)` -/
theorem pyRange_up : ∀ (k fuel : Nat) (a : Int), k ≤ fuel →
    pyRange fuel a (a + k) 1 = (List.range k).map (fun (i : Nat) => a + (i : Int)) := by
  intro k
  induction k with
  | zero =>
    intro fuel a _
    cases fuel with
    | zero => simp [pyRange]
    | succ f => simp [pyRange]
  | succ k ih =>
    intro fuel a hk
    cases fuel with
    | zero => omega
    | succ f =>
      simp only [pyRange]
      have hc : (0 < (1 : Int) ∧ a < a + ((k + 1 : Nat) : Int)) ∨ ((1 : Int) < 0 ∧ a + ((k + 1 : Nat) : Int) < a) := Or.inl ⟨by omega, by omega⟩
      rw [if_pos hc]
      have e : a + ((k + 1 : Nat) : Int) = (a + 1) + (k : Int) := by omega
      rw [e, ih f (a + 1) (by omega), List.range_succ_eq_map, List.map_cons, List.map_map]
      congr 1
      · simp
      · apply List.map_congr_left
        intro i _
        simp only [Function.comp]
        omega

theorem sliceStart_bounds (n : Nat) (st : Int) (a : Option Int) :
    (0 < st → 0 ≤ sliceStart n st a) ∧ (st < 0 → sliceStart n st a ≤ (n : Int) - 1) := by
  cases a with
  | none => simp only [sliceStart]; constructor <;> intro h <;> split <;> omega
  | some v =>
    simp only [sliceStart, adjust]
    constructor <;> intro h
    · have : ¬ st < 0 := by omega
      simp only [this, decide_false, Bool.false_eq_true, ↓reduceIte]
      split <;> split <;> omega
    · simp only [h, decide_true, ↓reduceIte]
      split <;> split <;> omega

theorem sliceStop_bounds (n : Nat) (st : Int) (b : Option Int) :
    (0 < st → sliceStop n st b ≤ n) ∧ (st < 0 → -1 ≤ sliceStop n st b) := by
  cases b with
  | none => simp only [sliceStop]; constructor <;> intro h <;> split <;> omega
  | some v =>
    simp only [sliceStop, adjust]
    constructor <;> intro h
    · have : ¬ st < 0 := by omega
      simp only [this, decide_false, Bool.false_eq_true, ↓reduceIte]
      split <;> split <;> omega
    · simp only [h, decide_true, ↓reduceIte]
      split <;> split <;> omega

/-- the elements of the range of a slice lie in `[0, n)` -/
theorem slice_elems (n : Nat) (st : Int) (a b : Option Int) (hst : st ≠ 0) :
    ∀ y ∈ pyRange (n + 1) (sliceStart n st a) (sliceStop n st b) st, 0 ≤ y ∧ y < n := by
  intro y hy
  have hb := pyRange_bounds _ _ _ _ y hy
  have h1 := sliceStart_bounds n st a
  have h2 := sliceStop_bounds n st b
  by_cases hneg : st < 0
  · have := hb.2 hneg; have := h1.2 hneg; have := h2.2 hneg; omega
  · have hpos : 0 < st := by omega
    have := hb.1 hpos; have := h1.1 hpos; have := h2.1 hpos; omega

theorem sliceRange_none_iff (n : Nat) (a b s : Option Int) : sliceRange n a b s = none ↔ s = some 0 := by
  unfold sliceRange
  simp only []
  constructor
  · intro h
    split at h
    · next hst => cases s with
      | none => simp at hst
      | some v => simp at hst; rw [hst]
    · cases h
  · intro h; subst h; simp

/-- the positions a slice selects are positions of the axis -/
theorem sliceRange_lt (n : Nat) (a b s : Option Int) (l : List Nat) (h : sliceRange n a b s = some l) : ∀ x ∈ l, x < n := by
  unfold sliceRange at h
  simp only [] at h
  split at h
  · cases h
  · next hst =>
    cases h
    intro x hx
    obtain ⟨y, hy, rfl⟩ := List.mem_map.mp hx
    have := slice_elems n _ a b hst y hy
    omega

theorem map_toNat_nodup : ∀ (L : List Int), (∀ y ∈ L, 0 ≤ y) → L.Nodup → (L.map Int.toNat).Nodup := by
  intro L
  induction L with
  | nil => intro _ _; simp
  | cons y ys ih =>
    intro hnn hnd
    rw [List.map_cons, List.nodup_cons]
    rw [List.nodup_cons] at hnd
    refine ⟨?_, ih (fun z hz => hnn z (List.mem_cons_of_mem _ hz)) hnd.2⟩
    intro hm
    obtain ⟨z, hz, he⟩ := List.mem_map.mp hm
    have h1 := hnn y List.mem_cons_self
    have h2 := hnn z (List.mem_cons_of_mem _ hz)
    have : z = y := by omega
    subst this
    exact hnd.1 hz

/-- a slice never selects a position twice -/
theorem sliceRange_nodup (n : Nat) (a b s : Option Int) (l : List Nat) (h : sliceRange n a b s = some l) : l.Nodup := by
  unfold sliceRange at h
  simp only [] at h
  split at h
  · cases h
  · next hst =>
    cases h
    exact map_toNat_nodup _ (fun y hy => (slice_elems n _ a b hst y hy).1) (pyRange_nodup _ _ _ _)

/-- `slice(None)` selects every position, in order -/
theorem sliceRange_full (n : Nat) : sliceRange n none none none = some (List.range n) := by
  unfold sliceRange
  simp only [Option.getD_none]
  have h := pyRange_up n (n + 1) 0 (by omega)
  simp only [Int.zero_add] at h
  simp only [sliceStart, sliceStop, Int.reduceLT, ↓reduceIte, Int.reduceEq, h, List.map_map]
  congr 1
  conv => rhs; rw [← List.map_id (List.range n)]
  apply List.map_congr_left
  intro i _
  simp

theorem selIndices_full (d : Nat) : selIndices d Sel.full = .ok (List.range d) := by
  simp only [selIndices, Sel.full, sliceRange_full]; rfl

/-- an integer is accepted exactly when it lies in `[-d, d)` -/
theorem selIndices_idx (d : Nat) (k : Int) :
    (∃ l, selIndices d (.idx k) = .ok l) ↔ (-(d : Int) ≤ k ∧ k < d) := by
  simp only [selIndices]
  constructor
  · rintro ⟨l, h⟩
    split at h
    · next hc => exact hc
    · cases h
  · intro hc
    exact ⟨_, by rw [if_pos hc]; rfl⟩

/-- a slice is never out of range: it is refused only for a zero step -/
theorem selIndices_slice (d : Nat) (a b s : Option Int) :
    (∃ l, selIndices d (.slice a b s) = .ok l) ↔ s ≠ some 0 := by
  simp only [selIndices]
  constructor
  · rintro ⟨l, h⟩ hs
    rw [(sliceRange_none_iff d a b s).mpr hs] at h
    cases h
  · intro hs
    cases hr : sliceRange d a b s with
    | none => exact absurd ((sliceRange_none_iff d a b s).mp hr) hs
    | some l => exact ⟨l, rfl⟩

/-- whatever is selected is a position of the axis, once -/
theorem selIndices_lt (d : Nat) (s : Sel) (l : List Nat) (h : selIndices d s = .ok l) : (∀ x ∈ l, x < d) ∧ l.Nodup := by
  cases s with
  | idx k =>
    simp only [selIndices] at h
    split at h
    · next hc =>
      cases h
      refine ⟨?_, by simp⟩
      intro x hx
      simp only [List.mem_singleton] at hx
      subst hx
      split <;> omega
    · cases h
  | slice a b st =>
    simp only [selIndices] at h
    cases hr : sliceRange d a b st with
    | none => rw [hr] at h; cases h
    | some l' =>
      rw [hr] at h
      cases h
      exact ⟨sliceRange_lt d a b st l hr, sliceRange_nodup d a b st l hr⟩

/-! ### the product selection -/

/-- `E` is selected exactly when every component lies in its axis's list -/
theorem selected_iff : ∀ (ls : List (List Nat)) (E : List Nat), ls.length = E.length →
    (selected ls E = true ↔ ∀ q (h1 : q < ls.length) (h2 : q < E.length), E[q] ∈ ls[q]) := by
  intro ls
  induction ls with
  | nil => intro E _; simp [selected]
  | cons l ls ih =>
    intro E hl
    cases E with
    | nil => simp at hl
    | cons e es =>
      simp only [selected, Bool.and_eq_true, List.contains_iff_mem, List.length_cons]
      rw [ih es (by simpa using hl)]
      constructor
      · rintro ⟨h0, hr⟩ q h1 h2
        cases q with
        | zero => simpa using h0
        | succ q => simpa using hr q (by omega) (by omega)
      · intro h
        refine ⟨by simpa using h 0 (by omega) (by omega), ?_⟩
        intro q h1 h2
        have := h (q + 1) (by omega) (by omega)
        simpa using this

theorem selLists_length : ∀ (ss : List Sel) (ds : List Nat) (ls : List (List Nat)), selLists ss ds = .ok ls →
    ls.length = min ss.length ds.length := by
  intro ss
  induction ss with
  | nil => intro ds ls h; simp [selLists, pure, Except.pure] at h; subst h; simp
  | cons s ss ih =>
    intro ds ls h
    cases ds with
    | nil => simp [selLists, pure, Except.pure] at h; subst h; simp
    | cons d ds =>
      simp only [selLists, bind, Except.bind] at h
      split at h
      · cases h
      · split at h
        · cases h
        · next l _ ls' hls =>
          simp only [pure, Except.pure] at h
          cases h
          simp [ih ds ls' hls]

/-- selection lists that differ from "everything" at one position only: `pre`/`post` are `slice(None)`s -/
theorem selLists_one (pre post : List Sel) (s : Sel) (dpre dpost : List Nat) (d : Nat) (l : List Nat)
    (hpre : ∀ x ∈ pre, x = Sel.full) (hpost : ∀ x ∈ post, x = Sel.full) (hl1 : pre.length = dpre.length) (hl2 : post.length = dpost.length)
    (hs : selIndices d s = .ok l) :
    selLists (pre ++ s :: post) (dpre ++ d :: dpost) = .ok (dpre.map List.range ++ l :: dpost.map List.range) := by
  have full : ∀ (ss : List Sel) (ds : List Nat), (∀ x ∈ ss, x = Sel.full) → ss.length = ds.length →
      selLists ss ds = .ok (ds.map List.range) := by
    intro ss
    induction ss with
    | nil => intro ds _ h; cases ds <;> simp_all [selLists, pure, Except.pure]
    | cons x xs ih =>
      intro ds hx h
      cases ds with
      | nil => simp at h
      | cons e es =>
        simp only [selLists, bind, Except.bind]
        rw [hx x List.mem_cons_self, selIndices_full, ih es (fun y hy => hx y (List.mem_cons_of_mem _ hy)) (by simpa using h)]
        rfl
  induction pre generalizing dpre with
  | nil =>
    cases dpre with
    | nil =>
      simp only [List.nil_append, selLists, bind, Except.bind, hs, List.map_nil]
      rw [full post dpost hpost hl2]
      rfl
    | cons _ _ => simp at hl1
  | cons x xs ih =>
    cases dpre with
    | nil => simp at hl1
    | cons e es =>
      simp only [List.cons_append, selLists, bind, Except.bind]
      rw [hpre x List.mem_cons_self, selIndices_full, ih es (fun y hy => hpre y (List.mem_cons_of_mem _ hy)) (by simpa using hl1)]
      rfl

end PF.Pieces
