import PfModel.Model.MapChecked
import PfModel.Props.C01Axes
import PfModel.Props.C01Class
/-!
C01, "a valid request is never refused" for `Pipeline.map` INCLUDING the check `prepare_run` performs before the run
(`validate_consistent_axes`).  Until round 9 `consistentAxes` was a conjunct of `Conforms` that no proof consumed (the model
`runMap` has no such check; the conjunct only narrowed what is called valid).  `mapChecked` (Model/MapChecked.lean) is `runMap`
behind the two checks of `prepare_run`; here `consistentAxes` is what its extra check decides, `Conforms` requests are answered by
`mapChecked` with the very result of `runMap` (this consumes `consistentAxes`), and for the class of Props/C01Class.lean
`mapChecked` answers iff the five request checks pass — `consistentAxes` being part of the class.
-/
namespace PF.C01
open PF PF.Map PF.MapAxes

/-- **`mapChecked` is `runMap` behind the axes check**: it answers iff every array has one axis naming and `runMap` answers, with
    the same result.  No hypothesis. -/
theorem C01_checked_iff (fs : List MFunc) (inputs : List (String × Val)) (ui : List (String × List Nat)) (r : MapResult) :
    mapChecked fs inputs ui = .ok r ↔ consistentAxes fs = true ∧ runMap fs inputs ui = .ok r := by
  unfold mapChecked
  constructor
  · intro h
    split at h
    · cases h
    · split at h
      · cases h
      · next u hv =>
        have : validate (mapspecsOf fs) = .ok () := by rw [hv]
        exact ⟨(C01_consistent_axes_model fs).mp this, h⟩
  · rintro ⟨hc, hr⟩
    have hq := C01_answered_request_ok fs inputs ui r hr
    unfold RequestOK at hq
    simp only [Bool.and_eq_true] at hq
    rw [validate_ok fs inputs hq.1.1.1.1 hq.1.1.1.2]
    simp only []
    rw [(C01_consistent_axes_model fs).mpr hc]
    exact hr

/-- **A valid request is never refused by `prepare_run` + `run_map`** and gets the result of `runMap` (which
    `C01_map_eq_denotation` shows to be the denotation).  This is the proof that consumes the `consistentAxes` conjunct of `Conforms`. -/
theorem C01_checked_never_refused (fs : List MFunc) (inputs : List (String × Val)) (ui : List (String × List Nat))
    (h : Conforms fs inputs ui = true) : ∃ r, mapChecked fs inputs ui = .ok r ∧ runMap fs inputs ui = .ok r := by
  obtain ⟨r, hr⟩ := never_refused_with opArray fs inputs ui h
  refine ⟨r, (C01_checked_iff fs inputs ui r).mpr ⟨?_, hr⟩, hr⟩
  unfold Conforms constructible at h
  simp only [Bool.and_eq_true] at h
  exact h.2.1.2

/-- an inconsistent axis naming is refused with a `ValueError`, whatever else the request looks like, provided the inputs are
    complete and without surplus (else `_validate_complete_inputs` refuses first, also with a `ValueError`) -/
theorem C01_checked_refuses_inconsistent (fs : List MFunc) (inputs : List (String × Val)) (ui : List (String × List Nat))
    (h : consistentAxes fs = false) : ∃ why, mapChecked fs inputs ui = .error (.value why) := by
  unfold mapChecked
  cases hv : validateInputs fs inputs with
  | error e =>
    have := refused_value_of_inputs opArray fs inputs ui (by
      cases h1 : inputsComplete fs inputs with
      | false => rfl
      | true =>
        cases h2 : noSurplus fs inputs with
        | false => rfl
        | true => rw [validate_ok fs inputs h1 h2] at hv; cases hv)
    obtain ⟨why, hw⟩ := this
    unfold runMapWith at hw
    rw [hv] at hw
    simp only [bind, Except.bind] at hw
    cases hw
    exact ⟨why, rfl⟩
  | ok u =>
    simp only []
    cases hx : validate (mapspecsOf fs) with
    | ok u' =>
      have : validate (mapspecsOf fs) = .ok () := by rw [hx]
      rw [(C01_consistent_axes_model fs).mp this] at h
      cases h
    | error e => exact ⟨_, rfl⟩

/-- **Exact refusal of `Pipeline.map` (with `prepare_run`) for the class**: answered iff the five request checks pass. -/
theorem C01_checked_never_refused_class (fs : List MFunc) (inputs : List (String × Val)) (ui : List (String × List Nat))
    (hc : InClass fs inputs = true) (hr : RequestOK fs inputs ui = true → ReturnsDeclared fs inputs ui = true) :
    (∃ r, mapChecked fs inputs ui = .ok r) ↔ RequestOK fs inputs ui = true := by
  have hax : consistentAxes fs = true := by
    unfold InClass at hc
    simp only [Bool.and_eq_true] at hc
    exact hc.1.1.1.1.2
  rw [← C01_never_refused_class fs inputs ui hc hr]
  constructor
  · rintro ⟨r, h⟩; exact ⟨r, ((C01_checked_iff fs inputs ui r).mp h).2⟩
  · rintro ⟨r, h⟩; exact ⟨r, (C01_checked_iff fs inputs ui r).mpr ⟨hax, h⟩⟩

/-! ### non-vacuity and the witness -/

section Examples

private def ints (n : Nat) : List Val := (List.range n).map fun i => .int (Int.ofNat i)
private def mf (name : String) (params outputs : List String) (ms : Option MSpec) : MFunc :=
  { name := name, params := params.map fun p => (p, p), outputs := outputs, mapspec := ms, ret := none, internal := none,
    defaults := [], bound := [] }
private def fA := mf "fa" ["x"] ["a"] (some ⟨[⟨"x", [some "i", some "j"]⟩], [⟨"a", [some "i", some "j"]⟩]⟩)
private def fB := mf "fb" ["x"] ["b"] (some ⟨[⟨"x", [some "j", some "i"]⟩], [⟨"b", [some "j", some "i"]⟩]⟩)
private def inp : List (String × Val) := [("x", .arr [2, 2] (ints 4))]

example : ∃ r, mapChecked [fA] inp [] = .ok r ∧ runMap [fA] inp [] = .ok r := C01_checked_never_refused _ _ _ (by decide)
example : (∃ r, mapChecked [fA] inp [] = .ok r) ↔ RequestOK [fA] inp [] = true :=
  C01_checked_never_refused_class _ _ _ (by decide) (fun _ => by decide)
/-- witness 4 of Props/C01Refusal.lean (`x[i, j] -> a[i, j]` next to `x[j, i] -> b[j, i]`): `runMap` answers, `Pipeline.map` — and
    `mapChecked` — refuse with a `ValueError` -/
example : (runMap [fA, fB] inp []).toOption.isSome = true ∧ RequestOK [fA, fB] inp [] = true ∧ consistentAxes [fA, fB] = false := by decide
example : ∃ why, mapChecked [fA, fB] inp [] = .error (.value why) := C01_checked_refuses_inconsistent _ _ _ (by decide)
example (r : MapResult) (h : mapChecked [fA] inp [] = .ok r) : runMap [fA] inp [] = .ok r := ((C01_checked_iff _ _ _ r).mp h).2

end Examples

end PF.C01
