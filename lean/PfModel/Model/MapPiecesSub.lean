/-
Running a map in pieces together with `output_names=` / `auto_subpipeline=True` (`pipefunc/map/_prepare.py:52-62`):
`prepare_run` FIRST replaces the pipeline by `pipeline.subpipeline(set(inputs), output_names)` (`PF.Sub.prepare`, the model of
C11) and only THEN runs `_validate_complete_inputs`, `validate_consistent_axes` and `_validate_fixed_indices` — so the fixed
indices are validated against, and the selections are built from, the NARROWED pipeline: an axis that lives only in the
dropped branch is unknown, an axis reduced only by a dropped function is not reduced.
`Props/C06Sub.lean` shows by concrete witnesses that the order is observable (validating against the pipeline as passed in
gives other verdicts).
Core Lean only.
-/
import PfModel.Model.MapPieces
import PfModel.Model.SubPipe
namespace PF.Pieces
open PF PF.Map

/-- the exception `Pipeline.subpipeline` raises, in the error type of `map` (`KeyError` for an unknown name, `ValueError`
    for "at least one of inputs / output_names" and for "cannot construct a partial pipeline") -/
def subErr : Sub.SErr → Err
  | .noArgs => .value "At least one of `inputs` or `output_names` should be provided."
  | .unknown n => .key n
  | .missing _ => .value "Cannot construct a partial pipeline"
  | .fuel => .fuel

/-- `run_map(..., output_names=S, auto_subpipeline=auto, fixed_indices=fixed, cleanup=False)` on a run folder holding `old`:
    `prepare_run` narrows the pipeline (`_prepare.py:52-54`), everything after that — `_validate_complete_inputs`,
    `_validate_fixed_indices` (`:62`), `map_shapes`, the generation loop — sees only the narrowed pipeline -/
def runPartSub (fs : List MFunc) (inputs : List (String × Val)) (ui : List (String × List Nat)) (S : Option (List String))
    (auto : Bool) (fixed : Option (List (String × Sel))) (old : List (String × Slot)) : M PartResult :=
  match Sub.prepare fs inputs S auto with
  | .error e => .error (subErr e)
  | .ok sub => runPart sub inputs ui fixed old

/-- a run in pieces of a sub-map: the same `output_names` / `auto_subpipeline` for every part -/
def runPiecesSub (fs : List MFunc) (inputs : List (String × Val)) (ui : List (String × List Nat)) (S : Option (List String)) (auto : Bool) :
    List (Option (List (String × Sel))) → List (String × Slot) → M (List PartResult)
  | [], _ => pure []
  | p :: ps, old => do
    let r ← runPartSub fs inputs ui S auto p old
    let rest ← runPiecesSub fs inputs ui S auto ps r.store
    pure (r :: rest)

end PF.Pieces
