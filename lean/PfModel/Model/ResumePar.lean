/-
The pool runner (`Pipeline.map(..., parallel=True, executor=…)`, `pipefunc/map/_run.py:684-700, 897-948, 997-1011`) on a run
folder, as far as the file system can tell: in one generation every missing element of a mapped function and every function
without MapSpec inputs is a *task body* run by a worker (`_run_iteration_and_process`: the user call, then — file arrays —
the element dumps; `_execute_single`: the user call); the parent (`_process_generation`) dumps the single outputs after it
has collected the results; the next generation is submitted only after that (barrier).  What the executor, the pool size
and the operating system decide is the order in which the bodies' events happen: a *scheduler* `sched` maps (generation
number, the bodies in submission order, the parent's events) to the event list that really happened.

`runOnP cfg sched` is `PF.ResumeFS.runOn cfg` with the events of every generation re-ordered by `sched`; the plan of a
generation (what is missing, what is loaded) and the results are those of `runGenR` (sequential submission order).
-/
import PfModel.Model.ResumeFS
namespace PF.ResumeFS
open PF PF.Map

/-- split an event list into the runs that start at a user call: the task bodies of a generation's submit phase -/
def splitCalls : List Ev → List (List Ev)
  | [] => []
  | e :: rest =>
    match splitCalls rest with
    | [] => [[e]]
    | b :: bs =>
      match b with
      | .call _ _ _ :: _ => [e] :: b :: bs       -- the next body is complete: `e` ends (or is) another one
      | _ => (e :: b) :: bs

/-- generation number → bodies in submission order → the parent's events → what happened -/
abbrev Sched := Nat → List (List Ev) → List Ev → List Ev

/-- the generation loop of the pool runner -/
def runGensP (step : Env → FS → Nat → MFunc → FOut) (sched : Sched) : Nat → List (List MFunc) → Env → FS → Nat → LOut
  | _, [], env, _, _ => ⟨[], [], .ok ([], env)⟩
  | g, gen :: rest, env, fs, nc =>
    let G := runGenR step env fs nc gen
    let evs := sched g (splitCalls G.subEvs) G.procEvs
    match G.res with
    | .error e => ⟨evs, G.calls, .error e⟩
    | .ok rs =>
      let env' : Env := { env with store := env.store ++ rs.flatMap (·.slots) }
      let l := runGensP step sched (g + 1) rest env' (applyAll fs evs) G.nc
      ⟨evs ++ l.evs, G.calls ++ l.calls, l.res.map fun (more, envF) => (rs ++ more, envF)⟩

/-- `Pipeline.map(inputs, run_folder=F, cleanup=False, parallel=True)` started on the folder state `fs` -/
def runOnP (cfg : Cfg) (sched : Sched) (fs : FS) (fsd : List MFunc) (inputs : List (String × Val)) (ui : List (String × List Nat)) : Run :=
  match preRun fsd inputs ui with
  | .error e => ⟨[], [], .error (.map e)⟩
  | .ok (shapes, masks) =>
    let c := compare cfg.legacy fs inputs
    match c.res with
    | .error e => ⟨c.evs, [], .error e⟩
    | .ok () =>
      let e1 := c.evs ++ dumpAllEvs cfg.legacy inputs
      let fs1 := applyAll fs e1
      let i := initStore cfg.legacy fs1 (storePlan cfg fsd)
      match i.res with
      | .error e => ⟨e1 ++ i.evs, [], .error e⟩
      | .ok mem =>
        let e2 := e1 ++ i.evs
        let fs2 := applyAll fs1 i.evs
        let l := runGensP (stepFunc cfg fsd shapes masks mem) sched 0 (generations fsd) { inputs := inputs, store := [] } fs2 0
        match l.res with
        | .error e => ⟨e2 ++ l.evs, l.calls, .error e⟩
        | .ok (rs, envF) =>
          ⟨e2 ++ l.evs ++ persistEvs cfg.legacy envF.store (storePlan cfg fsd), l.calls,
           .ok { outputs := rs.flatMap (·.outputs), calls := l.calls }⟩

/-- the sequential order: bodies in submission order, then the parent -/
def seqSched : Sched := fun _ bs pe => bs.flatten ++ pe

/-- bodies are atomic and run in any order; the parent's dumps come after them -/
def PermSched (sched : Sched) : Prop := ∀ g bs pe, ∃ bs' : List (List Ev), bs'.Perm bs ∧ sched g bs pe = bs'.flatten ++ pe

/-- the paths an event reads or writes -/
def touches : Ev → Path → Bool
  | .mkdirp _, _ => false
  | .begin p, q => q = p
  | .chunk p, q => q = p
  | .commit p _, q => q = p
  | .rename p p', q => q = p || q = p'
  | .unlink p, q => q = p
  | .rmtree, _ => true
  | .call _ _ _, _ => false

/-- `m` is an interleaving of `a` and `b` (each keeps its own order) -/
inductive Shuf : List Ev → List Ev → List Ev → Prop
  | nil : Shuf [] [] []
  | left (e : Ev) {a b m : List Ev} : Shuf a b m → Shuf (e :: a) b (e :: m)
  | right (e : Ev) {a b m : List Ev} : Shuf a b m → Shuf a (e :: b) (e :: m)

/-- `m` is an interleaving of the threads `ts` -/
inductive ShufN : List (List Ev) → List Ev → Prop
  | nil : ShufN [] []
  | cons {t : List Ev} {ts : List (List Ev)} {m' m : List Ev} : ShufN ts m' → Shuf t m' m → ShufN (t :: ts) m

/-- events of the bodies and of the parent interleave arbitrarily (every thread keeps its own order) -/
def ShufSched (sched : Sched) : Prop := ∀ g bs pe, ShufN (pe :: bs) (sched g bs pe)

end PF.ResumeFS
