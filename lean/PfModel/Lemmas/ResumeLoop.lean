import PfModel.Lemmas.ResumeSim
/-! The generation loop of the resumable runner simulates `PF.Map.runGensWith` from every folder that satisfies the invariant. -/
namespace PF.ResumeFS
open PF PF.Map

theorem notDone_mapped (fs : FS) (f : MFunc) (li : Nat) (hm : isMapped f = true) (h : isMissing (fileView fs) f li = true) :
    doneIn fs f li = false := by
  simp only [doneIn, hm, ↓reduceIte]
  simp only [isMissing, fileView, List.any_eq_true] at h
  obtain ⟨o, ho, hn⟩ := h
  apply Bool.eq_false_iff.mpr
  intro hall
  have := (List.all_eq_true.mp hall) o ho
  cases hf : fs.files (.cell o li) <;> simp [hf] at hn this

theorem notDone_single (fs : FS) (f : MFunc) (li : Nat) (hm : isMapped f = false)
    (h : (f.outputs.all fun o => (fs.files (.single o)).isSome) = false) : doneIn fs f li = false := by
  simp [doneIn, hm, h]

theorem doneIn_mono (fs0 fs : FS) (f : MFunc) (li : Nat) (hm : Mono fs0 fs) (h : doneIn fs f li = false) : doneIn fs0 f li = false := by
  apply Bool.eq_false_iff.mpr
  intro h0
  have : doneIn fs f li = true := by
    unfold doneIn at h0 ⊢
    by_cases hmp : isMapped f = true
    · simp only [hmp, ↓reduceIte] at h0 ⊢
      exact List.all_eq_true.mpr fun o ho => hm _ rfl ((List.all_eq_true.mp h0) o ho)
    · simp only [hmp, Bool.false_eq_true, ↓reduceIte] at h0 ⊢
      exact List.all_eq_true.mpr fun o ho => hm _ rfl ((List.all_eq_true.mp h0) o ho)
  rw [h] at this; cases this

theorem zip_fst_snd {α β} : ∀ l : List (α × β), (l.map (·.1)).zip (l.map (·.2)) = l
  | [] => rfl
  | (a, b) :: r => by simp [zip_fst_snd r]

/-- a persisted dict of well-keyed cells loads back to the same cells -/
theorem dictCells_tup (cells : List (Nat × Val)) (h : cells.map (·.1) = List.range cells.length) :
    dictCells (.tup (cells.map (·.2))) = cells := by
  simp only [dictCells, List.length_map]
  rw [← h]; exact zip_fst_snd cells

theorem doneInC_file (cfg : Cfg) (fs : FS) (f : MFunc) (li : Nat) (h : (isMapped f && isDictF cfg f) = false) :
    doneInC cfg fs f li = doneIn fs f li := by
  simp [doneInC, h]

/-- the in-memory dicts that `init_store` loaded agree with the folder `fsI` they were loaded from -/
def MemOk (W : Right) (fsI : FS) (mem : List (String × List (Nat × Val))) : Prop :=
  ∀ o cs, alookup mem o = some cs →
    (cs = [] ∧ fsI.files (.dictArr o) = none) ∨
    (∃ v, fsI.files (.dictArr o) = some (.complete v) ∧ W (.dictArr o) v ∧ cs = dictCells v)

/-- what one step of the resumable runner guarantees, given the result `r` of the same function in the uninterrupted run -/
def StepOk (W : Right) (names : List String) (fs0 : FS) (cfg : Cfg) (f : MFunc) (r : FuncResult) (o : FOut) : Prop :=
  Safe (I W names fs0) o.subEvs ∧ Safe (I W names fs0) o.procEvs ∧
  (∀ c ∈ o.calls, c.fn = f.name ∧ doneInC cfg fs0 f c.li = false) ∧
  ((∃ r', o.res = .ok r' ∧ r'.outputs = r.outputs ∧ r'.slots = r.slots) ∨ (cfg.failAt ≠ none ∧ ∃ fn, o.res = .error (.raised fn))) ∧
  Bodies (I W names fs0) o.subEvs

theorem stepFunc_spec (W : Right) (names : List String) (fs0 : FS) (cfg : Cfg) (hl : cfg.legacy = false)
    (fsd : List MFunc) (shapes : List (String × List Nat)) (masks : List (String × List Bool)) (mem : List (String × List (Nat × Val)))
    (env : Env) (f : MFunc) (r : FuncResult) (hpf : runFuncWith opArray fsd shapes masks env f = .ok r) (hSR : SlotsRight W r.slots)
    (fsI : FS) (hM0 : Mono fs0 fsI) (hMem : MemOk W fsI mem)
    (hPlan : isMapped f = true → isDictF cfg f = true → ∀ o ∈ f.outputs, alookup mem o ≠ none)
    (fs : FS) (hI : I W names fs0 fs) (nc : Nat) :
    StepOk W names fs0 cfg f r (stepFunc cfg fsd shapes masks mem env fs nc f) := by
  have single : isMapped f = false → runSingle fsd env f = .ok r →
      StepOk W names fs0 cfg f r (stepSingle cfg fsd env fs nc f) := by
    intro hm h
    obtain ⟨a, b, c, d, e⟩ := stepSingle_spec W names fs0 cfg hl fsd env f r h hSR fs hI nc
    refine ⟨a, b, fun x hx => ⟨(c x hx).1, ?_⟩, d, e⟩
    rw [doneInC_file cfg fs0 f _ (by simp [hm])]
    exact doneIn_mono fs0 fs f _ hI.mono (notDone_single fs f _ hm (c x hx).2)
  unfold runFuncWith at hpf
  unfold stepFunc
  cases hms : f.mapspec with
  | none =>
    simp only [hms] at hpf ⊢
    exact single (by simp [isMapped, hms]) hpf
  | some ms =>
    simp only [hms] at hpf ⊢
    by_cases he : ms.inputs.isEmpty = true
    · simp only [he, ↓reduceIte] at hpf ⊢
      exact single (by simp [isMapped, hms, he]) hpf
    · simp only [he, Bool.false_eq_true, ↓reduceIte] at hpf ⊢
      have hmapped : isMapped f = true := by simp [isMapped, hms, he]
      cases hh : f.outputs.head? with
      | none => simp [hh] at hpf
      | some o =>
        simp only [hh] at hpf ⊢
        cases hs : alookup shapes o with
        | none => simp [hs] at hpf
        | some sh =>
          cases hk : alookup masks o with
          | none => simp [hs, hk] at hpf
          | some mk =>
            simp only [hs, hk] at hpf ⊢
            by_cases hlen : sh.length = mk.length
            · simp only [hlen, ne_eq, not_true_eq_false, ↓reduceIte] at hpf ⊢
              cases hdict : isDictF cfg f with
              | false =>
                simp only [Bool.false_eq_true, ↓reduceIte]
                have hV : ∀ o ∈ f.outputs, ∀ li, fileView fs o li = none ∨ ∃ v, fileView fs o li = some (.complete v) ∧ W (.cell o li) v :=
                  fun o _ li => hI.inv (.cell o li) rfl
                obtain ⟨a, b, c, d, e⟩ := stepMapped_spec W names fs0 cfg hl false fsd env f ms sh mk r hlen hpf hSR (fileView fs) hV nc
                refine ⟨a, by rw [b]; exact Safe.nil _, fun x hx => ⟨(c x hx).1, ?_⟩, d, e⟩
                rw [doneInC_file cfg fs0 f _ (by simp [hdict])]
                exact doneIn_mono fs0 fs f _ hI.mono (notDone_mapped fs f _ hmapped (c x hx).2.2)
              | true =>
                simp only [↓reduceIte]
                obtain ⟨args, _, _, hslots⟩ := runMappedWith_ok fsd env f ms sh mk r hpf
                have hsl : ∀ o ∈ f.outputs, (∀ li v, W (.cell o li) v ↔ cellLookup (cellsOf f (prod (extOf mk sh)) args o) li = some v) ∧
                    (∀ v, W (.dictArr o) v → dictCells v = cellsOf f (prod (extOf mk sh)) args o) := by
                  intro o ho
                  have hm : (o, Slot.array sh mk (cellsOf f (prod (extOf mk sh)) args o)) ∈ r.slots := by
                    rw [hslots]; exact List.mem_map.mpr ⟨o, ho, rfl⟩
                  refine ⟨(hSR _ _ hm).1, fun v hv => ?_⟩
                  obtain ⟨e1, e2⟩ := ((hSR _ _ hm).2.2 v).mp hv
                  rw [e1]; exact dictCells_tup _ e2
                have hV : ∀ o ∈ f.outputs, ∀ li, dictView mem o li = none ∨ ∃ v, dictView mem o li = some (.complete v) ∧ W (.cell o li) v := by
                  intro o ho li
                  unfold dictView
                  cases hmo : alookup mem o with
                  | none => exact Or.inl rfl
                  | some cs =>
                    rcases hMem o cs hmo with ⟨e, _⟩ | ⟨v, _, hw, e⟩
                    · subst e; exact Or.inl rfl
                    · rw [e, (hsl o ho).2 v hw]
                      cases hc : cellLookup (cellsOf f (prod (extOf mk sh)) args o) li with
                      | none => exact Or.inl (by simp [hc])
                      | some x => exact Or.inr ⟨x, by simp [hc], ((hsl o ho).1 li x).mpr hc⟩
                obtain ⟨a, b, c, d, e⟩ := stepMapped_spec W names fs0 cfg hl true fsd env f ms sh mk r hlen hpf hSR (dictView mem) hV nc
                refine ⟨a, by rw [b]; exact Safe.nil _, fun x hx => ⟨(c x hx).1, ?_⟩, d, e⟩
                obtain ⟨_, hlt, hmiss⟩ := c x hx
                simp only [isMissing, List.any_eq_true] at hmiss
                obtain ⟨o, ho, hn⟩ := hmiss
                have hnone : dictView mem o x.li = none := by
                  cases hv : dictView mem o x.li <;> simp [hv] at hn ⊢
                have habs : fs0.files (.dictArr o) = none := by
                  unfold dictView at hnone
                  cases hmo : alookup mem o with
                  | none => exact absurd hmo (hPlan hmapped hdict o ho)
                  | some cs =>
                    rw [hmo] at hnone
                    rcases hMem o cs hmo with ⟨_, e⟩ | ⟨v, _, hw, e⟩
                    · cases h0 : fs0.files (.dictArr o) with
                      | none => rfl
                      | some c0 =>
                        have := hM0 (.dictArr o) rfl (by rw [h0]; rfl)
                        rw [e] at this; cases this
                    · rw [e, (hsl o ho).2 v hw] at hnone
                      simp only [cellLookup_cellsOf, hlt, ↓reduceIte] at hnone
                      cases hnone
                simp only [doneInC, hmapped, hdict, Bool.and_self, ↓reduceIte]
                apply Bool.eq_false_iff.mpr
                intro hall
                have := (List.all_eq_true.mp hall) o ho
                rw [habs] at this; cases this
            · simp [hlen] at hpf

def GenOk (W : Right) (names : List String) (fs0 : FS) (cfg : Cfg) (gen : List MFunc) (rs : List FuncResult) (g : GOut) : Prop :=
  Safe (I W names fs0) g.subEvs ∧ Safe (I W names fs0) g.procEvs ∧
  (∀ c ∈ g.calls, ∃ f ∈ gen, c.fn = f.name ∧ doneInC cfg fs0 f c.li = false) ∧
  ((∃ rs', g.res = .ok rs' ∧ rs'.flatMap (·.outputs) = rs.flatMap (·.outputs) ∧ rs'.flatMap (·.slots) = rs.flatMap (·.slots)) ∨
   (cfg.failAt ≠ none ∧ ∃ fn, g.res = .error (.raised fn))) ∧
  Bodies (I W names fs0) g.subEvs

theorem runGenR_spec (W : Right) (names : List String) (fs0 : FS) (cfg : Cfg) (R : Env → MFunc → M FuncResult)
    (step : Env → FS → Nat → MFunc → FOut)
    (Pf : MFunc → Prop)
    (hstep : ∀ env f r, Pf f → R env f = .ok r → SlotsRight W r.slots → ∀ fs, I W names fs0 fs → ∀ nc, StepOk W names fs0 cfg f r (step env fs nc f))
    (env : Env) : ∀ (gen : List MFunc) (rs : List FuncResult) (fs : FS) (nc : Nat), (∀ f ∈ gen, Pf f) → runGenWith R env gen = .ok rs →
      (∀ r ∈ rs, SlotsRight W r.slots) → I W names fs0 fs → GenOk W names fs0 cfg gen rs (runGenR step env fs nc gen) := by
  intro gen
  induction gen with
  | nil =>
    intro rs fs nc _ h _ _
    simp only [runGenWith, pure, Except.pure] at h
    cases h
    exact ⟨Safe.nil _, Safe.nil _, by simp [runGenR], Or.inl ⟨[], rfl, rfl, rfl⟩, Bodies.nil _⟩
  | cons f rest ih =>
    intro rs fs nc hP h hSR hI
    simp only [runGenWith, bind, Except.bind] at h
    split at h
    · cases h
    · next r hr =>
      split at h
      · cases h
      · next rs1 hrs1 =>
        simp only [pure, Except.pure] at h
        cases h
        obtain ⟨a, b, c, d, e⟩ := hstep env f r (hP f (by simp)) hr (hSR r (by simp)) fs hI nc
        rcases d with ⟨r', hres, ho, hs⟩ | ⟨hne, fn, hres⟩
        · obtain ⟨a2, b2, c2, d2, e2⟩ := ih rs1 (applyAll fs (step env fs nc f).subEvs) (nc + (step env fs nc f).ncalls)
            (fun g hg => hP g (by simp [hg])) hrs1 (fun x hx => hSR x (by simp [hx])) (a.final fs hI)
          rcases d2 with ⟨rs', hres2, ho2, hs2⟩ | ⟨hne, fn, hres2⟩
          · simp only [runGenR, hres, hres2]
            refine ⟨Safe.append a a2, Safe.append b b2, ?_, Or.inl ⟨_, rfl, ?_, ?_⟩, Bodies.append e e2⟩
            · intro x hx
              rcases List.mem_append.mp hx with hx | hx
              · exact ⟨f, by simp, c x hx⟩
              · obtain ⟨g, hg, hh⟩ := c2 x hx; exact ⟨g, by simp [hg], hh⟩
            · simp [List.flatMap_cons, ho, ho2]
            · simp [List.flatMap_cons, hs, hs2]
          · simp only [runGenR, hres, hres2]
            refine ⟨Safe.append a a2, Safe.nil _, ?_, Or.inr ⟨hne, fn, rfl⟩, Bodies.append e e2⟩
            intro x hx
            rcases List.mem_append.mp hx with hx | hx
            · exact ⟨f, by simp, c x hx⟩
            · obtain ⟨g, hg, hh⟩ := c2 x hx; exact ⟨g, by simp [hg], hh⟩
        · simp only [runGenR, hres]
          exact ⟨a, Safe.nil _, fun x hx => ⟨f, by simp, c x hx⟩, Or.inr ⟨hne, fn, rfl⟩, e⟩

def LoopOk (W : Right) (names : List String) (fs0 : FS) (cfg : Cfg) (gens : List (List MFunc)) (rs : List FuncResult) (envF : Env)
    (l : LOut) : Prop :=
  Safe (I W names fs0) l.evs ∧
  (∀ c ∈ l.calls, ∃ f ∈ gens.flatten, c.fn = f.name ∧ doneInC cfg fs0 f c.li = false) ∧
  ((∃ rs', l.res = .ok (rs', envF) ∧ rs'.flatMap (·.outputs) = rs.flatMap (·.outputs)) ∨
   (cfg.failAt ≠ none ∧ ∃ fn, l.res = .error (.raised fn)))

theorem runGensR_spec (W : Right) (names : List String) (fs0 : FS) (cfg : Cfg) (R : Env → MFunc → M FuncResult)
    (step : Env → FS → Nat → MFunc → FOut)
    (Pf : MFunc → Prop)
    (hstep : ∀ env f r, Pf f → R env f = .ok r → SlotsRight W r.slots → ∀ fs, I W names fs0 fs → ∀ nc, StepOk W names fs0 cfg f r (step env fs nc f)) :
    ∀ (gens : List (List MFunc)) (env : Env) (rs : List FuncResult) (envF : Env) (fs : FS) (nc : Nat), (∀ f ∈ gens.flatten, Pf f) →
      runGensWith R gens env = .ok (rs, envF) → (∀ r ∈ rs, SlotsRight W r.slots) → I W names fs0 fs →
      LoopOk W names fs0 cfg gens rs envF (runGensR step gens env fs nc) := by
  intro gens
  induction gens with
  | nil =>
    intro env rs envF fs nc _ h _ _
    simp only [runGensWith, pure, Except.pure] at h
    cases h
    exact ⟨Safe.nil _, by simp [runGensR], Or.inl ⟨[], rfl, rfl⟩⟩
  | cons gen rest ih =>
    intro env rs envF fs nc hP h hSR hI
    simp only [runGensWith, bind, Except.bind] at h
    split at h
    · cases h
    · next rs1 hrs1 =>
      split at h
      · cases h
      · next p hp =>
        obtain ⟨more, envF'⟩ := p
        simp only [pure, Except.pure] at h
        cases h
        obtain ⟨a, b, c, d, _⟩ := runGenR_spec W names fs0 cfg R step Pf hstep env gen rs1 fs nc (fun g hg => hP g (by simp [hg])) hrs1
          (fun x hx => hSR x (by simp [hx])) hI
        have hsafe : Safe (I W names fs0) ((runGenR step env fs nc gen).subEvs ++ (runGenR step env fs nc gen).procEvs) := Safe.append a b
        have hc : ∀ x ∈ (runGenR step env fs nc gen).calls, ∃ f ∈ (gen :: rest).flatten, x.fn = f.name ∧ doneInC cfg fs0 f x.li = false := by
          intro x hx; obtain ⟨f, hf, hh⟩ := c x hx; exact ⟨f, by simp [hf], hh⟩
        rcases d with ⟨rs', hres, ho, hs⟩ | ⟨hne, fn, hres⟩
        · have henv : ({ env with store := env.store ++ rs'.flatMap (·.slots) } : Env) = { env with store := env.store ++ rs1.flatMap (·.slots) } := by
            rw [hs]
          obtain ⟨a2, c2, d2⟩ := ih _ more envF
            (applyAll fs ((runGenR step env fs nc gen).subEvs ++ (runGenR step env fs nc gen).procEvs)) (runGenR step env fs nc gen).nc
            (fun g hg => hP g (by simp only [List.flatten_cons, List.mem_append]; exact Or.inr hg)) hp
            (fun x hx => hSR x (by simp [hx])) (hsafe.final fs hI)
          have hc2 : ∀ x ∈ (runGensR step rest { env with store := env.store ++ rs1.flatMap (·.slots) }
              (applyAll fs ((runGenR step env fs nc gen).subEvs ++ (runGenR step env fs nc gen).procEvs)) (runGenR step env fs nc gen).nc).calls,
              ∃ f ∈ (gen :: rest).flatten, x.fn = f.name ∧ doneInC cfg fs0 f x.li = false := by
            intro x hx; obtain ⟨f, hf, hh⟩ := c2 x hx; exact ⟨f, by simp [hf], hh⟩
          simp only [runGensR, hres, henv]
          refine ⟨Safe.append hsafe a2, ?_, ?_⟩
          · intro x hx
            rcases List.mem_append.mp hx with hx | hx
            · exact hc x hx
            · exact hc2 x hx
          · rcases d2 with ⟨rs2, hres2, ho2⟩ | ⟨hne, fn, hres2⟩
            · rw [hres2]
              exact Or.inl ⟨rs' ++ rs2, rfl, by simp [List.flatMap_append, ho, ho2]⟩
            · rw [hres2]
              exact Or.inr ⟨hne, fn, rfl⟩
        · simp only [runGensR, hres]
          exact ⟨hsafe, hc, Or.inr ⟨hne, fn, rfl⟩⟩

end PF.ResumeFS
