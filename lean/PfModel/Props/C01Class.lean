import PfModel.Lemmas.MapDescRet
import PfModel.Props.C01Refusal
/-!
C01, clause "a valid request is never refused" — the hypothesis `RequestOK → DescOK` of `C01_never_refused_iff` / `C01_refused_iff`
(Props/C01Refusal.lean) discharged for a syntactic class.  `DescOK` was evaluated by the driver per case; here:

* `InClass fs inputs` (Lemmas/MapDescClass.lean) is table-free: unique function / output names, one axis naming per array, what the
  constructors of pipefunc enforce per function, no index name twice in one input ArraySpec, distinct input keys, array values with
  `prod shape` elements, a default declared for a mapped root is a well-formed array of the shape of the value that is used.  It covers what `harness/mapgen.py` and `props_extra/c01_gen2.py` generate
  (the harness counts `class:in` / `class:outside:<clause>` per generated request).
* Inside the class and on a request that passes the five request checks, **`DescOK` is exactly `ReturnsDeclared`**: the functions
  return arrays of the shapes the table declares (`C01_desc_residual`).  All other conjuncts of `DescOK` follow from `RequestOK`.
* Hence exact refusal with the residual only (`C01_never_refused_class`, `C01_refused_iff_class`), and **unconditionally** for
  pipelines without internal axes and `... -> v[j]` producers (`C01_refused_iff_plain`): there nothing is declared about returns.
-/
namespace PF.C01
open PF PF.Map

/-- `DescOK` implies its residual — no hypothesis -/
theorem C01_returns_declared_of_desc (fs : List MFunc) (inputs : List (String × Val)) (ui : List (String × List Nat))
    (h : DescOK fs inputs ui = true) : ReturnsDeclared fs inputs ui = true :=
  returnsDeclared_of_descOK fs inputs ui h

/-- **Inside the class, on a request that passes every request check, `DescOK` is exactly "the functions return what the table
    declares"**: `mappedTyped` of every mapped function, `valuesTyped` of inputs and defaults, unique names and the non-`ret`
    clauses of `constructible` all follow from `InClass ∧ RequestOK`. -/
theorem C01_desc_residual (fs : List MFunc) (inputs : List (String × Val)) (ui : List (String × List Nat))
    (hc : InClass fs inputs = true) (hq : RequestOK fs inputs ui = true) :
    DescOK fs inputs ui = ReturnsDeclared fs inputs ui := by
  cases hr : ReturnsDeclared fs inputs ui with
  | true => exact descOK_of_class fs inputs ui hc hq hr
  | false =>
    cases hd : DescOK fs inputs ui with
    | false => rfl
    | true => rw [returnsDeclared_of_descOK fs inputs ui hd] at hr; cases hr

/-- **"Never refused" as an equivalence, for the class**: the request is answered iff it passes the five request checks, provided
    the functions return what they declare (on requests that pass the checks). -/
theorem C01_never_refused_class (fs : List MFunc) (inputs : List (String × Val)) (ui : List (String × List Nat))
    (hc : InClass fs inputs = true) (hr : RequestOK fs inputs ui = true → ReturnsDeclared fs inputs ui = true) :
    (∃ r, runMap fs inputs ui = .ok r) ↔ RequestOK fs inputs ui = true := by
  have hd : RequestOK fs inputs ui = true → DescOK fs inputs ui = true := fun hq => descOK_of_class fs inputs ui hc hq (hr hq)
  rw [C01_never_refused_iff fs inputs ui hd, conforms_split]
  constructor
  · intro h
    simp only [Bool.and_eq_true] at h
    exact h.1
  · intro hq
    rw [hq, hd hq]; rfl

/-- **Exact refusal, for the class** -/
theorem C01_refused_iff_class (fs : List MFunc) (inputs : List (String × Val)) (ui : List (String × List Nat))
    (hc : InClass fs inputs = true) (hr : RequestOK fs inputs ui = true → ReturnsDeclared fs inputs ui = true) :
    (∃ e, runMap fs inputs ui = .error e) ↔
      (inputsComplete fs inputs = false ∨ noSurplus fs inputs = false ∨ acyclic fs = false ∨ rootArrays fs inputs = false ∨
       shapesOK (constructInternal fs ui) (generations fs).flatten (rootTbl fs inputs) = false) :=
  C01_refused_iff fs inputs ui (fun hq => descOK_of_class fs inputs ui hc hq (hr hq))

/-- **Exact refusal without any residual**: a pipeline of the class in which every MapSpec has inputs and every output index is
    carried by an input (zip, outer product, `:` reductions, full reductions, un-mapped functions; no internal axis, no
    `... -> v[j]` producer) is refused iff one of the five request checks fails — for all inputs, shapes and histories. -/
theorem C01_refused_iff_plain (fs : List MFunc) (inputs : List (String × Val)) (ui : List (String × List Nat))
    (hc : InClass fs inputs = true) (hp : NoInternal fs = true) :
    (∃ e, runMap fs inputs ui = .error e) ↔
      (inputsComplete fs inputs = false ∨ noSurplus fs inputs = false ∨ acyclic fs = false ∨ rootArrays fs inputs = false ∨
       shapesOK (constructInternal fs ui) (generations fs).flatten (rootTbl fs inputs) = false) := by
  apply C01_refused_iff_class fs inputs ui hc
  intro hq
  have hc' := hc
  unfold InClass at hc'
  simp only [Bool.and_eq_true] at hc'
  obtain ⟨⟨⟨⟨⟨⟨_, c2⟩, _⟩, c4⟩, _⟩, _⟩, _⟩ := hc'
  unfold RequestOK at hq
  simp only [Bool.and_eq_true] at hq
  apply returnsDeclared_of_noInternal fs inputs ui hq.1.1.2 c2 _ hp
  rw [List.all_eq_true] at c4 ⊢
  intro f hf
  have := c4 f hf
  unfold funcStatic at this
  rw [Bool.and_eq_true] at this
  exact this.1

/-- … and such a request is answered iff it passes the five checks -/
theorem C01_never_refused_plain (fs : List MFunc) (inputs : List (String × Val)) (ui : List (String × List Nat))
    (hc : InClass fs inputs = true) (hp : NoInternal fs = true) :
    (∃ r, runMap fs inputs ui = .ok r) ↔ RequestOK fs inputs ui = true := by
  apply C01_never_refused_class fs inputs ui hc
  intro hq
  have hc' := hc
  unfold InClass at hc'
  simp only [Bool.and_eq_true] at hc'
  obtain ⟨⟨⟨⟨⟨⟨_, c2⟩, _⟩, c4⟩, _⟩, _⟩, _⟩ := hc'
  unfold RequestOK at hq
  simp only [Bool.and_eq_true] at hq
  apply returnsDeclared_of_noInternal fs inputs ui hq.1.1.2 c2 _ hp
  rw [List.all_eq_true] at c4 ⊢
  intro f hf
  have := c4 f hf
  unfold funcStatic at this
  rw [Bool.and_eq_true] at this
  exact this.1

/-- **The residual is table-free**: on a request that passes the request checks, for a pipeline of the class, "the functions return
    what the table declares" is `RetSyntactic`: every `... -> v[j]` producer and every mapped function with internal axes returns
    arrays of exactly the first internal sizes of its declared `internal_shape` (one per output index no input carries) — a
    statement about the description and the `internal_shapes` argument only. -/
theorem C01_returns_declared_syntactic (fs : List MFunc) (inputs : List (String × Val)) (ui : List (String × List Nat))
    (hc : InClass fs inputs = true) (hq : RequestOK fs inputs ui = true) :
    ReturnsDeclared fs inputs ui = RetSyntactic fs ui := by
  unfold InClass at hc
  simp only [Bool.and_eq_true] at hc
  obtain ⟨⟨⟨⟨⟨⟨_, c2⟩, _⟩, c4⟩, _⟩, _⟩, _⟩ := hc
  unfold RequestOK at hq
  simp only [Bool.and_eq_true] at hq
  apply returnsDeclared_eq_syntactic fs inputs ui hq.1.1.2 c2
  rw [List.all_eq_true] at c4 ⊢
  intro f hf
  have := c4 f hf
  unfold funcStatic at this
  rw [Bool.and_eq_true] at this
  exact this.1

/-- **Exact refusal with no hypothesis evaluated against the shape table**: a pipeline of the class whose functions return arrays
    of their declared internal shapes (`RetSyntactic`) is refused iff one of the five request checks fails.  This discharges the
    hypothesis `RequestOK → DescOK` of `C01_refused_iff` for everything the generators of the C01 harness produce. -/
theorem C01_refused_iff_syntactic (fs : List MFunc) (inputs : List (String × Val)) (ui : List (String × List Nat))
    (hc : InClass fs inputs = true) (hr : RetSyntactic fs ui = true) :
    (∃ e, runMap fs inputs ui = .error e) ↔
      (inputsComplete fs inputs = false ∨ noSurplus fs inputs = false ∨ acyclic fs = false ∨ rootArrays fs inputs = false ∨
       shapesOK (constructInternal fs ui) (generations fs).flatten (rootTbl fs inputs) = false) :=
  C01_refused_iff_class fs inputs ui hc (fun hq => by rw [C01_returns_declared_syntactic fs inputs ui hc hq]; exact hr)

/-- … and answered iff the five request checks pass -/
theorem C01_never_refused_syntactic (fs : List MFunc) (inputs : List (String × Val)) (ui : List (String × List Nat))
    (hc : InClass fs inputs = true) (hr : RetSyntactic fs ui = true) :
    (∃ r, runMap fs inputs ui = .ok r) ↔ RequestOK fs inputs ui = true :=
  C01_never_refused_class fs inputs ui hc (fun hq => by rw [C01_returns_declared_syntactic fs inputs ui hc hq]; exact hr)

/-! ### non-vacuity and the boundary of the class -/

section Examples

private def ints (n : Nat) : List Val := (List.range n).map fun i => .int (Int.ofNat i)
private def mf (name : String) (params outputs : List String) (ms : Option MSpec) (ret internal : Option (List Nat) := none) : MFunc :=
  { name := name, params := params.map fun p => (p, p), outputs := outputs, mapspec := ms, ret := ret, internal := internal,
    defaults := [], bound := [] }

/-- `x[i], w[j] -> y[i, j]`, `y[i, :] -> z[i]`, and a full reduction `z -> s` -/
private def fY : MFunc := mf "f" ["x", "w"] ["y"] (some ⟨[⟨"x", [some "i"]⟩, ⟨"w", [some "j"]⟩], [⟨"y", [some "i", some "j"]⟩]⟩)
private def fZ : MFunc := mf "g" ["y"] ["z"] (some ⟨[⟨"y", [some "i", none]⟩], [⟨"z", [some "i"]⟩]⟩)
private def fS : MFunc := mf "h" ["z"] ["s"] none
private def inOK : List (String × Val) := [("x", .arr [3] (ints 3)), ("w", .arr [2] (ints 2))]

example : InClass [fS, fY, fZ] inOK = true ∧ NoInternal [fS, fY, fZ] = true ∧ RequestOK [fS, fY, fZ] inOK [] = true := by decide
/-- answered, by the theorem -/
example : ∃ r, runMap [fS, fY, fZ] inOK [] = .ok r := (C01_never_refused_plain _ _ _ (by decide) (by decide)).mpr (by decide)
/-- a rank mismatch: refused, by the theorem, with no hypothesis evaluated on the description -/
example : ∃ e, runMap [fS, fY, fZ] [("x", .arr [3, 1] (ints 3)), ("w", .arr [2] (ints 2))] [] = .error e :=
  (C01_refused_iff_plain _ _ _ (by decide) (by decide)).mpr (Or.inr (Or.inr (Or.inr (Or.inr (by decide)))))
example : DescOK [fS, fY, fZ] inOK [] = ReturnsDeclared [fS, fY, fZ] inOK [] := C01_desc_residual _ _ _ (by decide) (by decide)

/-- `c -> v[j]` declared with 2 elements, returning `ret`; `v[j], x[i] -> a[k, j, i]` with an internal axis of declared size 2 in
    front, returning `ret'` -/
private def gen (ret : List Nat) : MFunc := mf "gen" ["c"] ["v"] (some ⟨[], [⟨"v", [some "j"]⟩]⟩) (some ret) (some [2])
private def fA (ret : List Nat) : MFunc :=
  mf "t" ["v", "x"] ["a"] (some ⟨[⟨"v", [some "j"]⟩, ⟨"x", [some "i"]⟩], [⟨"a", [some "k", some "j", some "i"]⟩]⟩) (some ret) (some [2])
private def in2 : List (String × Val) := [("c", .int 7), ("x", .arr [3] (ints 3))]

/-- with internal axes the residual is what remains: in the class, request checks pass, and `DescOK` holds because the functions
    return what they declare … -/
example : InClass [fA [2], gen [2]] in2 = true ∧ NoInternal [fA [2], gen [2]] = false ∧ RequestOK [fA [2], gen [2]] in2 [] = true ∧
    ReturnsDeclared [fA [2], gen [2]] in2 [] = true ∧ DescOK [fA [2], gen [2]] in2 [] = true := by decide
example : (∃ r, runMap [fA [2], gen [2]] in2 [] = .ok r) ↔ RequestOK [fA [2], gen [2]] in2 [] = true :=
  C01_never_refused_class _ _ _ (by decide) (fun _ => by decide)
example : ∃ e, runMap [fA [2], gen [2]] [("c", .int 7), ("x", .int 3)] [] = .error e :=
  (C01_refused_iff_class _ _ _ (by decide) (fun h => absurd h (by decide))).mpr (Or.inr (Or.inr (Or.inr (Or.inl (by decide)))))
/-- … and fails exactly through the residual when a generator (witness 1 of Props/C01Refusal.lean) or a mapped function with an
    internal axis returns another shape than declared -/
example : InClass [fA [2], gen [3]] in2 = true ∧ RequestOK [fA [2], gen [3]] in2 [] = true ∧
    ReturnsDeclared [fA [2], gen [3]] in2 [] = false ∧ DescOK [fA [2], gen [3]] in2 [] = false := by decide
example : InClass [fA [3], gen [2]] in2 = true ∧ RequestOK [fA [3], gen [2]] in2 [] = true ∧
    ReturnsDeclared [fA [3], gen [2]] in2 [] = false ∧ DescOK [fA [3], gen [2]] in2 [] = false := by decide
example : ReturnsDeclared [fA [2], gen [2]] in2 [] = true := C01_returns_declared_of_desc _ _ _ (by decide)
/-- the table-free residual: `gen` declares `internal_shape = (2,)` and returns `[2]`; `t` has one internal axis (`k`) of declared size 2 -/
example : RetSyntactic [fA [2], gen [2]] [] = true ∧ RetSyntactic [fA [2], gen [3]] [] = false ∧ RetSyntactic [fA [3], gen [2]] [] = false := by
  decide
example : ReturnsDeclared [fA [2], gen [3]] in2 [] = RetSyntactic [fA [2], gen [3]] [] :=
  C01_returns_declared_syntactic _ _ _ (by decide) (by decide)
example : (∃ r, runMap [fA [2], gen [2]] in2 [] = .ok r) ↔ RequestOK [fA [2], gen [2]] in2 [] = true :=
  C01_never_refused_syntactic _ _ _ (by decide) (by decide)
/-- a missing internal shape (the user passes none and `gen` declares none): refused, by the theorem — `RetSyntactic` then asks `gen`
    to return `[0]`-shaped arrays, which `genNoInt` does, so the hypothesis holds and the refusal is derived -/
example :
    let genNoInt : MFunc := { gen [0] with internal := none }
    ∃ e, runMap [fA [2], genNoInt] in2 [] = .error e :=
  (C01_refused_iff_syntactic _ _ _ (by decide) (by decide)).mpr (Or.inr (Or.inr (Or.inr (Or.inr (by decide)))))

/-- **Boundary of the class (1)**: an index name twice in one input ArraySpec, `x[i, i] -> d[i]` on a 2×3 array.  The request
    checks pass (`MapSpec.shape` reads the size of `i` off the FIRST axis carrying it), the model — and pipefunc — answer with the
    "diagonal" `x[0,0], x[1,1]`, nothing is declared about returns, yet `DescOK` is false (`axesOK` wants every axis named `i` to have
    the size of `i`): outside `firstOcc` the equation `DescOK = ReturnsDeclared` fails.  On a 3×2 array the same pipeline passes the
    request checks and is refused at run time (index 2 on an axis of size 2): there `C01_never_refused_class` would be false, so the
    clause is necessary. -/
example :
    let fD := mf "diag" ["x"] ["d"] (some ⟨[⟨"x", [some "i", some "i"]⟩], [⟨"d", [some "i"]⟩]⟩)
    let x23 : List (String × Val) := [("x", .arr [2, 3] (ints 6))]
    let x32 : List (String × Val) := [("x", .arr [3, 2] (ints 6))]
    InClass [fD] x23 = false ∧ NoInternal [fD] = true ∧ RequestOK [fD] x23 [] = true ∧ ReturnsDeclared [fD] x23 [] = true ∧
    DescOK [fD] x23 [] = false ∧ (runMap [fD] x23 []).toOption.isSome = true ∧
    RequestOK [fD] x32 [] = true ∧ (runMap [fD] x32 []).toOption.isNone = true := by decide

/-- **Boundary of the class (2)**: an array default for a mapped root that is also supplied, with another length
    (DF-C01-array-defaults): request checks pass, the model answers, `DescOK` is false through `valuesTyped` of the defaults. -/
example :
    let f0 : MFunc := { mf "f0" ["x"] ["y"] (some ⟨[⟨"x", [some "i"]⟩], [⟨"y", [some "i"]⟩]⟩) with defaults := [("x", .arr [4] (ints 4))] }
    let inp : List (String × Val) := [("x", .arr [3] (ints 3))]
    InClass [f0] inp = false ∧ RequestOK [f0] inp [] = true ∧ ReturnsDeclared [f0] inp [] = true ∧ DescOK [f0] inp [] = false ∧
    (runMap [f0] inp []).toOption.isSome = true := by decide

/-- … while a default of the shape of the supplied value (or a default that is itself the value used) stays inside the class -/
example :
    let f0 : MFunc := { mf "f0" ["x"] ["y"] (some ⟨[⟨"x", [some "i"]⟩], [⟨"y", [some "i"]⟩]⟩) with defaults := [("x", .arr [3] (ints 3))] }
    InClass [f0] [("x", .arr [3] (ints 3))] = true ∧ InClass [f0] [] = true ∧ NoInternal [f0] = true ∧ RequestOK [f0] [] [] = true ∧
    DescOK [f0] [] [] = true := by decide

end Examples

end PF.C01
