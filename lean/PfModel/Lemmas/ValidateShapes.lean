import PfModel.Lemmas.MapTotal
import PfModel.Lemmas.Validate
/-!
C12, clause "array inputs whose rank or zipped dimensions contradict the MapSpecs": the converse of `PF.C01.mapShapes_ok`.
`PF.Map.mapShapes` (the model of `map_shapes` / `MapSpec.shape`) refuses **iff** a root array is missing / not an array
(`rootArrays = false`) or some function's MapSpec fails against the shapes recorded so far (`shapesOK = false`), and what the
latter means, check by check.  Loop invariants for the `for` loops of `mapShapes` / `mspecShape`: generic `forIn` lemmas stated
for *any* body that behaves like the real one (the `∀ body` trick of `Lemmas/MapTotal.lean`).
-/
namespace PF.Validate
open PF PF.Map PF.C01

/-! ### generic: a failing `M` computation, loops that fail -/

theorem refused_bind {α β} (x : M α) (k : α → M β) (h : Refused x) : Refused (x >>= k) := by
  obtain ⟨e, rfl⟩ := h
  exact ⟨e, rfl⟩

theorem not_refused_ok {ε α} (v : α) : ¬ Refused (Except.ok v : Except ε α) := by
  rintro ⟨e, h⟩; cases h

/-- the loop invariant as a recursive predicate: every iteration is `good` in the state it is entered with -/
def loopOK {α γ : Type} (good : γ → α → Bool) (step : γ → α → γ) : List α → γ → Bool
  | [], _ => true
  | a :: r, c => good c a && loopOK good step r (step c a)

/-- a `for` loop over `l` whose body simulates `step` while `good` and raises otherwise: it raises iff some iteration is not good -/
theorem forIn_loop_fail {α β γ : Type} (l : List α) (body : α → β → M (ForInStep β)) (good : γ → α → Bool) (step : γ → α → γ)
    (abs : γ → β)
    (h1 : ∀ a ∈ l, ∀ c, good c a = true → body a (abs c) = .ok (.yield (abs (step c a))))
    (h2 : ∀ a ∈ l, ∀ c, good c a = false → Refused (body a (abs c)))
    (c : γ) (hbad : loopOK good step l c = false) : Refused (forIn l (abs c) body) := by
  induction l generalizing c with
  | nil => simp [loopOK] at hbad
  | cons a as ih =>
    rw [List.forIn_cons]
    cases hg : good c a with
    | false =>
      obtain ⟨e, he⟩ := h2 a List.mem_cons_self c hg
      rw [he]; exact ⟨e, rfl⟩
    | true =>
      rw [h1 a List.mem_cons_self c hg]
      simp only [loopOK, hg, Bool.true_and] at hbad
      simp only [bind, Except.bind]
      exact ih (fun x hx => h1 x (List.mem_cons_of_mem _ hx)) (fun x hx => h2 x (List.mem_cons_of_mem _ hx)) _ hbad

theorem loopOK_const {α γ : Type} (good : α → Bool) (step : γ → α → γ) (l : List α) (c : γ) :
    loopOK (fun _ a => good a) step l c = l.all good := by
  induction l generalizing c with
  | nil => rfl
  | cons a as ih => simp only [loopOK, List.all_cons, ih]

theorem shapesOK_eq_loopOK (internal : List (String × List Nat)) (l : List MFunc) (t : Tbl) :
    shapesOK internal l t = loopOK (stepOK internal) (stepTbl internal) l t := by
  induction l generalizing t with
  | nil => rfl
  | cons f r ih => simp only [shapesOK, loopOK, ih]

/-! ### `MapSpec.shape` refuses when one of its checks fails -/

theorem go_err (ms : MSpec) (S T : List (String × List Nat)) (internal : List (String × List Nat)) (out : ASpec)
    (hS : ∀ a ∈ ms.inputs, alookup S a.name = alookup T a.name)
    (hall : ∀ a ∈ ms.inputs, (alookup T a.name).isSome = true) :
    ∀ (axes : List String) (k : Nat), goOK ms T (alookup internal out.name) axes k = false →
      Refused (mspecShape.go ms S internal out axes k) := by
  intro axes
  induction axes with
  | nil => intro k h; simp [goOK] at h
  | cons ix rest ih =>
    intro k h
    rw [mspecShape.go, commonDim_eq ms ix S T hS hall]
    simp only [goOK] at h
    cases hd : outDims ms T ix with
    | nil =>
      simp only [hd] at h
      simp only [bind, Except.bind]
      cases hi : alookup internal out.name with
      | none => exact ⟨_, rfl⟩
      | some ish =>
        simp only []
        cases hk : ish[k]? with
        | none => exact ⟨_, rfl⟩
        | some d =>
          simp only []
          have hlt : k < ish.length := by
            rcases Nat.lt_or_ge k ish.length with h' | h'
            · exact h'
            · rw [List.getElem?_eq_none h'] at hk; cases hk
          simp only [hi, hlt, decide_true, Bool.true_and] at h
          rw [hi] at ih
          obtain ⟨e, he⟩ := ih (k + 1) h
          rw [he]; exact ⟨e, rfl⟩
    | cons d ds =>
      simp only [hd] at h
      simp only []
      cases hall' : ds.all (· = d) with
      | false => simp only [Bool.false_eq_true, ↓reduceIte, bind, Except.bind]; exact ⟨_, rfl⟩
      | true =>
        simp only [hall', Bool.true_and] at h
        obtain ⟨e, he⟩ := ih k h
        simp only [↓reduceIte, bind, Except.bind, he]
        exact ⟨e, rfl⟩

/-- the rank test of `_validate_shapes` for one MapSpec input against the table `T` -/
def inputOK (T : List (String × List Nat)) (a : ASpec) : Bool :=
  match alookup T a.name with
  | some sh => sh.length == a.axes.length
  | none => false

theorem forIn_unit_fail {α : Type} (l : List α) (body : α → PUnit.{1} → M (ForInStep PUnit.{1})) (good : α → Bool)
    (h1 : ∀ a ∈ l, good a = true → body a PUnit.unit = .ok (.yield PUnit.unit))
    (h2 : ∀ a ∈ l, good a = false → Refused (body a PUnit.unit))
    (hbad : l.all good = false) : Refused (forIn l PUnit.unit body) := by
  have := forIn_loop_fail l body (fun (_ : PUnit.{1}) a => good a) (fun c _ => c) id
    (fun a ha c hg => h1 a ha hg) (fun a ha c hg => h2 a ha hg) PUnit.unit (by rw [loopOK_const]; exact hbad)
  exact this

theorem mspecShape_err (ms : MSpec) (S T : List (String × List Nat)) (internal : List (String × List Nat))
    (hS : ∀ a ∈ ms.inputs, alookup S a.name = alookup T a.name)
    (hbad : (ms.inputs.all (inputOK T) && goOK ms T (alookup internal (ms.outputs.headD default).name) ms.outputIndices 0) = false) :
    Refused (mspecShape ms S internal) := by
  unfold mspecShape
  cases hin : ms.inputs.all (inputOK T) with
  | false =>
    apply refused_bind
    apply forIn_unit_fail ms.inputs _ (inputOK T) _ _ hin
    · intro a ha hg
      rw [hS a ha]
      unfold inputOK at hg
      cases hl : alookup T a.name with
      | none => simp [hl] at hg
      | some sh =>
        simp only [hl, beq_iff_eq] at hg
        simp [hg, pure, Except.pure]
    · intro a ha hg
      rw [hS a ha]
      unfold inputOK at hg
      cases hl : alookup T a.name with
      | none => exact ⟨_, rfl⟩
      | some sh =>
        simp only [hl, beq_eq_false_iff_ne] at hg
        simp only []
        rw [if_pos hg]
        exact ⟨_, rfl⟩
  | true =>
    simp only [hin, Bool.true_and] at hbad
    have hall : ∀ a ∈ ms.inputs, (alookup T a.name).isSome = true := by
      intro a ha
      have := List.all_eq_true.mp hin a ha
      unfold inputOK at this
      cases hl : alookup T a.name with
      | none => simp [hl] at this
      | some sh => rfl
    have hloop : ∀ body : ASpec → PUnit → M (ForInStep PUnit), (∀ a ∈ ms.inputs, body a PUnit.unit = .ok (.yield PUnit.unit)) →
        forIn ms.inputs PUnit.unit body = .ok PUnit.unit := by
      intro body hb
      exact forIn_sim ms.inputs body (fun (c : PUnit) _ => c) id (fun a ha c => hb a ha) PUnit.unit
    rw [hloop]
    · simp only [bind, Except.bind]
      exact go_err ms S T internal _ hS hall _ 0 hbad
    · intro a ha
      rw [hS a ha]
      have := List.all_eq_true.mp hin a ha
      unfold inputOK at this
      cases hl : alookup T a.name with
      | none => simp [hl] at this
      | some sh =>
        simp only [hl, beq_iff_eq] at this
        simp [this, pure, Except.pure]

theorem stepOK_eq (internal : List (String × List Nat)) (t : Tbl) (f : MFunc) :
    stepOK internal t f = match f.mapspec with
      | none => true
      | some ms => ms.inputs.all (inputOK (C01.shapesOf t)) && goOK ms (C01.shapesOf t) (ishOf ms internal) ms.outputIndices 0 := by
  unfold stepOK
  cases f.mapspec with
  | none => rfl
  | some ms => rfl

/-! ### `map_shapes` refuses iff a root array is missing or a MapSpec check fails -/

theorem mapShapes_refused_iff (fs : List MFunc) (inputs : List (String × Val)) (internal : List (String × List Nat)) :
    Refused (mapShapes fs inputs internal) ↔
      (rootArrays fs inputs = false ∨ shapesOK internal (generations fs).flatten (rootTbl fs inputs) = false) := by
  constructor
  · intro h
    cases hr : rootArrays fs inputs with
    | false => exact Or.inl rfl
    | true =>
      cases hs : shapesOK internal (generations fs).flatten (rootTbl fs inputs) with
      | false => exact Or.inr rfl
      | true =>
        rw [mapShapes_ok fs inputs internal hr hs] at h
        exact (not_refused_ok _ h).elim
  · intro h
    unfold mapShapes
    simp only []
    cases hr : rootArrays fs inputs with
    | false =>
      apply refused_bind
      refine forIn_loop_fail (rootArgs fs) _
        (fun (_ : Tbl) p => !(mapspecNames fs).contains p || ((alookup (inputs ++ pdefaults fs) p).bind shapeOf).isSome)
        (rootStep fs inputs) (fun c : Tbl => (C01.shapesOf c, masksOf c)) ?_ ?_ ([] : Tbl) ?_
      · intro p _ c this
        unfold rootStep
        by_cases hc : (mapspecNames fs).contains p = true
        · simp only [hc, Bool.not_true, Bool.false_or] at this
          simp only [hc, ↓reduceIte]
          cases hl : alookup (inputs ++ pdefaults fs) p with
          | none => simp [hl] at this
          | some v =>
            cases hv : shapeOf v with
            | none => simp [hl, hv] at this
            | some sh => simp [hv, C01.shapesOf, masksOf, pure, Except.pure]
        · simp only [hc]
          rfl
      · intro p _ c this
        have hc : (mapspecNames fs).contains p = true := by
          cases h' : (mapspecNames fs).contains p with
          | true => rfl
          | false => rw [h'] at this; simp at this
        simp only [hc, Bool.not_true, Bool.false_or] at this
        simp only [hc, ↓reduceIte]
        cases hl : alookup (inputs ++ pdefaults fs) p with
        | none => exact ⟨_, rfl⟩
        | some v =>
          simp only []
          cases hv : shapeOf v with
          | none => exact ⟨_, rfl⟩
          | some sh => simp [hl, hv] at this
      · rw [loopOK_const]; exact hr
    | true =>
      have hs : shapesOK internal (generations fs).flatten (rootTbl fs inputs) = false := by
        rcases h with h | h
        · rw [hr] at h; cases h
        · exact h
      have hloop1 : ∀ body : String → (List (String × List Nat) × List (String × List Bool)) → M (ForInStep _),
          (∀ p ∈ rootArgs fs, ∀ c : Tbl, body p (C01.shapesOf c, masksOf c) =
            .ok (.yield (C01.shapesOf (rootStep fs inputs c p), masksOf (rootStep fs inputs c p)))) →
          forIn (rootArgs fs) (([] : List (String × List Nat)), ([] : List (String × List Bool))) body =
            .ok (C01.shapesOf (rootTbl fs inputs), masksOf (rootTbl fs inputs)) := by
        intro body hb
        exact forIn_sim (rootArgs fs) body (rootStep fs inputs) (fun c : Tbl => (C01.shapesOf c, masksOf c)) hb []
      rw [hloop1]
      · simp only [bind, Except.bind]
        apply refused_bind
        refine forIn_loop_fail (generations fs).flatten _ (stepOK internal) (stepTbl internal)
          (fun c : Tbl => (C01.shapesOf c, masksOf c)) ?_ ?_ (rootTbl fs inputs) (by rw [← shapesOK_eq_loopOK]; exact hs)
        · intro f _ c hok
          unfold stepOK at hok
          unfold stepTbl
          cases hm : f.mapspec with
          | none => rfl
          | some ms =>
            simp only [hm, Bool.and_eq_true] at hok
            simp only []
            rw [mspecShape_ok ms _ (C01.shapesOf c) _ (fun a ha => alookup_inShapes (C01.shapesOf c) ms.inputs a ha) hok.1 hok.2]
            simp only []
            have hin : ∀ (e : List Nat × List Bool)
                (body : String → (List (String × List Nat) × List (String × List Bool)) → M (ForInStep _)),
                (∀ o ∈ f.outputs, ∀ t : Tbl, body o (C01.shapesOf t, masksOf t) =
                  .ok (.yield (C01.shapesOf (t ++ [(o, e)]), masksOf (t ++ [(o, e)])))) →
                forIn f.outputs (C01.shapesOf c, masksOf c) body =
                  .ok (C01.shapesOf (c ++ f.outputs.map fun o => (o, e)), masksOf (c ++ f.outputs.map fun o => (o, e))) := by
              intro e body hb
              have := forIn_sim f.outputs body (fun (t : Tbl) o => t ++ [(o, e)]) (fun t : Tbl => (C01.shapesOf t, masksOf t)) hb c
              rw [foldl_snoc (fun o => (o, e))] at this
              exact this
            rw [hin (funcShape ms c internal)]
            · rfl
            · intro o _ t
              simp [C01.shapesOf, masksOf, pure, Except.pure, funcShape, ishOf]
        · intro f _ c hbad
          rw [stepOK_eq] at hbad
          cases hm : f.mapspec with
          | none => simp [hm] at hbad
          | some ms =>
            simp only [hm] at hbad
            simp only []
            apply refused_bind
            exact mspecShape_err ms _ (C01.shapesOf c) _ (fun a ha => alookup_inShapes (C01.shapesOf c) ms.inputs a ha) hbad
      · intro p hp c
        have := List.all_eq_true.mp hr p hp
        unfold rootStep
        by_cases hc : (mapspecNames fs).contains p = true
        · simp only [hc, Bool.not_true, Bool.false_or] at this
          simp only [hc, ↓reduceIte]
          cases hl : alookup (inputs ++ pdefaults fs) p with
          | none => simp [hl] at this
          | some v =>
            cases hv : shapeOf v with
            | none => simp [hl, hv] at this
            | some sh => simp [hv, C01.shapesOf, masksOf, pure, Except.pure]
        · simp only [hc]
          rfl

/-! ### what a failing / passing `shapesOK` means, check by check -/

theorem shapesOK_true_iff (internal : List (String × List Nat)) (l : List MFunc) (t : Tbl) :
    shapesOK internal l t = true ↔
      ∀ pre f post, l = pre ++ f :: post → stepOK internal (tblFrom internal pre t) f = true := by
  induction l generalizing t with
  | nil => simp [shapesOK]
  | cons g r ih =>
    simp only [shapesOK, Bool.and_eq_true, ih]
    constructor
    · rintro ⟨h1, h2⟩ pre f post hs
      cases pre with
      | nil =>
        simp only [List.nil_append, List.cons.injEq] at hs
        obtain ⟨rfl, _⟩ := hs
        simpa [tblFrom] using h1
      | cons p pre =>
        simp only [List.cons_append, List.cons.injEq] at hs
        obtain ⟨rfl, hr⟩ := hs
        simpa [tblFrom] using h2 pre f post hr
    · intro h
      refine ⟨by simpa [tblFrom] using h [] g r rfl, fun pre f post hs => ?_⟩
      simpa [tblFrom] using h (g :: pre) f post (by simp [hs])

theorem shapesOK_false_iff (internal : List (String × List Nat)) (l : List MFunc) (t : Tbl) :
    shapesOK internal l t = false ↔
      ∃ pre f post, l = pre ++ f :: post ∧ stepOK internal (tblFrom internal pre t) f = false := by
  rw [← Bool.not_eq_true, shapesOK_true_iff]
  constructor
  · intro h
    apply Classical.byContradiction
    intro hn
    apply h
    intro pre f post hs
    cases hst : stepOK internal (tblFrom internal pre t) f with
    | true => rfl
    | false => exact (hn ⟨pre, f, post, hs, hst⟩).elim
  · rintro ⟨pre, f, post, hs, hst⟩ h
    rw [h pre f post hs] at hst
    cases hst

/-- number of internal axes (indices no input carries) among `pre` -/
def internalBefore (ms : MSpec) (T : List (String × List Nat)) (pre : List String) : Nat :=
  (pre.filter fun j => (outDims ms T j).isEmpty).length

/-- what `MapSpec.shape` refuses for the output index `ix`, `n` internal axes before it: the inputs that carry `ix` disagree on
    its size (unequal zipped dimensions), or no input carries it and there is no `n`-th internal size -/
def IndexFault (ms : MSpec) (T : List (String × List Nat)) (ish : Option (List Nat)) (ix : String) (n : Nat) : Prop :=
  match outDims ms T ix with
  | d :: ds => ∃ d' ∈ ds, d' ≠ d
  | [] => ∀ l, ish = some l → l.length ≤ n

theorem goOK_false_iff (ms : MSpec) (T : List (String × List Nat)) (ish : Option (List Nat)) :
    ∀ (axes : List String) (k : Nat), goOK ms T ish axes k = false ↔
      ∃ pre ix post, axes = pre ++ ix :: post ∧ IndexFault ms T ish ix (k + internalBefore ms T pre) := by
  intro axes
  induction axes with
  | nil => intro k; simp [goOK]
  | cons ix rest ih =>
    intro k
    simp only [goOK]
    cases hd : outDims ms T ix with
    | cons d ds =>
      simp only [Bool.and_eq_false_iff, ih k]
      constructor
      · rintro (h | ⟨pre, jx, post, hs, hf⟩)
        · refine ⟨[], ix, rest, rfl, ?_⟩
          simp only [IndexFault, hd]
          simpa [List.all_eq_false] using h
        · refine ⟨ix :: pre, jx, post, by simp [hs], ?_⟩
          simpa [internalBefore, List.filter_cons, hd] using hf
      · rintro ⟨pre, jx, post, hs, hf⟩
        cases pre with
        | nil =>
          simp only [List.nil_append, List.cons.injEq] at hs
          obtain ⟨rfl, _⟩ := hs
          simp only [IndexFault, hd] at hf
          left; simpa [List.all_eq_false] using hf
        | cons p pre =>
          simp only [List.cons_append, List.cons.injEq] at hs
          obtain ⟨rfl, hr⟩ := hs
          right
          refine ⟨pre, jx, post, hr, ?_⟩
          simpa [internalBefore, List.filter_cons, hd] using hf
    | nil =>
      simp only [Bool.and_eq_false_iff, ih (k + 1)]
      constructor
      · rintro (h | ⟨pre, jx, post, hs, hf⟩)
        · refine ⟨[], ix, rest, rfl, ?_⟩
          simp only [IndexFault, hd, internalBefore, List.filter_nil, List.length_nil, Nat.add_zero]
          intro l hl
          subst hl
          simpa using h
        · refine ⟨ix :: pre, jx, post, by simp [hs], ?_⟩
          have : k + internalBefore ms T (ix :: pre) = k + 1 + internalBefore ms T pre := by
            simp [internalBefore, List.filter_cons, hd]; omega
          rw [this]; exact hf
      · rintro ⟨pre, jx, post, hs, hf⟩
        cases pre with
        | nil =>
          simp only [List.nil_append, List.cons.injEq] at hs
          obtain ⟨rfl, _⟩ := hs
          simp only [IndexFault, hd, internalBefore, List.filter_nil, List.length_nil, Nat.add_zero] at hf
          left
          cases ish with
          | none => rfl
          | some l => have := hf l rfl; simp; omega
        | cons p pre =>
          simp only [List.cons_append, List.cons.injEq] at hs
          obtain ⟨h0, hr⟩ := hs
          rw [← h0] at hf
          right
          refine ⟨pre, jx, post, hr, ?_⟩
          have : k + internalBefore ms T (ix :: pre) = k + 1 + internalBefore ms T pre := by
            simp [internalBefore, List.filter_cons, hd]; omega
          rw [this] at hf; exact hf

/-- a passing `goOK`: the inputs that carry an output index agree on its size -/
theorem goOK_zipped (ms : MSpec) (T : List (String × List Nat)) (ish : Option (List Nat)) :
    ∀ (axes : List String) (k : Nat), goOK ms T ish axes k = true →
      ∀ ix ∈ axes, ∀ d ∈ outDims ms T ix, ∀ d' ∈ outDims ms T ix, d = d' := by
  intro axes k h ix hix d hd d' hd'
  apply Classical.byContradiction
  intro hne
  have hf : goOK ms T ish axes k = false := by
    rw [goOK_false_iff]
    obtain ⟨pre, post, hs⟩ := List.append_of_mem hix
    refine ⟨pre, ix, post, hs, ?_⟩
    unfold IndexFault
    cases ho : outDims ms T ix with
    | nil => rw [ho] at hd; cases hd
    | cons e es =>
      simp only []
      rw [ho] at hd hd'
      by_cases h1 : d = e
      · by_cases h2 : d' = e
        · exact (hne (h1.trans h2.symm)).elim
        · rcases List.mem_cons.mp hd' with h3 | h3
          · exact (h2 h3).elim
          · exact ⟨d', h3, h2⟩
      · rcases List.mem_cons.mp hd with h3 | h3
        · exact (h1 h3).elim
        · exact ⟨d, h3, h1⟩
  rw [h] at hf; cases hf

/-! ### the table of root arrays -/

theorem rootStep_preserved (fs : List MFunc) (inputs : List (String × Val)) (t : Tbl) (q p : String) (e : List Nat × List Bool)
    (h : alookup t p = some e) : alookup (rootStep fs inputs t q) p = some e := by
  unfold rootStep
  split
  · split
    · rw [alookup_append, h]
    · exact h
  · exact h

theorem foldl_rootStep_preserved (fs : List MFunc) (inputs : List (String × Val)) (l : List String) (t : Tbl) (p : String)
    (e : List Nat × List Bool) (h : alookup t p = some e) : alookup (l.foldl (rootStep fs inputs) t) p = some e := by
  induction l generalizing t with
  | nil => exact h
  | cons q l ih => exact ih _ (rootStep_preserved fs inputs t q p e h)

theorem foldl_rootStep_lookup (fs : List MFunc) (inputs : List (String × Val)) (p : String) (sh : List Nat)
    (hm : (mapspecNames fs).contains p = true) (hv : (alookup (inputs ++ pdefaults fs) p).bind shapeOf = some sh) :
    ∀ (l : List String) (t : Tbl), p ∈ l → alookup t p = none →
      alookup (l.foldl (rootStep fs inputs) t) p = some (sh, sh.map fun _ => true) := by
  intro l
  induction l with
  | nil => intro t hp; cases hp
  | cons q l ih =>
    intro t hp ht
    by_cases hq : q = p
    · subst hq
      rw [List.foldl_cons]
      apply foldl_rootStep_preserved
      unfold rootStep
      rw [if_pos hm, hv]
      simp only [alookup_append, ht, alookup, ↓reduceIte]
    · have hp' : p ∈ l := by
        rcases List.mem_cons.mp hp with h | h
        · exact (hq h.symm).elim
        · exact h
      rw [List.foldl_cons]
      apply ih _ hp'
      unfold rootStep
      split
      · split
        · simp only [alookup_append, ht, alookup, hq, ↓reduceIte]
        · exact ht
      · exact ht

/-- a root argument named in a MapSpec and given as an array of shape `sh` is recorded with that shape -/
theorem rootTbl_lookup (fs : List MFunc) (inputs : List (String × Val)) (p : String) (sh : List Nat) (hp : p ∈ rootArgs fs)
    (hm : (mapspecNames fs).contains p = true) (hv : (alookup (inputs ++ pdefaults fs) p).bind shapeOf = some sh) :
    alookup (rootTbl fs inputs) p = some (sh, sh.map fun _ => true) :=
  foldl_rootStep_lookup fs inputs p sh hm hv (rootArgs fs) [] hp rfl

theorem tblFrom_preserved (internal : List (String × List Nat)) (l : List MFunc) (t : Tbl) (p : String) (e : List Nat × List Bool)
    (h : alookup t p = some e) : alookup (tblFrom internal l t) p = some e := by
  induction l generalizing t with
  | nil => exact h
  | cons f l ih =>
    simp only [tblFrom, List.foldl_cons]
    apply ih
    unfold stepTbl
    split
    · exact h
    · rw [alookup_append, h]

/-! ### on an acyclic pipeline the Kahn layering reaches every function -/

theorem filter_pair_le {α} (l : List α) (a b : α → Bool) (hab : ∀ x ∈ l, a x = true → b x = false) :
    (l.filter a).length + (l.filter b).length ≤ l.length := by
  induction l with
  | nil => simp
  | cons x l ih =>
    have ih' := ih (fun y hy => hab y (List.mem_cons_of_mem _ hy))
    have h3 := hab x (List.mem_cons_self ..)
    simp only [List.filter_cons]
    cases ha : a x <;> cases hb : b x <;> simp_all <;> omega

theorem filter_cover {α} (l : List α) (a b : α → Bool) (hab : ∀ x ∈ l, a x = true → b x = false)
    (hlen : (l.filter a).length + (l.filter b).length = l.length) : ∀ x ∈ l, a x = true ∨ b x = true := by
  induction l with
  | nil => intro x hx; cases hx
  | cons y l ih =>
    have hle := filter_pair_le l a b (fun z hz => hab z (List.mem_cons_of_mem _ hz))
    have h3 := hab y (List.mem_cons_self ..)
    simp only [List.filter_cons] at hlen
    intro x hx
    cases ha : a y <;> cases hb : b y <;> simp only [ha, hb, Bool.false_eq_true, ↓reduceIte, List.length_cons] at hlen
    · omega
    · rcases List.mem_cons.mp hx with rfl | hx
      · exact Or.inr hb
      · exact ih (fun z hz => hab z (List.mem_cons_of_mem _ hz)) (by omega) x hx
    · rcases List.mem_cons.mp hx with rfl | hx
      · exact Or.inl ha
      · exact ih (fun z hz => hab z (List.mem_cons_of_mem _ hz)) (by omega) x hx
    · rw [h3 ha] at hb; cases hb

theorem layers_cover (fs : List MFunc) : ∀ (fuel : Nat) (done : List String) (rest : List MFunc),
    (layers fs fuel done rest).flatten.length ≤ rest.length ∧
    ((layers fs fuel done rest).flatten.length = rest.length → ∀ f ∈ rest, f ∈ (layers fs fuel done rest).flatten) := by
  intro fuel
  induction fuel with
  | zero =>
    intro done rest
    simp only [layers, List.flatten_nil, List.length_nil, Nat.zero_le, true_and]
    intro h f hf
    have : rest = [] := List.length_eq_zero_iff.mp h.symm
    rw [this] at hf; cases hf
  | succ fuel ih =>
    intro done rest
    simp only [layers]
    split
    · simp only [List.flatten_nil, List.length_nil, Nat.zero_le, true_and]
      intro h f hf
      have : rest = [] := List.length_eq_zero_iff.mp h.symm
      rw [this] at hf; cases hf
    · split
      · simp only [List.flatten_nil, List.length_nil, Nat.zero_le, true_and]
        intro h f hf
        have : rest = [] := List.length_eq_zero_iff.mp h.symm
        rw [this] at hf; cases hf
      · generalize hready : (rest.filter fun f => (upstream fs f).all fun g => done.contains g) = ready
        obtain ⟨ih1, ih2⟩ := ih (done ++ ready.map (·.name)) (rest.filter fun f => !(ready.any (·.name = f.name)))
        have hab : ∀ x ∈ rest, ((upstream fs x).all fun g => done.contains g) = true → (!(ready.any (·.name = x.name))) = false := by
          intro x hx hax
          have hmem : x ∈ ready := by rw [← hready]; exact List.mem_filter.mpr ⟨hx, hax⟩
          have : ready.any (·.name = x.name) = true := by
            simp only [List.any_eq_true, decide_eq_true_eq]
            exact ⟨x, hmem, rfl⟩
          rw [this]; rfl
        have hle := filter_pair_le rest _ _ hab
        rw [hready] at hle
        simp only [List.flatten_cons, List.length_append]
        refine ⟨by omega, ?_⟩
        intro heq f hf
        have hcov := filter_cover rest _ _ hab (by rw [hready]; omega) f hf
        rcases hcov with h | h
        · exact List.mem_append.mpr (Or.inl (by rw [← hready]; exact List.mem_filter.mpr ⟨hf, h⟩))
        · exact List.mem_append.mpr (Or.inr (ih2 (by omega) f (List.mem_filter.mpr ⟨hf, h⟩)))

/-- `Pipeline._validate` passed (no cycle): every function is visited by `map_shapes` -/
theorem mem_flatten_of_acyclic (fs : List MFunc) (h : acyclic fs = true) (f : MFunc) (hf : f ∈ fs) :
    f ∈ (generations fs).flatten := by
  have := (layers_cover fs (fs.length + 1) [] fs).2
  unfold acyclic at h
  simp only [beq_iff_eq] at h
  exact this h f hf

end PF.Validate
