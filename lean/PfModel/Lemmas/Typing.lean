import PfModel.Model.Typing
/-!
Lemmas for C16: the declarative relation `Sub`, the value semantics `HasTy`, and the facts that tie `compat` to them.
-/
namespace PF.Typing

def Ty.isTV : Ty → Bool
  | .tvFree => true
  | .tvBound _ => true
  | .tvConstr _ => true
  | _ => false

/-- The subtype relation of the statement, as inference rules.  `refl`: reflexive.  `any_r`, `noann_l`, `noann_r`: `Any` or a
    missing annotation is compatible with everything.  `tv_l`: a TypeVar source is accepted (the documented TODO of
    `typing.py:220-224`).  `tv_free/tv_bound/tv_constr`: a TypeVar target stands for anything / its bound / one of its
    constraints.  `base`: nominal subclassing (`bool ≤ int`).  `gen`: covariant generics of equal arity; `gen_bare_*`: an
    unparametrised generic.  `union_l`: a union source needs all members accepted; `union_r`: a union target needs one.
    `annot_l/annot_r`: `Annotated` is transparent.  `array`: `Array` is covariant; `array_nd`: an `Array[T]` is an object
    ndarray; `nd_array`: an object ndarray without element annotation is accepted where `Array[T]` is required. -/
inductive Sub : Ty → Ty → Prop
  | refl {a} : Sub a a
  | any_r {a} : Sub a .any
  | noann_l {b} : Sub .noann b
  | noann_r {a} : Sub a .noann
  | tv_l {a b} : a.isTV = true → Sub a b
  | tv_free {a} : Sub a .tvFree
  | tv_bound {a t} : Sub a t → Sub a (.tvBound t)
  | tv_constr {a c cs} : c ∈ cs → Sub a c → Sub a (.tvConstr cs)
  | base {x y} : Base.sub x y = true → Sub (.base x) (.base y)
  | gen {g as bs} : as.length = bs.length → (∀ p ∈ as.zip bs, Sub p.1 p.2) → Sub (.gen g as) (.gen g bs)
  | gen_bare_l {g bs} : Sub (.gen g []) (.gen g bs)
  | gen_bare_r {g as} : Sub (.gen g as) (.gen g [])
  | union_l {as b} : (∀ a ∈ as, Sub a b) → Sub (.union as) b
  | union_r {a b bs} : b ∈ bs → Sub a b → Sub a (.union bs)
  | annot_l {p b} : Sub p b → Sub (.annot p) b
  | annot_r {a q} : Sub a q → Sub a (.annot q)
  | array {e f} : Sub e f → Sub (.array e) (.array f)
  | array_nd {e} : Sub (.array e) .ndarr
  | nd_array {f} : Sub .ndarr (.array f)

/-- unfold one step of `compat` in hypothesis `h`; the side conditions of the overlapping patterns are in the context -/
macro "unfc" h:ident : tactic => `(tactic| (rw [compat] at $h:ident <;> try first | assumption | (intros; contradiction)))
/-- unfold one step of `compat` in the goal -/
macro "unfg" : tactic => `(tactic| (rw [compat] <;> try first | assumption | (intros; contradiction)))

/-- `compat` only accepts what `Sub` derives. -/
theorem compat_sub : ∀ a b, compat a b = true → Sub a b := by
  intro a b
  refine compat.induct
    (motive1 := fun a b => compat a b = true → Sub a b)
    (motive2 := fun as bs => compatZip as bs = true → ∀ p ∈ as.zip bs, Sub p.1 p.2)
    (motive3 := fun as b => compatAll as b = true → ∀ a ∈ as, Sub a b)
    (motive4 := fun a bs => compatAny a bs = true → ∃ b ∈ bs, Sub a b)
    ?_ ?_ ?_ ?_ ?_ ?_ ?_ ?_ ?_ ?_ ?_ ?_ ?_ ?_ ?_ ?_ ?_ ?_ ?_ ?_ ?_ ?_ ?_ ?_ ?_ ?_ ?_ a b
  · intro p b ih h
    unfc h
    exact Sub.annot_l (ih h)
  · intro x _; exact Sub.tv_l rfl
  · intro a x _; exact Sub.tv_l rfl
  · intro a x _; exact Sub.tv_l rfl
  · intro x _ _ _ _ _; exact Sub.any_r
  · intro x _ _; exact Sub.noann_l
  · intro x _ _ _ _ _ _; exact Sub.noann_r
  · intro x _ _ _ _ _ _; exact Sub.tv_free
  · intro a t h1 h2 h3 h4 h5 ih h
    unfc h
    exact Sub.tv_bound (ih h)
  · intro as cs ih4 ih3 h
    unfc h
    simp only [Bool.or_eq_true] at h
    rcases h with h | h
    · obtain ⟨c, hc, hs⟩ := ih4 h
      exact Sub.tv_constr hc hs
    · exact Sub.union_l (ih3 h)
  · intro a cs h1 h2 h3 h4 h5 h6 ih4 h
    unfc h
    obtain ⟨c, hc, hs⟩ := ih4 h
    exact Sub.tv_constr hc hs
  · intro as b h1 h2 h3 h4 h5 ih3 h
    unfc h
    exact Sub.union_l (ih3 h)
  · intro a bs h1 h2 h3 h4 h5 h6 ih4 h
    unfc h
    obtain ⟨c, hc, hs⟩ := ih4 h
    exact Sub.union_r hc hs
  · intro e f ih h
    unfc h
    exact Sub.array (ih h)
  · intro a q h1 h2 h3 h4 h5 h6 ih h
    unfc h
    exact Sub.annot_r (ih h)
  · intro a b h1 h2 h3 h4 h5 h6 h7 h8 ih h
    unfc h
    cases b <;> simp_all [compat]
    exact Sub.array_nd
  · intro a f h1 h2 h3 h4 h5 h6 h7 ih h
    unfc h
    cases a <;> simp_all [compat]
    exact Sub.nd_array
  · intro x y h
    unfc h
    exact Sub.base h
  · intro g as h' bs ih h
    unfc h
    simp only [Bool.and_eq_true, Bool.or_eq_true, beq_iff_eq, List.isEmpty_iff] at h
    obtain ⟨rfl, h⟩ := h
    rcases h with (rfl | rfl) | ⟨hl, hz⟩
    · exact Sub.gen_bare_l
    · exact Sub.gen_bare_r
    · exact Sub.gen hl (ih hz)
  · intro _; exact Sub.refl
  · intro x y h1 h2 h3 h4 h5 h6 h7 h8 h9 h10 h11 h12 h13 h14 h15 h16 h17 h18 h19 h20 h
    unfc h
  · intro a as b bs ih1 ih2 h p hp
    rw [compatZip] at h
    simp only [Bool.and_eq_true] at h
    simp only [List.zip_cons_cons, List.mem_cons] at hp
    rcases hp with rfl | hp
    · exact ih1 h.1
    · exact ih2 h.2 p hp
  · intro x y hne _ p hp
    match x, y, hp with
    | [], _, hp => simp at hp
    | _ :: _, [], hp => simp at hp
    | a :: as, b :: bs, _ => exact absurd rfl (hne a as b bs rfl)
  · intro x _ a ha; simp at ha
  · intro a as b ih1 ih3 h a' ha'
    rw [compatAll] at h
    simp only [Bool.and_eq_true] at h
    simp only [List.mem_cons] at ha'
    rcases ha' with rfl | ha'
    · exact ih1 h.1
    · exact ih3 h.2 a' ha'
  · intro x h; rw [compatAny] at h; exact absurd h (by decide)
  · intro a b bs ih1 ih4 h
    rw [compatAny] at h
    simp only [Bool.or_eq_true] at h
    rcases h with h | h
    · exact ⟨b, List.mem_cons_self, ih1 h⟩
    · obtain ⟨c, hc, hs⟩ := ih4 h
      exact ⟨c, List.mem_cons_of_mem _ hc, hs⟩

/-! ### structural induction on `Ty` (a nested inductive: the `induction` tactic does not apply) -/
section Ind
set_option linter.unusedSectionVars false
variable {P : Ty → Prop}
  (hbase : ∀ x, P (.base x)) (hany : P .any) (hnoann : P .noann) (hndarr : P .ndarr)
  (hgen : ∀ g ts, (∀ t ∈ ts, P t) → P (.gen g ts)) (hunion : ∀ ts, (∀ t ∈ ts, P t) → P (.union ts))
  (hannot : ∀ t, P t → P (.annot t)) (harray : ∀ t, P t → P (.array t))
  (htvFree : P .tvFree) (htvBound : ∀ t, P t → P (.tvBound t)) (htvConstr : ∀ ts, (∀ t ∈ ts, P t) → P (.tvConstr ts))
include hbase hany hnoann hndarr hgen hunion hannot harray htvFree htvBound htvConstr

mutual
theorem Ty.ind' : (t : Ty) → P t
  | .base x => hbase x
  | .any => hany
  | .noann => hnoann
  | .ndarr => hndarr
  | .gen g ts => hgen g ts (Ty.indL' ts)
  | .union ts => hunion ts (Ty.indL' ts)
  | .annot t => hannot t (Ty.ind' t)
  | .array t => harray t (Ty.ind' t)
  | .tvFree => htvFree
  | .tvBound t => htvBound t (Ty.ind' t)
  | .tvConstr ts => htvConstr ts (Ty.indL' ts)
theorem Ty.indL' : (ts : List Ty) → ∀ t ∈ ts, P t
  | [] => fun _ h => absurd h (List.not_mem_nil)
  | t :: ts => fun x hx =>
      (List.mem_cons.mp hx).elim (fun h => h ▸ Ty.ind' t) (fun h => Ty.indL' ts x h)
end
end Ind

/-! ### list helpers -/
theorem compatAll_iff {as : List Ty} {b : Ty} : compatAll as b = true ↔ ∀ a ∈ as, compat a b = true := by
  induction as with
  | nil => simp [compatAll]
  | cons a as ih => rw [compatAll]; simp [Bool.and_eq_true, ih]

theorem compatAny_iff {a : Ty} {bs : List Ty} : compatAny a bs = true ↔ ∃ b ∈ bs, compat a b = true := by
  induction bs with
  | nil => simp [compatAny]
  | cons b bs ih => rw [compatAny]; simp [Bool.or_eq_true, ih]

theorem compatZip_of {as bs : List Ty} (h : ∀ p ∈ as.zip bs, compat p.1 p.2 = true) : compatZip as bs = true := by
  induction as generalizing bs with
  | nil => rw [compatZip]; intro a as b bs h; cases h
  | cons a as ih =>
    cases bs with
    | nil => rw [compatZip]; intro a as b bs _ h; cases h
    | cons b bs =>
      rw [compatZip, Bool.and_eq_true]
      exact ⟨h (a, b) (by simp), ih (fun p hp => h p (by simp [hp]))⟩

/-! ### `Any`, missing, TypeVars -/
theorem compat_any_r (a : Ty) : compat a .any = true := by
  refine Ty.ind' (P := fun a => compat a .any = true) ?_ ?_ ?_ ?_ ?_ ?_ ?_ ?_ ?_ ?_ ?_ a <;> intros <;> simp_all [compat]

theorem compat_noann_r (a : Ty) : compat a .noann = true := by
  refine Ty.ind' (P := fun a => compat a .noann = true) ?_ ?_ ?_ ?_ ?_ ?_ ?_ ?_ ?_ ?_ ?_ a <;> intros <;> simp_all [compat]

theorem compat_tvFree_r (a : Ty) : compat a .tvFree = true := by
  refine Ty.ind' (P := fun a => compat a .tvFree = true) ?_ ?_ ?_ ?_ ?_ ?_ ?_ ?_ ?_ ?_ ?_ a <;> intros <;> simp_all [compat]

theorem compat_noann_l (b : Ty) : compat .noann b = true := by
  cases b <;> simp [compat]

theorem compat_tv_l {a : Ty} (b : Ty) (h : a.isTV = true) : compat a b = true := by
  cases a <;> simp_all [compat, Ty.isTV]

/-- a bounded TypeVar target is its bound -/
theorem compat_tvBound (a t : Ty) : compat a (.tvBound t) = compat a t := by
  refine Ty.ind' (P := fun a => compat a (.tvBound t) = compat a t) ?_ ?_ ?_ ?_ ?_ ?_ ?_ ?_ ?_ ?_ ?_ a
  · intro x; unfg
  · unfg
  · rw [compat_noann_l, compat_noann_l]
  · unfg
  · intro g ts _; unfg
  · intro ts _; unfg
  · intro p ih; rw [compat, ih]; exact (by rw [compat] : compat p t = compat (.annot p) t)
  · intro e _; unfg
  · rw [compat_tv_l _ rfl, compat_tv_l _ rfl]
  · intro u _; rw [compat_tv_l _ rfl, compat_tv_l _ rfl]
  · intro cs _; rw [compat_tv_l _ rfl, compat_tv_l _ rfl]

/-- a constrained TypeVar target accepts what one of its constraints accepts -/
theorem compat_tvConstr_intro {a c : Ty} {cs : List Ty} (hc : c ∈ cs) : compat a c = true → compat a (.tvConstr cs) = true := by
  refine Ty.ind' (P := fun a => compat a c = true → compat a (.tvConstr cs) = true) ?_ ?_ ?_ ?_ ?_ ?_ ?_ ?_ ?_ ?_ ?_ a
  · intro x h; unfg; exact compatAny_iff.mpr ⟨c, hc, h⟩
  · intro h; unfg; exact compatAny_iff.mpr ⟨c, hc, h⟩
  · intro _; exact compat_noann_l _
  · intro h; unfg; exact compatAny_iff.mpr ⟨c, hc, h⟩
  · intro g ts _ h; unfg; exact compatAny_iff.mpr ⟨c, hc, h⟩
  · intro ts _ h; rw [compat, Bool.or_eq_true]; exact Or.inl (compatAny_iff.mpr ⟨c, hc, h⟩)
  · intro p ih h; rw [compat] at h ⊢; exact ih h
  · intro e _ h; unfg; exact compatAny_iff.mpr ⟨c, hc, h⟩
  · intro _; exact compat_tv_l _ rfl
  · intro u _ _; exact compat_tv_l _ rfl
  · intro cs' _ _; exact compat_tv_l _ rfl

/-- a union source is accepted exactly when every member is -/
theorem compat_union_l (as : List Ty) (b : Ty) : compat (.union as) b = true ↔ ∀ a ∈ as, compat a b = true := by
  refine Ty.ind' (P := fun b => compat (.union as) b = true ↔ ∀ a ∈ as, compat a b = true) ?_ ?_ ?_ ?_ ?_ ?_ ?_ ?_ ?_ ?_ ?_ b
  · intro x; unfg; exact compatAll_iff
  · simp [compat_any_r]
  · simp [compat_noann_r]
  · unfg; exact compatAll_iff
  · intro g ts _; unfg; exact compatAll_iff
  · intro ts _; unfg; exact compatAll_iff
  · intro q _; unfg; exact compatAll_iff
  · intro f _; unfg; exact compatAll_iff
  · simp [compat_tvFree_r]
  · intro t ih; simp only [compat_tvBound]; exact ih
  · intro cs ih
    rw [compat, Bool.or_eq_true]
    constructor
    · rintro (h | h)
      · obtain ⟨c, hc, hcu⟩ := compatAny_iff.mp h
        intro a ha
        exact compat_tvConstr_intro hc ((ih c hc).mp hcu a ha)
      · exact compatAll_iff.mp h
    · intro h; exact Or.inr (compatAll_iff.mpr h)

/-- a union target accepts what one of its members accepts -/
theorem compat_union_r {a b : Ty} {bs : List Ty} (hb : b ∈ bs) : compat a b = true → compat a (.union bs) = true := by
  refine Ty.ind' (P := fun a => compat a b = true → compat a (.union bs) = true) ?_ ?_ ?_ ?_ ?_ ?_ ?_ ?_ ?_ ?_ ?_ a
  · intro x h; unfg; exact compatAny_iff.mpr ⟨b, hb, h⟩
  · intro h; unfg; exact compatAny_iff.mpr ⟨b, hb, h⟩
  · intro _; exact compat_noann_l _
  · intro h; unfg; exact compatAny_iff.mpr ⟨b, hb, h⟩
  · intro g ts _ h; unfg; exact compatAny_iff.mpr ⟨b, hb, h⟩
  · intro ts ih h
    exact (compat_union_l ts _).mpr (fun t ht => ih t ht ((compat_union_l ts b).mp h t ht))
  · intro p ih h; rw [compat] at h ⊢; exact ih h
  · intro e _ h; unfg; exact compatAny_iff.mpr ⟨b, hb, h⟩
  · intro _; exact compat_tv_l _ rfl
  · intro u _ _; exact compat_tv_l _ rfl
  · intro cs' _ _; exact compat_tv_l _ rfl

/-- a required plain `Annotated` is transparent -/
theorem compat_annot_r {a q : Ty} : compat a q = true → compat a (.annot q) = true := by
  refine Ty.ind' (P := fun a => compat a q = true → compat a (.annot q) = true) ?_ ?_ ?_ ?_ ?_ ?_ ?_ ?_ ?_ ?_ ?_ a
  · intro x h; unfg
  · intro h; unfg
  · intro _; exact compat_noann_l _
  · intro h; unfg
  · intro g ts _ h; unfg
  · intro ts ih h
    exact (compat_union_l ts _).mpr (fun t ht => ih t ht ((compat_union_l ts q).mp h t ht))
  · intro p ih h; rw [compat] at h ⊢; exact ih h
  · intro e _ h; unfg
  · intro _; exact compat_tv_l _ rfl
  · intro u _ _; exact compat_tv_l _ rfl
  · intro cs' _ _; exact compat_tv_l _ rfl

theorem compatZip_self {ts : List Ty} (h : ∀ t ∈ ts, compat t t = true) : compatZip ts ts = true := by
  induction ts with
  | nil => rw [compatZip]; intro a as b bs h; cases h
  | cons t ts ih =>
    rw [compatZip, Bool.and_eq_true]
    exact ⟨h t (by simp), ih (fun x hx => h x (by simp [hx]))⟩

/-- the dispatch accepts every identical pair (so the shortcut `incoming_type == required_type` never changes an answer) -/
theorem compat_refl (a : Ty) : compat a a = true := by
  refine Ty.ind' (P := fun a => compat a a = true) ?_ ?_ ?_ ?_ ?_ ?_ ?_ ?_ ?_ ?_ ?_ a
  · intro x; unfg; cases x <;> rfl
  · exact compat_any_r _
  · exact compat_noann_l _
  · unfg
  · intro g ts ih
    unfg
    simp [compatZip_self ih]
  · intro ts ih
    exact (compat_union_l ts _).mpr (fun t ht => compat_union_r ht (ih t ht))
  · intro p ih; rw [compat]; exact compat_annot_r ih
  · intro e ih; unfg
  · exact compat_tv_l _ rfl
  · intro u _; exact compat_tv_l _ rfl
  · intro cs _; exact compat_tv_l _ rfl

/-- `compat` accepts everything `Sub` derives. -/
theorem sub_compat {a b : Ty} (h : Sub a b) : compat a b = true := by
  induction h with
  | refl => exact compat_refl _
  | any_r => exact compat_any_r _
  | noann_l => exact compat_noann_l _
  | noann_r => exact compat_noann_r _
  | tv_l h => exact compat_tv_l _ h
  | tv_free => exact compat_tvFree_r _
  | tv_bound _ ih => rw [compat_tvBound]; exact ih
  | tv_constr hc _ ih => exact compat_tvConstr_intro hc ih
  | base h => unfg
  | gen hl _ ih =>
    unfg
    simp only [beq_self_eq_true, Bool.true_and, Bool.or_eq_true, Bool.and_eq_true, beq_iff_eq]
    exact Or.inr ⟨hl, compatZip_of ih⟩
  | gen_bare_l => unfg; simp
  | gen_bare_r => unfg; simp
  | union_l _ ih => exact (compat_union_l _ _).mpr ih
  | union_r hb _ ih => exact compat_union_r hb ih
  | annot_l _ ih => rw [compat]; exact ih
  | annot_r _ ih => exact compat_annot_r ih
  | array _ ih => unfg
  | array_nd => unfg; unfg
  | nd_array => unfg; unfg

end PF.Typing
