/-
Model of the executor selection of `Pipeline.map` / `map_async` (`pipefunc/map/_prepare.py:49-59` — the checks and the
normalisation of the `executor=` argument in `prepare_run`; `pipefunc/map/_run.py:601-610` `_maybe_executor`;
`:917-933` `_executor_for_func`; `:936-948` `_submit_generation`, which asks for the executor of every function of a
generation in order, *when that generation is submitted*).  Executors are opaque (`ε`).
Core Lean only.
-/
import PfModel.Model.Sched
namespace PF.SchedX
open PF PF.Sched

/-- a key of the `executor=` dictionary: an output name, or — for a function with several outputs — the tuple of its
    output names (`func.output_name`); the default executor is the key `""` -/
inductive XKey
  | name (s : String)
  | tuple (l : List String)
  deriving DecidableEq, Repr

def XKey.default : XKey := .name ""

/-- `func.output_name` as a dictionary key -/
def keyOf : List String → XKey
  | [o] => .name o
  | l => .tuple l

/-- the `executor=` argument -/
inductive ExecArg (ε : Type)
  | none
  | one (e : ε)
  | dict (d : List (XKey × ε))

inductive XErr
  | needsParallel          -- "Cannot use an executor without `parallel=True`." (`prepare_run`, before anything else)
  | noExecutor (g : Nat) (outs : List String)   -- "No executor found for output …" when generation `g` is submitted
  | badKey                 -- `_validate_executor_names`: a key that is neither "" nor an output name (`prepare_run`)
  | uncovered (outs : List String)              -- `_validate_executor_names`: no "" default and no entry for this function
  deriving DecidableEq, Repr

/-- `prepare_run :49-58`: `if not parallel and executor: raise` (an empty dictionary is falsy), a single executor becomes
    `{"": executor}`, a dictionary is copied -/
def normalise {ε} (parallel : Bool) : ExecArg ε → Except XErr (Option (List (XKey × ε)))
  | .none => pure none
  | .one e => if parallel then pure (some [(XKey.default, e)]) else throw .needsParallel
  | .dict d => if !parallel && !d.isEmpty then throw .needsParallel else pure (some d)

/-- `_maybe_executor`: no executor and `parallel` ⇒ a fresh `ProcessPoolExecutor` (`pool`) as the default -/
def maybeExecutor {ε} (parallel : Bool) (pool : ε) : Option (List (XKey × ε)) → Option (List (XKey × ε))
  | none => if parallel then some [(XKey.default, pool)] else none
  | some d => some d

/-- a key names an output of the pipeline (`pipeline.output_to_func`: every `func.output_name`, and for a tuple also each of its names) -/
def knownKey (fns : List (List String)) : XKey → Bool
  | .name s => fns.any fun outs => outs.contains s
  | .tuple l => fns.any fun outs => 2 ≤ outs.length && outs == l

/-- `_validate_executor_names` (`prepare_run`, right after the normalisation; added by the DF-C12-executor-dict repair): every key
    is `""` or an output name, and without a `""` default every function has its own entry.  Both refusals happen before the run
    folder is touched and before any user function runs. -/
def validateNames {ε} (d : Option (List (XKey × ε))) (fns : List (List String)) : Except XErr Unit :=
  match d with
  | none => pure ()
  | some d =>
    if d.any (fun kv => kv.1 != XKey.default && !knownKey fns kv.1) then throw .badKey
    else if (klookup d XKey.default).isSome then pure ()
    else match fns.find? (fun outs => (klookup d (keyOf outs)).isNone) with
      | some outs => throw (.uncovered outs)
      | none => pure ()

/-- where the tasks of a function go -/
inductive Choice (ε : Type)
  | inParent               -- no executor at all: the bodies run in the calling thread, in submission order
  | submit (e : ε)
  | refuse                 -- `ValueError`: neither the function's key nor `""` is in the dictionary
  deriving DecidableEq, Repr

def Choice.isRefuse {ε} : Choice ε → Bool
  | .refuse => true
  | _ => false

/-- `_executor_for_func` -/
def executorFor {ε} (d : Option (List (XKey × ε))) (outs : List String) : Choice ε :=
  match d with
  | none => .inParent
  | some d =>
    match klookup d (keyOf outs) with
    | some e => .submit e
    | none =>
      match klookup d XKey.default with
      | some e => .submit e
      | none => .refuse

/-- the executors of the functions of generation `g`, asked for in generation order (`_submit_generation`); the first
    function without one stops the run *at that point*: everything of the earlier generations has already run -/
def selectGen {ε} (d : Option (List (XKey × ε))) (g : Nat) : List (List String) → Except XErr (List (List String × Choice ε))
  | [] => pure []
  | outs :: rest =>
    if (executorFor d outs).isRefuse then throw (.noExecutor g outs) else do
      let more ← selectGen d g rest
      pure ((outs, executorFor d outs) :: more)

def selectGens {ε} (d : Option (List (XKey × ε))) : Nat → List (List (List String)) → Except XErr (List (List (List String × Choice ε)))
  | _, [] => pure []
  | g, gen :: rest => do
    let a ← selectGen d g gen
    let more ← selectGens d (g + 1) rest
    pure (a :: more)

/-- the whole decision for a run: `gens` are the generations as lists of `func.output_name` -/
def selectAll {ε} (parallel : Bool) (pool : ε) (arg : ExecArg ε) (gens : List (List (List String))) :
    Except XErr (List (List (List String × Choice ε))) := do
  let d ← normalise parallel arg
  validateNames d gens.flatten
  selectGens (maybeExecutor parallel pool d) 0 gens

end PF.SchedX
