import PfModel.Lemmas.LazySimRun
/-! Helper lemmas for `Props/C18Calls.lean`, part 3: the whole request (`lrunTop` vs `runTop`) and the counting argument. -/
namespace PF.Lazy
open PF PF.Pipe

variable {fs : List Func} {kw : List (String × Val)}

theorem needs_fresh_sim {b : Nat} {s : LSt} (hg : LGood b s) {o : String} {a : LArg} (hm : alookup s.memo o = some a) {i : Nat}
    (h : Needs s.nodes a i) : b ≤ i := by
  induction h with
  | self e => subst e; exact hg.mfresh o _ hm
  | arg _ hn hj ih => exact hg.nfresh _ _ ih hn _ hj

theorem sim_init (b : Nat) (s : LSt) (hb : b = s.nodes.length) (hfresh : entries s = []) :
    LGood b { s with memo := kw.map fun (k, v) => (k, LArg.val v), used := [], usedNone := false } ∧
    Sim b { s with memo := kw.map fun (k, v) => (k, LArg.val v), used := [], usedNone := false } { memo := kw, calls := [], used := [] } := by
  refine ⟨⟨?_, ?_, ?_, by simp [hb], rfl⟩, ⟨rfl, ?_, ?_, ?_⟩⟩
  · intro key a hmem
    have : (key, a) ∈ entries s := hmem
    rw [hfresh] at this; cases this
  · intro p j hp
    simp only [] at hp
    rw [alookup_map_val] at hp
    cases hh : alookup kw p <;> simp [hh] at hp
  · intro i nd hbi hn
    have := getElem?_lt hn
    simp only [] at this
    omega
  · simp [hb, cnames]
  · intro p a hp
    simp only [] at hp
    rw [alookup_map_val] at hp
    cases hh : alookup kw p with
    | none => simp [hh] at hp
    | some v => simp [hh] at hp; subst hp; exact ⟨v, rfl, rfl⟩
  · intro p hp
    simp only [] at hp
    rw [alookup_map_val] at hp
    cases hh : alookup kw p with
    | none => rfl
    | some v => simp [hh] at hp

/-- **simulation of a whole request**: a lazy request `pipeline(o, **kw)` that can find nothing in a cache (`entries s = []`)
    succeeds only if the eager run of C02 succeeds; the eager call log lists exactly the call nodes the request created, in
    creation order; the returned object stands for the eager value; every created call node is needed by the returned object
    and the returned object needs nothing older than the request -/
theorem lrunTop_name_sim {rank : String → Nat} (wf : PipeCache.WF fs rank) {s : LSt} (hs : Sess fs s) (hfresh : entries s = [])
    {o : String} {a : LArg} {s' : LSt} (h : lrunTop fs kw (.name o) s = .ok (a, s')) :
    ∃ out ext, runTop fs kw (.name o) = .ok out ∧ s'.nodes = s.nodes ++ ext ∧ out.calls = cnames ext ∧
      den s'.nodes a = some out.value ∧
      (∀ i nd, s.nodes.length ≤ i → s'.nodes[i]? = some nd → nd.isCall = true → Needs s'.nodes a i) ∧
      (∀ i, Needs s'.nodes a i → s.nodes.length ≤ i) := by
  simp only [lrunTop] at h
  split at h
  · cases h
  · next hko =>
    split at h
    · cases h
    · next a1 s1 hrun =>
      obtain ⟨hg0, hsim0⟩ := sim_init (kw := kw) s.nodes.length s rfl hfresh
      obtain ⟨v, t', hrunE, _, hg1, hsim1, hst, hd, hm, hne⟩ :=
        lrun_sim wf s.nodes.length (fuelFor fs) o _ _ a1 s1 (sess_inv0 kw hs) hg0 hsim0 hrun
      split at h
      · next hfin =>
        injection h with h; injection h with h1 h2; subst h1; subst h2
        obtain ⟨⟨ext, hext⟩, _, _⟩ := hst
        have hext' : s1.nodes = s.nodes ++ ext := hext
        rw [hg1.nohit, Bool.false_or] at hfin
        refine ⟨{ value := v, full := t'.memo, calls := t'.calls }, ext, ?_, hext', ?_, hd, hne, fun i hn => needs_fresh_sim hg1 hm hn⟩
        · simp only [runTop, hrunE]
          rw [if_neg hko, hsim1.used, if_pos hfin]
        · show t'.calls = cnames ext
          rw [hsim1.calls, hext', List.drop_left]
      · cases h

theorem fin_cond {kw : List (String × Val)} {a a' : LArg} {s s' : LSt} (h : fin kw a s = .ok (a', s')) :
    (s.usedNone || ((akeys kw).filter (fun k => !(s.used.contains k))).isEmpty) = true := by
  unfold fin at h
  split at h
  · next hc => exact hc
  · cases h

/-- **simulation of a whole-tuple request** `pipeline(("b", "c"), **kw)` -/
theorem lrunTop_whole_sim {rank : String → Nat} (wf : PipeCache.WF fs rank) {s : LSt} (hs : Sess fs s) (hfresh : entries s = [])
    {os : List String} {a : LArg} {s' : LSt} (h : lrunTop fs kw (.whole os) s = .ok (a, s')) :
    ∃ out ext, runTop fs kw (.whole os) = .ok out ∧ s'.nodes = s.nodes ++ ext ∧ out.calls = cnames ext ∧
      den s'.nodes a = some out.value ∧
      (∀ i nd, s.nodes.length ≤ i → s'.nodes[i]? = some nd → nd.isCall = true → Needs s'.nodes a i) ∧
      (∀ i, Needs s'.nodes a i → s.nodes.length ≤ i) := by
  rw [lrunTop_whole_eq] at h
  split at h
  · cases h
  · next f hfind =>
    obtain ⟨hg0, hsim0⟩ := sim_init (kw := kw) s.nodes.length s rfl hfresh
    have hi0 := sess_inv0 kw hs
    split at h
    · next r hr =>
      exfalso
      obtain ⟨key, k', _, hmem, _⟩ := cacheLookup_sound hr
      have : (key, r) ∈ entries s := hmem
      rw [hfresh] at this; cases this
    · split at h
      · cases h
      · next args s1 hargs =>
        have hcond := fin_cond h
        obtain ⟨rfl, rfl⟩ := fin_ok h
        obtain ⟨vals, t1, he, hi1, hg1, hsim1, hst1, hdargs, hfr, hne⟩ :=
          largs_sim (lrun_sim wf s.nodes.length (fuelFor fs)) f f.params _ _ args s1 hi0 hg0 hsim0 hargs
        obtain ⟨_, hd2⟩ := call_node_sound (f := f) s1 hi1 hdargs
        obtain ⟨hu3, hun3, hn3, _⟩ := cachePut_fields
          (wholeKey fs kw f os { s with memo := kw.map fun (k, v) => (k, LArg.val v), used := [], usedNone := false })
          (.ref s1.nodes.length) (mkNode (.call f args) s1).2
        obtain ⟨⟨ext1, hext1⟩, _, _⟩ := hst1
        have hext1' : s1.nodes = s.nodes ++ ext1 := hext1
        rw [hun3, hu3, mkNode_used] at hcond
        have hun1 : (mkNode (Node.call f args) s1).2.usedNone = false := hg1.nohit
        rw [hun1, Bool.false_or, ← hsim1.used] at hcond
        have hnodes : (cachePut (wholeKey fs kw f os { s with memo := kw.map fun (k, v) => (k, LArg.val v), used := [], usedNone := false })
            (.ref s1.nodes.length) (mkNode (.call f args) s1).2).nodes = s1.nodes ++ [Node.call f args] := by rw [hn3, mkNode_nodes]
        have hcall : (s1.nodes ++ [Node.call f args])[s1.nodes.length]? = some (Node.call f args) := by simp
        refine ⟨{ value := result f vals, full := t1.memo, calls := t1.calls ++ [f.name] }, ext1 ++ [Node.call f args], ?_, ?_, ?_, ?_, ?_, ?_⟩
        · simp only [runTop, hfind, he]
          rw [if_pos hcond]
        · rw [hnodes, hext1', List.append_assoc]
        · show t1.calls ++ [f.name] = cnames (ext1 ++ [Node.call f args])
          rw [hsim1.calls, hext1', List.drop_left, cnames_append]; rfl
        · rw [hn3]; exact hd2
        · intro i nd hle hn hc
          rw [hnodes] at hn ⊢
          rcases getElem?_snoc_ext _ _ _ _ _ hn with h1 | ⟨rfl, _⟩ | ⟨_, hmem⟩
          · obtain ⟨j, hj, hnj⟩ := hne i nd hle h1 hc
            exact needs_trans (.arg (.self rfl) hcall (by simpa [Node.refs] using hj)) (needs_ext _ hnj)
          · exact .self rfl
          · cases hmem
        · intro i hn
          rw [hnodes] at hn
          have hb : s.nodes.length ≤ s1.nodes.length := hg1.base
          generalize hA : LArg.ref s1.nodes.length = A at hn
          induction hn with
          | self e => subst hA; injection e with e; omega
          | arg _ hnd hj ih =>
            rcases getElem?_snoc_ext _ _ _ _ _ hnd with h1 | ⟨_, rfl⟩ | ⟨_, hmem⟩
            · exact hg1.nfresh _ _ ih h1 _ hj
            · exact hfr _ hj
            · cases hmem

/-! ### counting -/

theorem filterMap_filter_isSome {α β} (g : α → Option β) (l : List α) :
    (l.filter (fun i => (g i).isSome)).filterMap g = l.filterMap g := by
  induction l with
  | nil => rfl
  | cons x r ih =>
    cases hx : g x with
    | none => simp [List.filter, List.filterMap, hx, ih]
    | some y => simp [List.filter, List.filterMap, hx, ih]

/-- the call nodes with ids in `[b, b + k)` are invoked exactly once each by the log segment `new` -/
theorem calls_perm {nodes : List Lazy.Node} {b k : Nat} {new : List Nat} (hnd : new.Nodup)
    (hin : ∀ i ∈ new, (cname nodes i).isSome → b ≤ i ∧ i < b + k)
    (hall : ∀ i nd, b ≤ i → i < b + k → nodes[i]? = some nd → nd.isCall = true → i ∈ new) :
    (new.filterMap (cname nodes)).Perm ((List.range' b k).filterMap (cname nodes)) := by
  rw [← filterMap_filter_isSome (cname nodes) new, ← filterMap_filter_isSome (cname nodes) (List.range' b k)]
  apply List.Perm.filterMap
  apply (List.perm_ext_iff_of_nodup (hnd.sublist List.filter_sublist) ((List.nodup_range' 1).sublist List.filter_sublist)).mpr
  intro i
  simp only [List.mem_filter, List.mem_range'_1]
  constructor
  · rintro ⟨hi, hp⟩
    exact ⟨hin i hi hp, hp⟩
  · rintro ⟨⟨hb, hk⟩, hp⟩
    obtain ⟨nd, hn, hc⟩ := cname_isSome hp
    exact ⟨hall i nd hb hk hn hc, hp⟩

theorem cname_prefix (A more : List Lazy.Node) {i : Nat} (h : i < A.length) : cname (A ++ more) i = cname A i := by
  unfold cname; rw [List.getElem?_append_left h]

theorem filterMap_congr_mem {α β} {f g : α → Option β} : ∀ {l : List α}, (∀ x ∈ l, f x = g x) → l.filterMap f = l.filterMap g := by
  intro l
  induction l with
  | nil => intro _; rfl
  | cons x r ih =>
    intro h
    simp only [List.filterMap_cons, h x List.mem_cons_self, ih (fun y hy => h y (List.mem_cons_of_mem _ hy))]

end PF.Lazy
