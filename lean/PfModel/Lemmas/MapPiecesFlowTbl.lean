import PfModel.Model.MapPiecesFlow
import PfModel.Lemmas.ValidateShapes
/-!
C06, round 3 (item 2) — what the declared shape table `declTbl` (C01: `Lemmas/MapTotal.lean`; `map_shapes` returns it,
`mapShapes_ok`) records for the outputs of a function, on a pipeline with distinct output names: all outputs of a function with
a MapSpec carry the shape and mask `MapSpec.shape` gives (`funcShape`), outputs of a function without one are not recorded;
the mask is `true` exactly at the output indices some input carries.
-/
namespace PF.Pieces
open PF PF.Map PF.C01

/-- two functions share no output name -/
def Disj (a b : MFunc) : Prop := ∀ o, o ∈ a.outputs → o ∉ b.outputs

theorem Disj.symm {a b : MFunc} (h : Disj a b) : Disj b a := fun o hb ha => h o ha hb

theorem nodupB_nodup : ∀ l : List String, nodupB l = true → l.Nodup
  | [], _ => List.nodup_nil
  | a :: l, h => by
    simp only [nodupB, Bool.and_eq_true, Bool.not_eq_eq_eq_not, Bool.not_true, List.contains_eq_mem, decide_eq_false_iff_not] at h
    exact List.nodup_cons.mpr ⟨h.1, nodupB_nodup l h.2⟩

theorem pairwise_disj_of_nodup : ∀ fs : List MFunc, (allOutputs fs).Nodup → fs.Pairwise Disj := by
  intro fs
  induction fs with
  | nil => intro _; exact List.Pairwise.nil
  | cons f rest ih =>
    intro h
    unfold allOutputs at h
    rw [List.flatMap_cons, List.nodup_append] at h
    obtain ⟨_, h2, h3⟩ := h
    refine List.Pairwise.cons ?_ (ih h2)
    intro b hb o ho hob
    exact h3 o ho o (List.mem_flatMap.mpr ⟨b, hb, hob⟩) rfl

/-! ### Kahn layers keep a symmetric pairwise relation (as in `Lemmas/ResumeTop.lean`, restated here) -/

theorem flow_mem_layers_flatten (fs : List MFunc) : ∀ (fuel : Nat) (done : List String) (rest : List MFunc) (f : MFunc),
    f ∈ (layers fs fuel done rest).flatten → f ∈ rest := by
  intro fuel
  induction fuel with
  | zero => intro done rest f h; simp [layers] at h
  | succ fuel ih =>
    intro done rest f h
    simp only [layers] at h
    split at h
    · simp at h
    · split at h
      · simp at h
      · simp only [List.flatten_cons, List.mem_append] at h
        rcases h with h | h
        · exact (List.mem_filter.mp h).1
        · exact (List.mem_filter.mp (ih _ _ f h)).1

theorem flow_pairwise_of_mem {α} {R : α → α → Prop} (hsym : ∀ a b, R a b → R b a) (l : List α) (h : l.Pairwise R) (a b : α)
    (ha : a ∈ l) (hb : b ∈ l) (hne : a ≠ b) : R a b := by
  induction h with
  | nil => cases ha
  | cons hx _ ih =>
    rcases List.mem_cons.mp ha with rfl | ha' <;> rcases List.mem_cons.mp hb with rfl | hb'
    · exact absurd rfl hne
    · exact hx b hb'
    · exact hsym _ _ (hx a ha')
    · exact ih ha' hb'

theorem flow_layers_pairwise (fs : List MFunc) (D : MFunc → MFunc → Prop) (hsym : ∀ a b, D a b → D b a) :
    ∀ (fuel : Nat) (done : List String) (rest : List MFunc), rest.Pairwise D → (layers fs fuel done rest).flatten.Pairwise D := by
  intro fuel
  induction fuel with
  | zero => intro done rest _; simp [layers]
  | succ fuel ih =>
    intro done rest hp
    simp only [layers]
    split
    · simp
    · split
      · simp
      · rw [List.flatten_cons, List.pairwise_append]
        refine ⟨hp.sublist List.filter_sublist, ih _ _ (hp.sublist List.filter_sublist), ?_⟩
        intro x hx y hy
        have hy' := List.mem_filter.mp (flow_mem_layers_flatten fs _ _ _ y hy)
        have hxr : x ∈ rest := (List.mem_filter.mp hx).1
        apply flow_pairwise_of_mem hsym rest hp x y hxr hy'.1
        intro e
        subst e
        have := hy'.2
        simp only [Bool.not_eq_eq_eq_not, Bool.not_true, List.any_eq_false, decide_eq_true_eq] at this
        exact this x hx rfl

/-! ### producers -/

theorem flow_producer_isSome (fs : List MFunc) (g : MFunc) (hg : g ∈ fs) (x : String) (hx : x ∈ g.outputs) :
    ∃ h, producer fs x = some h := by
  cases hp : producer fs x with
  | some h => exact ⟨h, rfl⟩
  | none =>
    unfold producer at hp
    rw [List.find?_eq_none] at hp
    exact absurd (by simpa using hx) (hp g hg)

theorem flow_rootArgs_producer (fs : List MFunc) (r : String) (h : r ∈ rootArgs fs) : producer fs r = none := by
  unfold rootArgs at h
  rw [List.mem_eraseDups, List.mem_flatMap] at h
  obtain ⟨f, _, hf⟩ := h
  rw [List.mem_filterMap] at hf
  obtain ⟨q, _, hq⟩ := hf
  cases hb : alookup f.bound q.1 <;> cases hp : producer fs q.1 <;> simp [hb, hp] at hq
  subst hq; exact hp

/-- on a pipeline with pairwise distinct output names the producer of an output of `g` is `g` -/
theorem producer_of_disj : ∀ (fs : List MFunc), fs.Pairwise Disj → ∀ g ∈ fs, ∀ o ∈ g.outputs, producer fs o = some g := by
  intro fs
  induction fs with
  | nil => intro _ g hg; cases hg
  | cons f rest ih =>
    intro hp g hg o ho
    obtain ⟨h1, h2⟩ := List.pairwise_cons.mp hp
    unfold producer
    rw [List.find?_cons]
    rcases List.mem_cons.mp hg with rfl | hg'
    · simp [ho]
    · have : o ∉ f.outputs := fun hf => h1 g hg' o hf ho
      simp only [this, decide_false]
      exact ih h2 g hg' o ho

/-! ### the table -/

theorem alookup_const_map {β} (l : List String) (e : β) (o : String) :
    alookup (l.map fun o' => (o', e)) o = if o ∈ l then some e else none := by
  induction l with
  | nil => simp [alookup]
  | cons a l ih =>
    simp only [List.map_cons, alookup, List.mem_cons]
    by_cases h : a = o
    · simp [h]
    · rw [if_neg h, ih]
      have : (o = a ∨ o ∈ l) ↔ o ∈ l := ⟨fun h' => h'.resolve_left (fun e => h e.symm), Or.inr⟩
      simp only [this]

theorem tblFrom_none (internal : List (String × List Nat)) : ∀ (l : List MFunc) (t : Tbl) (o : String),
    alookup t o = none → (∀ f ∈ l, o ∉ f.outputs) → alookup (tblFrom internal l t) o = none := by
  intro l
  induction l with
  | nil => intro t o h _; exact h
  | cons f l ih =>
    intro t o ht hl
    simp only [tblFrom, List.foldl_cons]
    apply ih
    · unfold stepTbl
      split
      · exact ht
      · rw [alookup_append, ht]
        simp only []
        rw [alookup_const_map, if_neg (hl f List.mem_cons_self)]
    · exact fun g hg => hl g (List.mem_cons_of_mem _ hg)

/-- **what the table records for the outputs of one function** (distinct output names): the `MapSpec.shape` of its MapSpec
    on the table so far, the same for all its outputs; nothing for a function without MapSpec -/
theorem tblFrom_lookup (internal : List (String × List Nat)) : ∀ (l : List MFunc) (t : Tbl), l.Pairwise Disj → ∀ g ∈ l,
    (∀ o ∈ g.outputs, alookup t o = none) →
    ∃ t', ∀ o ∈ g.outputs, alookup (tblFrom internal l t) o = g.mapspec.map (fun ms => funcShape ms t' internal) := by
  intro l
  induction l with
  | nil => intro t _ g hg; cases hg
  | cons f rest ih =>
    intro t hp g hg ht
    obtain ⟨h1, h2⟩ := List.pairwise_cons.mp hp
    rcases List.mem_cons.mp hg with rfl | hg'
    · refine ⟨t, fun o ho => ?_⟩
      simp only [tblFrom, List.foldl_cons]
      cases hm : g.mapspec with
      | none =>
        have : stepTbl internal t g = t := by unfold stepTbl; rw [hm]
        rw [this]
        exact tblFrom_none internal rest t o (ht o ho) (fun b hb hob => h1 b hb o ho hob)
      | some ms =>
        apply PF.Validate.tblFrom_preserved
        unfold stepTbl
        rw [hm]
        simp only [Option.map_some]
        rw [alookup_append, ht o ho]
        simp only []
        rw [alookup_const_map, if_pos ho]
    · simp only [tblFrom, List.foldl_cons]
      apply ih _ h2 g hg'
      intro o ho
      unfold stepTbl
      split
      · exact ht o ho
      · rw [alookup_append, ht o ho]
        simp only []
        rw [alookup_const_map, if_neg (fun hf => h1 g hg' o hf ho)]

theorem foldl_rootStep_none (fs : List MFunc) (inputs : List (String × Val)) (p : String) :
    ∀ (l : List String) (t : Tbl), alookup t p = none → p ∉ l → alookup (l.foldl (rootStep fs inputs) t) p = none := by
  intro l
  induction l with
  | nil => intro t h _; exact h
  | cons q l ih =>
    intro t ht hp
    rw [List.foldl_cons]
    apply ih
    · unfold rootStep
      split
      · split
        · rw [alookup_append, ht]
          simp only [alookup]
          rw [if_neg (fun (e : q = p) => hp (e ▸ List.mem_cons_self))]
        · exact ht
      · exact ht
    · exact fun h => hp (List.mem_cons_of_mem _ h)

/-- **the declared table on the outputs of a function of the pipeline** -/
theorem declTbl_lookup (fs : List MFunc) (inputs : List (String × Val)) (ui : List (String × List Nat))
    (hac : acyclic fs = true) (hnd : nodupB (allOutputs fs) = true) (g : MFunc) (hg : g ∈ fs) :
    ∃ t', ∀ o ∈ g.outputs, alookup (declTbl fs inputs ui) o =
      g.mapspec.map (fun ms => funcShape ms t' (constructInternal fs ui)) := by
  unfold declTbl
  have hpw : fs.Pairwise Disj := pairwise_disj_of_nodup fs (nodupB_nodup _ hnd)
  apply tblFrom_lookup _ _ _ (flow_layers_pairwise fs Disj (fun a b h => h.symm) _ _ _ hpw) g (PF.Validate.mem_flatten_of_acyclic fs hac g hg)
  intro o ho
  apply foldl_rootStep_none
  · rfl
  · intro hr
    obtain ⟨h, hh⟩ := flow_producer_isSome fs g hg o ho
    rw [flow_rootArgs_producer fs o hr] at hh
    cases hh

end PF.Pieces
