/-
Model of `pipefunc/typing.py` (`is_type_compatible`) and of `validate_consistent_type_annotations`
(`pipefunc/_pipeline/_validation.py`).  Core Lean only.

Annotations are terms of `Ty`.  `Array[T]` is `Annotated[np.ndarray[Any, np.dtype[np.object_]], ArrayElementType[T]]`
in the code (`typing.py:34-46`); the model keeps `array T` and the primary `ndarr` as two constructors.
`annot T` is `Annotated[T, meta]` with metadata that is not an `ArrayElementType` ("plain" Annotated).
The model mirrors the *repaired* code (fix commits of DF-19 (a), (b), (d), (e), (f), see `fixes/C16`); `file:line` references are
to the pinned (unrepaired) file.

The shortcut `incoming_type == required_type` (`typing.py:88`) is not a separate branch of the model: `compat_refl`
(Lemmas/Typing.lean) proves that the remaining dispatch accepts every identical pair, so the shortcut never changes an answer.
-/
namespace PF.Typing

/-- the classes of the grammar; `issubclass` is equality plus `bool ≤ int` and, for the two user-defined classes
    `clsA` and `clsB(clsA)` (classes used as functions, dataclasses, pydantic models), `clsB ≤ clsA` -/
inductive Base | int | bool | float | str | bytes | none | clsA | clsB
  deriving DecidableEq, Repr

/-- builtin generic origins -/
inductive Gen | list | set | tuple | dict
  deriving DecidableEq, Repr

inductive Ty
  | base : Base → Ty
  | any : Ty                        -- `typing.Any`
  | noann : Ty                      -- `NoAnnotation` / no annotation at all
  | ndarr : Ty                      -- `np.ndarray[Any, np.dtype[np.object_]]`, the primary of `Array[T]`
  | gen : Gen → List Ty → Ty        -- `list[..]`, `set[..]`, `tuple[..]`, `dict[..]`; `[]` = unparametrised
  | union : List Ty → Ty            -- `Union[..]` / `X | Y` / `Optional[X]`
  | annot : Ty → Ty                 -- `Annotated[T, meta]`, no `ArrayElementType` in the metadata
  | array : Ty → Ty                 -- `Array[T]`
  | tvFree : Ty                     -- `TypeVar("T")`
  | tvBound : Ty → Ty               -- `TypeVar("T", bound=B)`
  | tvConstr : List Ty → Ty         -- `TypeVar("T", C1, C2, ..)`
  deriving Repr, Inhabited

/-- `issubclass(a, b)` on the classes of the grammar (`_compare_generic_type_origins`, `typing.py:164-168`) -/
def Base.sub (a b : Base) : Bool := a == b || (a == .bool && b == .int) || (a == .clsB && b == .clsA)

theorem Ty.sizeOf_pos (t : Ty) : 0 < sizeOf t := by
  cases t <;> simp <;> omega

mutual
/-- `is_type_compatible(incoming, required)` (`typing.py:209-234`) with its helpers, in dispatch order:
    * plain `Annotated` on the incoming side is looked through first (fix DF-19 (d));
    * an incoming TypeVar is accepted (`:220-224`);
    * `required is Any`, `incoming is NoAnnotation`, `required is NoAnnotation` (`_check_identical_or_any`, `:78-92`);
    * `_is_typevar_compatible` (`:237-255`): free → True; bound → the bound decides; constraints → any constraint, and
      when none accepts the type as a whole only a union source continues with the union handler, member by member
      (fix DF-19 (f); every other source is rejected);
    * `_handle_union_types` (`:106-125`): union source → all members against the whole required type, union target → any;
    * `_handle_generic_types` (`:182-206`): `Array` vs `Array` compares primaries (identical) and element types
      (`_compare_annotated_types`); a required plain `Annotated` is transparent (fix DF-19 (b), (e)); an `Array` against
      anything else is compared through its primary `ndarr` (`_compare_single_annotated_type`); origins by `issubclass`,
      arguments pairwise, an unparametrised side accepts, different arity rejects (fix DF-19 (a)). -/
def compat : Ty → Ty → Bool
  | .annot p, b => compat p b
  | .tvFree, _ => true
  | .tvBound _, _ => true
  | .tvConstr _, _ => true
  | _, .any => true
  | .noann, _ => true
  | _, .noann => true
  | _, .tvFree => true
  | a, .tvBound t => compat a t
  | .union as, .tvConstr cs => compatAny (.union as) cs || compatAll as (.tvConstr cs)
  | a, .tvConstr cs => compatAny a cs
  | .union as, b => compatAll as b
  | a, .union bs => compatAny a bs
  | .array e, .array f => compat e f
  | a, .annot q => compat a q
  | .array _, b => compat .ndarr b
  | a, .array _ => compat a .ndarr
  | .base x, .base y => Base.sub x y
  | .gen g as, .gen h bs => g == h && (as.isEmpty || bs.isEmpty || (as.length == bs.length && compatZip as bs))
  | .ndarr, .ndarr => true
  | _, _ => false
termination_by a b => sizeOf a + sizeOf b
decreasing_by
  all_goals simp_wf
  all_goals first
    | omega
    | exact Ty.sizeOf_pos _
    | (have h := Ty.sizeOf_pos; grind)
/-- `all(is_type_compatible(t, required) for t in get_args(incoming))` (`typing.py:120`) -/
def compatAll : List Ty → Ty → Bool
  | [], _ => true
  | a :: as, b => compat a b && compatAll as b
termination_by as b => sizeOf as + sizeOf b
/-- `any(is_type_compatible(incoming, t) for t in get_args(required))` (`typing.py:123`, `:247-249`) -/
def compatAny : Ty → List Ty → Bool
  | _, [] => false
  | a, b :: bs => compat a b || compatAny a bs
termination_by a bs => sizeOf a + sizeOf bs
/-- `all(is_type_compatible(t1, t2) for t1, t2 in zip(incoming_args, required_args))` (`typing.py:179`) -/
def compatZip : List Ty → List Ty → Bool
  | a :: as, b :: bs => compat a b && compatZip as bs
  | _, _ => true
termination_by as bs => sizeOf as + sizeOf bs
end

/-! ### well-formed annotations: what the `typing` constructors can return -/

def Ty.isUnion : Ty → Bool | .union _ => true | _ => false
def Ty.isAnnot : Ty → Bool | .annot _ => true | _ => false
def Ty.isArray : Ty → Bool | .array _ => true | _ => false

mutual
/-- `Union[...]` flattens nested unions and has at least one member left (two in Python); `Annotated[Annotated[T, m], n]`
    is flattened to one `Annotated`, and `Annotated[Array[T], m]` is an `Array[T]` with more metadata, so the primary of a
    plain `Annotated` is neither. -/
def Ty.wf : Ty → Bool
  | .gen _ ts => wfL ts
  | .union ts => !ts.isEmpty && noUnionL ts && wfL ts
  | .annot t => !t.isAnnot && !t.isArray && t.wf
  | .array t => t.wf
  | .tvBound t => t.wf
  | .tvConstr ts => wfL ts
  | _ => true
def wfL : List Ty → Bool
  | [] => true
  | t :: ts => t.wf && wfL ts
def noUnionL : List Ty → Bool
  | [] => true
  | t :: ts => !t.isUnion && noUnionL ts
end

/-! ### the edge check of `validate_consistent_type_annotations` -/

/-- a parsed `MapSpec`: inputs `name[axes]` (`None` = `:`), outputs `name[indices]`, and `_is_generated` -/
structure MSpec where
  ins : List (String × List (Option String))
  outs : List (String × List String)
  generated : Bool
  deriving Repr

/-- one (producer output → consumer parameter) pair examined by the validation loop -/
structure Edge where
  param : String
  out : Ty                 -- `node.output_annotation[param]`
  inp : Ty                 -- `dep.parameter_annotations[param]`
  prod : Option MSpec      -- `node.mapspec`
  cons : Option MSpec      -- `dep.mapspec`
  deriving Repr

def alookup {β} (k : String) : List (String × β) → Option β
  | [] => none
  | (k', v) :: r => if k' = k then some v else alookup k r

/-- `_axis_is_reduced` (`_validation.py:95-109`) -/
def axisIsReduced (e : Edge) : Bool :=
  let outNames := match e.prod with | some m => m.outs.map Prod.fst | none => []
  let inAxes := match e.cons with | some m => alookup e.param m.ins | none => none
  outNames.contains e.param &&
    (match inAxes with
     | none => true
     | some axes => axes.contains none)

/-- `_mapspec_is_generated` (`_validation.py:112-115`) -/
def mapspecIsGenerated (e : Edge) : Bool :=
  match e.prod, e.cons with
  | some p, some c => p.generated || c.generated
  | _, _ => false

/-- `_mapspec_with_internal_shape` (`_validation.py:118-125`) -/
def withInternalShape (e : Edge) : Bool :=
  match e.prod with
  | none => false
  | some m =>
    match alookup e.param m.outs with
    | none => false
    | some idx =>
      let inputIdx := (m.ins.map (fun p => p.2.filterMap id)).flatten
      !(idx.all (fun i => inputIdx.contains i))

/-- `is_object_array_type` (`typing.py:258-274`) on one-metadata `Annotated` -/
def isObjArr : Ty → Bool
  | .ndarr => true
  | .array _ => true
  | .annot p => isObjArr p
  | _ => false

/-- the `Array[...]` wrapping of `_validation.py:62-68` -/
def wrapOut (e : Edge) : Ty :=
  if axisIsReduced e && !isObjArr e.out && !(match e.out with | .noann => true | _ => false) then .array e.out else e.out

/-- the body of the loop for one pair: `true` = no `TypeError` -/
def edgeOk (e : Edge) : Bool :=
  mapspecIsGenerated e || withInternalShape e || compat (wrapOut e) e.inp

inductive Outcome | ok | typeError
  deriving DecidableEq, Repr

/-- `Pipeline._validate` (`_base.py:1125-1126`) restricted to type annotations -/
def construct (validate : Bool) (es : List Edge) : Outcome :=
  if validate then (if es.all edgeOk then .ok else .typeError) else .ok

end PF.Typing
