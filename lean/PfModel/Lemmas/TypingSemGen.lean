import PfModel.Lemmas.TypingSem
/-!
The converse of `compat_sem` (semantic completeness of `compat`) for covariant generics WITHOUT unions below generics:
classes, `Any`, parametrised `list/set/tuple/dict[...]` and `Array[...]` nested to any depth, and unions of such at top level.
Every union-free annotation `a` has a witness value `witG a` that belongs to a union-free `b` only if `compat a b`.
-/
namespace PF.Typing

def arityOk : Gen → Nat → Bool
  | .list, 1 => true
  | .set, 1 => true
  | .dict, 2 => true
  | .tuple, _ + 1 => true
  | _, _ => false

mutual
/-- union-free: classes, `Any`, parametrised generics (of the arity the value semantics knows) and `Array` over union-free
    annotations -/
def UF : Ty → Bool
  | .base _ => true
  | .any => true
  | .gen g ts => arityOk g ts.length && UFL ts
  | .array t => UF t
  | .noann => false
  | .ndarr => false
  | .union _ => false
  | .annot _ => false
  | .tvFree => false
  | .tvBound _ => false
  | .tvConstr _ => false
def UFL : List Ty → Bool
  | [] => true
  | t :: ts => UF t && UFL ts
end

/-- union-free, or a union of union-free annotations -/
def UFTop : Ty → Bool
  | .union ts => UFL ts
  | t => UF t

mutual
/-- a value of `a` that belongs to as few other annotations as possible -/
def witG : Ty → PyV
  | .base b => wit b
  | .gen .list ts => .list (witGL ts)
  | .gen .set ts => .set (witGL ts)
  | .gen .tuple ts => .tuple (witGL ts)
  | .gen .dict ts => .dict (match witGL ts with | [k, v] => [(k, v)] | _ => [])
  | .array t => .ndarray [witG t]
  | _ => .other
def witGL : List Ty → List PyV
  | [] => []
  | t :: ts => witG t :: witGL ts
end

theorem ufl_mem {ts : List Ty} (h : UFL ts = true) : ∀ t ∈ ts, UF t = true := by
  induction ts with
  | nil => intro t ht; cases ht
  | cons a r ih =>
    simp only [UFL, Bool.and_eq_true] at h
    intro t ht
    rcases List.mem_cons.mp ht with rfl | ht
    · exact h.1
    · exact ih h.2 t ht

theorem uf_gen_cases {g : Gen} {ts : List Ty} (h : UF (.gen g ts) = true) :
    (g = .list ∧ ∃ t, ts = [t] ∧ UF t = true) ∨ (g = .set ∧ ∃ t, ts = [t] ∧ UF t = true) ∨
    (g = .dict ∧ ∃ k v, ts = [k, v] ∧ UF k = true ∧ UF v = true) ∨
    (g = .tuple ∧ ∃ t r, ts = t :: r ∧ UF t = true ∧ UFL r = true) := by
  simp only [UF, Bool.and_eq_true] at h
  obtain ⟨ha, hu⟩ := h
  cases g <;> rcases ts with _ | ⟨t, _ | ⟨u, _ | ⟨w, r⟩⟩⟩ <;> simp [arityOk] at ha <;> simp only [UFL, Bool.and_eq_true] at hu
  · exact Or.inl ⟨rfl, t, rfl, hu.1⟩
  · exact Or.inr (Or.inl ⟨rfl, t, rfl, hu.1⟩)
  · exact Or.inr (Or.inr (Or.inr ⟨rfl, t, [], rfl, hu.1, rfl⟩))
  · exact Or.inr (Or.inr (Or.inr ⟨rfl, t, [u], rfl, hu.1, by simp [UFL, hu.2.1]⟩))
  · exact Or.inr (Or.inr (Or.inr ⟨rfl, t, u :: w :: r, rfl, hu.1, by simp [UFL, hu.2.1, hu.2.2.1, hu.2.2.2]⟩))
  · exact Or.inr (Or.inr (Or.inl ⟨rfl, t, u, rfl, hu.1, hu.2.1⟩))

/-! ### which union-free annotations a value of a given kind can belong to -/

theorem inv_other {b : Ty} (hb : UF b = true) (h : HasTy b .other) : b = .any := by
  cases b <;> simp [UF] at hb
  · rename_i x; cases x <;> simp [HasTy, baseHas] at h
  · rfl
  · rename_i g ts
    rcases uf_gen_cases (by simpa [UF] using hb) with ⟨rfl, t, rfl, _⟩ | ⟨rfl, t, rfl, _⟩ | ⟨rfl, k, v, rfl, _⟩ | ⟨rfl, t, r, rfl, _⟩ <;>
      simp [HasTy] at h
  · simp [HasTy] at h

theorem inv_wit {b : Ty} (x : Base) (hb : UF b = true) (h : HasTy b (wit x)) : b = .any ∨ ∃ y, b = .base y ∧ Base.sub x y = true := by
  cases b <;> simp [UF] at hb
  · rename_i y; exact Or.inr ⟨y, rfl, wit_sub x y (by simpa [HasTy] using h)⟩
  · exact Or.inl rfl
  · rename_i g ts
    rcases uf_gen_cases (by simpa [UF] using hb) with ⟨rfl, t, rfl, _⟩ | ⟨rfl, t, rfl, _⟩ | ⟨rfl, k, v, rfl, _⟩ | ⟨rfl, t, r, rfl, _⟩ <;>
      cases x <;> simp [HasTy, wit] at h
  · cases x <;> simp [HasTy, wit] at h

theorem inv_list {b : Ty} {xs : List PyV} (hb : UF b = true) (h : HasTy b (.list xs)) :
    b = .any ∨ ∃ u, b = .gen .list [u] ∧ UF u = true ∧ AllHas u xs := by
  cases b <;> simp [UF] at hb
  · rename_i y; cases y <;> simp [HasTy, baseHas] at h
  · exact Or.inl rfl
  · rename_i g ts
    rcases uf_gen_cases (by simpa [UF] using hb) with ⟨rfl, t, rfl, ht⟩ | ⟨rfl, t, rfl, _⟩ | ⟨rfl, k, v, rfl, _⟩ | ⟨rfl, t, r, rfl, _⟩
    · exact Or.inr ⟨t, rfl, ht, by simpa [HasTy] using h⟩
    all_goals simp [HasTy] at h
  · simp [HasTy] at h

theorem inv_set {b : Ty} {xs : List PyV} (hb : UF b = true) (h : HasTy b (.set xs)) :
    b = .any ∨ ∃ u, b = .gen .set [u] ∧ UF u = true ∧ AllHas u xs := by
  cases b <;> simp [UF] at hb
  · rename_i y; cases y <;> simp [HasTy, baseHas] at h
  · exact Or.inl rfl
  · rename_i g ts
    rcases uf_gen_cases (by simpa [UF] using hb) with ⟨rfl, t, rfl, _⟩ | ⟨rfl, t, rfl, ht⟩ | ⟨rfl, k, v, rfl, _⟩ | ⟨rfl, t, r, rfl, _⟩
    · simp [HasTy] at h
    · exact Or.inr ⟨t, rfl, ht, by simpa [HasTy] using h⟩
    all_goals simp [HasTy] at h
  · simp [HasTy] at h

theorem inv_tuple {b : Ty} {xs : List PyV} (hb : UF b = true) (h : HasTy b (.tuple xs)) :
    b = .any ∨ ∃ u us, b = .gen .tuple (u :: us) ∧ UFL (u :: us) = true ∧ ZipHas (u :: us) xs := by
  cases b <;> simp [UF] at hb
  · rename_i y; cases y <;> simp [HasTy, baseHas] at h
  · exact Or.inl rfl
  · rename_i g ts
    rcases uf_gen_cases (by simpa [UF] using hb) with ⟨rfl, t, rfl, _⟩ | ⟨rfl, t, rfl, _⟩ | ⟨rfl, k, v, rfl, _⟩ | ⟨rfl, t, r, rfl, ht, hr⟩
    · simp [HasTy] at h
    · simp [HasTy] at h
    · simp [HasTy] at h
    · exact Or.inr ⟨t, r, rfl, by simp [UFL, ht, hr], by simpa [HasTy] using h⟩
  · simp [HasTy] at h

theorem inv_dict {b : Ty} {kvs : List (PyV × PyV)} (hb : UF b = true) (h : HasTy b (.dict kvs)) :
    b = .any ∨ ∃ k v, b = .gen .dict [k, v] ∧ UF k = true ∧ UF v = true ∧ AllHas k (kvs.map Prod.fst) ∧ AllHas v (kvs.map Prod.snd) := by
  cases b <;> simp [UF] at hb
  · rename_i y; cases y <;> simp [HasTy, baseHas] at h
  · exact Or.inl rfl
  · rename_i g ts
    rcases uf_gen_cases (by simpa [UF] using hb) with ⟨rfl, t, rfl, _⟩ | ⟨rfl, t, rfl, _⟩ | ⟨rfl, k, v, rfl, hk, hv⟩ | ⟨rfl, t, r, rfl, _⟩
    · simp [HasTy] at h
    · simp [HasTy] at h
    · exact Or.inr ⟨k, v, rfl, hk, hv, by simpa [HasTy] using h⟩
    · simp [HasTy] at h
  · simp [HasTy] at h

theorem inv_ndarray {b : Ty} {xs : List PyV} (hb : UF b = true) (h : HasTy b (.ndarray xs)) :
    b = .any ∨ ∃ u, b = .array u ∧ UF u = true ∧ AllHas u xs := by
  cases b <;> simp [UF] at hb
  · rename_i y; cases y <;> simp [HasTy, baseHas] at h
  · exact Or.inl rfl
  · rename_i g ts
    rcases uf_gen_cases (by simpa [UF] using hb) with ⟨rfl, t, rfl, _⟩ | ⟨rfl, t, rfl, _⟩ | ⟨rfl, k, v, rfl, _⟩ | ⟨rfl, t, r, rfl, _⟩ <;>
      simp [HasTy] at h
  · rename_i u; exact Or.inr ⟨u, rfl, hb, by simpa [HasTy] using h⟩

/-! ### the witness -/

/-- what the witness says about one annotation: it is a value of it, and it is a value of a union-free `b` only if `compat` accepts -/
def WitOk (a : Ty) : Prop := UF a = true → HasTy a (witG a) ∧ ∀ b, UF b = true → HasTy b (witG a) → compat a b = true

theorem witOk_tuple : ∀ (ts : List Ty), (∀ t ∈ ts, WitOk t) → UFL ts = true →
    ZipHas ts (witGL ts) ∧ ∀ us, UFL us = true → ZipHas us (witGL ts) → ts.length = us.length ∧ compatZip ts us = true
  | [], _, _ => by
      refine ⟨by simp [witGL, ZipHas], ?_⟩
      intro us _ hz
      cases us with
      | nil => exact ⟨rfl, by rw [compatZip]; intro a as b bs h; cases h⟩
      | cons u us => simp [witGL, ZipHas] at hz
  | t :: ts, ih, hu => by
      simp only [UFL, Bool.and_eq_true] at hu
      have ht := ih t (by simp) hu.1
      have hr := witOk_tuple ts (fun x hx => ih x (by simp [hx])) hu.2
      refine ⟨by simp only [witGL, ZipHas]; exact ⟨ht.1, hr.1⟩, ?_⟩
      intro us huu hz
      cases us with
      | nil => simp [witGL, ZipHas] at hz
      | cons u us =>
        simp only [UFL, Bool.and_eq_true] at huu
        simp only [witGL, ZipHas] at hz
        have h1 := ht.2 u huu.1 hz.1
        have h2 := hr.2 us huu.2 hz.2
        refine ⟨by simp [h2.1], ?_⟩
        rw [compatZip, Bool.and_eq_true]
        exact ⟨h1, h2.2⟩

theorem witOk (a : Ty) : WitOk a := by
  refine Ty.ind' (P := WitOk) ?_ ?_ ?_ ?_ ?_ ?_ ?_ ?_ ?_ ?_ ?_ a
  · -- classes
    intro x _
    refine ⟨by simpa [HasTy, witG] using wit_has x, ?_⟩
    intro b hb h
    simp only [witG] at h
    rcases inv_wit x hb h with rfl | ⟨y, rfl, hs⟩
    · exact compat_any_r _
    · unfg
  · -- Any
    intro _
    refine ⟨by simp [HasTy], ?_⟩
    intro b hb h
    simp only [witG] at h
    rw [inv_other hb h]
    exact compat_any_r _
  · intro h; simp [UF] at h
  · intro h; simp [UF] at h
  · -- generics
    intro g ts ih huf
    rcases uf_gen_cases huf with ⟨rfl, t, rfl, ht⟩ | ⟨rfl, t, rfl, ht⟩ | ⟨rfl, k, v, rfl, hk, hv⟩ | ⟨rfl, t, r, rfl, ht, hr⟩
    · have it := ih t (by simp) ht
      refine ⟨by simp [witG, witGL, HasTy, AllHas, it.1], ?_⟩
      intro b hb h
      simp only [witG, witGL] at h
      rcases inv_list hb h with rfl | ⟨u, rfl, hu, hall⟩
      · exact compat_any_r _
      · simp only [AllHas] at hall
        unfg
        rw [compatZip, compatZip] <;> simp [it.2 u hu hall.1]
    · have it := ih t (by simp) ht
      refine ⟨by simp [witG, witGL, HasTy, AllHas, it.1], ?_⟩
      intro b hb h
      simp only [witG, witGL] at h
      rcases inv_set hb h with rfl | ⟨u, rfl, hu, hall⟩
      · exact compat_any_r _
      · simp only [AllHas] at hall
        unfg
        rw [compatZip, compatZip] <;> simp [it.2 u hu hall.1]
    · have ik := ih k (by simp) hk
      have iv := ih v (by simp) hv
      refine ⟨by simp [witG, witGL, HasTy, AllHas, ik.1, iv.1], ?_⟩
      intro b hb h
      simp only [witG, witGL] at h
      rcases inv_dict hb h with rfl | ⟨k', v', rfl, hk', hv', hak, hav⟩
      · exact compat_any_r _
      · simp only [List.map_cons, List.map_nil, AllHas] at hak hav
        unfg
        rw [compatZip, compatZip, compatZip] <;> simp [ik.2 k' hk' hak.1, iv.2 v' hv' hav.1]
    · have hall : UFL (t :: r) = true := by simp [UFL, ht, hr]
      have hz := witOk_tuple (t :: r) ih hall
      refine ⟨by simpa [witG, HasTy] using hz.1, ?_⟩
      intro b hb h
      simp only [witG] at h
      rcases inv_tuple hb h with rfl | ⟨u, us, rfl, hus, hzz⟩
      · exact compat_any_r _
      · have := hz.2 (u :: us) hus hzz
        unfg
        simp [this.1, this.2]
  · intro ts _ h; simp [UF] at h
  · intro t _ h; simp [UF] at h
  · -- Array
    intro t ih huf
    have ht : UF t = true := by simpa [UF] using huf
    have it := ih ht
    refine ⟨by simp [witG, HasTy, AllHas, it.1], ?_⟩
    intro b hb h
    simp only [witG] at h
    rcases inv_ndarray hb h with rfl | ⟨u, rfl, hu, hall⟩
    · exact compat_any_r _
    · simp only [AllHas] at hall
      unfg
      exact it.2 u hu hall.1
  · intro h; simp [UF] at h
  · intro t _ h; simp [UF] at h
  · intro ts _ h; simp [UF] at h

theorem anyHas_exists {ts : List Ty} {v : PyV} (h : AnyHas ts v) : ∃ t ∈ ts, HasTy t v := by
  induction ts with
  | nil => simp [AnyHas] at h
  | cons t r ih =>
    simp only [AnyHas] at h
    rcases h with h | h
    · exact ⟨t, by simp, h⟩
    · obtain ⟨u, hu, hv⟩ := ih h
      exact ⟨u, by simp [hu], hv⟩

/-- a union-free source: an inclusion of value sets into a union-free annotation or a union of such is accepted -/
theorem uf_complete (a b : Ty) (ha : UF a = true) (hb : UFTop b = true) (h : Imp a b) : compat a b = true := by
  have hw := (witOk a ha).1
  have hbw := h _ hw
  cases b with
  | union bs =>
    simp only [UFTop] at hb
    obtain ⟨b', hb', hv⟩ := anyHas_exists (by simpa [HasTy] using hbw)
    exact compat_union_r hb' ((witOk a ha).2 b' (ufl_mem hb b' hb') hv)
  | base x => exact (witOk a ha).2 _ (by simpa [UFTop] using hb) hbw
  | any => exact compat_any_r _
  | gen g ts => exact (witOk a ha).2 _ (by simpa [UFTop] using hb) hbw
  | array t => exact (witOk a ha).2 _ (by simpa [UFTop] using hb) hbw
  | noann => simp [UFTop, UF] at hb
  | ndarr => simp [UFTop, UF] at hb
  | annot t => simp [UFTop, UF] at hb
  | tvFree => simp [UFTop, UF] at hb
  | tvBound t => simp [UFTop, UF] at hb
  | tvConstr ts => simp [UFTop, UF] at hb

/-- Semantic completeness without unions below generics: for union-free annotations and top-level unions of them, an
    inclusion of value sets is accepted by `compat`. -/
theorem uftop_complete (a b : Ty) (ha : UFTop a = true) (hb : UFTop b = true) (h : Imp a b) : compat a b = true := by
  cases a with
  | union as =>
    simp only [UFTop] at ha
    refine (compat_union_l as b).mpr (fun t ht => ?_)
    exact uf_complete t b (ufl_mem ha t ht) hb (fun v hv => h v (by simpa [HasTy] using anyHas_of_mem ht hv))
  | base x => exact uf_complete _ b (by simpa [UFTop] using ha) hb h
  | any => exact uf_complete _ b (by simpa [UFTop] using ha) hb h
  | gen g ts => exact uf_complete _ b (by simpa [UFTop] using ha) hb h
  | array t => exact uf_complete _ b (by simpa [UFTop] using ha) hb h
  | noann => simp [UFTop, UF] at ha
  | ndarr => simp [UFTop, UF] at ha
  | annot t => simp [UFTop, UF] at ha
  | tvFree => simp [UFTop, UF] at ha
  | tvBound t => simp [UFTop, UF] at ha
  | tvConstr ts => simp [UFTop, UF] at ha

mutual
/-- a union-free annotation has no gradual part -/
theorem uf_clean : (t : Ty) → UF t = true → Clean t
  | .base _, _ => by simp [Clean]
  | .any, _ => by simp [Clean]
  | .gen g ts, h => by
      simp only [UF, Bool.and_eq_true] at h
      simp only [Clean]
      refine ⟨?_, ufl_clean ts h.2⟩
      intro e; subst e; cases g <;> simp [arityOk] at h
  | .array t, h => by simp only [UF] at h; simp only [Clean]; exact uf_clean t h
  | .noann, h => by simp [UF] at h
  | .ndarr, h => by simp [UF] at h
  | .union _, h => by simp [UF] at h
  | .annot _, h => by simp [UF] at h
  | .tvFree, h => by simp [UF] at h
  | .tvBound _, h => by simp [UF] at h
  | .tvConstr _, h => by simp [UF] at h
theorem ufl_clean : (ts : List Ty) → UFL ts = true → CleanL ts
  | [], _ => by simp [CleanL]
  | t :: ts, h => by
      simp only [UFL, Bool.and_eq_true] at h
      simp only [CleanL]
      exact ⟨uf_clean t h.1, ufl_clean ts h.2⟩
end

theorem uftop_clean (t : Ty) (h : UFTop t = true) : Clean t := by
  cases t with
  | union ts => simp only [UFTop] at h; simp only [Clean]; exact ufl_clean ts h
  | base x => exact uf_clean _ (by simpa [UFTop] using h)
  | any => exact uf_clean _ (by simpa [UFTop] using h)
  | gen g ts => exact uf_clean _ (by simpa [UFTop] using h)
  | array t => exact uf_clean _ (by simpa [UFTop] using h)
  | noann => simp [UFTop, UF] at h
  | ndarr => simp [UFTop, UF] at h
  | annot t => simp [UFTop, UF] at h
  | tvFree => simp [UFTop, UF] at h
  | tvBound t => simp [UFTop, UF] at h
  | tvConstr ts => simp [UFTop, UF] at h

end PF.Typing
