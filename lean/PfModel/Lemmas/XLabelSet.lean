/-
Lemmas for the *exact set* of coordinates of a `DataArray` (`_xarray`) and of variables / coordinates of the merged dataset
(`_xarray_dataset`): nothing is lost and nothing is invented.  Core Lean only.
-/
import PfModel.Lemmas.XLabel
namespace PF.XLabel
open PF PF.Map

/-! ### n-D: every axis of an array traced → its traced axes are its full axes -/

theorem orderLike_all (names : List String) (s : List String) (h : ∀ a ∈ names, a ∈ s) :
    orderLike (names.map some) s = names := by
  induction names with
  | nil => simp [orderLike]
  | cons a r ih =>
    have hr : ∀ b ∈ r, b ∈ s := fun b hb => h b (List.mem_cons_of_mem _ hb)
    have ha : a ∈ s := h a (List.mem_cons_self ..)
    have ih' := ih hr
    have hc : s.contains a = true := by simpa using ha
    simp only [orderLike, List.map_cons, List.filterMap_cons] at ih' ⊢
    simp only [hc, if_true]
    rw [ih']

/-- an array `x` recorded under every one of its axes in the traced dictionary of `o` appears in `trace_dependencies(…)[o]` as
    `x ↦ names`, in the order of its own axes -/
theorem traceDependencies_full (mss : List MSpec) (o x : String) (a0 : String) (rest : List String)
    (h : ∀ a ∈ a0 :: rest, InDeps (traceDeps (mapspecMapping mss) (mss.length + 1) o) a x)
    (hfull : mapspecAxes mss x = some ((a0 :: rest).map some)) :
    alookup (traceDependencies mss o) x = some (a0 :: rest) := by
  obtain ⟨s, hs, _⟩ := reorder_of_inDeps _ a0 x (h a0 (List.mem_cons_self ..))
  have hall : ∀ a ∈ a0 :: rest, a ∈ s := by
    intro a ha
    obtain ⟨s', hs', hm⟩ := reorder_of_inDeps _ a x (h a ha)
    rw [hs] at hs'
    cases hs'
    exact hm
  unfold traceDependencies
  simp only []
  rw [alookup_map_snd (fun n s => orderLike ((mapspecAxes mss n).getD []) s), hs]
  simp only [Option.map_some, hfull, Option.getD_some]
  rw [orderLike_all (a0 :: rest) s hall]

/-! ### where the array of a coordinate comes from -/

/-- `v` is the array `_xarray` offers for the dependency `x`: the input of that name, else (only with `load_intermediate`)
    what the loader has -/
def ArrayFor (inputs : List (String × Val)) (load : String → Option Val) (li : Bool) (x : String) (v : Val) : Prop :=
  alookup inputs x = some v ∨ (alookup inputs x = none ∧ li = true ∧ load x = some v)

/-- `x` with array `v` is an *eligible* dependency of `o` on `axes`: traced to `o` along exactly all of its axes -/
def Source (mss : List MSpec) (inputs : List (String × Val)) (load : String → Option Val) (li : Bool) (o : String)
    (x : String) (axes : List String) (v : Val) : Prop :=
  (x, axes) ∈ traceDependencies mss o ∧ mapspecAxes mss x = some (axes.map some) ∧ ArrayFor inputs load li x v

theorem coordArray_some (inputs : List (String × Val)) (load : String → Option Val) (li : Bool) (x : String) (v : Val)
    (h : coordArray inputs load li x = .ok (some v)) : ArrayFor inputs load li x v := by
  unfold coordArray at h
  split at h
  · next w hw =>
    simp only [pure, Except.pure] at h
    cases h
    exact Or.inl hw
  · next hw =>
    split at h
    · next hli =>
      split at h
      · next w hl =>
        simp only [pure, Except.pure] at h
        cases h
        exact Or.inr ⟨hw, hli, hl⟩
      · cases h
    · simp only [pure, Except.pure] at h
      cases h

theorem arrayFor_coordArray (inputs : List (String × Val)) (load : String → Option Val) (li : Bool) (x : String) (v : Val)
    (h : ArrayFor inputs load li x v) : coordArray inputs load li x = .ok (some v) := by
  unfold coordArray
  rcases h with h | ⟨h1, h2, h3⟩
  · simp [h, pure, Except.pure]
  · simp [h1, h2, h3, pure, Except.pure]

theorem eligibleOne_some (mss : List MSpec) (inputs : List (String × Val)) (load : String → Option Val) (li : Bool)
    (e : String × List String) (y : String × List String × Val) (h : eligibleOne mss inputs load li e = .ok (some y)) :
    y.1 = e.1 ∧ y.2.1 = e.2 ∧ mapspecAxes mss e.1 = some (e.2.map some) ∧ ArrayFor inputs load li e.1 y.2.2 := by
  unfold eligibleOne at h
  simp only [bind, Except.bind] at h
  split at h
  · cases h
  · next r hr =>
    split at h
    · simp only [pure, Except.pure] at h
      cases h
    · next v =>
      split at h
      · cases h
      · next full hf =>
        simp only [pure, Except.pure] at h
        split at h
        · next heq =>
          cases h
          exact ⟨rfl, rfl, by rw [hf, heq], coordArray_some _ _ _ _ _ hr⟩
        · cases h

theorem eligibleOne_of_source (mss : List MSpec) (inputs : List (String × Val)) (load : String → Option Val) (li : Bool)
    (x : String) (axes : List String) (v : Val) (hfull : mapspecAxes mss x = some (axes.map some))
    (harr : ArrayFor inputs load li x v) : eligibleOne mss inputs load li (x, axes) = .ok (some (x, axes, v)) := by
  unfold eligibleOne
  simp [arrayFor_coordArray _ _ _ _ _ harr, hfull, bind, Except.bind, pure, Except.pure]

/-- every entry the first loop keeps comes from a traced dependency that is eligible -/
theorem eligible_sound (mss : List MSpec) (inputs : List (String × Val)) (load : String → Option Val) (li : Bool) :
    ∀ (deps : List (String × List String)) (es : List (String × List String × Val)),
      eligible mss inputs load li deps = .ok es → ∀ y ∈ es,
        (y.1, y.2.1) ∈ deps ∧ mapspecAxes mss y.1 = some (y.2.1.map some) ∧ ArrayFor inputs load li y.1 y.2.2 := by
  intro deps
  induction deps with
  | nil =>
    intro es h y hy
    simp only [eligible, pure, Except.pure] at h
    cases h
    cases hy
  | cons d rest ih =>
    intro es hes y hy
    simp only [eligible, bind, Except.bind] at hes
    split at hes
    · cases hes
    · next here hhere =>
      split at hes
      · cases hes
      · next more hmore =>
        simp only [pure, Except.pure] at hes
        cases hes
        have tail : y ∈ more → ((y.1, y.2.1) ∈ d :: rest ∧ mapspecAxes mss y.1 = some (y.2.1.map some) ∧
            ArrayFor inputs load li y.1 y.2.2) := fun hm => by
          obtain ⟨h1, h2, h3⟩ := ih more hmore y hm
          exact ⟨List.mem_cons_of_mem _ h1, h2, h3⟩
        split at hy
        · next y0 =>
          rcases List.mem_cons.mp hy with h | h
          · subst h
            obtain ⟨h1, h2, h3, h4⟩ := eligibleOne_some mss inputs load li d y hhere
            refine ⟨?_, ?_, ?_⟩
            · rw [h1, h2]; exact List.mem_cons_self ..
            · rw [h1, h2]; exact h3
            · rw [h1]; exact h4
          · exact tail h
        · exact tail hy

/-! ### groups: nothing invented, no group empty -/

theorem addCoord_sound (axes : List String) (n : String) (v : Val) :
    ∀ cm (k : List String) (g : List (String × Val)), (k, g) ∈ addCoord cm axes n v → ∀ m w, (m, w) ∈ g →
      (∃ g', (k, g') ∈ cm ∧ (m, w) ∈ g') ∨ (k = axes ∧ m = n ∧ w = v) := by
  intro cm
  induction cm with
  | nil =>
    intro k g h m w hm
    simp only [addCoord, List.mem_singleton, Prod.mk.injEq] at h
    obtain ⟨rfl, rfl⟩ := h
    simp only [List.mem_singleton, Prod.mk.injEq] at hm
    exact Or.inr ⟨rfl, hm.1, hm.2⟩
  | cons e r ih =>
    obtain ⟨k0, g0⟩ := e
    intro k g h m w hm
    simp only [addCoord] at h
    by_cases hk : k0 = axes
    · simp only [hk, if_true] at h
      rcases List.mem_cons.mp h with h | h
      · cases h
        rcases List.mem_append.mp hm with hm | hm
        · exact Or.inl ⟨g0, by simp [hk], hm⟩
        · simp only [List.mem_singleton, Prod.mk.injEq] at hm
          exact Or.inr ⟨rfl, hm.1, hm.2⟩
      · exact Or.inl ⟨g, List.mem_cons_of_mem _ h, hm⟩
    · simp only [hk, if_false] at h
      rcases List.mem_cons.mp h with h | h
      · cases h
        exact Or.inl ⟨g0, List.mem_cons_self .., hm⟩
      · rcases ih k g h m w hm with ⟨g', hg', hm'⟩ | h'
        · exact Or.inl ⟨g', List.mem_cons_of_mem _ hg', hm'⟩
        · exact Or.inr h'

theorem addCoord_nonempty (axes : List String) (n : String) (v : Val) :
    ∀ cm, (∀ e ∈ cm, e.2 ≠ []) → ∀ e ∈ addCoord cm axes n v, e.2 ≠ [] := by
  intro cm
  induction cm with
  | nil =>
    intro _ e he
    simp only [addCoord, List.mem_singleton] at he
    subst he
    simp
  | cons e0 r ih =>
    obtain ⟨k0, g0⟩ := e0
    intro hcm e he
    simp only [addCoord] at he
    by_cases hk : k0 = axes
    · simp only [hk, if_true] at he
      rcases List.mem_cons.mp he with h | h
      · subst h; simp
      · exact hcm e (List.mem_cons_of_mem _ h)
    · simp only [hk, if_false] at he
      rcases List.mem_cons.mp he with h | h
      · subst h; exact hcm _ (List.mem_cons_self ..)
      · exact ih (fun e he => hcm e (List.mem_cons_of_mem _ he)) e h

/-- the keys (axes tuples) of the coordinate groups are pairwise different -/
theorem addCoord_keys (axes : List String) (n : String) (v : Val) :
    ∀ cm, (addCoord cm axes n v).map (·.1) = if axes ∈ cm.map (·.1) then cm.map (·.1) else cm.map (·.1) ++ [axes] := by
  intro cm
  induction cm with
  | nil => simp [addCoord]
  | cons e r ih =>
    obtain ⟨k0, g0⟩ := e
    simp only [addCoord]
    by_cases hk : k0 = axes
    · simp [hk]
    · simp only [hk, if_false, List.map_cons, ih, List.mem_cons]
      have : ¬ axes = k0 := fun h => hk h.symm
      simp only [this, false_or]
      split <;> simp

theorem groupCoords_sound (es : List (String × List String × Val)) :
    (∀ k g, (k, g) ∈ groupCoords es → ∀ m w, (m, w) ∈ g → (m, k, w) ∈ es) ∧ (∀ e ∈ groupCoords es, e.2 ≠ []) := by
  unfold groupCoords
  suffices H : ∀ (l : List (String × List String × Val)) (cm : List (List String × List (String × Val))),
      ((∀ k g, (k, g) ∈ cm → ∀ m w, (m, w) ∈ g → (m, k, w) ∈ es) ∧ (∀ e ∈ cm, e.2 ≠ [])) → (∀ y ∈ l, y ∈ es) →
      ((∀ k g, (k, g) ∈ l.foldl (fun cm e => addCoord cm e.2.1 e.1 e.2.2) cm → ∀ m w, (m, w) ∈ g → (m, k, w) ∈ es) ∧
        (∀ e ∈ l.foldl (fun cm e => addCoord cm e.2.1 e.1 e.2.2) cm, e.2 ≠ [])) by
    exact H es [] ⟨(fun k g h => by cases h), (fun e h => by cases h)⟩ (fun y hy => hy)
  intro l
  induction l with
  | nil => intro cm h _; exact h
  | cons y r ih =>
    intro cm ⟨h1, h2⟩ hl
    simp only [List.foldl_cons]
    refine ih _ ⟨?_, addCoord_nonempty _ _ _ cm h2⟩ (fun z hz => hl z (List.mem_cons_of_mem _ hz))
    intro k g hkg m w hm
    rcases addCoord_sound y.2.1 y.1 y.2.2 cm k g hkg m w hm with ⟨g', hg', hm'⟩ | ⟨rfl, rfl, rfl⟩
    · exact h1 k g' hg' m w hm'
    · exact hl y (List.mem_cons_self ..)

/-- what the second loop makes of a group: plain coordinates of members, or — only for ≥ 2 members on one axis — one
    multi-index over all members -/
theorem coordsOfGroup_sound (axes : List String) (g : List (String × Val)) (hg : g ≠ []) (c : Coord)
    (h : c ∈ coordsOfGroup (axes, g)) :
    c.dims = axes ∧
    ((∃ v, (c.name, v) ∈ g ∧ c.val = .plain v) ∨
     (c.val = .multi (g.map (·.1)) (g.map (·.2)) ∧ c.name = ":".intercalate (g.map (·.1)) ∧ 2 ≤ g.length ∧ axes.length = 1)) := by
  unfold coordsOfGroup at h
  split at h
  · next m w hgm =>
    simp only [] at hgm
    simp only [List.mem_singleton] at h
    subst h
    exact ⟨rfl, Or.inl ⟨w, by rw [hgm]; simp, rfl⟩⟩
  · next members hne =>
    simp only [] at hne
    split at h
    · obtain ⟨m, hm, rfl⟩ := List.mem_map.mp h
      exact ⟨rfl, Or.inl ⟨m.2, hm, rfl⟩⟩
    · next hlen =>
      simp only [List.mem_singleton] at h
      subst h
      refine ⟨rfl, Or.inr ⟨rfl, rfl, ?_, by simpa using hlen⟩⟩
      match g, hg, hne with
      | [_], _, hne => exact absurd rfl (hne _ _)
      | _ :: _ :: _, _, _ => simp

/-- an n-D member (n ≠ 1) is a plain coordinate of its own -/
theorem coordsOfGroup_nd (axes : List String) (g : List (String × Val)) (n : String) (v : Val) (h : (n, v) ∈ g)
    (hnd : axes.length ≠ 1) : { name := n, dims := axes, val := .plain v } ∈ coordsOfGroup (axes, g) := by
  unfold coordsOfGroup
  split
  · next m w hgm =>
    simp only [] at hgm
    rw [hgm] at h
    simp only [List.mem_singleton, Prod.mk.injEq] at h
    simp [h.1, h.2]
  · rw [if_pos hnd]
    exact List.mem_map.mpr ⟨(n, v), h, rfl⟩

/-! ### the names `trace_dependencies` reports are never mapped outputs with inputs -/

/-- every name recorded in an `{axis: set of names}` dictionary satisfies `P` -/
def AllNames (P : String → Prop) (d : List (String × List String)) : Prop := ∀ e ∈ d, ∀ n ∈ e.2, P n

theorem addDep_all (P : String → Prop) (axis : String) (names : List String) (hn : ∀ n ∈ names, P n) :
    ∀ d, AllNames P d → AllNames P (addDep d axis names) := by
  intro d
  induction d with
  | nil =>
    intro _ e he n hne
    simp only [addDep, List.mem_singleton] at he
    subst he
    rcases (mem_sunion n names []).mp hne with h | h
    · exact hn n h
    · cases h
  | cons e0 r ih =>
    obtain ⟨k, s⟩ := e0
    intro hd e he n hne
    simp only [addDep] at he
    by_cases hk : k = axis
    · simp only [hk, if_true] at he
      rcases List.mem_cons.mp he with h | h
      · subst h
        rcases (mem_sunion n names s).mp hne with h | h
        · exact hn n h
        · exact hd (k, s) (List.mem_cons_self ..) n h
      · exact hd e (List.mem_cons_of_mem _ h) n hne
    · simp only [hk, if_false] at he
      rcases List.mem_cons.mp he with h | h
      · subst h; exact hd (k, s) (List.mem_cons_self ..) n hne
      · exact ih (fun e he => hd e (List.mem_cons_of_mem _ he)) e h n hne

theorem foldl_inv {α β} (P : β → Prop) (f : β → α → β) (l : List α) (hf : ∀ b, ∀ a ∈ l, P b → P (f b a)) :
    ∀ b, P b → P (l.foldl f b) := by
  induction l with
  | nil => intro b h; exact h
  | cons a r ih =>
    intro b h
    exact ih (fun b a ha => hf b a (List.mem_cons_of_mem _ ha)) _ (hf b a (List.mem_cons_self ..) h)

theorem traceDeps_roots (mapping : List (String × MSpec)) :
    ∀ (fuel : Nat) (o : String), AllNames (fun n => alookup mapping n = none) (traceDeps mapping fuel o) := by
  intro fuel
  induction fuel with
  | zero => intro o e he; simp [traceDeps] at he
  | succ fuel ih =>
    intro o
    simp only [traceDeps]
    split
    · intro e he; cases he
    · next ms _ =>
      refine foldl_inv (AllNames _) _ ms.inputs ?_ [] (by intro e he; cases he)
      intro d a _ hd
      refine foldl_inv (AllNames _) _ a.axes ?_ d hd
      intro d q _ hd
      cases q with
      | none => exact hd
      | some axis =>
        simp only [traceStep]
        split
        · split
          · next names hnm =>
            exact addDep_all _ axis names (fun n hn => ih a.name (axis, names) (alookup_some_mem _ _ _ hnm) n hn) d hd
          · exact hd
        · next hroot =>
          refine addDep_all _ axis [a.name] ?_ d hd
          intro n hn
          simp only [List.mem_singleton] at hn
          subst hn
          cases h : alookup mapping a.name with
          | none => rfl
          | some v => simp [h] at hroot

theorem addAxis_keys (n axis : String) : ∀ r (e : String × List String), e ∈ addAxis r n axis → e.1 = n ∨ ∃ e' ∈ r, e'.1 = e.1 := by
  intro r
  induction r with
  | nil =>
    intro e he
    simp only [addAxis, List.mem_singleton] at he
    subst he
    exact Or.inl rfl
  | cons e0 rest ih =>
    obtain ⟨k, s⟩ := e0
    intro e he
    simp only [addAxis] at he
    by_cases hk : k = n
    · simp only [hk, if_true] at he
      rcases List.mem_cons.mp he with h | h
      · subst h; exact Or.inl rfl
      · exact Or.inr ⟨e, List.mem_cons_of_mem _ h, rfl⟩
    · simp only [hk, if_false] at he
      rcases List.mem_cons.mp he with h | h
      · subst h; exact Or.inr ⟨(k, s), List.mem_cons_self .., rfl⟩
      · rcases ih e h with h' | ⟨e', he', hk'⟩
        · exact Or.inl h'
        · exact Or.inr ⟨e', List.mem_cons_of_mem _ he', hk'⟩

theorem reorder_keys (P : String → Prop) (d : List (String × List String)) (hd : AllNames P d) :
    ∀ e ∈ reorder d, P e.1 := by
  unfold reorder
  refine foldl_inv (fun acc : List (String × List String) => ∀ e ∈ acc, P e.1) _ d ?_ [] (by intro e he; cases he)
  intro acc e0 he0 hacc
  refine foldl_inv (fun acc : List (String × List String) => ∀ e ∈ acc, P e.1) _ e0.2 ?_ acc hacc
  intro acc n hn hacc e he
  rcases addAxis_keys n e0.1 acc e he with h | ⟨e', he', hk⟩
  · rw [h]; exact hd e0 he0 n hn
  · rw [← hk]; exact hacc e' he'

/-- a name reported by `trace_dependencies(…)[o]` is not a mapped output of a MapSpec with inputs -/
theorem traceDependencies_root (mss : List MSpec) (o x : String) (axes : List String)
    (h : (x, axes) ∈ traceDependencies mss o) : alookup (mapspecMapping mss) x = none := by
  unfold traceDependencies at h
  simp only [] at h
  obtain ⟨e, he, heq⟩ := List.mem_map.mp h
  have := reorder_keys (fun n => alookup (mapspecMapping mss) n = none) _ (traceDeps_roots (mapspecMapping mss) (mss.length + 1) o) e he
  cases heq
  exact this

/-- an output that is not produced by a MapSpec with inputs has no traced dependencies -/
theorem traceDependencies_nil (mss : List MSpec) (o : String) (h : alookup (mapspecMapping mss) o = none) :
    traceDependencies mss o = [] := by
  simp [traceDependencies, traceDeps, h, reorder]

/-! ### a joined name contains `:` -/

theorem colon_in_join (names : List String) (h : 2 ≤ names.length) : ':' ∈ (":".intercalate names).toList := by
  match names, h with
  | a :: b :: r, _ =>
    rw [String.toList_intercalate]
    simp [List.intercalate]

/-! ### `mapM` in both directions -/

theorem mapM_mem_rev {α β} (g : α → M β) (l : List α) (r : List β) (h : l.mapM g = .ok r) :
    ∀ b ∈ r, ∃ a ∈ l, g a = .ok b := by
  intro b hb
  obtain ⟨i, hi, he⟩ := List.getElem_of_mem hb
  have hlen := mapM_ok_length g l r h
  have := mapM_ok_get g l r h i (by omega) hi
  exact ⟨l[i]'(by omega), List.getElem_mem _, by rw [← he]; exact this⟩

theorem mapM_map_eq {α β} (g : α → M β) (k : β → α) (hk : ∀ a b, g a = .ok b → k b = a) (l : List α) (r : List β)
    (h : l.mapM g = .ok r) : r.map k = l := by
  have hlen := mapM_ok_length g l r h
  apply List.ext_getElem
  · simp [hlen]
  · intro i h1 h2
    simp only [List.getElem_map]
    exact hk _ _ (mapM_ok_get g l r h i h2 (by simpa using h1))

/-! ### `_xarray`, taken apart -/

theorem xarrayOf_ok (mss : List MSpec) (inputs : List (String × Val)) (load : String → Option Val) (li : Bool) (o : String)
    (da : DataArray) (h : xarrayOf mss inputs load li o = .ok da) :
    ∃ data es dims, load o = some data ∧ eligible mss inputs load li (traceDependencies mss o) = .ok es ∧
      mapspecAxes mss o = some dims ∧
      da = { name := o, dims := dims, data := data, coords := (groupCoords es).flatMap coordsOfGroup } := by
  unfold xarrayOf at h
  split at h
  · cases h
  · next data hv =>
    split at h
    · cases h
    · next es hes =>
      split at h
      · cases h
      · next dims hd =>
        simp only [pure, Except.pure] at h
        cases h
        exact ⟨data, es, dims, hv, hes, hd, rfl⟩

/-- a `DataArray` with a coordinate belongs to an output of a MapSpec that has inputs -/
theorem xarrayOf_coords_mapped (mss : List MSpec) (inputs : List (String × Val)) (load : String → Option Val) (li : Bool)
    (o : String) (da : DataArray) (h : xarrayOf mss inputs load li o = .ok da) (c : Coord) (hc : c ∈ da.coords) :
    (alookup (mapspecMapping mss) o).isSome := by
  obtain ⟨data, es, dims, _, hes, _, rfl⟩ := xarrayOf_ok mss inputs load li o da h
  cases hm : alookup (mapspecMapping mss) o with
  | some _ => rfl
  | none =>
    rw [traceDependencies_nil mss o hm] at hes
    simp only [eligible, pure, Except.pure] at hes
    cases hes
    simp [groupCoords] at hc

/-! ### `merge(compat="override")` on the coordinates -/

theorem dedupCoords_sub : ∀ (l : List Coord) (seen : List String) (c : Coord), c ∈ dedupCoords l seen → c ∈ l ∧ c.name ∉ seen := by
  intro l
  induction l with
  | nil => intro seen c h; cases h
  | cons c0 r ih =>
    intro seen c h
    simp only [dedupCoords] at h
    split at h
    · obtain ⟨h1, h2⟩ := ih seen c h
      exact ⟨List.mem_cons_of_mem _ h1, h2⟩
    · next hs =>
      rcases List.mem_cons.mp h with h | h
      · subst h
        exact ⟨List.mem_cons_self .., by simpa using hs⟩
      · obtain ⟨h1, h2⟩ := ih (c0.name :: seen) c h
        exact ⟨List.mem_cons_of_mem _ h1, fun hm => h2 (List.mem_cons_of_mem _ hm)⟩

theorem dedupCoords_names : ∀ (l : List Coord) (seen : List String) (c : Coord), c ∈ l → c.name ∉ seen →
    ∃ c' ∈ dedupCoords l seen, c'.name = c.name := by
  intro l
  induction l with
  | nil => intro seen c h; cases h
  | cons c0 r ih =>
    intro seen c h hs
    simp only [dedupCoords]
    split
    · next hc0 =>
      rcases List.mem_cons.mp h with h | h
      · subst h; exact absurd (by simpa using hc0) hs
      · exact ih seen c h hs
    · rcases List.mem_cons.mp h with h | h
      · subst h; exact ⟨c, List.mem_cons_self .., rfl⟩
      · by_cases hn : c.name = c0.name
        · exact ⟨c0, List.mem_cons_self .., hn.symm⟩
        · obtain ⟨c', hc', hn'⟩ := ih (c0.name :: seen) c h (by simp [hn, hs])
          exact ⟨c', List.mem_cons_of_mem _ hc', hn'⟩

theorem dedupCoords_nodup : ∀ (l : List Coord) (seen : List String), ((dedupCoords l seen).map (·.name)).Nodup := by
  intro l
  induction l with
  | nil => intro seen; simp [dedupCoords]
  | cons c0 r ih =>
    intro seen
    simp only [dedupCoords]
    split
    · exact ih seen
    · simp only [List.map_cons, List.nodup_cons]
      refine ⟨?_, ih _⟩
      intro hm
      obtain ⟨c, hc, hn⟩ := List.mem_map.mp hm
      exact (dedupCoords_sub r (c0.name :: seen) c hc).2 (by simp [hn])

/-! ### `_xarray_dataset`, taken apart -/

/-- the MapSpec outputs among the requested names, in MapSpec order -/
def msOutOf (mss : List MSpec) (outputNames : List String) : List String :=
  (mss.flatMap fun ms => ms.outputs.map (·.name)).filter fun n => outputNames.contains n
/-- the requested names that no MapSpec produces -/
def singleOf (mss : List MSpec) (outputNames : List String) : List String :=
  outputNames.filter fun n => !(msOutOf mss outputNames).contains n
/-- the arrays that are merged: those that are not a coordinate of another array -/
def toMergeOf (das : List DataArray) : List DataArray :=
  das.filter fun da => !(das.flatMap fun da => da.coords.map (·.name)).contains da.name
def singleVar (load : String → Option Val) (n : String) : M Var :=
  match load n with
  | none => throw (Err.key n)
  | some v => pure ({ name := n, dims := singleDims n v, data := v } : Var)
def varOf (da : DataArray) : Var := { name := da.name, dims := some da.dims, data := da.data }

theorem xarrayDataset_ok (mss : List MSpec) (inputs : List (String × Val)) (load : String → Option Val) (outputNames : List String)
    (li : Bool) (ds : Dataset) (h : xarrayDataset mss inputs load outputNames li = .ok ds) :
    ∃ das singles, (msOutOf mss outputNames).mapM (xarrayOf mss inputs load li) = .ok das ∧
      (singleOf mss outputNames).mapM (singleVar load) = .ok singles ∧
      ds = { vars := (toMergeOf das).map varOf ++ singles, coords := dedupCoords ((toMergeOf das).flatMap (·.coords)) [] } := by
  unfold xarrayDataset at h
  simp only [bind, Except.bind] at h
  split at h
  · cases h
  · next das hdas =>
    split at h
    · cases h
    · next singles hs =>
      simp only [pure, Except.pure] at h
      cases h
      exact ⟨das, singles, hdas, hs, rfl⟩

theorem singleVar_ok (load : String → Option Val) (n : String) (var : Var) (h : singleVar load n = .ok var) :
    var.name = n ∧ load n = some var.data ∧ var.dims = singleDims n var.data := by
  unfold singleVar at h
  split at h
  · cases h
  · next v hv =>
    simp only [pure, Except.pure] at h
    cases h
    exact ⟨rfl, hv, rfl⟩

theorem xarrayOf_name (mss : List MSpec) (inputs : List (String × Val)) (load : String → Option Val) (li : Bool) (o : String)
    (da : DataArray) (h : xarrayOf mss inputs load li o = .ok da) : da.name = o := by
  obtain ⟨_, _, _, _, _, _, rfl⟩ := xarrayOf_ok mss inputs load li o da h
  rfl

end PF.XLabel
