import PfModel.Lemmas.LazyMulti
/-! Helper lemmas for `Props/C18Multi.lean`, part 2: the recorded nodes of a block are EXACTLY the ids created since `enter`
    (`_LazyFunction.__init__` adds every new object to the active graph, `lazy.py:41-42`), whichever pipeline creates them. -/
namespace PF.Lazy
open PF PF.Pipe

theorem range'_app (a m n : Nat) : List.range' a m ++ List.range' (a + m) n = List.range' a (m + n) := by
  induction m generalizing a with
  | zero => simp
  | succ m ih =>
    have e1 : a + (m + 1) = (a + 1) + m := by omega
    have e2 : m + 1 + n = (m + n) + 1 := by omega
    rw [List.range'_succ, e1, List.cons_append, ih, e2, List.range'_succ]

/-- from `s` to `s'` objects are only added and an active graph records exactly the added ids, in order -/
def GN (s s' : LSt) : Prop :=
  s.nodes.length ≤ s'.nodes.length ∧
  ∀ t, s.tg = some t → ∃ t', s'.tg = some t' ∧
    t'.gnodes = t.gnodes ++ List.range' s.nodes.length (s'.nodes.length - s.nodes.length)

theorem GN.refl (s : LSt) : GN s s := ⟨Nat.le_refl _, fun t h => ⟨t, h, by simp⟩⟩

theorem GN.trans {a b c : LSt} (h1 : GN a b) (h2 : GN b c) : GN a c := by
  refine ⟨Nat.le_trans h1.1 h2.1, ?_⟩
  intro t ht
  obtain ⟨t1, ht1, hg1⟩ := h1.2 t ht
  obtain ⟨t2, ht2, hg2⟩ := h2.2 t1 ht1
  refine ⟨t2, ht2, ?_⟩
  have hl1 := h1.1
  have hl2 := h2.1
  have := range'_app a.nodes.length (b.nodes.length - a.nodes.length) (c.nodes.length - b.nodes.length)
  rw [show a.nodes.length + (b.nodes.length - a.nodes.length) = b.nodes.length by omega,
      show b.nodes.length - a.nodes.length + (c.nodes.length - b.nodes.length) = c.nodes.length - a.nodes.length by omega] at this
  rw [hg2, hg1, List.append_assoc, this]

/-- same table, same recorded nodes -/
theorem GN.of_same {s s' : LSt} (hn : s'.nodes = s.nodes) (ht : ∀ t, s.tg = some t → ∃ t', s'.tg = some t' ∧ t'.gnodes = t.gnodes) :
    GN s s' := by
  refine ⟨by rw [hn]; exact Nat.le_refl _, ?_⟩
  intro t h
  obtain ⟨t', h1, h2⟩ := ht t h
  exact ⟨t', h1, by rw [hn, h2]; simp⟩

theorem mkNode_gn (nd : Lazy.Node) (s : LSt) : GN s (mkNode nd s).2 := by
  refine ⟨by rw [mkNode_nodes]; simp, ?_⟩
  intro t ht
  refine ⟨{ t with gnodes := t.gnodes ++ [s.nodes.length], edges := t.edges ++ nd.refs.map (fun a => (a, s.nodes.length)) }, ?_, ?_⟩
  · simp only [mkNode, ht]
  · rw [mkNode_nodes]
    simp [List.length_append]

theorem cachePut_gn (key : Option Key) (a : LArg) (s : LSt) : GN s (cachePut key a s) := by
  unfold cachePut
  split
  · exact GN.refl s
  · split
    · next g hg =>
      refine GN.of_same ?_ ?_
      · rfl
      intro t ht
      rw [hg] at ht; injection ht with ht; subst ht
      exact ⟨_, rfl, rfl⟩
    · next hg =>
      split
      · refine GN.of_same ?_ ?_
        · rfl
        intro t ht
        exact ⟨t, ht, rfl⟩
      · exact GN.refl s

theorem mkPicks_gn (f : Func) (r : LArg) : ∀ (names : List String) (s : LSt), GN s (mkPicks f r names s).2 := by
  intro names
  induction names with
  | nil => intro s; exact GN.refl s
  | cons n names ih =>
    intro s
    simp only [mkPicks]
    exact (mkNode_gn _ s).trans (ih _)

theorem updateAll_gn (f : Func) (r : LArg) (s : LSt) : GN s (updateAll f r s) := by
  unfold updateAll
  split
  · refine GN.of_same ?_ ?_
    · rfl
    intro t ht
    exact ⟨t, ht, rfl⟩
  · have h := mkPicks_gn f r f.outputs s
    refine ⟨h.1, ?_⟩
    intro t ht
    exact h.2 t ht

/-- what the recursive lazy evaluator must guarantee -/
def LRecGN (r : String → LSt → Except Err (LArg × LSt)) : Prop := ∀ o s a s', r o s = .ok (a, s') → GN s s'

variable {fs : List Func} {kw : List (String × Val)}

theorem gn_used (s : LSt) (u : List String) : GN s { s with used := u } := GN.of_same rfl (fun t ht => ⟨t, ht, rfl⟩)
theorem gn_usedNone (s : LSt) (b : Bool) : GN s { s with usedNone := b } := GN.of_same rfl (fun t ht => ⟨t, ht, rfl⟩)

theorem largs_gn (r : String → LSt → Except Err (LArg × LSt)) (hr : LRecGN r) (f : Func) :
    ∀ ps s args s', largs r fs kw f ps s = .ok (args, s') → GN s s' := by
  intro ps
  induction ps with
  | nil =>
    intro s args s' h
    simp [largs] at h; obtain ⟨rfl, rfl⟩ := h
    exact GN.refl _
  | cons p ps ih =>
    obtain ⟨p, orig⟩ := p
    intro s args s' h
    simp only [largs] at h
    split at h
    · simp at h
    · split at h
      · simp at h
      · next rest s2 hrest =>
        simp at h; obtain ⟨rfl, rfl⟩ := h
        exact (gn_used s _).trans (ih _ rest s2 hrest)
    · split at h
      · simp at h
      · next a s1 hrun =>
        split at h
        · simp at h
        · next rest s2 hrest =>
          simp at h; obtain ⟨rfl, rfl⟩ := h
          exact (hr p s a s1 hrun).trans ((gn_used s1 _).trans (ih _ rest s2 hrest))

theorem lrun_gn : ∀ (n : Nat), LRecGN (lrun fs kw n) := by
  intro n
  induction n with
  | zero => intro o s a s' h; simp [lrun] at h
  | succ n ihn =>
    intro o s a s' h
    rw [lrun_succ] at h
    split at h
    · simp at h; obtain ⟨rfl, rfl⟩ := h
      exact GN.refl _
    · split at h
      · simp at h
      · next f hf =>
        split at h
        · split at h
          · simp at h; obtain ⟨rfl, rfl⟩ := h
            exact (gn_usedNone s true).trans (updateAll_gn _ _ _)
          · simp at h
        · split at h
          · simp at h
          · next args s1 hargs =>
            split at h
            · simp at h; obtain ⟨rfl, rfl⟩ := h
              exact (largs_gn _ ihn f f.params s args s1 hargs).trans
                ((mkNode_gn _ s1).trans ((cachePut_gn _ _ _).trans (updateAll_gn _ _ _)))
            · simp at h

theorem lrunTop_gn {req : Req} {s : LSt} {a : LArg} {s' : LSt} (h : lrunTop fs kw req s = .ok (a, s')) : GN s s' := by
  have h0 : GN s { s with memo := kw.map fun (k, v) => (k, LArg.val v), used := [], usedNone := false } :=
    GN.of_same rfl (fun t ht => ⟨t, ht, rfl⟩)
  cases req with
  | name o =>
    simp only [lrunTop] at h
    split at h
    · cases h
    · split at h
      · cases h
      · next a1 s1 hrun =>
        split at h
        · injection h with h; injection h with h1 h2; subst h1; subst h2
          exact h0.trans (lrun_gn _ o _ a1 s1 hrun)
        · cases h
  | whole os =>
    rw [lrunTop_whole_eq] at h
    split at h
    · cases h
    · split at h
      · obtain ⟨rfl, rfl⟩ := fin_ok h
        exact GN.of_same rfl (fun t ht => ⟨t, ht, rfl⟩)
      · split at h
        · cases h
        · next args s1 hargs =>
          obtain ⟨rfl, rfl⟩ := fin_ok h
          exact h0.trans ((largs_gn _ (lrun_gn _) _ _ _ args s1 hargs).trans ((mkNode_gn _ s1).trans (cachePut_gn _ _ _)))

/-! ### the process -/

/-- an active graph records exactly the ids from `base` on -/
def GRange (g : GSt) : Prop :=
  ∀ t, g.tg = some t → ∃ base, base ≤ g.nodes.length ∧ t.gnodes = List.range' base (g.nodes.length - base)

theorem writeBack_grange {g : GSt} {i : Nat} {s' : LSt} (h : GRange g) (hgn : GN (proj g i) s') : GRange (writeBack g i s') := by
  intro t ht
  cases hg : g.tg with
  | none => simp [writeBack, wbTG, hg] at ht
  | some T =>
    obtain ⟨base, hb, hr⟩ := h T hg
    obtain ⟨t', ht', hg'⟩ := hgn.2 ⟨T.gnodes, T.edges, cacheFor T.caches i⟩ (by simp [proj, hg])
    simp only [writeBack, wbTG, hg, ht', Option.some.injEq] at ht
    subst ht
    have hl : g.nodes.length ≤ s'.nodes.length := hgn.1
    refine ⟨base, Nat.le_trans hb hl, ?_⟩
    have := range'_app base (g.nodes.length - base) (s'.nodes.length - g.nodes.length)
    rw [show base + (g.nodes.length - base) = g.nodes.length by omega,
        show g.nodes.length - base + (s'.nodes.length - g.nodes.length) = s'.nodes.length - base by omega] at this
    show t'.gnodes = List.range' base (s'.nodes.length - base)
    rw [hg', ← this]
    show T.gnodes ++ _ = _
    rw [hr]
    rfl

theorem gstep_grange (fss : List (List Func)) {g : GSt} (h : GRange g) (op : Op) : GRange (gstep fss g op) := by
  cases op with
  | enter =>
    intro t ht
    simp only [gstep, genter, Option.some.injEq] at ht
    subst ht
    exact ⟨g.nodes.length, Nat.le_refl _, by simp [gstep, genter]⟩
  | exit => intro t ht; simp [gstep, gexit] at ht
  | call i kw req =>
    simp only [gstep]
    split
    · next a g' hc =>
      obtain ⟨fs, s', _, _, hr, rfl⟩ := gcall_ok hc
      exact writeBack_grange h (lrunTop_gn hr)
    · exact h
  | eval a =>
    simp only [gstep]
    split
    · next v g' he =>
      obtain ⟨e, rfl, _⟩ := geval_ok he
      exact h
    · exact h

theorem runOps_grange (fss : List (List Func)) : ∀ (ops : List Op) (g : GSt), GRange g → GRange (runOps fss ops g) := by
  intro ops
  induction ops with
  | nil => intro g h; exact h
  | cons op ops ih => intro g h; exact ih _ (gstep_grange fss h op)

/-- inside a block (no further `enter`/`exit`): the recorded nodes are exactly the ids created since the block was entered -/
def noBlockOp : Op → Bool
  | .enter => false
  | .exit => false
  | _ => true

def SinceEnter (n0 : Nat) (g : GSt) : Prop :=
  n0 ≤ g.nodes.length ∧ ∃ t, g.tg = some t ∧ t.gnodes = List.range' n0 (g.nodes.length - n0)

theorem gstep_since (fss : List (List Func)) {n0 : Nat} {g : GSt} (h : SinceEnter n0 g) (op : Op) (hop : noBlockOp op = true) :
    SinceEnter n0 (gstep fss g op) := by
  obtain ⟨hle, T, hg, hr⟩ := h
  cases op with
  | enter => cases hop
  | exit => cases hop
  | call i kw req =>
    simp only [gstep]
    split
    · next a g' hc =>
      obtain ⟨fs, s', _, _, hrun, rfl⟩ := gcall_ok hc
      have hgn := lrunTop_gn hrun
      obtain ⟨t', ht', hg'⟩ := hgn.2 ⟨T.gnodes, T.edges, cacheFor T.caches i⟩ (by simp [proj, hg])
      have hl : g.nodes.length ≤ s'.nodes.length := hgn.1
      refine ⟨Nat.le_trans hle hl, ⟨t'.gnodes, t'.edges, setCache T.caches i t'.cache⟩, by simp [writeBack, wbTG, hg, ht'], ?_⟩
      have := range'_app n0 (g.nodes.length - n0) (s'.nodes.length - g.nodes.length)
      rw [show n0 + (g.nodes.length - n0) = g.nodes.length by omega,
          show g.nodes.length - n0 + (s'.nodes.length - g.nodes.length) = s'.nodes.length - n0 by omega] at this
      show t'.gnodes = List.range' n0 (s'.nodes.length - n0)
      rw [hg', ← this]
      show T.gnodes ++ _ = _
      rw [hr]
      rfl
    · exact ⟨hle, T, hg, hr⟩
  | eval a =>
    simp only [gstep]
    split
    · next v g' he =>
      obtain ⟨e, rfl, _⟩ := geval_ok he
      exact ⟨hle, T, hg, hr⟩
    · exact ⟨hle, T, hg, hr⟩

theorem runOps_since (fss : List (List Func)) {n0 : Nat} : ∀ (ops : List Op) (g : GSt), SinceEnter n0 g → ops.all noBlockOp = true →
    SinceEnter n0 (runOps fss ops g) := by
  intro ops
  induction ops with
  | nil => intro g h _; exact h
  | cons op ops ih =>
    intro g h hall
    simp only [List.all_cons, Bool.and_eq_true] at hall
    exact ih _ (gstep_since fss h op hall.1) hall.2

end PF.Lazy
