import PfModel.Model.TypingInc
import PfModel.Lemmas.TypingPipe
/-!
Lemmas for incremental construction (`Model/TypingInc.lean`): the first rejected stage, and prefixes of a stable description.
-/
namespace PF.Typing

theorem firstBad_none_iff (stages : List (List Func)) :
    firstBad stages = none ↔ ∀ s ∈ stages, constructP true s = .ok := by
  induction stages with
  | nil => simp [firstBad]
  | cons s rest ih =>
    simp only [firstBad, List.mem_cons, forall_eq_or_imp]
    split
    · rename_i h; simp [h]
    · rename_i h; simp [h, ih]

theorem firstBad_some (stages : List (List Func)) :
    ∀ k, firstBad stages = some k →
      (∃ s, stages[k]? = some s ∧ constructP true s = .typeError) ∧
      (∀ i, i < k → ∀ s, stages[i]? = some s → constructP true s = .ok) := by
  induction stages with
  | nil => intro k h; simp [firstBad] at h
  | cons s rest ih =>
    intro k h
    simp only [firstBad] at h
    split at h
    · rename_i hs
      cases h
      exact ⟨⟨s, rfl, hs⟩, fun i hi => absurd hi (Nat.not_lt_zero i)⟩
    · rename_i hs
      cases hr : firstBad rest with
      | none => simp [hr] at h
      | some k' =>
        simp only [hr, Option.map_some, Option.some.injEq] at h
        subst h
        obtain ⟨⟨s', hs', hbad⟩, hbefore⟩ := ih k' hr
        refine ⟨⟨s', by simpa using hs', hbad⟩, ?_⟩
        intro i hi t ht
        cases i with
        | zero => simp at ht; subst ht; exact hs
        | succ i => exact hbefore i (by omega) t (by simpa using ht)

theorem getElem?_take_some {α} {l : List α} {k i : Nat} {a : α} (h : (l.take k)[i]? = some a) : l[i]? = some a := by
  rw [List.getElem?_take] at h
  split at h
  · exact h
  · cases h

/-- a triple visited in a prefix is visited in the whole list (same indices, same annotations, same MapSpecs) -/
theorem visited_take {fs : List Func} {k : Nat} {c : CEdge} (h : Visited (fs.take k) c) : Visited fs c := by
  obtain ⟨f, g, hf, hg, rest⟩ := h.ex
  exact ⟨f, g, getElem?_take_some hf, getElem?_take_some hg, rest⟩

theorem mem_visit_take {fs : List Func} {k : Nat} {c : CEdge} (h : c ∈ visit (fs.take k)) : c ∈ visit fs :=
  mem_visit.mpr (visited_take (mem_visit.mp h))

theorem mem_checkedEdges_take {fs : List Func} {k : Nat} {e : Edge} (h : e ∈ checkedEdges (fs.take k)) : e ∈ checkedEdges fs := by
  unfold checkedEdges at h ⊢
  obtain ⟨c, hc, hce⟩ := List.mem_filterMap.mp h
  exact List.mem_filterMap.mpr ⟨c, mem_visit_take hc, hce⟩

theorem constructP_true_ok_iff (fs : List Func) : constructP true fs = .ok ↔ (checkedEdges fs).all edgeOk = true := by
  unfold constructP construct
  cases h : (checkedEdges fs).all edgeOk <;> simp

theorem constructP_true_typeError_iff (fs : List Func) : constructP true fs = .typeError ↔ (checkedEdges fs).all edgeOk = false := by
  unfold constructP construct
  cases h : (checkedEdges fs).all edgeOk <;> simp

/-- a prefix of an accepted stable description is accepted -/
theorem constructP_take_ok {fs : List Func} (k : Nat) (h : constructP true fs = .ok) : constructP true (fs.take k) = .ok := by
  rw [constructP_true_ok_iff] at h ⊢
  rw [List.all_eq_true] at h ⊢
  exact fun e he => h e (mem_checkedEdges_take he)

theorem constructP_nil (v : Bool) : constructP v [] = .ok := by
  cases v <;> simp [constructP, construct, checkedEdges, visit]

theorem mem_stagesOf {fs s : List Func} : s ∈ stagesOf fs ↔ ∃ k, k < fs.length ∧ s = fs.take (k + 1) := by
  unfold stagesOf
  simp only [List.mem_map, List.mem_range]
  constructor
  · rintro ⟨k, hk, rfl⟩; exact ⟨k, hk, rfl⟩
  · rintro ⟨k, hk, rfl⟩; exact ⟨k, hk, rfl⟩

theorem constructInc_stagesOf (v : Bool) (fs : List Func) : constructInc v (stagesOf fs) = constructP v fs := by
  cases v
  · simp [constructInc, constructP, construct]
  · cases h : constructP true fs with
    | ok =>
      have : firstBad (stagesOf fs) = none := by
        rw [firstBad_none_iff]
        intro s hs
        obtain ⟨k, _, rfl⟩ := mem_stagesOf.mp hs
        exact constructP_take_ok _ h
      simp [constructInc, this]
    | typeError =>
      cases hb : firstBad (stagesOf fs) with
      | some k => simp [constructInc, hb]
      | none =>
        exfalso
        rw [firstBad_none_iff] at hb
        cases fs with
        | nil => rw [constructP_nil] at h; cases h
        | cons a r =>
          have := hb (a :: r) (mem_stagesOf.mpr ⟨r.length, by simp, by simp⟩)
          rw [h] at this; cases this

end PF.Typing
