/-
The grammar `MapSpec.from_string` is insensitive to (round 9): a spec written with arbitrary whitespace

    ws name[ ws idx ws , ws idx ws ] ws , ws name[...] ws -> ws name[...] ws          (`ws ... ws ->` for no inputs)

as a decorated tree (`SpSpec`): every array carries the whitespace before its name and after its `]`
(`str.strip()` whitespace, newlines included: `re.findall` skips it, `_mapspec.py:312-313`), every axis the whitespace
around it inside the brackets (the same characters without `\n`, which `.` of `(.+?)` does not match, `_mapspec.py:310`;
`_parse_index_string` strips it, `_mapspec.py:295-297`).  `SpSpec.chars` is the text, `SpSpec.erase` the spec it stands
for, `canon` the decoration `MapSpec.__str__` writes (`_mapspec.py:69-71, 247-250`).  ASCII only.
-/
import PfModel.Model.MapSpecParse
namespace PF.MS

/-- one axis of a written array: whitespace, the index name or `:`, whitespace -/
structure SpAxis where
  l : List Char
  ax : Option String
  r : List Char
  deriving Repr

/-- one written array: whitespace, `name[axes]`, whitespace -/
structure SpArr where
  l : List Char
  name : String
  axes : List SpAxis
  r : List Char
  deriving Repr

/-- a written spec; `dl` stands before `...` (only used when there are no inputs), `al`/`ar` around `->` -/
structure SpSpec where
  inputs : List SpArr
  dl : List Char
  al : List Char
  ar : List Char
  outputs : List SpArr
  deriving Repr

def SpAxis.chars (a : SpAxis) : List Char := a.l ++ (axisChars a.ax ++ a.r)

/-- the text between the brackets: axes separated by `,` -/
def spIdx : List SpAxis → List Char
  | [] => []
  | [a] => a.chars
  | a :: b :: r => a.chars ++ ',' :: spIdx (b :: r)

/-- `name[axes]` without the outer whitespace -/
def SpArr.core (a : SpArr) : List Char := a.name.toList ++ '[' :: (spIdx a.axes ++ [']'])

def SpArr.chars (a : SpArr) : List Char := a.l ++ (a.core ++ a.r)

/-- one side of the arrow: arrays separated by `,` -/
def spSide : List SpArr → List Char
  | [] => []
  | [a] => a.chars
  | a :: b :: r => a.chars ++ ',' :: spSide (b :: r)

def SpSpec.left (t : SpSpec) : List Char :=
  (match t.inputs with
   | [] => t.dl ++ ['.', '.', '.']
   | _ :: _ => spSide t.inputs) ++ t.al

def SpSpec.right (t : SpSpec) : List Char := t.ar ++ spSide t.outputs

def SpSpec.chars (t : SpSpec) : List Char := t.left ++ '-' :: '>' :: t.right

/-- the written text -/
def SpSpec.print (t : SpSpec) : String := String.ofList t.chars

def SpArr.erase (a : SpArr) : ArraySpec := ⟨a.name, a.axes.map (·.ax)⟩

/-- the spec a written text stands for: the decoration forgotten -/
def SpSpec.erase (t : SpSpec) : MapSpec := ⟨t.inputs.map SpArr.erase, t.outputs.map SpArr.erase⟩

/-- whitespace allowed outside the brackets: whatever `str.strip()` removes -/
def outerWs (w : List Char) : Bool := w.all isSpace
/-- whitespace allowed inside the brackets: the same without the newline -/
def innerWs (w : List Char) : Bool := w.all fun c => isSpace c && c != '\n'

def SpAxis.ok (x : SpAxis) : Bool := innerWs x.l && innerWs x.r
def SpArr.ok (a : SpArr) : Bool := outerWs a.l && outerWs a.r && a.axes.all SpAxis.ok
def SpSpec.ok (t : SpSpec) : Bool :=
  t.inputs.all SpArr.ok && t.outputs.all SpArr.ok && outerWs t.dl && outerWs t.al && outerWs t.ar

/-! ### the decoration `__str__` writes -/

def canonAxes : List (Option String) → List SpAxis
  | [] => []
  | x :: r => ⟨[], x, []⟩ :: r.map fun y => ⟨[' '], y, []⟩

def canonArr (l : List Char) (a : ArraySpec) : SpArr := ⟨l, a.name, canonAxes a.axes, []⟩

def canonSide : List ArraySpec → List SpArr
  | [] => []
  | a :: r => canonArr [] a :: r.map (canonArr [' '])

/-- `MapSpec.__str__` as a decoration: `", "` between axes and arrays, `" -> "` -/
def canon (m : MapSpec) : SpSpec := ⟨canonSide m.inputs, [], [' '], [' '], canonSide m.outputs⟩

end PF.MS
