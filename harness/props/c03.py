"""C03 — Map results and call counts are independent of executor, storage and schedule.

Correspondence: the real `Pipeline.map` / `Pipeline.map_async` on generated map pipelines (harness/mapgen.py) under
 (a) the permuting executor (harness/c03_permexec.py) through the public `executor=` argument — every completion order of
     a generation with <= 5 tasks, sampled orders otherwise; one shared schedule across per-output executors;
 (b) real ThreadPoolExecutor / ProcessPoolExecutor with seeded per-call delays;
 (c) a different executor per output (dict, with and without the "" default);
 (d) `map_async` (debounced permuting executor, real pools);
 x storages dict / file_array / shared_memory_dict and per-output mixes, with and without a run folder.
Every run is compared with the model's schedule-free answer (`map.run`, driver C01, proved equal to the MapSpec
denotation) on: returned arrays, in-memory stores, re-loaded stores, the cross-process call multiset, the barrier on the
append-only call log, the executor each task was handed to, and the place (worker / parent) and number of dumps of every
element.  Runs under the permuting executor are additionally compared with `PF.Sched.runMapSched` (driver C03,
`map.sched`) played on the observed schedule: the execution-order call log and the dump events must coincide.
"""
from __future__ import annotations

import asyncio
import copy
import itertools
import json
import math
import os
import shutil
import sys
import tempfile
import threading
from concurrent.futures import ProcessPoolExecutor, ThreadPoolExecutor

import pfimport  # noqa: F401
from pfimport import exc_enum

import c03_permexec as px
import mapgen
import terms

PID = "C03"
PROPS = ["PfModel.Props.C03"]
DRIVER = "C03"
RULE = ("pipelines from harness/mapgen.py (1-4 functions: element-wise/zip, outer product, partial and full reductions, internal axes, "
        "'... -> v[j]' producers, tuple outputs, plain functions; axis sizes 1-3); per pipeline: for every generation with <= 5 submitted "
        "tasks all its completion orders (the other generations in a fresh random order), else 40 (quick: 12) sampled orders, cycling "
        "through storages dict / file_array / per-output mixes / shared_memory_dict with and without a run folder, with one executor or a "
        "different executor per output; plus real thread pools (quick) and process pools, mixed pools and map_async (mostly thorough) with "
        "seeded per-call delays; non-trivial = some generation submits >= 2 tasks; distinct by (pipeline, inputs, configuration, schedule)")
ASSUMPTIONS = ["interleavings *inside* a task body (two workers inside cloudpickle.dump, Manager proxy round-trips, os.listdir racing a write) "
               "are exercised by the real pools but not modelled: the theorem covers every interleaving at the granularity of task bodies "
               "and parent-side processing",
               "NumPy object-array indexing, cloudpickle, concurrent.futures and asyncio are specified by the model, not verified",
               "the order of functions inside a generation is not compared (only the set), schedules are transported by task label",
               "dump events are observed by wrapping DictArray.dump / FileArray.dump in the harness process (inherited by forked workers)"]

DUMP_SUB = {"dict": False, "file_array": True, "shared_memory_dict": True}

# ------------------------------------------------------------------------------------------------ dump observation
_DUMP = {"path": None, "ppid": None, "ptid": None}


def _install_dump_hook():
    from pipefunc.map._storage_array._dict import DictArray
    from pipefunc.map._storage_array._file import FileArray

    for cls in (DictArray, FileArray):
        if getattr(cls.dump, "_c03", False):
            continue
        orig = cls.dump

        def dump(self, key, value, _orig=orig):
            path = _DUMP["path"]
            if path is not None:
                try:
                    folder = getattr(self, "folder", None)
                    worker = os.getpid() != _DUMP["ppid"] or threading.get_ident() != _DUMP["ptid"] or px.in_body()
                    rec = [os.path.basename(str(folder)) if folder is not None else None, id(self), repr(key), bool(worker)]
                    fd = os.open(path, os.O_WRONLY | os.O_APPEND | os.O_CREAT, 0o644)
                    try:
                        os.write(fd, (json.dumps(rec) + "\n").encode())
                    finally:
                        os.close(fd)
                except Exception:  # noqa: BLE001
                    pass
            return _orig(self, key, value)

        dump._c03 = True
        cls.dump = dump


# ------------------------------------------------------------------------------------------------ model side
def model_obs(r):
    if "err" in r:
        return {"err": r["err"], "msg": r.get("why")}
    return {"outputs": {k: terms.canon(v) for k, v in r["outputs"]}, "stored": {k: terms.canon(v) for k, v in r["stored"]},
            "calls": sorted(([n, [[k, terms.canon(v)] for k, v in sorted(kw, key=lambda kv: kv[0])]] for n, kw in r["calls"]), key=repr),
            "shapes": dict(r["shapes"]), "masks": dict(r["masks"]), "gens": r["gens"]}


def canon_call(n, kw):
    return [n, [[k, terms.canon(v)] for k, v in sorted(kw, key=lambda kv: kv[0])]]


def olabel(f):
    return "+".join(f["outputs"])


def is_mapped(f):
    return bool(f["mapspec"] and f["mapspec"]["inputs"])


def approx_tasks(desc):
    """Largest number of tasks one mapped function submits (from the generator's axis sizes)."""
    best = 1
    for f in desc["funcs"]:
        if is_mapped(f):
            ext = {a for spec in f["mapspec"]["inputs"] for a in spec[1] if a}
            best = max(best, math.prod(desc["sizes"][a] for a in ext))
    return best


def plan(desc, model):
    """Per generation of the model: {output label: number of submitted tasks}; also label -> function."""
    by_name = {f["name"]: f for f in desc["funcs"]}
    gens = []
    for g in model["gens"]:
        d = {}
        for n in g:
            f = by_name[n]
            if is_mapped(f):
                sh, mk = model["shapes"][f["outputs"][0]], model["masks"][f["outputs"][0]]
                d[olabel(f)] = math.prod(s for s, m in zip(sh, mk) if m)
            else:
                d[olabel(f)] = 1
        gens.append(d)
    return gens, {olabel(f): f for f in desc["funcs"]}


# ------------------------------------------------------------------------------------------------ implementation side
def out_key(f):
    return f["outputs"][0] if len(f["outputs"]) == 1 else tuple(f["outputs"])


def storage_arg(desc, cfg):
    st = cfg["storage"]
    if isinstance(st, str):
        return st
    by_name = {f["name"]: f for f in desc["funcs"]}
    return {("" if k == "" else out_key(by_name[k])): v for k, v in st.items()}


def storage_of(desc, cfg, f):
    st = cfg["storage"]
    if isinstance(st, str):
        return st
    return st.get(f["name"], st.get(""))


def make_executors(desc, cfg, core, record):
    """The `executor=` argument and the list of real pools to shut down."""
    pools = []

    def one(tag, kind):
        if kind == "perm":
            return px.PermExecutor(core, tag)
        inner = ThreadPoolExecutor(cfg.get("workers", 3)) if kind == "thread" else ProcessPoolExecutor(cfg.get("workers", 3))
        pools.append(inner)
        return px.TagExecutor(inner, tag, record)

    kinds = cfg["kinds"]                    # {"": kind | absent, fname: kind}
    if list(kinds) == [""]:
        return one("", kinds[""]), pools
    by_name = {f["name"]: f for f in desc["funcs"]}
    return {("" if k == "" else out_key(by_name[k])): one("" if k == "" else olabel(by_name[k]), v) for k, v in kinds.items()}, pools


def expected_tag(desc, cfg, f):
    return olabel(f) if f["name"] in cfg["kinds"] else ""


class Built:
    """A pipeline built once per case: the same `Pipeline` object serves every configuration (that runs do not depend on
    what earlier runs of the same object did is part of what is being checked); the per-call delays are re-seeded per run."""

    def __init__(self, desc):
        self.delays = {f["name"]: px.SeededDelay(0, 0.0) for f in desc["funcs"]}
        self.log = px.PLog(None)
        try:
            self.p, _ = mapgen.build(desc, log=self.log, delay=self.delays)
            self.err = None
        except Exception as e:  # noqa: BLE001
            self.p, self.err = None, {"err": exc_enum(e), "at": "construct", "msg": str(e)[:200]}


def run_impl(desc, cfg, base, built=None):
    """One run of the real code under `cfg`.  Never raises; a hang is an observation."""
    from pipefunc.map import load_outputs

    built = built or Built(desc)
    if built.err:
        return dict(built.err)
    work = tempfile.mkdtemp(dir=base)
    log, p = built.log, built.p
    log.path = os.path.join(work, "calls.log")
    log.calls.clear()
    dump_path = os.path.join(work, "dumps.log")
    obs = {"schedule": None}
    for i, (name, d) in enumerate(built.delays.items()):
        d.seed = (cfg.get("delay") or 0) * 131 + i
        d.max_s = cfg.get("max_delay", 0.004) if cfg.get("delay") is not None else 0.0
    folder = os.path.join(work, "run") if cfg.get("folder", True) else None
    orders = cfg.get("orders") or []
    mism = []

    def choose(n, b):
        if b < len(orders) and sorted(orders[b]) == list(range(n)):
            return orders[b]
        mism.append((b, n))
        return list(range(n))

    # map_async never blocks on a future: the queued bodies are released by a debounce timer; under `map` the parent's first
    # `result()` releases them and the (long) timer is only a fallback so that code that never asks still makes progress
    core = px.PermCore(choose, debounce=0.03 if cfg["entry"] == "async" else 2.0, wait=cfg.get("timeout", 20))
    record: list = []
    ex, pools = make_executors(desc, cfg, core, record)
    kw = dict(run_folder=folder, internal_shapes=mapgen.internal_shapes_arg(desc), executor=ex, storage=storage_arg(desc, cfg))
    inputs = mapgen.py_inputs(desc)

    def go():
        _DUMP.update(path=dump_path, ppid=os.getpid(), ptid=threading.get_ident())
        if cfg["entry"] == "map":
            return mapgen.quiet(p.map, inputs, parallel=True, **kw)

        async def main():
            am = p.map_async(inputs, **kw)
            return await asyncio.wait_for(am.task, cfg.get("timeout", 20))

        return mapgen.quiet(asyncio.run, main())

    saved_streams = (sys.stdout, sys.stderr)
    ids = {}
    by_out = {o: f for f in desc["funcs"] for o in f["outputs"]}

    def read(res):
        """Returned arrays, in-memory stores, stores re-loaded from the run folder."""
        obs["outputs"], obs["stored"], obs["reloaded"] = {}, {}, {}
        try:
            for name, r in res.items():
                obs["outputs"][name] = terms.enc(r.output)
                st = r.store
                if hasattr(st, "to_array"):
                    obs["stored"][name] = terms.enc(st.to_array())
                    ids[id(st)] = name
                elif hasattr(st, "value"):
                    obs["stored"][name] = terms.enc(st.value)
                else:
                    from pipefunc._utils import load
                    obs["stored"][name] = terms.enc(load(st))
            names = [n for n in res if folder is not None and cfg.get("reload", True) and storage_of(desc, cfg, by_out[n]) != "shared_memory_dict"]
            if names:
                vals = load_outputs(*names, run_folder=folder)
                for n, v in zip(names, [vals] if len(names) == 1 else vals):
                    obs["reloaded"][n] = terms.enc(v)
        except px.Hang:
            raise
        except Exception as e:  # noqa: BLE001
            obs.update(err=exc_enum(e), at="read", msg=str(e)[:200])

    try:
        status, val = px.run_with_watchdog(lambda: read(go()), cfg.get("timeout", 60 if pools else 25))
        sys.stdout, sys.stderr = saved_streams       # a hung run never leaves `redirect_stdout`
        _DUMP["path"] = None
        obs["schedule"] = [{"labels": b["labels"], "order": b["order"], "tags": b["tags"]} for b in core.batches]
        obs["order_mismatch"] = mism
        obs["submitted_during_flush"] = core.submitted_during_flush
        obs["timer_flushes"] = core.timer_flushes
        if status == "hang" or (status == "exc" and isinstance(val, (px.Hang, asyncio.TimeoutError, TimeoutError))):
            for q in pools:
                px.kill_pool(q)
            pools.clear()
            obs["hang"] = True
            obs["log"] = log.read()
            return obs
        if status == "exc":
            obs.update(err=exc_enum(val), at="map", msg=str(val)[:200])
            return obs
        if "err" in obs:
            return obs
        obs["log"] = log.read()
        obs["tags"] = record + [(t, l) for b in core.batches for t, l in zip(b["tags"], b["labels"])]
        dumps = []
        if os.path.exists(dump_path):
            with open(dump_path) as fh:
                for line in fh:
                    base_name, ident, key, worker = json.loads(line)
                    dumps.append([base_name if base_name is not None else ids.get(ident, f"?{ident}"), key, worker])
        obs["dumps"] = dumps
        return obs
    finally:
        _DUMP["path"] = None
        for q in pools:                   # join the workers: lingering threads make later forks (process pools, Managers) hazardous
            try:
                q.shutdown(wait=True, cancel_futures=True)
            except Exception:  # noqa: BLE001
                pass
        shutil.rmtree(work, ignore_errors=True)


# ------------------------------------------------------------------------------------------------ judging
def cfg_key(cfg):
    return f"{'+'.join(sorted(set(cfg['kinds'].values())))}/{cfg['entry']}/{'split' if len(cfg['kinds']) > 1 or '' not in cfg['kinds'] else 'one'}"


def storage_key(cfg):
    st = cfg["storage"]
    return st if isinstance(st, str) else "mix:" + "+".join(sorted(set(st.values())))


def judge(ctx, desc, cfg, obs, model):
    """Clauses of the property evaluated on the implementation's own observation; returns True when the run is clean."""
    case = {"desc": desc, "cfg": cfg, "schedule": obs.get("schedule")}
    gens, by_label = plan(desc, model)
    ctx.count("run:" + cfg_key(cfg))
    ctx.count("storage:" + storage_key(cfg) + ("" if cfg.get("folder", True) else "/no-folder"))
    ctx.record({"desc": desc, "cfg": cfg}, nontrivial=any(sum(g.values()) >= 2 for g in gens))
    if obs.get("hang"):
        ctx.violation(case, "the run hangs (a submitted future is never resolved / map does not return) under this schedule", impl={"log": obs.get("log")})
        return False
    if "err" in obs:
        ctx.violation(case, f"valid request fails at {obs['at']} with {obs['err']}: {obs.get('msg', '')[:120]}", impl=obs)
        return False
    # equal results, equal stored data
    for name, want in model["outputs"].items():
        if obs["outputs"].get(name) != want:
            ctx.violation(case, f"returned `{name}` differs from the schedule-free result", impl={"output": obs["outputs"].get(name)}, model={"output": want})
            return False
        if obs["stored"].get(name) != model["stored"].get(name):
            ctx.violation(case, f"stored `{name}` differs from the schedule-free result", impl={"stored": obs["stored"].get(name)}, model={"stored": model["stored"].get(name)})
            return False
        if name in obs["reloaded"] and obs["reloaded"][name] != model["stored"].get(name):
            ctx.violation(case, f"re-loaded `{name}` differs from the schedule-free result", impl={"reloaded": obs["reloaded"][name]}, model={"stored": model["stored"].get(name)})
            return False
    # once per index / once in total
    calls = sorted(([c[0], c[1]] for c in obs["log"] if c[2] == "call"), key=repr)
    if calls != model["calls"]:
        ctx.violation(case, "call multiset differs: a function was not invoked exactly once per output index (once in total without MapSpec)",
                      impl={"calls": calls}, model={"calls": model["calls"]})
        return False
    # barrier: no call of a later generation before every 'done' of all earlier generations
    gen_of = {n: g for g, names in enumerate(model["gens"]) for n in names}
    expected = [0] * len(model["gens"])
    for n, _ in model["calls"]:
        expected[gen_of[n]] += 1
    done = [0] * len(model["gens"])
    for n, _, phase, _ in obs["log"]:
        g = gen_of[n]
        if phase == "done":
            done[g] += 1
        elif any(done[h] != expected[h] for h in range(g)):
            ctx.violation(case, f"`{n}` (generation {g}) was invoked before every task of the earlier generations had completed",
                          impl={"log": [[c[0], c[2]] for c in obs["log"]]}, model={"gens": model["gens"]})
            return False
    # executor selection
    for tag, (lab, _) in obs["tags"]:
        f = by_label.get(lab)
        if f is not None and tag != expected_tag(desc, cfg, f):
            ctx.violation(case, f"task of `{lab}` was submitted to executor `{tag or 'default'}`, expected `{expected_tag(desc, cfg, f) or 'default'}`",
                          found_input=False, item="correspondence:executor-selection")
            return False
    if len(obs["tags"]) != sum(sum(g.values()) for g in gens):
        ctx.violation(case, "number of submitted tasks differs from one per (mapped function, index) plus one per un-mapped function",
                      found_input=False, item="correspondence:submitted-tasks", impl={"tags": obs["tags"]}, model={"plan": gens})
        return False
    # single dump, worker xor parent
    want_dumps = []
    for f in desc["funcs"]:
        if is_mapped(f):
            n = next(g[olabel(f)] for g in gens if olabel(f) in g)
            for o in f["outputs"]:
                want_dumps += [(o, DUMP_SUB[storage_of(desc, cfg, f)])] * n
    got_dumps = sorted((d[0], d[2]) for d in obs["dumps"])
    if got_dumps != sorted(want_dumps) or len({(d[0], d[1]) for d in obs["dumps"]}) != len(obs["dumps"]):
        ctx.violation(case, "an element was not dumped exactly once (in the worker iff the storage has dump_in_subprocess, else in the parent)",
                      found_input=False, item="correspondence:single-dump", impl={"dumps": obs["dumps"]}, model={"dumps": sorted(want_dumps)})
        return False
    if obs.get("submitted_during_flush") and cfg["entry"] == "map" and not obs.get("timer_flushes"):
        ctx.violation(case, "tasks were submitted while bodies of the previous batch were still running (no barrier at the executor)",
                      found_input=False, item="correspondence:barrier-submit")
        return False
    return True


def sched_request(desc, cfg, obs, model):
    """`map.sched` request replaying the observed schedule of a permuting-executor run; None when the batches are not the model's generations."""
    gens, by_label = plan(desc, model)
    sched = obs["schedule"]
    if len(sched) != len(gens):
        return None
    orders = []
    for b, g in zip(sched, gens):
        cnt = {}
        for lab, _ in b["labels"]:
            cnt[lab] = cnt.get(lab, 0) + 1
        if cnt != g:
            return None
        orders.append([[by_label[b["labels"][i][0]]["name"], b["labels"][i][1] or 0] for i in b["order"]])
    dump_sub = [o for f in desc["funcs"] for o in f["outputs"] if DUMP_SUB[storage_of(desc, cfg, f)]]
    a = mapgen.model_request(desc)
    a.update(orders=orders, dump_sub=dump_sub)
    return {"m": "map.sched", "a": a}


def judge_sched(ctx, desc, cfg, obs, model, resp):
    case = {"desc": desc, "cfg": cfg, "schedule": obs.get("schedule")}
    ctx.count("sched-replayed")
    if not resp.get("unique_outputs") or not resp.get("equal") or not resp.get("barrier", False):
        raise AssertionError(f"model: scheduled run differs from the sequential run on a generated case: {json.dumps(case)[:2000]}")
    want = [canon_call(n, kw) for tr in resp["trace"] for n, kw in tr["calls"]]
    got = [[c[0], c[1]] for c in obs["log"] if c[2] == "call"]
    if got != want:
        ctx.violation(case, "execution-order call log differs from the model played on the same schedule", found_input=False,
                      item="correspondence:execution-order", impl={"calls": got}, model={"calls": want})
        return
    by_out = {o: f for f in desc["funcs"] for o in f["outputs"]}
    want_d = sorted([o, w] for tr in resp["trace"] for o, idx, w in tr["dumps"] if idx is not None and is_mapped(by_out[o]))
    got_d = sorted([d[0], d[2]] for d in obs["dumps"])
    if got_d != want_d:
        ctx.violation(case, "dump events differ from the model played on the same schedule", found_input=False,
                      item="correspondence:dump-events", impl={"dumps": got_d}, model={"dumps": want_d})


# ------------------------------------------------------------------------------------------------ configurations
def storages_for(rng, desc, k, thorough):
    """The k-th storage assignment for a pipeline (cycled)."""
    names = [f["name"] for f in desc["funcs"]]
    base = ["dict", "file_array", "mix", "dict", "file_array", "mix2"]
    s = base[k % len(base)]
    if s == "mix":
        return {"": "dict", rng.choice(names): "file_array"}
    if s == "mix2":
        pool = ["dict", "file_array", "shared_memory_dict"] if thorough or rng.random() < 0.15 else ["dict", "file_array"]
        return {"": rng.choice(pool), **{n: rng.choice(pool) for n in names if rng.random() < 0.6}}
    return s


def split_kinds(rng, desc, kind_default, kind_other):
    """A different executor per output: some functions get their own executor; sometimes there is no default at all."""
    names = [f["name"] for f in desc["funcs"]]
    if rng.random() < 0.3:
        return {n: (kind_other if rng.random() < 0.5 else kind_default) for n in names}
    own = [n for n in names if rng.random() < 0.5] or [rng.choice(names)]
    return {"": kind_default, **{n: kind_other for n in own}}


def perm_orders(rng, sizes, limit):
    """Schedules for one pipeline: for every generation with <= 5 tasks all its orders (others random), else `limit` samples."""
    out = []
    for g, n in enumerate(sizes):
        if n <= 1:
            continue
        perms = list(itertools.permutations(range(n))) if n <= 5 else [tuple(rng.sample(range(n), n)) for _ in range(limit)]
        for pm in perms:
            out.append([list(pm) if h == g else rng.sample(range(m), m) for h, m in enumerate(sizes)])
    if not out:
        out.append([list(range(m)) for m in sizes])
    return out


def _chain():
    """The design-phase prototype: f0, f1 element-wise over x0 in one generation (6 tasks), f2 zips their results."""
    def fn(name, ins, out):
        ms = {"inputs": [[p, ["i"]] for p in ins], "outputs": [[out, ["i"]]]}
        return {"name": name, "params": [[p, p] for p in ins], "outputs": [out], "mapspec": ms, "mapspec_str": mapgen.spec_str(ms), "autogen": False,
                "ret": None, "internal": None, "defaults": [], "bound": []}
    elems = [{"f": "in", "k": [["n", {"s": "x0"}], ["at", {"arr": [[1], [q]]}]]} for q in range(3)]
    return {"funcs": [fn("f0", ["x0"], "y0"), fn("f1", ["x0"], "y1"), fn("f2", ["y0", "y1"], "y2")],
            "inputs": [["x0", {"arr": [[3], elems]}]], "input_kinds": {"x0": "list"}, "internal": [], "sizes": {"i": 3, "j": 1, "k": 1}}


# (desc, cfg) pairs: the prototype pipeline under an interleaved reversed schedule with one executor per output and mixed
# storages; past failures are appended here
CORPUS: list = [(_chain(), {"kinds": {"f0": "perm", "f1": "perm", "f2": "perm"}, "entry": "map", "storage": {"": "dict", "f1": "file_array"},
                            "folder": True, "orders": [[5, 2, 4, 1, 3, 0], [1, 2, 0]]})]


def malformed(ctx, base):
    """Configurations the runner must refuse: an executor with parallel=False; an executor dict that covers neither the output nor a default."""
    rng = ctx.rng
    for _ in range(ctx.n(4, 40)):
        desc = mapgen.gen_case(rng, max_funcs=3)
        log = px.PLog(os.path.join(base, f"mal{rng.randrange(10**9)}.log"))
        p, _ = mapgen.build(desc, log=log)
        core = px.PermCore(lambda n, b: list(range(n)))
        which = rng.choice(["seq+executor", "no-default"]) if len(desc["funcs"]) > 1 else "seq+executor"
        ctx.count("malformed:" + which)
        try:
            if which == "seq+executor":
                mapgen.quiet(p.map, mapgen.py_inputs(desc), internal_shapes=mapgen.internal_shapes_arg(desc), parallel=False,
                             executor=px.PermExecutor(core), storage="dict")
            else:
                f0 = rng.choice(desc["funcs"])         # only this function has an executor, and there is no "" default
                mapgen.quiet(p.map, mapgen.py_inputs(desc), internal_shapes=mapgen.internal_shapes_arg(desc), parallel=True,
                             executor={out_key(f0): px.PermExecutor(core)}, storage="dict")
            ctx.violation({"desc": desc, "malformed": which}, "an executor configuration that names no executor for an output is accepted")
        except ValueError:
            if which == "seq+executor" and log.read():
                ctx.violation({"desc": desc, "malformed": which}, "user code ran although the request was refused")
        except Exception as e:  # noqa: BLE001
            ctx.violation({"desc": desc, "malformed": which}, f"refused with {exc_enum(e)} instead of ValueError", found_input=False,
                          item="correspondence:malformed-executor")
        ctx.record({"desc": desc, "malformed": which}, nontrivial=False)


def scratch_root():
    """Run folders hold one small file per element: use the memory-backed tmpfs when there is one."""
    return "/dev/shm" if os.path.isdir("/dev/shm") and os.access("/dev/shm", os.W_OK) else None


def run(ctx):
    rng = ctx.rng
    thorough = ctx.tier == "thorough"
    _install_dump_hook()
    base = tempfile.mkdtemp(prefix="verif-c03-", dir=scratch_root())
    try:
        descs = [copy.deepcopy(d) for d, _ in CORPUS]
        ncorp = len(descs)
        kinds = ["elem", "elem", "elem", "outer", "outer", "partial", "partial", "full", "internal", "internal", "gen", "scalar", "autogen"]
        for _ in range(ctx.n(14, 90)):
            while True:      # mostly pipelines in which some function is mapped over >= 2 indices; a few trivial ones
                d = mapgen.gen_case(rng, max_funcs=rng.choice([2, 3, 4, 5]), kinds=kinds, max_size=rng.choice([2, 3, 3, 4, 5]))
                if approx_tasks(d) >= 2 or rng.random() < 0.1:
                    break
            descs.append(d)
        models = [model_obs(r["r"]) for r in ctx.lean([{"m": "map.run", "a": mapgen.model_request(d)} for d in descs], driver="C01")]
        sched_jobs, hangs = [], 0
        for di, (desc, model) in enumerate(zip(descs, models)):
            if "err" in model:
                raise AssertionError(f"model refuses a generated case: {model} {desc}")
            gens, _ = plan(desc, model)
            sizes = [sum(g.values()) for g in gens]
            ctx.count(f"generation-size:{min(max(sizes), 9)}{'+' if max(sizes) >= 9 else ''}")
            cfgs = []
            if di < ncorp:
                cfgs.append(copy.deepcopy(CORPUS[di][1]))
            # (a) the permuting executor
            for k, orders in enumerate(perm_orders(rng, sizes, 40 if thorough else 12)):
                split = rng.random() < 0.25
                cfgs.append({"kinds": split_kinds(rng, desc, "perm", "perm") if split else {"": "perm"}, "entry": "map",
                             "storage": storages_for(rng, desc, k, thorough), "folder": k % 4 != 3, "orders": orders})
            for cfg in cfgs:                      # dict/mix storages need no folder; file_array and shared memory do
                if not cfg.get("folder", True) and storage_key(cfg) != "dict":
                    cfg["folder"] = True
            # shared memory under the permuting executor (slow: a Manager process per array)
            for _ in range(3 if thorough else (1 if di % 2 == 0 else 0)):
                cfgs.append({"kinds": {"": "perm"}, "entry": "map", "storage": "shared_memory_dict", "folder": True,
                             "orders": [rng.sample(range(m), m) for m in sizes]})
            # (d) map_async under the debounced permuting executor
            for k in range(4 if thorough else 1):
                cfgs.append({"kinds": split_kinds(rng, desc, "perm", "perm") if k % 2 else {"": "perm"}, "entry": "async",
                             "storage": storages_for(rng, desc, rng.randrange(6), thorough), "folder": True,
                             "orders": [rng.sample(range(m), m) for m in sizes]})
            # (b), (c) real pools with seeded delays
            for k in range(8 if thorough else 3):
                cfgs.append({"kinds": split_kinds(rng, desc, "thread", "thread") if k % 3 == 2 else {"": "thread"},
                             "entry": "async" if (k % 4 == 3 or (k == 1 and di % 3 == 0)) else "map", "storage": storages_for(rng, desc, k, thorough), "folder": True,
                             "workers": rng.randint(2, 5), "delay": rng.randrange(10**6)})
            npool = 4 if thorough else (1 if di % 4 == 0 else 0)
            for k in range(npool):
                kinds = {"": "process"} if k % 2 == 0 else split_kinds(rng, desc, "process", "thread")
                cfgs.append({"kinds": kinds, "entry": "async" if k == 3 else "map",
                             "storage": ["file_array", "dict", "shared_memory_dict", storages_for(rng, desc, 5, True)][k % 4], "folder": True,
                             "workers": rng.randint(2, 3), "delay": rng.randrange(10**6), "max_delay": 0.003})
            if not thorough:                      # quick: `load_outputs` (a full RunInfo.load) on every third run only
                for k, cfg in enumerate(cfgs):
                    cfg["reload"] = k % 3 == 0
            replayed = 0
            built = Built(desc)
            for cfg in cfgs:
                if hangs >= 3:           # every further run would cost a watchdog period: three replays are enough
                    ctx.skip("not run after three hangs")
                    continue
                obs = run_impl(desc, cfg, base, built)
                if obs.get("hang") and (set(cfg["kinds"].values()) != {"perm"} or "shared_memory_dict" in storage_key(cfg)):
                    # real pools and Manager processes fork: re-run once; only a hang that repeats is attributed to the run
                    ctx.count("hang-rerun")
                    obs = run_impl(desc, cfg, base, built)
                    if not obs.get("hang"):
                        ctx.skip("hang under a real pool / Manager did not repeat (not reported)")
                hangs += bool(obs.get("hang"))
                clean = judge(ctx, desc, cfg, obs, model)
                if clean and set(cfg["kinds"].values()) == {"perm"} and replayed < (6 if thorough else 4):
                    req = sched_request(desc, cfg, obs, model)
                    if req is None and (cfg["entry"] == "async" or obs.get("timer_flushes")):
                        ctx.skip("a timer released part of a generation (slow parent); schedule not replayed on the model")
                    elif req is None:
                        ctx.violation({"desc": desc, "cfg": cfg, "schedule": obs["schedule"]},
                                      "the batches handed to the executor are not the model's generations", found_input=False,
                                      item="correspondence:generations", impl={"schedule": obs["schedule"]}, model={"plan": gens})
                    else:
                        replayed += 1
                        sched_jobs.append((desc, cfg, obs, model, req))
        malformed(ctx, base)
        for (desc, cfg, obs, model, _), resp in zip(sched_jobs, ctx.lean([j[4] for j in sched_jobs])):
            judge_sched(ctx, desc, cfg, obs, model, resp["r"])
    finally:
        shutil.rmtree(base, ignore_errors=True)


def replay(ctx, case):
    _install_dump_hook()
    base = tempfile.mkdtemp(prefix="verif-c03-", dir=scratch_root())
    try:
        if "cfg" not in case:
            print("malformed-stream case:", case.get("malformed"))
            return
        model = model_obs(ctx.lean([{"m": "map.run", "a": mapgen.model_request(case["desc"])}], driver="C01")[0]["r"])
        obs = run_impl(case["desc"], case["cfg"], base)
        print("schedule:", obs.get("schedule"))
        print("implementation:", {k: v for k, v in obs.items() if k != "schedule"})
        print("model (schedule-free):", model)
    finally:
        shutil.rmtree(base, ignore_errors=True)
