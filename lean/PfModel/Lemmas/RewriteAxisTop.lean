import PfModel.Lemmas.RewriteAxisGens
/-!
`add_mapspec_axis` on a pipeline without prior MapSpecs (part 7): `map_shapes` of the lifted pipeline and the whole run
(`lift_specMap`).
-/
namespace PF.Rw.Ax
open PF PF.Map PF.C01

section top
variable {τ : List String → Option MSpec} {gs : List MFunc} {p axis : String}
variable (K : Nat) (vs : List Val) (rest : List (String × Val))

theorem LiftOK.p_root (ok : LiftOK τ gs p axis) (h : (PF.Map.mapspecNames (gs.map (withSpec τ))).contains p = true) :
    p ∈ rootArgs gs := by
  have h : p ∈ PF.Map.mapspecNames (gs.map (withSpec τ)) := by simpa using h
  unfold PF.Map.mapspecNames at h
  rw [List.mem_flatMap] at h
  obtain ⟨g', hg', hx⟩ := h
  obtain ⟨g, hg, rfl⟩ := List.mem_map.mp hg'
  simp only [withSpec] at hx
  cases hm : τ g.outputs with
  | none => simp [hm] at hx
  | some ms =>
    simp only [hm, List.mem_append, List.mem_map] at hx
    obtain ⟨ho, _, hin, _⟩ := ok.lifted g hg ms hm
    rcases hx with ⟨a, ha, hap⟩ | ⟨a, ha, hap⟩
    · have := (hin a ha).2.1
      rw [hap] at this
      obtain ⟨orig, hp, hb⟩ := (mem_mfree g p).mp this
      exact mem_rootArgs gs g hg p orig hp hb ok.root
    · rw [ho, List.mem_map] at ha
      obtain ⟨o, hoo, rfl⟩ := ha
      simp only at hap
      subst hap
      obtain ⟨c, hc⟩ := producer_isSome_of_mem gs g hg _ hoo
      rw [ok.root] at hc; cases hc

/-- `map_shapes` accepts the lifted pipeline, and records every lifted output that is run with shape `[K]`, mask `[true]` -/
theorem mapShapes_lift (ok : LiftOK τ gs p axis) (internal : List (String × List Nat)) :
    ∃ shapes' masks', mapShapes (gs.map (withSpec τ)) ((p, .arr [K] vs) :: rest) internal = .ok (shapes', masks') ∧
      ∀ f ∈ (generations gs).flatten, ShOK τ K shapes' masks' f := by
  have hr : rootArrays (gs.map (withSpec τ)) ((p, .arr [K] vs) :: rest) = true := by
    unfold rootArrays
    rw [rootArgs_withSpec]
    apply List.all_eq_true.mpr
    intro r hr
    by_cases hc : (PF.Map.mapspecNames (gs.map (withSpec τ))).contains r = true
    · have hrp : r = p := by
        rcases ok.specNames r (by simpa using hc) with e | ⟨g, hg⟩
        · exact e
        · rw [mem_rootArgs_producer gs r hr] at hg; cases hg
      subst hrp
      simp [alookup, shapeOf]
    · have hc' : (PF.Map.mapspecNames (gs.map (withSpec τ))).contains r = false := by
        cases h : (PF.Map.mapspecNames (gs.map (withSpec τ))).contains r with
        | false => rfl
        | true => exact absurd h hc
      rw [hc']; rfl
  obtain ⟨r1, r2⟩ := rootTbl_lift K vs rest ok
  have I0 : TInv (τ := τ) (gs := gs) (p := p) K (rootTbl (gs.map (withSpec τ)) ((p, .arr [K] vs) :: rest)) [] :=
    ⟨r1, fun h => r2 (ok.p_root h) h, fun _ _ _ hd => by cases hd⟩
  obtain ⟨a, b, _, d⟩ := layers_lift K ok internal (gs.length + 1) [] gs _ (fun f hf => hf) I0
  have hgen : generations (gs.map (withSpec τ)) = (layers gs (gs.length + 1) [] gs).map (List.map (withSpec τ)) := by
    rw [generations_withSpec]; rfl
  have hs : shapesOK internal (generations (gs.map (withSpec τ))).flatten (rootTbl (gs.map (withSpec τ)) ((p, .arr [K] vs) :: rest)) = true := by
    rw [hgen]; exact a
  refine ⟨_, _, mapShapes_ok _ _ internal hr hs, ?_⟩
  intro f hf hsome o ho
  rw [hgen]
  have hrec := d f hf hsome o ho
  have := b.lookup o hrec
  rw [alookup_shapesOf, alookup_masksOf, this]
  exact ⟨rfl, rfl⟩

theorem runMapWith_inv (arr : MFunc → List Nat → List Bool → (Nat → List (String × Val)) → String → Val)
    (fs : List MFunc) (inputs : List (String × Val)) (ui : List (String × List Nat)) (R : MapResult)
    (h : runMapWith arr fs inputs ui = .ok R) :
    validateInputs fs inputs = .ok () ∧ (generations fs).flatten.length = fs.length ∧
    ∃ shapes masks rs env, mapShapes fs inputs (constructInternal fs ui) = .ok (shapes, masks) ∧
      runGensWith (runFuncWith arr fs shapes masks) (generations fs) { inputs := inputs, store := [] } = .ok (rs, env) ∧
      R.outputs = rs.flatMap (·.outputs) ∧ R.stored = env.store.map fun (o, s) => (o, s.toVal) := by
  unfold runMapWith at h
  simp only [bind, Except.bind] at h
  split at h
  · cases h
  · next u hv =>
    split at h
    · cases h
    · next hcyc =>
      split at h
      · cases h
      · next sm hsm =>
        split at h
        · cases h
        · next res hres =>
          simp only [pure, Except.pure] at h
          injection h with h
          obtain ⟨shapes, masks⟩ := sm
          obtain ⟨rs, env⟩ := res
          refine ⟨by cases u; exact hv, ?_, shapes, masks, rs, env, hsm, hres, by rw [← h], by rw [← h]⟩
          by_cases hl : (generations fs).flatten.length = fs.length
          · exact hl
          · exact absurd hl hcyc

/-- **The lifted run against the pointwise runs** (at the level of `PF.Map`): `gs` has no MapSpecs, `τ` lifts `p` along a
    fresh axis (`LiftOK`), `p` is given as the array of the `K ≥ 1` variants `vs`.  If the original pipeline runs for each
    variant, the lifted pipeline runs, and name by name (`VRel`): an output of a function that carries the new axis is the
    array of the `K` pointwise results; every other output is what each pointwise run returns.  The same for what the run
    folder holds afterwards. -/
theorem lift_specMap (ok : LiftOK τ gs p axis) (hlen : vs.length = K) (hK : 0 < K) (ui : List (String × List Nat))
    (Rn : Nat → MapResult) (hruns : ∀ n, n < K → specMap gs ((p, vs.getD n .none) :: rest) ui = .ok (Rn n)) :
    ∃ R', specMap (gs.map (withSpec τ)) ((p, .arr [K] vs) :: rest) ui = .ok R' ∧
      VRel τ gs K R'.outputs (fun n => (Rn n).outputs) ∧ VRel τ gs K R'.stored (fun n => (Rn n).stored) := by
  unfold specMap at hruns ⊢
  -- the pieces of the pointwise runs
  have hinv := fun n hn => runMapWith_inv denoteArray gs _ ui (Rn n) (hruns n hn)
  obtain ⟨hval0, hacyc, _⟩ := hinv 0 hK
  have hrest : ∀ k ∈ akeys rest, producer gs k = none := by
    intro k hk
    have := (validateInputs_ok gs _ hval0).2 k (List.mem_append_left _ (by simp only [akeys, List.map_cons, List.mem_cons]; exact Or.inr hk))
    exact mem_rootArgs_producer gs k this
  -- choose the pieces as functions of the index
  have hex : ∀ n, ∃ t : (List (String × List Nat) × List (String × List Bool)) × (List FuncResult × Env), n < K →
      (mapShapes gs ((p, vs.getD n .none) :: rest) (constructInternal gs ui) = .ok t.1 ∧
      runGensWith (runFuncWith denoteArray gs t.1.1 t.1.2) (generations gs) { inputs := (p, vs.getD n .none) :: rest, store := [] } = .ok t.2 ∧
      (Rn n).outputs = t.2.1.flatMap (·.outputs) ∧ (Rn n).stored = t.2.2.store.map fun (o, s) => (o, s.toVal)) := by
    intro n
    by_cases hn : n < K
    · obtain ⟨_, _, shapes, masks, rs, env, h1, h2, h3, h4⟩ := hinv n hn
      exact ⟨((shapes, masks), (rs, env)), fun _ => ⟨h1, h2, h3, h4⟩⟩
    · exact ⟨(([], []), ([], ⟨[], []⟩)), fun h => absurd h hn⟩
  let T := fun n => Classical.choose (hex n)
  have hpieces : ∀ n, n < K →
      (mapShapes gs ((p, vs.getD n .none) :: rest) (constructInternal gs ui) = .ok (T n).1 ∧
      runGensWith (runFuncWith denoteArray gs (T n).1.1 (T n).1.2) (generations gs) { inputs := (p, vs.getD n .none) :: rest, store := [] } = .ok (T n).2 ∧
      (Rn n).outputs = (T n).2.1.flatMap (·.outputs) ∧ (Rn n).stored = (T n).2.2.store.map fun (o, s) => (o, s.toVal)) :=
    fun n => Classical.choose_spec (hex n)
  -- the lifted run
  have hval : validateInputs (gs.map (withSpec τ)) ((p, .arr [K] vs) :: rest) = .ok () := by
    rw [validateInputs_withSpec, validateInputs_keys gs _ ((p, vs.getD 0 .none) :: rest) (by simp [akeys])]
    exact hval0
  obtain ⟨shapes', masks', hms, hshok⟩ := mapShapes_lift K vs rest ok (constructInternal gs ui)
  have R0 : EnvRel τ gs p K vs rest { inputs := (p, .arr [K] vs) :: rest, store := [] }
      (fun n => { inputs := (p, vs.getD n .none) :: rest, store := [] }) :=
    ⟨rfl, fun _ _ => rfl, VRel.nil τ gs K⟩
  obtain ⟨res', hres', hv, he⟩ := layers_sim K vs rest ok hlen hK hrest shapes' masks' (fun n => (T n).1.1) (fun n => (T n).1.2) (gs.length + 1) [] gs _ _
    (fun f hf => hf) R0 (fun _ _ hd => by cases hd) hshok (fun n => (T n).2) (fun n hn => (hpieces n hn).2.1)
  have hgen : generations (gs.map (withSpec τ)) = (layers gs (gs.length + 1) [] gs).map (List.map (withSpec τ)) := by
    rw [generations_withSpec]; rfl
  have hlen' : (generations (gs.map (withSpec τ))).flatten.length = (gs.map (withSpec τ)).length := by
    rw [generations_withSpec, List.length_map, ← hacyc]
    simp [List.length_flatten, List.map_map, Function.comp_def]
  obtain ⟨rs', env'⟩ := res'
  refine ⟨{ outputs := rs'.flatMap (·.outputs), stored := env'.store.map fun (o, s) => (o, s.toVal), shapes := shapes', masks := masks',
            calls := rs'.flatMap (·.calls), gens := (generations (gs.map (withSpec τ))).map fun g => g.map (·.name) }, ?_, ?_, ?_⟩
  · unfold runMapWith
    rw [hval]
    have hlen'' := hlen'
    rw [hgen] at hlen''
    simp only [bind, Except.bind, hlen'', ne_eq, not_true_eq_false, ↓reduceIte, constructInternal_withSpec, hms, hgen, hres', pure,
      Except.pure]
  · simp only []
    refine ⟨fun x n hn => ?_, fun x hx v' hv' => ?_, fun x hx n hn => ?_⟩
    · rw [(hpieces n hn).2.2.1]; exact hv.pres x n hn
    · rw [hv.lifted x hx v' hv']
      congr 1
      apply List.map_congr_left
      intro n hn
      rw [(hpieces n (List.mem_range.mp hn)).2.2.1]
    · rw [(hpieces n hn).2.2.1]; exact hv.same x hx n hn
  · simp only []
    have hs := he.store
    refine ⟨fun x n hn => ?_, fun x hx v' hv' => ?_, fun x hx n hn => ?_⟩
    · rw [(hpieces n hn).2.2.2]; exact hs.pres x n hn
    · have := hs.lifted x hx v' hv'
      rw [this]
      congr 1
      apply List.map_congr_left
      intro n hn
      rw [(hpieces n (List.mem_range.mp hn)).2.2.2]
      rfl
    · rw [(hpieces n hn).2.2.2]; exact hs.same x hx n hn

end top
end PF.Rw.Ax
