"""Translator for C08 (secondary tie): regenerate Lean facts from /repo's pipefunc/map/_mapspec.py on every run.

Extracted with `ast`:
  * the regular-expression literal that `_parse_indexed_arrays` hands to `re.findall` (and that the call has no flags argument);
    the literal is parsed with Python's own `re._parser.parse` -- the parser `re.compile` uses -- and its tree is written as a term of
    `PF.MS.Re` (lean/PfModel/Model/MapSpecRegex.lean);
  * the separator literals of the parser: `expr.split("->")` in `MapSpec.from_string`, `index_string.split(",")` and the `":"`
    comparison in `_parse_index_string`, the `"..."`, `"["`, `"]"` literals of `_parse_indexed_arrays`;
  * the separators of the printers: `", ".join` in `ArraySpec.__str__` / `MapSpec.__str__` and `" -> "`.
`Props/C08Src.lean` proves by `decide` that the tree is `PF.MS.arrayRe` (the pattern `Props/C08Regex.lean` is about) and that the
literals are the ones the model's `splitArrow`, `splitComma`, `parseIdx`, `parseSide`, `specChars`, `toChars` implement.
"""
from __future__ import annotations

import ast
import os
import re
from pathlib import Path

REPO = Path(os.environ.get("VERIF_REPO", "/repo"))
OUT = Path(__file__).resolve().parent.parent / "lean" / "PfModel" / "Generated" / "C08Facts.lean"

_P = re._parser  # noqa: SLF001   (sre_parse: the parser `re.compile` itself uses)
_C = re._constants  # noqa: SLF001


class Untranslatable(ValueError):
    pass


def lean_str(s):
    out = ['"']
    for ch in s:
        if ch == "\\":
            out.append("\\\\")
        elif ch == '"':
            out.append('\\"')
        elif ch == "\n":
            out.append("\\n")
        elif ch == "\t":
            out.append("\\t")
        elif 32 <= ord(ch) < 127:
            out.append(ch)
        else:
            out.append("\\u{%x}" % ord(ch))
    out.append('"')
    return "".join(out)


def lean_char(code):
    return f"(Char.ofNat {code})"


def _item(op, av):
    if op is _C.LITERAL:
        return f"(.chr (.lit {lean_char(av)}))"
    if op is _C.ANY:
        return "(.chr .any)"
    if op is _C.IN:
        if list(av) == [(_C.CATEGORY, _C.CATEGORY_WORD)]:
            return "(.chr .word)"
        raise Untranslatable(f"character set {av!r}")
    if op in (_C.MAX_REPEAT, _C.MIN_REPEAT):
        mn, mx, sub = av
        mxs = "none" if mx is _C.MAXREPEAT else f"(some {int(mx)})"
        g = "true" if op is _C.MAX_REPEAT else "false"
        return f"(.rep {g} {int(mn)} {mxs} {_seq(list(sub))})"
    if op is _C.SUBPATTERN:
        group, add_flags, del_flags, sub = av
        if add_flags or del_flags:
            raise Untranslatable("inline flags")
        if group is None:
            return _seq(list(sub))
        return f"(.grp {int(group)} {_seq(list(sub))})"
    raise Untranslatable(f"regex construct {op!r}")


def _seq(items):
    if not items:
        return ".eps"
    if len(items) == 1:
        return _item(*items[0])
    return f"(.seq {_item(*items[0])} {_seq(items[1:])})"


def regex_term(pattern: str) -> tuple[str, int]:
    tree = _P.parse(pattern)
    flags = tree.state.flags & ~re.UNICODE        # str patterns always carry re.UNICODE; anything else (inline (?s) …) changes the meaning
    return _seq(list(tree.data)), int(flags)


def _func(tree, name, cls=None):
    for node in ast.walk(tree):
        if cls is None and isinstance(node, ast.FunctionDef) and node.name == name and node.col_offset == 0:
            return node
        if cls is not None and isinstance(node, ast.ClassDef) and node.name == cls:
            for sub in node.body:
                if isinstance(sub, ast.FunctionDef) and sub.name == name:
                    return sub
    raise Untranslatable(f"function {cls + '.' if cls else ''}{name} not found")


def _const_env(fn):
    env = {}
    for node in ast.walk(fn):
        if isinstance(node, ast.Assign) and len(node.targets) == 1 and isinstance(node.targets[0], ast.Name) \
                and isinstance(node.value, ast.Constant) and isinstance(node.value.value, str):
            env[node.targets[0].id] = node.value.value
    return env


def _calls(fn, attr):
    return [n for n in ast.walk(fn) if isinstance(n, ast.Call) and isinstance(n.func, ast.Attribute) and n.func.attr == attr]


def _str_arg(call, env, i=0):
    a = call.args[i]
    if isinstance(a, ast.Constant) and isinstance(a.value, str):
        return a.value
    if isinstance(a, ast.Name) and a.id in env:
        return env[a.id]
    raise Untranslatable("argument is not a string literal")


def _str_consts(fn):
    """string constants of a function that are not its docstring or part of a message (`msg = ...`); an f-string contributes its
    template (`{}` for every formatted value) and the constants inside its formatted values"""
    skip = set()
    templates = []
    for node in ast.walk(fn):
        if isinstance(node, ast.Assign) and any(isinstance(t, ast.Name) and t.id == "msg" for t in node.targets):
            for sub in ast.walk(node.value):
                skip.add(id(sub))
    for node in ast.walk(fn):
        if isinstance(node, ast.JoinedStr) and id(node) not in skip:
            templates.append("".join(v.value if isinstance(v, ast.Constant) else "{}" for v in node.values))
            for v in node.values:
                if isinstance(v, ast.Constant):
                    skip.add(id(v))
    out = list(templates)
    for node in ast.walk(fn):
        if isinstance(node, ast.Constant) and isinstance(node.value, str) and id(node) not in skip:
            out.append(node.value)
    doc = ast.get_docstring(fn, clean=False)
    return [s for s in out if s != doc]


def extract():
    tree = ast.parse((REPO / "pipefunc" / "map" / "_mapspec.py").read_text())
    # --- the regex
    fn = _func(tree, "_parse_indexed_arrays")
    env = _const_env(fn)
    fa = _calls(fn, "findall")
    if len(fa) != 1 or not (isinstance(fa[0].func.value, ast.Name) and fa[0].func.value.id == "re"):
        raise Untranslatable("_parse_indexed_arrays no longer calls re.findall exactly once")
    call = fa[0]
    pattern = _str_arg(call, env, 0)
    n_extra = len(call.args) - 2 + len(call.keywords)                 # a flags argument would change the semantics
    term, inline_flags = regex_term(pattern)
    side_lits = sorted(set(_str_consts(fn)) - {pattern})
    # --- from_string: the split literal
    fs = _func(tree, "from_string", "MapSpec")
    sp = _calls(fs, "split")
    if len(sp) != 1:
        raise Untranslatable("MapSpec.from_string no longer has exactly one .split call")
    arrow = _str_arg(sp[0], {}, 0)
    arrow_maxsplit = len(sp[0].args) - 1 + len(sp[0].keywords)
    # --- _parse_index_string
    pis = _func(tree, "_parse_index_string")
    sp2 = _calls(pis, "split")
    if len(sp2) != 1:
        raise Untranslatable("_parse_index_string no longer has exactly one .split call")
    comma = _str_arg(sp2[0], {}, 0)
    idx_lits = sorted(set(_str_consts(pis)) - {comma})
    strip_args = [len(c.args) + len(c.keywords) for c in _calls(pis, "strip")]
    # --- printers
    a_str = _func(tree, "__str__", "ArraySpec")
    m_str = _func(tree, "__str__", "MapSpec")
    a_lits = sorted(set(_str_consts(a_str)))
    m_lits = sorted(set(_str_consts(m_str)))
    return {"pattern": pattern, "term": term, "findall_extra_args": n_extra, "inline_flags": inline_flags, "side_literals": side_lits,
            "arrow": arrow, "arrow_extra_args": arrow_maxsplit, "comma": comma, "index_literals": idx_lits, "strip_args": strip_args,
            "arrayspec_str_literals": a_lits, "mapspec_str_literals": m_lits}


def render(f):
    def lst(l):
        return "[" + ", ".join(lean_str(x) for x in l) + "]"
    return ("/- GENERATED by harness/c08_extract.py from pipefunc/map/_mapspec.py on every run of ./check C08. Do not edit. -/\n"
            "import PfModel.Model.MapSpecRegex\n"
            "namespace PF.Generated.C08\nopen PF.MS\n\n"
            "/-- the literal `_parse_indexed_arrays` passes to `re.findall` -/\n"
            f"def arrayPatternSrc : String := {lean_str(f['pattern'])}\n\n"
            "/-- its tree as built by Python's `re._parser.parse` (non-capturing groups are inlined by that parser) -/\n"
            f"def arrayPattern : Re :=\n  {f['term']}\n\n"
            "/-- arguments of the `re.findall` call beyond (pattern, string), and inline flags of the pattern: both must be 0 -/\n"
            f"def findallExtraArgs : Nat := {f['findall_extra_args']}\n"
            f"def inlineFlags : Nat := {f['inline_flags']}\n\n"
            "/-- the other string literals of `_parse_indexed_arrays` (messages excluded), sorted -/\n"
            f"def sideLiterals : List String := {lst(f['side_literals'])}\n\n"
            "/-- `expr.split(<arrow>)` in `MapSpec.from_string`, and the number of further arguments (maxsplit) -/\n"
            f"def arrow : String := {lean_str(f['arrow'])}\n"
            f"def arrowExtraArgs : Nat := {f['arrow_extra_args']}\n\n"
            "/-- `_parse_index_string`: the split literal, the other literals, the argument counts of its `.strip` calls -/\n"
            f"def comma : String := {lean_str(f['comma'])}\n"
            f"def indexLiterals : List String := {lst(f['index_literals'])}\n"
            f"def stripArgs : List Nat := [{', '.join(str(x) for x in f['strip_args'])}]\n\n"
            "/-- string literals of `ArraySpec.__str__` and `MapSpec.__str__` (f-string text excluded), sorted -/\n"
            f"def arraySpecStrLiterals : List String := {lst(f['arrayspec_str_literals'])}\n"
            f"def mapSpecStrLiterals : List String := {lst(f['mapspec_str_literals'])}\n\n"
            "end PF.Generated.C08\n")


STUB = ("/- GENERATED stub: harness/c08_extract.py could not translate pipefunc/map/_mapspec.py -/\n"
        "import PfModel.Model.MapSpecRegex\nnamespace PF.Generated.C08\nopen PF.MS\n"
        "def arrayPatternSrc : String := \"\"\ndef arrayPattern : Re := .eps\ndef findallExtraArgs : Nat := 0\ndef inlineFlags : Nat := 0\n"
        "def sideLiterals : List String := []\ndef arrow : String := \"\"\ndef arrowExtraArgs : Nat := 0\ndef comma : String := \"\"\n"
        "def indexLiterals : List String := []\ndef stripArgs : List Nat := []\ndef arraySpecStrLiterals : List String := []\n"
        "def mapSpecStrLiterals : List String := []\nend PF.Generated.C08\n")


def write_text(body):
    if not OUT.exists() or OUT.read_text() != body:
        OUT.write_text(body)


def write():
    f = extract()
    write_text(render(f))
    return f


if __name__ == "__main__":
    print(write())
