/-
Model of the on-disk representation of a map run and of reloading it:
`RunInfo.dump` / `RunInfo.load` (`pipefunc/map/_run_info.py:144-185`), `_maybe_tuple_to_str` / `_maybe_str_to_tuple`
(`:285-294`), `RunInfo.__post_init__` (`:41-49`), `RunInfo.create` (`:51-81`), `_construct_internal_shapes` (`:208-223`),
`RunInfo.storage_class` (`:83-95`), `RunInfo.init_store` (`:97-124`), `DictArray.persist/load`
(`map/_storage_array/_dict.py:185-204`), the file layout of `FileArray` (`_file.py:77-92`), `_maybe_persist_memory`
(`map/_run.py:321-328`), `load_outputs` (`map/_load.py:15-22`), `_load_from_store` (`_run.py:742-772`).

Files are named by structured `Path`s: the model abstracts *how* a file is named (`str(path)` / `Path(str)` round-trip, and
distinct (kind, name, index) triples name distinct files), not *which* files are written and read.
Core Lean only.
-/
import PfModel.Model.MapRun
namespace PF.RIC
open PF PF.Map

/-! ### names, keys and the `,` encoding of tuple keys -/

/-- `",".join(xs)` on character lists -/
def joinC : List (List Char) → List Char
  | [] => []
  | [x] => x
  | x :: y :: r => x ++ ',' :: joinC (y :: r)

/-- `s.split(",")` on character lists (never returns `[]`) -/
def splitC : List Char → List (List Char)
  | [] => [[]]
  | c :: r =>
    if c = ',' then [] :: splitC r
    else match splitC r with
      | [] => [[c]]
      | w :: ws => (c :: w) :: ws

/-- `s.removesuffix(",")` -/
def stripTrail (l : List Char) : List Char :=
  match l.reverse with
  | ',' :: r => r.reverse
  | _ => l

/-- `OUTPUT_TYPE`: a name or a tuple of names -/
inductive Key
  | one (s : String)
  | many (ss : List String)
  deriving Repr, DecidableEq, Inhabited

/-- `_maybe_tuple_to_str` (after the fix: a 1-tuple keeps a trailing comma, so that it stays a tuple) -/
def keyChars : Key → List Char
  | .one s => s.toList
  | .many ss => joinC (ss.map String.toList) ++ (if ss.length = 1 then [','] else [])

def keyStr (k : Key) : String := String.ofList (keyChars k)

/-- `_maybe_str_to_tuple` -/
def charsKey (l : List Char) : Key :=
  if ',' ∈ l then .many ((splitC (stripTrail l)).map String.ofList) else .one (String.ofList l)

def strKey (s : String) : Key := charsKey s.toList

/-- the pinned code's `_maybe_tuple_to_str` (before the fix): plain join -/
def keyCharsLegacy : Key → List Char
  | .one s => s.toList
  | .many ss => joinC (ss.map String.toList)

/-- the pinned code's `_maybe_str_to_tuple` (before the fix) -/
def charsKeyLegacy (l : List Char) : Key :=
  if ',' ∈ l then .many ((splitC l).map String.ofList) else .one (String.ofList l)

/-- `at_least_tuple` -/
def Key.names : Key → List String
  | .one s => [s]
  | .many ss => ss

def klookup {β} : List (Key × β) → Key → Option β
  | [], _ => none
  | (k, v) :: r, x => if k = x then some v else klookup r x

/-! ### files -/

/-- the files of a run folder (`_input_path`, `_defaults_path`, `_output_path`, `FileArray._index_to_file`,
    `DictArray._path`, `RunInfo.path`), and the folder itself -/
inductive Path
  | folder
  | runInfo
  | input (n : String)
  | defaults
  | output (n : String)                  -- outputs/<n>.cloudpickle
  | cell (n : String) (li : Nat)         -- outputs/<n>/__<li>__.pickle
  | dictFile (n : String)                -- outputs/<n>/dict_array.cloudpickle
  deriving Repr, DecidableEq, Inhabited

/-- the JSON values `json.dump/json.load` exchange; `path` is a string that names a file -/
inductive J
  | null
  | bool (b : Bool)
  | num (n : Int)
  | str (s : String)
  | path (p : Path)
  | arr (l : List J)
  | obj (kv : List (String × J))
  deriving Repr, Inhabited

/-- what a file holds -/
inductive Obj
  | json (j : J)                         -- run_info.json
  | val (v : Val)                        -- a cloudpickled value
  | kw (d : List (String × Val))         -- the cloudpickled defaults dictionary
  | cells (m : List (Nat × Val))         -- the cloudpickled mapping of a `DictArray`: external linear index ↦ element
  deriving Repr, Inhabited

abbrev Folder := Path → Option Obj

def Folder.empty : Folder := fun _ => none

/-- writing one file -/
def write (fo : Folder) (p : Path) (o : Obj) : Folder := fun q => if q = p then some o else fo q

/-! ### the record -/

/-- one entry of `internal_shapes`: an `int` or a tuple of ints -/
inductive IShape
  | int (n : Nat)
  | tup (l : List Nat)
  deriving Repr, DecidableEq, Inhabited

/-- `at_least_tuple` on an internal shape -/
def IShape.dims : IShape → List Nat
  | .int n => [n]
  | .tup l => l

/-- `storage`: one name for everything, or a dictionary keyed by output name (`""` is the default) -/
inductive Storage
  | uniform (s : String)
  | per (m : List (Key × String))
  deriving Repr, DecidableEq, Inhabited

/-- `RunInfo` (the dataclass fields; dictionaries as association lists with distinct keys, `all_output_names` a set
    represented by a list) -/
structure RunInfo where
  inputs : List (String × Val)
  defaults : List (String × Val)
  allOutputNames : List String
  shapes : List (Key × List Nat)
  internalShapes : Option (List (String × IShape))
  shapeMasks : List (Key × List Bool)
  mapspecs : List String
  storage : Storage
  version : String
  deriving Repr, Inhabited

def mapOpt {α β} (f : α → Option β) : List α → Option (List β)
  | [] => some []
  | a :: r =>
    match f a, mapOpt f r with
    | some b, some bs => some (b :: bs)
    | _, _ => none

/-- insertion into a sorted list of names -/
def insertName (x : String) : List String → List String
  | [] => [x]
  | y :: r => if x ≤ y then x :: y :: r else y :: insertName x r

/-- `sorted(names)` -/
def sortNames : List String → List String
  | [] => []
  | x :: r => insertName x (sortNames r)

def encNat (n : Nat) : J := .num (Int.ofNat n)
def decNat : J → Option Nat
  | .num n => if 0 ≤ n then some n.toNat else none
  | _ => none
def decBool : J → Option Bool
  | .bool b => some b
  | _ => none
def decStr : J → Option String
  | .str s => some s
  | _ => none
def decArr {α} (f : J → Option α) : J → Option (List α)
  | .arr l => mapOpt f l
  | _ => none

def encIShape : IShape → J
  | .int n => encNat n
  | .tup l => .arr (l.map encNat)
/-- `tuple(v) if isinstance(v, list) else v` -/
def decIShape : J → Option IShape
  | .arr l => (mapOpt decNat l).map .tup
  | j => (decNat j).map .int

/-- **`RunInfo.dump`**: `asdict` without `inputs`/`defaults`, plus `input_paths` and `defaults_path`; tuple keys of
    `shapes`, `shape_masks` (and `storage` when it is a dictionary) joined with `,`; `all_output_names` sorted -/
def encode (r : RunInfo) : J :=
  .obj [
    ("all_output_names", .arr ((sortNames r.allOutputNames).map .str)),
    ("shapes", .obj (r.shapes.map fun (k, sh) => (keyStr k, .arr (sh.map encNat)))),
    ("internal_shapes", match r.internalShapes with
      | none => .null
      | some m => .obj (m.map fun (k, s) => (k, encIShape s))),
    ("shape_masks", .obj (r.shapeMasks.map fun (k, mk) => (keyStr k, .arr (mk.map .bool)))),
    ("run_folder", .path .folder),
    ("mapspecs_as_strings", .arr (r.mapspecs.map .str)),
    ("storage", match r.storage with
      | .uniform s => .str s
      | .per m => .obj (m.map fun (k, s) => (keyStr k, .str s))),
    ("pipefunc_version", .str r.version),
    ("input_paths", .obj (r.inputs.map fun (k, _) => (k, .path (.input k)))),
    ("defaults_path", .path .defaults)]

/-- **`RunInfo.__post_init__`**: `run_info.json`, every input, the defaults -/
def dumpAll (fo : Folder) (r : RunInfo) : Folder :=
  let fo1 := write fo .runInfo (.json (encode r))
  let fo2 := r.inputs.foldl (fun f (kv : String × Val) => write f (.input kv.1) (.val kv.2)) fo1
  write fo2 .defaults (.kw r.defaults)

def jfield (j : J) (k : String) : Option J :=
  match j with
  | .obj kv => alookup kv k
  | _ => none

def decKeyed {α} (f : J → Option α) : J → Option (List (Key × α))
  | .obj kv => mapOpt (fun (p : String × J) => (f p.2).map fun v => (strKey p.1, v)) kv
  | _ => none

def loadVal (fo : Folder) : J → Option Val
  | .path p => match fo p with
    | some (.val v) => some v
    | _ => none
  | _ => none

def decStorage : J → Option Storage
  | .str s => some (.uniform s)
  | o@(.obj _) => (decKeyed decStr o).map Storage.per
  | _ => none

def decInternal : J → Option (Option (List (String × IShape)))
  | .null => some none
  | .obj kv => (mapOpt (fun (p : String × J) => (decIShape p.2).map fun v => (p.1, v)) kv).map some
  | _ => none

def decInputs (fo : Folder) : J → Option (List (String × Val))
  | .obj kv => mapOpt (fun (p : String × J) => (loadVal fo p.2).map fun v => (p.1, v)) kv
  | _ => none

def decDefaults (fo : Folder) : J → Option (List (String × Val))
  | .path p => match fo p with
    | some (.kw d) => some d
    | _ => none
  | _ => none

/-- the body of `RunInfo.load` once `run_info.json` is parsed -/
def decodeJ (fo : Folder) (j : J) : Option RunInfo := do
  let names ← (jfield j "all_output_names").bind (decArr decStr)
  let storage ← (jfield j "storage").bind decStorage
  let shapes ← (jfield j "shapes").bind (decKeyed (decArr decNat))
  let masks ← (jfield j "shape_masks").bind (decKeyed (decArr decBool))
  let internal ← (jfield j "internal_shapes").bind decInternal
  let inputs ← (jfield j "input_paths").bind (decInputs fo)
  let defaults ← (jfield j "defaults_path").bind (decDefaults fo)
  let mapspecs ← (jfield j "mapspecs_as_strings").bind (decArr decStr)
  let version ← (jfield j "pipefunc_version").bind decStr
  return { inputs := inputs, defaults := defaults, allOutputNames := names, shapes := shapes, internalShapes := internal,
           shapeMasks := masks, mapspecs := mapspecs, storage := storage, version := version }

/-- **`RunInfo.load`** -/
def decode (fo : Folder) : Option RunInfo :=
  match fo .runInfo with
  | some (.json j) => decodeJ fo j
  | _ => none

/-! ### storage arrays in the folder -/

inductive Backend
  | file | dict | shm
  deriving Repr, DecidableEq, Inhabited

/-- `get_storage_class` (the registry without zarr) -/
def backendOf (s : String) : Option Backend :=
  if s = "file_array" then some .file
  else if s = "dict" then some .dict
  else if s = "shared_memory_dict" then some .shm
  else none

/-- `RunInfo.storage_class(output_name)`: the entry for the key, else the default `""` -/
def storageClass (st : Storage) (k : Key) : Option Backend :=
  match st with
  | .uniform s => backendOf s
  | .per m =>
    match klookup m k with
    | some s => backendOf s
    | none =>
      match klookup m (.one "") with
      | some s => backendOf s
      | none => none

/-- `Slot.toVal` with the element lookup made explicit (`StorageBase.to_array`) -/
def arrVal (look : Nat → Option Val) (shape : List Nat) (mask : List Bool) : Val :=
  let es := extOf mask shape
  .arr shape ((allIdx shape).map fun F =>
    match look (ravel es (extOf mask F)) with
    | none => .masked
    | some v => if mask.all id then v else (indexVal v ((intOf mask F).map some)).getD .none)

/-- the folder after the elements `cells` of array `name` were dumped during the run (each index at most once):
    a `FileArray` writes one file per element; a (shared-memory) `DictArray` writes nothing -/
def dumpCells (b : Backend) (fo : Folder) (name : String) (cells : List (Nat × Val)) : Folder :=
  match b with
  | .file => fun q =>
    match q with
    | .cell n li => if n = name then (cellLookup cells li).map .val else fo q
    | _ => fo q
  | _ => fo

/-- `StorageBase.persist()` at the end of the run: `DictArray.persist` dumps the mapping (as a plain dict); `FileArray` has
    nothing left to do -/
def persist (b : Backend) (fo : Folder) (name : String) (cells : List (Nat × Val)) : Folder :=
  match b with
  | .file => fo
  | _ => write fo (.dictFile name) (.cells cells)

/-- what a storage object constructed on the folder holds at a linear index: `FileArray.get_from_index/has_index`, or the
    mapping `DictArray.load` read back (nothing when the file is absent) -/
def reopen (b : Backend) (fo : Folder) (name : String) : Nat → Option Val :=
  match b with
  | .file => fun li =>
    match fo (.cell name li) with
    | some (.val v) => some v
    | _ => none
  | _ =>
    match fo (.dictFile name) with
    | some (.cells m) => cellLookup m
    | _ => fun _ => none

/-! ### `init_store` and `load_outputs` -/

inductive Entry
  | array (b : Backend) (shape : List Nat) (mask : List Bool)
  | file                                      -- a `Path`: `outputs/<name>.cloudpickle`
  deriving Repr, DecidableEq, Inhabited

/-- `name_mapping[mapspec.output_names]`: the (last) key of `shapes` whose `at_least_tuple` is the tuple of output names -/
def keyFor (shapes : List (Key × List Nat)) (names : List String) : Option Key :=
  (shapes.reverse.find? fun kv => kv.1.names = names).map (·.1)

/-- the entry `init_store` creates for output `o`: a storage array with the recorded geometry when a MapSpec with inputs
    lists `o`, else a file path.  `parse` stands for `MapSpec.from_string` (C08). -/
def initEntry (parse : String → Option MSpec) (r : RunInfo) (o : String) : Option Entry := do
  let specs ← mapOpt parse r.mapspecs
  match specs.find? fun ms => ms.outputs.any (·.name = o) with
  | none => if o ∈ r.allOutputNames then some .file else none
  | some ms =>
    let key ← keyFor r.shapes (ms.outputs.map (·.name))
    if ms.inputs.isEmpty then (if o ∈ r.allOutputNames then some .file else none) else
    let sh ← klookup r.shapes key
    let mk ← klookup r.shapeMasks key
    let b ← storageClass r.storage key
    some (.array b sh mk)

/-- **`load_outputs(o, run_folder=F)`**: `RunInfo.load`, `init_store`, `_load_from_store`, `_maybe_load_array` -/
def loadOutput (parse : String → Option MSpec) (fo : Folder) (o : String) : Option Val := do
  let r ← decode fo
  match ← initEntry parse r o with
  | .array b sh mk => some (arrVal (reopen b fo o) sh mk)
  | .file =>
    match fo (.output o) with
    | some (.val v) => some v
    | _ => none

/-! ### the folder a run leaves behind -/

/-- the writes of one store slot during the run and at its end (`persistMemory` is the `persist_memory` argument) -/
def writeSlot (persistMemory : Bool) (b : Option Backend) (fo : Folder) (o : String) : Slot → Folder
  | .single v => write fo (.output o) (.val v)
  | .array _ _ cells =>
    match b with
    | none => fo
    | some b =>
      let fo1 := dumpCells b fo o cells
      if persistMemory then persist b fo1 o cells else fo1

/-- the run folder after `Pipeline.map(..., run_folder=F)`: `RunInfo.__post_init__`, then every slot of the store;
    `backend o` is the storage class `init_store` chose for `o` -/
def folderOf (persistMemory : Bool) (r : RunInfo) (backend : String → Option Backend) (store : List (String × Slot)) : Folder :=
  store.foldl (fun fo (os : String × Slot) => writeSlot persistMemory (backend os.1) fo os.1 os.2) (dumpAll Folder.empty r)

/-! ### `RunInfo.create` -/

/-- `MapSpec.__str__` -/
def printASpec (a : ASpec) : String :=
  a.name ++ "[" ++ ", ".intercalate (a.axes.map fun x => x.getD ":") ++ "]"

def printSpec (ms : MSpec) : String :=
  (if ms.inputs.isEmpty then "..." else ", ".intercalate (ms.inputs.map printASpec)) ++ " -> " ++
    ", ".intercalate (ms.outputs.map printASpec)

/-- `func.output_name`: a tuple when the function has several outputs or was declared with a 1-tuple -/
def outKey (tupled : List String) (f : MFunc) : Key :=
  match f.outputs with
  | [o] => if f.name ∈ tupled then .many [o] else .one o
  | os => .many os

/-- the keys `map_shapes` records for a function: `func.output_name`, then every name of a tuple -/
def outKeys (tupled : List String) (f : MFunc) : List Key :=
  match outKey tupled f with
  | .one o => [.one o]
  | .many os => .many os :: os.map .one

/-- `map_shapes` as a dictionary keyed by `OUTPUT_TYPE`: the root inputs, then per MapSpec function its keys -/
def keyed {β} (fs : List MFunc) (tupled : List String) (vals : List (String × β)) : List (Key × β) :=
  ((rootArgs fs).filterMap fun p => (alookup vals p).map fun v => (Key.one p, v)) ++
  (generations fs).flatten.flatMap fun f =>
    match f.mapspec, f.outputs.head? with
    | some _, some o =>
      match alookup vals o with
      | some v => (outKeys tupled f).map fun k => (k, v)
      | none => []
    | _, _ => []

def ainsert {β} (l : List (String × β)) (k : String) (v : β) : List (String × β) :=
  match l with
  | [] => [(k, v)]
  | (k', v') :: r => if k' = k then (k, v) :: r else (k', v') :: ainsert r k v

/-- `_construct_internal_shapes`: the caller's dictionary, then `PipeFunc.internal_shape` (an `int` for the functions in
    `intForm`, else a tuple) for every output of a function whose `output_name` is not a key of it; `None` when empty -/
def constructInternalShapes (fs : List MFunc) (tupled intForm : List String) (user : List (String × IShape)) :
    Option (List (String × IShape)) :=
  let r := fs.foldl (fun acc f =>
    let skip := match outKey tupled f with
      | .one o => (alookup acc o).isSome
      | .many _ => false
    if skip then acc else
    match f.internal with
    | none => acc
    | some ish =>
      let v : IShape := match ish with
        | [n] => if f.name ∈ intForm then .int n else .tup ish
        | _ => .tup ish
      f.outputs.foldl (fun a o => ainsert a o v) acc) user
  if r.isEmpty then none else some r

/-- `RunInfo.create` for a run whose shapes and masks are `shapes`, `masks` -/
def createRunInfo (fs : List MFunc) (tupled intForm : List String) (inputs : List (String × Val)) (user : List (String × IShape))
    (storage : Storage) (version : String) (shapes : List (String × List Nat)) (masks : List (String × List Bool)) : RunInfo :=
  { inputs := inputs, defaults := pdefaults fs, allOutputNames := allOutputs fs,
    shapes := keyed fs tupled shapes, internalShapes := constructInternalShapes fs tupled intForm user,
    shapeMasks := keyed fs tupled masks,
    mapspecs := (generations fs).flatten.filterMap fun f => f.mapspec.map printSpec,
    storage := storage, version := version }

/-- `runMap` that also hands out the store (the slots behind `MapResult.stored`) -/
def runMapStore (fs : List MFunc) (inputs : List (String × Val)) (userInternal : List (String × List Nat)) :
    M (MapResult × List (String × Slot)) := do
  validateInputs fs inputs
  if (generations fs).flatten.length ≠ fs.length then throw (.value "cyclic pipeline")
  let internal := constructInternal fs userInternal
  let (shapes, masks) ← mapShapes fs inputs internal
  let (rs, env) ← runGensWith (runFuncWith opArray fs shapes masks) (generations fs) { inputs := inputs, store := [] }
  return ({ outputs := rs.flatMap (·.outputs), stored := env.store.map fun (o, s) => (o, s.toVal), shapes := shapes, masks := masks,
            calls := rs.flatMap (·.calls), gens := (generations fs).map fun g => g.map (·.name) }, env.store)

/-- the key under which `init_store` looks a function up (`name_mapping[mapspec.output_names]`: for a single name the
    bare name, also when `output_name` was declared as a 1-tuple) -/
def storeKey (f : MFunc) : Key :=
  match f.outputs with
  | [o] => .one o
  | os => .many os

/-- the storage class the run uses for output `o` -/
def backendFor (fs : List MFunc) (storage : Storage) (o : String) : Option Backend :=
  match producer fs o with
  | none => none
  | some f => storageClass storage (storeKey f)

/-- the table standing in for `MapSpec.from_string` on the strings of this pipeline -/
def tableParse (fs : List MFunc) (s : String) : Option MSpec :=
  (fs.filterMap (·.mapspec)).find? fun ms => printSpec ms = s

/-- the geometry `init_store` derives from the recorded run info agrees with the slot the run filled -/
def agreeSlot (parse : String → Option MSpec) (r : RunInfo) (backend : String → Option Backend) (o : String) : Slot → Bool
  | .single _ => initEntry parse r o == some .file
  | .array sh mk _ =>
    match backend o with
    | none => false
    | some b => initEntry parse r o == some (.array b sh mk)

end PF.RIC
