import PfModel.DriverVal
import PfModel.Model.XLabel
import PfModel.Model.XLabelFolder
import PfModel.Model.XLabelSel
/-! Driver for C19 (`xlabel`): the label structure of both xarray constructors on the model's own map run. -/
open Lean PF PF.Drv PF.Map PF.XLabel

def getASpec (j : Json) : R ASpec := do
  let (n, ax) ← asPair asStr (asList (asOpt asStr)) j
  return { name := n, axes := ax }

def getMSpec (j : Json) : R MSpec := do
  return { inputs := ← listF getASpec j "inputs", outputs := ← listF getASpec j "outputs" }

def getMFunc (j : Json) : R MFunc := do
  return { name := ← strF j "name", params := ← listF (asPair asStr asStr) j "params", outputs := ← listF asStr j "outputs",
           mapspec := ← optF getMSpec j "mapspec", ret := ← optF (asList asNat) j "ret", internal := ← optF (asList asNat) j "internal",
           defaults := (← optF getKw j "defaults").getD [], bound := (← optF getKw j "bound").getD [] }

def putMErr : PF.Map.Err → Json
  | .value w => jObj [("err", jStr "ValueError"), ("why", jStr w)]
  | .type w => jObj [("err", jStr "TypeError"), ("why", jStr w)]
  | .index w => jObj [("err", jStr "IndexError"), ("why", jStr w)]
  | .key w => jObj [("err", jStr "KeyError"), ("why", jStr w)]
  | .fuel => jObj [("err", jStr "RecursionError")]

def putCoordVal : CoordVal → Json
  | .plain v => jObj [("plain", putVal v)]
  | .multi names arrays => jObj [("multi", jArr [jList jStr names, jList putVal arrays])]

def putCoord (c : Coord) : Json := jArr [jStr c.name, jList jStr c.dims, putCoordVal c.val]
def putDims (d : List (Option String)) : Json := jList (jOpt jStr) d
def putVar (v : Var) : Json := jArr [jStr v.name, jOpt putDims v.dims, putVal v.data]
def putDataset (d : Dataset) : Json := jObj [("vars", jList putVar d.vars), ("coords", jList putCoord d.coords)]
def putM (r : M Dataset) : Json := match r with | .ok d => putDataset d | .error e => putMErr e

def valEq (a b : Val) : Bool := (putVal a).compress == (putVal b).compress

/-- every `ds[o].sel({c: v})` for the 1-D plain coordinates of `ds[o]` (`PF.XLabel.allSel`: the defs `C19_sel_dataset` is about) -/
def putSels (d : Dataset) : List Json :=
  (allSel valEq d).map fun s => jArr [jStr s.var, jStr s.coord, putVal s.value, jOpt putVal s.result]

/-- every position of every joined coordinate of `ds[o]` with `ds[o].isel({dim: p})` (`PF.XLabel.allMulti`, `C19_isel_dataset`) -/
def putMultis (d : Dataset) : List Json :=
  (allMulti d).map fun s => jArr [jStr s.var, jStr s.coord, jStr s.dim, jNat s.pos, putVal s.value, jOpt putVal s.result]

/-- an output whose value is a Python `list` (a plain function returning a list): the 1-D array of the run model, as a tuple
    value — `singleDims` then stores it dimensionless (what `_as_0d` does in `_xarray_dataset`) -/
def listify (lists : List String) (e : String × Val) : String × Val :=
  match e with
  | (n, .arr [k] es) => if lists.contains n then (n, .tup es) else (n, .arr [k] es)
  | e => e

/-- the view of `listify` on a dataset: a 1-D array value of an un-mapped output that is a Python `list` is stored dimensionless -/
def listifyVar (lists : List String) (v : Var) : Var :=
  match v.dims, v.data with
  | none, .arr [_] es => if lists.contains v.name then { v with dims := some [], data := .tup es } else v
  | _, _ => v

/-- one call of a history (`xhistory`); a load also says which outputs of the run it reads are Python lists -/
def getOp (j : Json) : R (Op × List String) := do
  let path ← strF j "path"
  match ← strF j "op" with
  | "map" =>
    let fs ← listF getMFunc j "funcs"
    let inputs ← getKw (← fld j "inputs")
    let internal := (← optF (asList (asPair asStr (asList asNat))) j "internal").getD []
    return (.map path fs inputs internal (← boolF j "cleanup"), [])
  | "load" =>
    let names := (← optF (asList asStr) j "names").getD []
    return (.load path names (← boolF j "load_intermediate"), (← optF (asList asStr) j "lists").getD [])
  | "outputs" => return (.outputs path (← listF asStr j "names"), [])
  | "remove" => return (.remove path, [])
  | o => .error s!"unknown op {o}"

def putObs (lists : List String) : Obs → Json
  | .mapped (.ok _) => jObj [("mapped", jStr "ok")]
  | .mapped (.error e) => jObj [("mapped", putMErr e)]
  | .resumed _ => jObj [("resumed", jBool true)]
  | .refused => jObj [("refused", jBool true)]
  | .dataset (.ok d) => jObj [("dataset", putDataset { d with vars := d.vars.map (listifyVar lists) })]
  | .dataset (.error e) => jObj [("dataset", putMErr e)]
  | .values (.ok vs) => jObj [("values", jList putVal vs)]
  | .values (.error e) => jObj [("values", putMErr e)]
  | .notFound => jObj [("notfound", jBool true)]
  | .unspecified => jObj [("unspecified", jBool true)]
  | .removed => jObj [("removed", jBool true)]

/-- what a loader call returns by the SPECIFICATION (`stepSlot`: one state machine per folder); `none` for calls that load nothing -/
def specObs (eqv : Val → Val → Bool) : List (String × FolderState) → List Op → List (Option Obs)
  | _, [] => []
  | st, op :: rest =>
    let slotOf := fun p => (alookup st p).getD FolderState.absent
    let here : Option Obs := match op with
      | .load p names li => some (match slotOf p with
          | .absent => .notFound | .broken => .unspecified | .run f => .dataset (folderDataset f names li))
      | .outputs p names => some (match slotOf p with
          | .absent => .notFound | .broken => .unspecified | .run f => .values (folderOutputs f names))
      | _ => none
    here :: specObs eqv (st.map fun (p, s) => (p, stepSlot eqv p s op)) rest

def opPath : Op → String
  | .map p _ _ _ _ => p | .load p _ _ => p | .outputs p _ => p | .remove p => p

def withSpec (j : Json) (agree : Option Bool) : Json :=
  match agree with
  | some b => j.setObjVal! "spec" (jBool b)
  | none => j

def handle (m : String) (a : Json) : R Json := do
  match m with
  | "xhistory" =>
    let ops ← listF getOp a "ops"
    let obs := (exec valEq [] (ops.map (·.1))).2
    let spec := specObs valEq (((ops.map (opPath ·.1)).eraseDups).map fun p => (p, FolderState.absent)) (ops.map (·.1))
    return jArr (((ops.zip obs).zip spec).map fun ((o, ob), sp) =>
      withSpec (putObs o.2 ob) (sp.map fun s => (putObs o.2 s).compress == (putObs o.2 ob).compress))
  | "xlabel" =>
    let fs ← listF getMFunc a "funcs"
    let inputs ← getKw (← fld a "inputs")
    let internal := (← optF (asList (asPair asStr (asList asNat))) a "internal").getD []
    let li ← boolF a "load_intermediate"
    let lists := (← optF (asList asStr) a "lists").getD []
    let subset := ((← optF (asOpt (asList asStr)) a "subset").getD none).getD []
    match runMap fs inputs internal with
    | .error e => return jObj [("map", putMErr e)]
    | .ok r0 =>
      let r : MapResult := { r0 with outputs := r0.outputs.map (listify lists), stored := r0.stored.map (listify lists) }
      let mss := pipelineMapspecs fs
      let inputs := effectiveInputs fs inputs
      let d1 := fromResults mss inputs r li
      let d2 := fromFolder mss inputs r li
      let sels := match d1 with | .ok d => putSels d | .error _ => []
      let multis := match d1 with | .ok d => putMultis d | .error _ => []
      let msOut := mss.flatMap fun ms => ms.outputs.map (·.name)
      let arrays := msOut.map fun o =>
        match xarrayOf mss inputs (alookup r.stored) li o with
        | .ok da => jArr [jStr o, putDims da.dims, jList putCoord da.coords]
        | .error e => jArr [jStr o, putMErr e]
      let d3 := xarrayDataset mss inputs (alookup r.stored) subset li
      return jObj [("results", putM d1), ("folder", putM d2), ("subset", putM d3), ("same", jBool ((putM d1).compress == (putM d2).compress)),
                   ("mapspec_axes", jList (fun n => jPair jStr (jOpt putDims) (n, mapspecAxes mss n)) ((allSpecs mss).map (·.name)).eraseDups),
                   ("deps", jList (fun o => jPair jStr (jList (jPair jStr (jList jStr))) (o, traceDependencies mss o)) (akeys (mapspecMapping mss))),
                   ("sel", jArr sels), ("isel", jArr multis), ("arrays", jArr arrays)]
  | "singledims" =>
    -- `PF.XLabel.singleDims`: how `_xarray_dataset` stores the value of an output without MapSpec (`shape = null`: not an ndarray)
    let n ← strF a "name"
    let v : Val := match (← optF (asOpt (asList asNat)) a "shape").getD none with
      | some sh => .arr sh []
      | none => .none
    return jOpt putDims (singleDims n v)
  | _ => .error s!"unknown entry {m}"

def main : IO Unit := loop handle
