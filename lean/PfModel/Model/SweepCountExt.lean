import PfModel.Model.SweepCount
/-!
# `count_sweep(use_pandas=True)`, `set_cache_for_sweep`, hashability in `filtered_sweep` (C17, round 3)

* `countPandas` mirrors the pandas path of `count_sweep` (`sweep.py:509-515`): `pd.DataFrame(list(sweep))`, `df[cols]`,
  `groupby(cols).size().to_dict()`.  What pandas does there, as observed on pandas 2.x and mirrored here: a column that no
  combination has → `KeyError`; no columns → `ValueError` ("No group keys passed!") unless the frame has no rows either; a row in which a grouped column is
  missing or `None` is dropped (`dropna=True`); a single grouped column gives *scalar* keys, several give tuples.
* `setCacheForSweep` mirrors `set_cache_for_sweep` (`sweep.py:525-543`).
* `filteredH` mirrors the `TypeError` of `filtered_sweep` for unhashable values in the derivers branch (`sweep.py:168-172`).
-/
namespace PF.Sweep

section Pandas
variable {V : Type} [DecidableEq V]

/-- a table of counts keyed by value tuples -/
abbrev Table (V : Type) := List (List V × Nat)

/-- the grouped cells of one DataFrame row; `none` = the row is dropped by `groupby` (a cell is missing or null) -/
def pandasRow (isNone : V → Bool) (args : List Key) (c : Dict V) : Option (List V) :=
  match args with
  | [] => some []
  | a :: r =>
    match lookup c a with
    | none => none
    | some v => if isNone v then none else
      match pandasRow isNone r c with
      | none => none
      | some t => some (v :: t)

/-- `df[cols].groupby(cols).size().to_dict()` for one dependency (`sweep.py:513-515`), keys as tuples -/
def countPandasDep (isNone : V → Bool) (args : List Key) (combos : List (Dict V)) : Except Err (Table V) :=
  if args.any (fun a => combos.all (fun c => (lookup c a).isNone)) then .error .key        -- `df[cols]`: not a column
  else if args.isEmpty && !combos.isEmpty then .error .value                               -- `groupby([])` on a frame with rows
  else .ok ((combos.filterMap (pandasRow isNone args)).foldl bump [])

/-- the pandas path of `count_sweep`; the `Bool` of a table says that its keys are scalars in the code (one grouped column) -/
def countPandas (isNone : V → Bool) (deps : List (String × List Key)) (combos : List (Dict V)) :
    Except Err (List (String × Bool × Table V)) :=
  match deps with
  | [] => .ok []
  | (o, args) :: r =>
    match countPandasDep isNone args combos with
    | .error e => .error e
    | .ok cnt =>
      match countPandas isNone r combos with
      | .error e => .error e
      | .ok rest => .ok ((o, args.length == 1, cnt) :: rest)

/-- `count_sweep(..., use_pandas=True)` with the pipeline part.  The dependencies are visited in the order of
    `func_dependencies` (`sorted(..., key=at_least_tuple)`, `_base.py:2172`): which dependency raises first depends on it. -/
def countPandasPipe (isNone : V → Bool) (fs : List PF.Pipe.Func) (o : String) (combos : List (Dict V)) :
    Option (Except Err (List (String × Bool × Table V))) :=
  (countDeps fs o).map fun deps => countPandas isNone (deps.mergeSort (fun a b => decide (a.1 ≤ b.1))) combos

/-- the sum of a table's counts -/
def tsum (t : Table V) : Nat := (t.map Prod.snd).sum

end Pandas

/-! ### the dependencies by plain reachability (specification next to `countDeps`) -/

section DepsSpec
open PF.Pipe

/-- the root names at or below function `i`, following non-bound parameters to depth `n` -/
def rootsBelow (fs : List Func) : Nat → Nat → List String
  | 0, _ => []
  | n+1, i => (preds fs i).flatMap fun nd => match nd with
      | .root p => [p]
      | .fn j => rootsBelow fs n j

/-- the functions strictly below function `i`, to depth `n` -/
def ancBelow (fs : List Func) : Nat → Nat → List Nat
  | 0, _ => []
  | n+1, i => (preds fs i).flatMap fun nd => match nd with
      | .root _ => []
      | .fn j => j :: ancBelow fs n j

/-- what `count_sweep` should iterate over, by reachability alone: every function below the producer of `o`, with the sorted
    set of root names below it.  Compared with `countDeps` (the model of `func_dependencies` / `root_args`) and with the
    implementation on every generated case, as dictionaries. -/
def depsSpec (fs : List Func) (o : String) : Option (List (String × List String)) :=
  (producerIdx fs o).map fun i =>
    (ancBelow fs (fs.length + 1) i).eraseDups.map fun j =>
      (",".intercalate (funcAt fs j).outputs, uniqueSorted id (rootsBelow fs (fs.length + 1) j))

/-- producers precede consumers in the list of functions (no function consumes its own or a later function's output) -/
def ordered (fs : List Func) : Bool :=
  (List.range fs.length).all fun k => (preds fs k).all fun nd => match nd with
    | .fn j => decide (j < k)
    | .root _ => true

end DepsSpec

section Cache
variable {V : Type} [DecidableEq V]

/-- `max(v.values())`; `none` = `ValueError` (empty table) -/
def maxCount : Table V → Option Nat
  | [] => none
  | (_, n) :: r =>
    match maxCount r with
    | none => some n
    | some m => some (max n m)

/-- `{k: max(v.values()) for k, v in cnt.items()}` (`sweep.py:537`) -/
def maxExecutions : List (String × Table V) → Except Err (List (String × Nat))
  | [] => .ok []
  | (o, t) :: r =>
    match maxCount t with
    | none => .error .value
    | some n =>
      match maxExecutions r with
      | .error e => .error e
      | .ok m => .ok ((o, n) :: m)

/-- the loop `func.cache = n >= min_executions` (`sweep.py:538-543`) on the dict output name → cache flag -/
def setCaches (cache : Dict Bool) (mx : List (String × Nat)) (m : Int) : Dict Bool :=
  mx.foldl (fun acc on => insert acc on.1 (decide (m ≤ (on.2 : Int)))) cache

/-- `set_cache_for_sweep(output_name, pipeline, sweep, min_executions)` (`sweep.py:525-543`) as a function on the cache flags
    of the pipeline's functions.  `none`: `output_name` is not an output (`KeyError` from `pipeline[output_name]`). -/
def setCacheForSweep (fs : List PF.Pipe.Func) (o : String) (combos : List (Dict V)) (m : Int) (cache : Dict Bool) :
    Option (Except Err (Dict Bool)) :=
  (countSweepPipe fs o combos).map fun r =>
    match r with
    | .error e => .error e
    | .ok cnt =>
      match maxExecutions cnt with
      | .error e => .error e
      | .ok mx => .ok (setCaches (insert cache o false) mx m)

end Cache

section Hash
variable {V : Type} [DecidableEq V]

/-- exceptions of `filtered_sweep` including the `TypeError` for unhashable values -/
inductive ErrH
  | base (e : Err)
  | type
  deriving DecidableEq, Repr

/-- the loop `for combo in self.generate(): … ordered_set[key] = None` (`sweep.py:165-172`): per combination first the
    projection (`KeyError`), then hashing the value tuple (`TypeError`) -/
def projectAllH (hashable : V → Bool) (ks : List Key) : List (Dict V) → Except ErrH (List (Dict V))
  | [] => .ok []
  | c :: cs =>
    match projectD ks c with
    | .error e => .error (.base e)
    | .ok p =>
      if (vals p).all hashable then
        match projectAllH hashable ks cs with
        | .error e => .error e
        | .ok ps => .ok (p :: ps)
      else .error .type

/-- `Sweep.filtered_sweep` with hashability of the values: the derivers branch raises `TypeError` at the first projected
    tuple that holds an unhashable value; the branch without derivers (with the DF-C17-03 repair: rows that cannot be hashed
    are de-duplicated by equality) does not depend on hashability -/
def filteredH (hashable : V → Bool) (s : Sweep V) (ks : List Key) : Except ErrH (Sweep V) :=
  if s.derivers.isSome then
    match generate s with
    | .error e => .error (.base e)
    | .ok combos =>
      match projectAllH hashable ks combos with
      | .error e => .error e
      | .ok ps => .ok { items := columnsOf ks (distinctFold (ps.map vals)), dims := some [.tup ks] }
  else
    match filtered s ks with
    | .error e => .error (.base e)
    | .ok f => .ok f

end Hash
end PF.Sweep
