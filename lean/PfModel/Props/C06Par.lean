import PfModel.Props.C03Part
import PfModel.Props.C06Flow
/-!
C06, round 2 — running in pieces with `parallel=True` / executors.  `PF.SchedP.runPiecesSched` (C03) is the model of a sequence
of `map(fixed_indices=…, cleanup=False, parallel=True)` runs, each under an arbitrary family of schedules (the order in which
the executor completes the submitted chunks); `C03_pieces_eq_sequential` says it leaves what the sequential sequence leaves, so
the pipeline-level data-flow theorem transfers to every executor and every completion order.
-/
namespace PF.C06
open PF PF.Map PF.Pieces PF.Sched PF.SchedP

/-- **A run in pieces under any executor schedule**: every call of every part is a call of the full run (same function, same
    arguments) and the folder never holds anything the full run does not store — whatever the completion order of the
    submitted tasks in each generation of each part. -/
theorem C06_pieces_flow_parallel (fs : List MFunc) (inputs : List (String × Val)) (ui : List (String × List Nat)) (rF : PartResult)
    (hF : runPart fs inputs ui none [] = .ok rF) (hnd : (akeys rF.store).Nodup) (huo : UniqueOutputs fs) (dumpSub : String → Bool)
    (parts : List (List (String × Sel) × Scheds)) (old : List (String × Slot)) (rs : List (PartResult × List GenTrace))
    (hold : OldLe old rF.store) (hwf : ∀ p ∈ parts, flowWF fs rF.res.shapes rF.res.masks inputs p.1 = true)
    (hv : ∀ p ∈ parts, ValidScheds p.2)
    (hr : runPiecesSched .sync fs inputs ui dumpSub (parts.map fun p => (some p.1, p.2)) old = .ok rs) :
    (∀ r ∈ rs, ∀ c ∈ r.1.res.calls, c ∈ rF.res.calls) ∧ (∀ r ∈ rs, OldLe r.1.store rF.store) := by
  have h := PF.C03.C03_pieces_eq_sequential fs inputs ui dumpSub huo (parts.map fun p => (some p.1, p.2)) old
    (by intro p hp; obtain ⟨q, hq, rfl⟩ := List.mem_map.mp hp; exact hv q hq)
  rw [hr] at h
  have hm : ((parts.map fun p => ((some p.1 : Option (List (String × Sel))), p.2)).map (·.1)) = (parts.map (·.1)).map some := by
    simp [List.map_map, Function.comp]
  rw [hm] at h
  obtain ⟨a1, a2⟩ := C06_pieces_flow_seq fs inputs ui rF hF hnd (parts.map (·.1)) old (rs.map (·.1)) hold
    (by intro fx hfx; obtain ⟨q, hq, rfl⟩ := List.mem_map.mp hfx; exact hwf q hq) h.symm
  exact ⟨fun r hr' => a1 r.1 (List.mem_map.mpr ⟨r, hr', rfl⟩), fun r hr' => a2 r.1 (List.mem_map.mpr ⟨r, hr', rfl⟩)⟩

/-- non-vacuity: the hypotheses about schedules and output names hold for the identity schedule and a two-function pipeline;
    with no parts the run in pieces is the empty sequence -/
example : ValidScheds (fun _ ids => ids) ∧ UniqueOutputs ([] : List MFunc) ∧
    runPiecesSched .sync [] [] [] (fun _ => false) [] [] = .ok [] := by
  refine ⟨fun _ _ => List.Perm.refl _, List.Pairwise.nil, rfl⟩

end PF.C06
