import PfModel.Lemmas.PipelineCombos
/-!
`arg_combinations`, completeness half: a listed combination contains *every* root argument of the expanded functions
and every consumed output of a frontier function, and the expanded functions are closed under "takes from upstream".
Hence a call that supplies exactly a listed combination needs nothing else: no hypothesis on defaults is required.

The model's `uniqueSorted` merges nodes with equal sort key (Python's `sorted(set(nodes), key=_sort_key)` merges equal
*nodes*); the two agree when distinct graph nodes have distinct keys — `KeyInj`, a decidable condition that holds
whenever names are identifiers (contain no comma).  (Helper lemmas for `Props/C02Needed.lean`.)
-/
namespace PF.Pipe
open PF

variable (fs : List Func) (kw : List (String × Val)) (rank : String → Nat)

/-! ### `uniqueSorted` keeps every element whose key is unambiguous -/

theorem mem_insertSorted_of_mem {α} (key : α → String) (x y : α) : ∀ l, y ∈ l → y ∈ insertSorted key x l := by
  intro l
  induction l with
  | nil => intro h; cases h
  | cons a as ih =>
    intro h
    simp only [insertSorted]
    split
    · exact List.mem_cons_of_mem _ h
    · split
      · exact h
      · rcases List.mem_cons.mp h with h | h
        · exact h ▸ List.mem_cons_self
        · exact List.mem_cons_of_mem _ (ih h)

theorem insertSorted_self {α} (key : α → String) (x : α) : ∀ l, (∀ y ∈ l, key y = key x → y = x) →
    x ∈ insertSorted key x l := by
  intro l
  induction l with
  | nil => intro _; simp [insertSorted]
  | cons a as ih =>
    intro h
    simp only [insertSorted]
    split
    · exact List.mem_cons_self
    · split
      · next he => rw [h a List.mem_cons_self he.symm]; exact List.mem_cons_self
      · exact List.mem_cons_of_mem _ (ih (fun y hy => h y (List.mem_cons_of_mem _ hy)))

theorem uniqueSorted_mem {α} (key : α → String) (x : α) (l : List α) (hx : x ∈ l)
    (hinj : ∀ y ∈ l, key y = key x → y = x) : x ∈ uniqueSorted key l := by
  have gen : ∀ (l : List α) acc, (∀ y ∈ acc, key y = key x → y = x) → (∀ y ∈ l, key y = key x → y = x) →
      (x ∈ acc ∨ x ∈ l) → x ∈ l.foldl (fun acc x => insertSorted key x acc) acc := by
    intro l
    induction l with
    | nil => intro acc _ _ h; rcases h with h | h; exact h; cases h
    | cons a as ih =>
      intro acc hacc hl h
      simp only [List.foldl]
      apply ih
      · intro y hy hk
        rcases mem_insertSorted key a y acc hy with rfl | hy
        · exact hl _ List.mem_cons_self hk
        · exact hacc y hy hk
      · exact fun y hy => hl y (List.mem_cons_of_mem _ hy)
      · rcases h with h | h
        · exact Or.inl (mem_insertSorted_of_mem key a x acc h)
        · rcases List.mem_cons.mp h with rfl | h
          · exact Or.inl (insertSorted_self key x acc hacc)
          · exact Or.inr h
  exact gen l [] (by simp) hinj (Or.inr hx)

/-! ### graph nodes and their sort keys -/

/-- a node that can occur in the dependency graph: a producing position, or a produced-by-nobody parameter -/
def NodeOK : Node → Prop
  | .fn j => j < fs.length ∧ ∃ q ∈ (funcAt fs j).outputs, producerIdx fs q = some j
  | .root p => producerIdx fs p = none ∧ ∃ f ∈ fs, ∃ q ∈ f.params, q.1 = p

instance : DecidablePred (NodeOK fs) := fun n =>
  match n with
  | .fn j => inferInstanceAs (Decidable (j < fs.length ∧ ∃ q ∈ (funcAt fs j).outputs, producerIdx fs q = some j))
  | .root p => inferInstanceAs (Decidable (producerIdx fs p = none ∧ ∃ f ∈ fs, ∃ q ∈ f.params, q.1 = p))

def allNodes : List Node :=
  (List.range fs.length).map .fn ++ fs.flatMap fun f => f.params.map fun q => .root q.1

/-- distinct graph nodes have distinct sort keys (decidable; true whenever names contain no comma) -/
def KeyInj : Prop :=
  ∀ a ∈ allNodes fs, ∀ b ∈ allNodes fs, NodeOK fs a → NodeOK fs b → sortKey fs a = sortKey fs b → a = b

instance : Decidable (KeyInj fs) := by unfold KeyInj; exact inferInstance

theorem NodeOK.mem_all (n : Node) (h : NodeOK fs n) : n ∈ allNodes fs := by
  cases n with
  | fn j => exact List.mem_append_left _ (List.mem_map.mpr ⟨j, List.mem_range.mpr h.1, rfl⟩)
  | root p =>
    obtain ⟨_, f, hf, q, hq, rfl⟩ := h
    exact List.mem_append_right _ (List.mem_flatMap.mpr ⟨f, hf, List.mem_map.mpr ⟨q, hq, rfl⟩⟩)

theorem KeyInj.inj (h : KeyInj fs) (a b : Node) (ha : NodeOK fs a) (hb : NodeOK fs b)
    (hk : sortKey fs a = sortKey fs b) : a = b :=
  h a (ha.mem_all fs) b (hb.mem_all fs) ha hb hk

theorem producer_none_idx (p : String) (h : producer fs p = none) : producerIdx fs p = none := by
  unfold producer at h; unfold producerIdx
  rw [List.findIdx?_eq_none_iff]
  rw [List.find?_eq_none] at h
  intro x hx; simpa using h x hx

theorem edgeArgs_mem (j c : Nat) (p : String) (h : EdgeTo fs j c p) : p ∈ edgeArgs fs j c := by
  obtain ⟨orig, hp, hb, hidx⟩ := h
  unfold edgeArgs
  exact List.mem_filterMap.mpr ⟨(p, orig), hp, by simp [hb, hidx]⟩

theorem preds_mem_fn (i j : Nat) (p orig : String) (hp : (p, orig) ∈ (funcAt fs i).params)
    (hb : alookup (funcAt fs i).bound p = none) (hidx : producerIdx fs p = some j) : .fn j ∈ preds fs i := by
  unfold preds
  exact List.mem_filterMap.mpr ⟨(p, orig), hp, by simp [hb, hidx]⟩

theorem preds_mem_root (i : Nat) (p orig : String) (hp : (p, orig) ∈ (funcAt fs i).params)
    (hb : alookup (funcAt fs i).bound p = none) (hidx : producerIdx fs p = none) : .root p ∈ preds fs i := by
  unfold preds
  exact List.mem_filterMap.mpr ⟨(p, orig), hp, by simp [hb, hidx]⟩

theorem namesOf_mem_root (deps : List Node) (consumers : List Nat) (p : String) (h : .root p ∈ deps) :
    p ∈ namesOf fs deps consumers := by
  unfold namesOf
  apply uniqueSorted_mem id p _ ?_ (fun y _ hy => hy)
  exact List.mem_flatMap.mpr ⟨.root p, h, by simp⟩

theorem namesOf_mem_fn (deps : List Node) (consumers : List Nat) (j c : Nat) (p : String) (h : .fn j ∈ deps)
    (hc : c ∈ consumers) (hp : p ∈ edgeArgs fs j c) : p ∈ namesOf fs deps consumers := by
  unfold namesOf
  apply uniqueSorted_mem id p _ ?_ (fun y _ hy => hy)
  exact List.mem_flatMap.mpr ⟨.fn j, h, List.mem_flatMap.mpr ⟨c, hc, hp⟩⟩

theorem Front.ok (hu : UniqueOut fs) (i0 : Nat) (h0 : ∃ q, producerIdx fs q = some i0) (E : List Nat)
    (hch : Chain fs i0 E) (d : Node) (h : Front fs E d) : NodeOK fs d := by
  cases d with
  | fn j =>
    obtain ⟨_, c, _, p, orig, _, _, hidx⟩ := h
    obtain ⟨hj, _, hpo, _⟩ := producerIdx_some fs hu p j hidx
    exact ⟨hj, p, hpo, hidx⟩
  | root p =>
    obtain ⟨hnone, c, hc, orig, hp, _⟩ := h
    obtain ⟨q, hq⟩ := hch.canon fs h0 c hc
    exact ⟨hnone, funcAt fs c, (producerIdx_some fs hu q c hq).2.1, (p, orig), hp, rfl⟩

/-! ### the complete invariant -/

/-- `c` is the name set of a *complete* frontier of an expanded set `E` -/
def CCut (i0 : Nat) (c : List String) : Prop :=
  ∃ E deps, Chain fs i0 E ∧ (∀ d ∈ deps, Front fs E d) ∧
    (∀ e ∈ E, ∀ d ∈ preds fs e, (∃ j, d = .fn j ∧ j ∈ E) ∨ d ∈ deps) ∧ c = namesOf fs deps E

theorem CCut.cut (hu : UniqueOut fs) (i0 : Nat) (h0 : ∃ q, producerIdx fs q = some i0) (c : List String)
    (h : CCut fs i0 c) : Cut fs i0 c := by
  obtain ⟨E, deps, hch, hfr, _, rfl⟩ := h
  exact names_cut fs hu i0 h0 E hch deps hfr

theorem argMapping_ccut (hw : WFp fs rank) (hki : KeyInj fs) (i0 : Nat) (h0 : ∃ q, producerIdx fs q = some i0) :
    ∀ fuel node args replaced acc, Chain fs i0 (replaced ++ [node]) →
      (∀ d ∈ args, Front fs (replaced ++ [node]) d) →
      (∀ e ∈ replaced, ∀ d ∈ preds fs e, (∃ j, d = .fn j ∧ j ∈ replaced ++ [node]) ∨ d ∈ args) →
      (∀ c ∈ acc, CCut fs i0 c) →
      ∀ c ∈ argMapping fs fuel node args replaced acc, CCut fs i0 c := by
  intro fuel
  induction fuel with
  | zero => intro node args replaced acc _ _ _ hacc c hc; simp only [argMapping] at hc; exact hacc c hc
  | succ fuel ih =>
    intro node args replaced acc hch hfr hcp hacc c hc
    rw [argMapping_succ] at hc
    have hnode : funcAt fs node ∈ fs := by
      obtain ⟨q, hq⟩ := hch.canon fs h0 node (by simp)
      exact (producerIdx_some fs hw.uniq q node hq).2.1
    -- every node handed to `uniqueSorted` is a frontier node of `replaced ++ [node]`
    have keyL : ∀ d ∈ args ++ (preds fs node).filter (fun n =>
          match n with | .fn j => !(replaced.contains j) | .root _ => true), Front fs (replaced ++ [node]) d := by
      intro d hd
      rcases List.mem_append.mp hd with hd | hd
      · exact hfr d hd
      · obtain ⟨hpred, hcond⟩ := List.mem_filter.mp hd
        obtain ⟨p, orig, hp, hb, hcase⟩ := mem_preds fs node d hpred
        rcases hcase with ⟨j, hj, rfl⟩ | ⟨hnone, rfl⟩
        · have hedge : EdgeTo fs j node p := ⟨orig, hp, hb, hj⟩
          refine ⟨?_, node, by simp, p, hedge⟩
          intro hm
          rcases List.mem_append.mp hm with hm | hm
          · simp at hcond; exact hcond hm
          · simp at hm; exact edge_irrefl fs rank hw j node p hnode hedge hm
        · exact ⟨hnone, node, by simp, orig, hp, hb⟩
    have key : ∀ d ∈ uniqueSorted (sortKey fs) (args ++ (preds fs node).filter fun n =>
          match n with | .fn j => !(replaced.contains j) | .root _ => true), Front fs (replaced ++ [node]) d :=
      fun d hd => keyL d (mem_uniqueSorted _ d _ hd)
    -- … and none of them is lost
    have keep : ∀ d ∈ args ++ (preds fs node).filter (fun n =>
          match n with | .fn j => !(replaced.contains j) | .root _ => true),
        d ∈ uniqueSorted (sortKey fs) (args ++ (preds fs node).filter fun n =>
          match n with | .fn j => !(replaced.contains j) | .root _ => true) := by
      intro d hd
      apply uniqueSorted_mem _ d _ hd
      intro y hy hk
      exact hki.inj fs y d (Front.ok fs hw.uniq i0 h0 _ hch y (keyL y hy)) (Front.ok fs hw.uniq i0 h0 _ hch d (keyL d hd)) hk
    -- the frontier is complete for `replaced ++ [node]`
    have compl : ∀ e ∈ replaced ++ [node], ∀ d ∈ preds fs e, (∃ j, d = .fn j ∧ j ∈ replaced ++ [node]) ∨
        d ∈ uniqueSorted (sortKey fs) (args ++ (preds fs node).filter fun n =>
          match n with | .fn j => !(replaced.contains j) | .root _ => true) := by
      intro e he d hd
      rcases List.mem_append.mp he with he | he
      · rcases hcp e he d hd with h | h
        · exact Or.inl h
        · exact Or.inr (keep d (List.mem_append_left _ h))
      · simp at he; subst he
        cases d with
        | root p => exact Or.inr (keep _ (List.mem_append_right _ (List.mem_filter.mpr ⟨hd, rfl⟩)))
        | fn j =>
          by_cases hj : j ∈ replaced
          · exact Or.inl ⟨j, rfl, List.mem_append_left _ hj⟩
          · exact Or.inr (keep _ (List.mem_append_right _ (List.mem_filter.mpr ⟨hd, by simp [hj]⟩)))
    split at hc
    · exact hacc c hc
    · refine foldl_inv (fun acc => ∀ c ∈ acc, CCut fs i0 c) _ _ ?_ _ ?_ c hc
      · intro acc' hacc' d hd
        cases d with
        | root p => exact hacc'
        | fn j =>
          obtain ⟨hn, c', hc', p, hedge⟩ := key _ hd
          simp only
          apply ih j _ (replaced ++ [node]) acc' (Chain.snoc hch hc' hedge) ?_ ?_ hacc'
          · intro d' hd'
            obtain ⟨hd1, hd2⟩ := List.mem_filter.mp hd'
            exact Front.mono fs _ j d' (key d' hd1) (by simpa using hd2)
          · intro e he d' hd'
            rcases compl e he d' hd' with ⟨j', rfl, hj'⟩ | h
            · exact Or.inl ⟨j', rfl, List.mem_append_left _ hj'⟩
            · by_cases hdj : d' = .fn j
              · exact Or.inl ⟨j, hdj, by simp⟩
              · exact Or.inr (List.mem_filter.mpr ⟨h, by simpa using hdj⟩)
      · intro c' hc'
        rcases List.mem_append.mp hc' with hc' | hc'
        · exact hacc c' hc'
        · simp only [List.mem_singleton] at hc'
          exact ⟨_, _, hch, key, compl, hc'⟩

theorem argCombinations_ccut (hw : WFp fs rank) (hki : KeyInj fs) (o : String) (cs : List (List String))
    (h : argCombinations fs o = some cs) :
    ∃ i0, producerIdx fs o = some i0 ∧ ∀ c ∈ cs, CCut fs i0 c := by
  unfold argCombinations at h
  split at h
  · cases h
  · next i0 hi0 =>
    cases h
    refine ⟨i0, hi0, ?_⟩
    exact argMapping_ccut fs rank hw hki i0 ⟨o, hi0⟩ _ i0 [] [] [] (by simpa using Chain.base) (by simp) (by simp)
      (by simp)

/-! ### supplying exactly a complete cut needs nothing else -/

theorem ccut_resolvable (hu : UniqueOut fs) (o : String) (i0 : Nat) (hi0 : producerIdx fs o = some i0)
    (c : List String) (hcc : CCut fs i0 c) (hkeys : ∀ k, k ∈ akeys kw ↔ k ∈ c) :
    ∀ f, Reach fs kw o f → ∀ p ∈ f.params, p.1 ∉ c →
      (alookup f.bound p.1).isSome ∨ (producer fs p.1).isSome ∨ (pdefault fs p.1).isSome := by
  obtain ⟨E, deps, hch, hfr, hcompl, rfl⟩ := hcc
  -- the expanded set is closed under "takes from upstream"
  have closed : ∀ f, Reach fs kw o f → ∃ e ∈ E, f = funcAt fs e := by
    intro f hf
    induction hf with
    | root h =>
      refine ⟨i0, hch.head_mem fs, ?_⟩
      have := (producerIdx_some fs hu _ i0 hi0).2.2.2
      rw [h] at this; injection this
    | @step f g q orig _ hp hu' hg ih =>
      obtain ⟨e, he, rfl⟩ := ih
      obtain ⟨hb, hk, _⟩ := resolve_upstream fs kw hu'
      cases hidx : producerIdx fs q with
      | none =>
        have hall := List.findIdx?_eq_none_iff.mp hidx
        have := hall g (producer_mem fs hg)
        have hq := producer_out fs hg
        simp [hq] at this
      | some j =>
        have hgj := (producerIdx_some fs hu q j hidx).2.2.2
        rw [hg] at hgj; injection hgj with hgj
        rcases hcompl e he _ (preds_mem_fn fs e j q orig hp hb hidx) with ⟨j', hjj, hj'⟩ | hdep
        · injection hjj with hjj; subst hjj; exact ⟨j, hj', hgj⟩
        · -- then `q` is one of the listed names, hence supplied — but it resolved as upstream
          have hq : q ∈ namesOf fs deps E :=
            namesOf_mem_fn fs deps E j e q hdep he (edgeArgs_mem fs j e q ⟨orig, hp, hb, hidx⟩)
          have := (alookup_none_iff kw q).mp hk
          exact absurd ((hkeys q).mpr hq) this
  intro f hf p hp hpc
  obtain ⟨e, he, rfl⟩ := closed f hf
  cases hb : alookup (funcAt fs e).bound p.1 with
  | some v => simp
  | none =>
    cases hpr : producer fs p.1 with
    | some g => simp
    | none =>
      have hidx := producer_none_idx fs p.1 hpr
      rcases hcompl e he _ (preds_mem_root fs e p.1 p.2 hp hb hidx) with ⟨j', hjj, _⟩ | hdep
      · cases hjj
      · exact absurd (namesOf_mem_root fs deps E p.1 hdep) hpc

end PF.Pipe
