"""C16 (extension): pipelines described at the level `validate_consistent_type_annotations` reads them.

A case describes 2-4 callables of many flavours (plain functions, bound methods, classes with `__init__`, dataclasses, pydantic
models, `functools.partial` with and without `__wrapped__`, callable instances, output pickers, `NestedPipeFunc`) with tuple
outputs (`tuple[A, B]`, too short / too long / variadic / non-tuple hints), renames, scopes, bound parameters, defaults,
unresolvable and string / `from __future__ import annotations` hints, with and without MapSpecs.  The real callables are built from
generated SOURCE text; observed on the real objects are `parameter_annotations` / `output_annotation` per function, every
(incoming, required) pair the loop hands to `is_type_compatible` (the module global is wrapped while the pipeline is built), the
`Unresolvable` warnings, and the outcome with validation on and off.  The Lean side (`typing.desc`, `Model/TypingPipe.lean`) gets
the description and answers the same observations.  The clauses of the statement are evaluated on the implementation's own
answers against an independent reference (`ref_edges`: which pipeline edges are explicitly annotated, and `sub_ref`).
"""
from __future__ import annotations

import contextlib
import copy
import dataclasses
import functools
import io
import sys
import types
import typing
import warnings
from typing import Annotated, Any, Optional, Union

import numpy as np

import pfimport  # noqa: F401
from pfimport import exc_enum
import pipefunc._pipeline._base as _base
import pipefunc._pipeline._validation as _val
from pipefunc import NestedPipeFunc, PipeFunc, Pipeline
from pipefunc.typing import Array, NoAnnotation, Unresolvable

B = None            # the base module harness/props/c16.py (set by it after import)
FLAVOURS = ["func"] * 7 + ["method", "class", "dataclass", "pydantic", "partial", "partial_bare", "callable", "picker", "nested", "class"]
ANNOTATED_FLAVOURS = ("func", "method", "partial", "class", "dataclass", "pydantic", "picker")
CLASS_FLAVOURS = ("class", "dataclass", "pydantic")
UNRES = "UNRES"


# ------------------------------------------------------------------------------------------------ source text of annotations
def src_ty(t, style) -> str:
    """Python source of the annotation `t` (JSON grammar of c16.py); names are looked up in the exec namespace"""
    if isinstance(t, str):
        return {"int": "int", "bool": "bool", "float": "float", "str": "str", "bytes": "bytes", "None": "None", "A": "ClsA", "B": "ClsB",
                "Any": "Any", "NoAnn": "NoAnnotation", "ndarray": "NDARR"}.get(t) or B._tv(t).__name__
    if "g" in t:
        return f"{t['g']}[{', '.join(src_ty(x, style) for x in t['a'])}]"
    if "u" in t:
        ms_ = [src_ty(x, style) for x in t["u"]]
        if style == "optional" and len(ms_) == 2 and "None" in ms_:
            return f"Optional[{[m for m in ms_ if m != 'None'][0]}]"
        return f"Union[{', '.join(ms_)}]"
    if "an" in t:
        return f"Annotated[{src_ty(t['an'], style)}, Meta" + (", 'unit: m'" if style == "meta2" else "") + "]"
    if "arr" in t:
        return f"Array[{src_ty(t['arr'], style)}]"
    return B._tv(t).__name__


def src_ann(a, future, in_class=False) -> str:
    """source of one annotation slot `a` = {"t": ty | "UNRES", "style": .., "quoted": bool}; '' when there is no annotation"""
    if a is None:
        return ""
    if a["t"] == UNRES:
        return "Undefined_Name_" if future else "'Undefined_Name_'"
    s = src_ty(a["t"], a.get("style"))
    if not future and (a.get("quoted") or (in_class and "Cls" in s)):
        return repr(s)
    return s


def src_ret(r, future) -> str:
    if r is None:
        return ""
    if isinstance(r.get("t"), dict) and "variadic" in r["t"]:
        s = f"tuple[{src_ty(r['t']['variadic'], r.get('style'))}, ...]"
        return repr(s) if (r.get("quoted") and not future) else s
    return src_ann(r, future)


def namespace():
    ns = {"Any": Any, "Union": Union, "Optional": Optional, "Annotated": Annotated, "Array": Array, "NoAnnotation": NoAnnotation,
          "NDARR": B.NDARR, "Meta": B.Meta, "dataclasses": dataclasses, "functools": functools, "np": np, "typing": typing}
    for tv in B._TV.values():
        ns[tv.__name__] = tv
    try:
        import pydantic
        ns["pydantic"] = pydantic
    except Exception:  # noqa: BLE001
        pass
    return ns


def sig(f, future, in_class=False, with_self=False) -> str:
    ps = []
    for p in f["oparams"]:
        a = src_ann(p["ann"], future, in_class)
        ps.append(p["name"] + (f": {a}" if a else "") + (" = 1" if p.get("default") else ""))
    if f["flavour"] in ("partial", "partial_bare"):
        ps.append(f"kw{f['idx']}: int = 0")
    head = ("self, " if with_self else "") + ("*, " if ps else "") + ", ".join(ps)
    return head.rstrip(", ")


def class_source(f, name, base, future) -> str:
    fl = f["flavour"] if f else None
    if fl == "dataclass":
        body = "".join(f"    {p['name']}: {src_ann(p['ann'], future, True)}" + (" = 1" if p.get("default") else "") + "\n" for p in f["oparams"])
        return f"@dataclasses.dataclass(kw_only=True)\nclass {name}{base}:\n{body or '    pass'}\n"
    if fl == "pydantic":
        body = "".join(f"    {p['name']}: {src_ann(p['ann'], future, True)}" + (" = 1" if p.get("default") else "") + "\n" for p in f["oparams"])
        return f"class {name}(pydantic.BaseModel):\n    model_config = pydantic.ConfigDict(arbitrary_types_allowed=True)\n{body}\n"
    if fl == "class":
        return f"class {name}{base}:\n    def __init__({sig(f, future, True, True)}) -> None:\n        pass\n"
    return f"class {name}{base}:\n    pass\n"


def make_callables(case):
    """exec the generated source; returns (namespace, {idx: callable})"""
    future = case["future"]
    fs = case["funcs"]
    cls_a = next((f for f in fs if f["flavour"] in CLASS_FLAVOURS and f["cls"] == "A"), None)
    cls_b = next((f for f in fs if f["flavour"] in CLASS_FLAVOURS and f["cls"] == "B"), None)
    src = ["from __future__ import annotations\n"] if future else []
    src.append(class_source(cls_a, "ClsA", "", future))
    src.append(class_source(cls_b, "ClsB", "(ClsA)", future))
    for f in fs:
        fl, n = f["flavour"], f["name"]
        ret = src_ret(f["ret"], future)
        arrow = f" -> {ret}" if ret else ""
        if fl in ("func", "picker"):
            src.append(f"def {n}({sig(f, future)}){arrow}:\n    return None\n")
        elif fl in ("partial", "partial_bare"):
            src.append(f"def {n}_base({sig(f, future)}){arrow}:\n    return None\n")
            if fl == "partial":
                src.append(f"{n} = functools.update_wrapper(functools.partial({n}_base, kw{f['idx']}=5), {n}_base)\n")
            else:
                src.append(f"{n} = functools.partial({n}_base, kw{f['idx']}=5)\n{n}.__name__ = '{n}'\n")
        elif fl == "method":
            src.append(f"class _H{n}:\n    def {n}({sig(f, future, False, True)}){arrow}:\n        return None\n{n} = _H{n}().{n}\n")
        elif fl == "callable":
            src.append(f"class _H{n}:\n    __name__ = '{n}'\n    def __call__({sig(f, future, False, True)}){arrow}:\n        return None\n{n} = _H{n}()\n")
        elif fl == "nested":
            g0 = f["inner"]
            src.append(f"def {n}_g0({sig(f, future)}) -> int:\n    return 1\n")
            src.append(f"def {n}_g1(*, {g0['mid']}: int){arrow}:\n    return None\n")
    mod = types.ModuleType("c16_case_module")      # a real module: dataclasses / pydantic look the namespace up in sys.modules
    sys.modules["c16_case_module"] = mod
    ns = mod.__dict__
    ns.update(namespace())
    code = "".join(src)
    exec(compile(code, "<c16-case>", "exec", flags=0, dont_inherit=True), ns)  # noqa: S102  (no inherited __future__ flags)
    B.register_classes(ns["ClsA"], ns["ClsB"])
    out = {}
    for f in fs:
        if f["flavour"] in CLASS_FLAVOURS:
            out[f["idx"]] = ns["ClsA" if f["cls"] == "A" else "ClsB"]
        elif f["flavour"] != "nested":
            out[f["idx"]] = ns[f["name"]]
    return ns, out, code


def picker(out, name):
    return None


def out_name(f):
    return tuple(f["outs"]) if f["out_tuple"] else f["outs"][0]


def make_pipefuncs(case):
    ns, callables, code = make_callables(case)
    pfs = []
    for f in case["funcs"]:
        kw = {}
        if f.get("renames"):
            kw["renames"] = dict(f["renames"])
        if f.get("scope"):
            kw["scope"] = f["scope"]
        if f.get("bound"):
            kw["bound"] = {b: 1 for b in f["bound"]}
        if f.get("mapspec"):
            kw["mapspec"] = f["mapspec"]
        if f["flavour"] == "picker":
            kw["output_picker"] = picker
        if f["flavour"] == "nested":
            g0 = PipeFunc(ns[f["name"] + "_g0"], f["inner"]["mid"], renames=dict(f.get("renames") or {}))
            g1 = PipeFunc(ns[f["name"] + "_g1"], f["outs"][-1])
            pfs.append(NestedPipeFunc([g0, g1], output_name=out_name(f)))
        else:
            pfs.append(PipeFunc(callables[f["idx"]], out_name(f), **kw))
    return pfs, code


# ------------------------------------------------------------------------------------------------ the description (model input)
def final_name(f, orig):
    n = dict(f.get("renames") or {}).get(orig, orig)
    return f"{f['scope']}.{n}" if f.get("scope") and "." not in n else n


def final_outs(f):
    return [f"{f['scope']}.{o}" if f.get("scope") else o for o in f["outs"]]


def fallback(f):
    """`typing.get_type_hints` fails for the callable (an unresolvable name): the raw `__annotations__` are resolved one by one"""
    return any(a is not None and a["t"] == UNRES for a in [p["ann"] for p in f["oparams"]] + [f["ret"]])


def ann_json(a, f=None):
    """annotation slot -> hint JSON as `safe_get_type_hints` returns it (or None when absent).  A `functools.partial` made with
    `update_wrapper` has no `__globals__`: in the fallback mode its string annotations cannot be evaluated."""
    if a is None:
        return None
    if a["t"] == UNRES:
        return UNRES
    if f is not None and f["flavour"] == "partial" and fallback(f) and (f.get("future") or a.get("quoted")):
        inner = a["t"]["variadic"] if isinstance(a["t"], dict) and "variadic" in a["t"] else a["t"]
        if B.mentions(inner, ("Any", "NoAnn", "ndarray", "T", "A", "B", "u", "an", "arr", "tvb", "tvc")):
            return UNRES            # only builtins can be evaluated without the function's globals
    if isinstance(a["t"], dict) and "variadic" in a["t"]:
        return {"variadic": B.canon(a["t"]["variadic"])[1]}
    return B.canon(a["t"])[1]


def describe(case, seen_ms):
    """the list of `Func` descriptions for the Lean driver"""
    out = []
    for f, m in zip(case["funcs"], seen_ms):
        fl = f["flavour"]
        params = [final_name(f, p["name"]) for p in f["oparams"]]
        if fl in ("partial", "partial_bare"):
            params.append(final_name(f, f"kw{f['idx']}"))
        names = [p["name"] for p in f["oparams"]] + ([f"kw{f['idx']}"] if fl in ("partial", "partial_bare") else [])
        renames = [[k, final_name(f, k)] for k in names if final_name(f, k) != k]
        if fl in ANNOTATED_FLAVOURS:
            phints = [[p["name"], ann_json(p["ann"], f)] for p in f["oparams"] if p["ann"] is not None]
            if fl == "partial":
                phints.append([f"kw{f['idx']}", "int"])
        elif fl == "nested":
            phints = [["kwargs", "Any"]]
        else:
            phints = []
        ret = ann_json(f["ret"], f) if fl in ("func", "method", "partial") else None
        kind = {"cls": f["cls"]} if fl in CLASS_FLAVOURS else "picker" if fl == "picker" else "nested" if fl == "nested" else "plain"
        out.append({"outs": final_outs(f), "out_tuple": f["out_tuple"], "params": params, "bound": list(f.get("bound") or []),
                    "renames": renames, "phints": phints, "ret": ret, "kind": kind, "mapspec": m})
    return out


# ------------------------------------------------------------------------------------------------ reference: the statement
def declared_out(f, k):
    """the explicit annotation of the k-th output of `f`, or None when the function does not annotate it"""
    fl = f["flavour"]
    if fl in CLASS_FLAVOURS:
        return f["cls"] if not f["out_tuple"] else None
    if fl not in ("func", "method", "partial") or f["ret"] is None:
        return None
    t = ann_json(f["ret"], f)
    if t == UNRES:
        return UNRES if not f["out_tuple"] else None
    if isinstance(t, dict) and "variadic" in t:
        return t["variadic"] if f["out_tuple"] else None
    if not f["out_tuple"]:
        return t
    if isinstance(t, dict) and t.get("g") == "tuple" and t["a"]:
        return t["a"][k] if k < len(t["a"]) else None
    return None


def ref_edges(case, seen_ms):
    """every edge of the pipeline (an output of one function that another takes as an unbound parameter) with the explicit
    annotations of both ends; an end without (resolvable) annotation demands nothing"""
    fs = case["funcs"]
    owner = {o: (i, k) for i, f in enumerate(fs) for k, o in enumerate(final_outs(f))}
    out = []
    for j, g in enumerate(fs):
        for p in g["oparams"]:
            n = final_name(g, p["name"])
            if n in (g.get("bound") or []) or n not in owner or owner[n][0] == j:
                continue
            i, k = owner[n]
            o = declared_out(fs[i], k)
            t = ann_json(p["ann"], g) if g["flavour"] in ANNOTATED_FLAVOURS else None
            e = {"param": n, "prod": seen_ms[i], "cons": seen_ms[j], "out": o, "inp": t, "i": i, "j": j}
            e["demand"] = o not in (None, UNRES, "NoAnn") and t not in (None, UNRES, "NoAnn")
            out.append(e)
    return out


# ------------------------------------------------------------------------------------------------ generator
def tv_safe(t):
    """TypeVars are module-level objects whose bounds / constraints are the module-level classes `UserA` / `UserB`; the classes of
    a case are created per case, so a TypeVar over them is replaced by its bound (or the union of its constraints)"""
    if isinstance(t, dict):
        if "tvb" in t and B.mentions(t["tvb"], ("A", "B")):
            return tv_safe(t["tvb"])
        if "tvc" in t and B.mentions(t["tvc"], ("A", "B")):
            u = {"u": [tv_safe(x) for x in t["tvc"]]}
            return u if B.well_formed(u) else "Any"
        out = {k: ([tv_safe(x) for x in v] if isinstance(v, list) else tv_safe(v)) for k, v in t.items()}
        return out if B.well_formed(out) else "Any"
    return t


def slot(rng, t, future):
    if t is None:
        return None
    if t != UNRES:
        t = {"variadic": tv_safe(t["variadic"])} if isinstance(t, dict) and "variadic" in t else tv_safe(t)
    return {"t": t, "style": rng.choice([None, None, None, "optional", "meta2"]), "quoted": (not future) and rng.random() < 0.12}


def gen_desc(rng):
    n = rng.choice([2, 2, 3, 3, 4])
    future = rng.random() < 0.25
    scope_mode = rng.choice([None] * 7 + ["all", "producer"])
    use_ms = scope_mode is None and rng.random() < 0.5
    fs, used_cls = [], set()
    outputs = []                      # (func idx, k, final-less name)
    for i in range(n):
        fl = rng.choice(FLAVOURS)
        if i == 0 and fl == "nested":
            fl = "func"
        if fl in CLASS_FLAVOURS:
            free = [c for c in ("A", "B") if c not in used_cls and not (c == "A" and "B" in used_cls)]
            if not free or (fl == "pydantic" and ("A" in used_cls or "B" in used_cls or "A" not in free)):
                fl = "func"
        f = {"idx": i, "name": f"f{i}", "flavour": fl, "oparams": [], "ret": None, "renames": [], "bound": [], "scope": None, "mapspec": None}
        if fl in CLASS_FLAVOURS:
            f["cls"] = "A" if fl == "pydantic" else rng.choice(free)
            used_cls.add(f["cls"])
        tup = fl == "picker" or (fl != "nested" and rng.random() < 0.35) or (fl == "nested" and rng.random() < 0.4)
        k = 2 if fl == "nested" else rng.choice([2, 2, 3])
        f["out_tuple"] = tup
        f["outs"] = [f"y{i}{c}" for c in "abc"[:k]] if tup else [f"y{i}"]
        if fl == "nested":
            f["inner"] = {"mid": f["outs"][0] if tup else f"m{i}"}
        fs.append(f)
    if any(f["flavour"] == "pydantic" for f in fs):
        for f in fs:
            if f["flavour"] in CLASS_FLAVOURS and f["cls"] == "B":
                f["flavour"] = "func"
                del f["cls"]
    if any(f["flavour"] in CLASS_FLAVOURS and f["cls"] == "A" for f in fs):
        for f in fs:
            if f["flavour"] in CLASS_FLAVOURS and f["cls"] == "B":
                f["flavour"] = "class"
    if scope_mode == "all":
        for f in fs:
            if f["flavour"] != "nested":
                f["scope"] = "s"
        if any(f["flavour"] == "nested" for f in fs):
            for f in fs:
                f["scope"] = None
    elif scope_mode == "producer" and fs[0]["flavour"] != "nested":
        fs[0]["scope"] = "s0"
    # MapSpecs: f0 maps its first root parameter; later functions are element-wise over the mapped inputs they name, or reduce
    mapped = set()
    # wiring
    for i, f in enumerate(fs):
        fl = f["flavour"]
        avail = [(pi, k) for pi in range(i) for k in range(len(fs[pi]["outs"]))]
        wired = rng.sample(avail, min(len(avail), rng.choice([1, 1, 2, 3]))) if avail else []
        for c, (pi, k) in enumerate(wired):
            target = final_outs(fs[pi])[k]
            if f["scope"] == "s":                           # same scope: the plain name is prefixed by the scope again
                orig = fs[pi]["outs"][k]
            elif "." in target or rng.random() < 0.4:
                orig = f"q{i}_{c}"
                f["renames"].append([orig, target])
            else:
                orig = target
            f["oparams"].append({"name": orig, "wire": [pi, k], "default": rng.random() < 0.15})
        for c in range(1 if i == 0 else rng.choice([0, 0, 1])):
            f["oparams"].append({"name": f"x{i}_{c}", "wire": None, "default": rng.random() < 0.3})
        if fl == "nested" and not any(p["wire"] for p in f["oparams"]):
            f["flavour"] = fl = "func"
        # bound
        cand = [p for p in f["oparams"] if p["wire"] and not f["scope"]]
        if cand and fl != "nested" and rng.random() < 0.22:
            f["bound"] = [final_name(f, rng.choice(cand)["name"])]
        # mapspec
        if use_ms and fl != "nested":
            ins = []
            if i == 0:
                if rng.random() < 0.8:
                    root = f["oparams"][0]["name"]
                    ins = [] if rng.random() < 0.12 else [f"{root}[i]"]
                    f["mapspec"] = f"{', '.join(ins) or '...'} -> {', '.join(o + '[i]' for o in f['outs'])}"
                    mapped.update(f["outs"])
            else:
                mi = [final_name(f, p["name"]) for p in f["oparams"] if p["wire"] and final_name(f, p["name"]) in mapped
                      and final_name(f, p["name"]) not in f["bound"]]
                r = rng.random()
                if mi and r < 0.45:
                    keep = [m for m in mi if rng.random() < 0.8] or mi[:1]
                    spec = [m + ("[i]" if rng.random() < 0.9 else "[:]") for m in keep]
                    if all(s.endswith("[:]") for s in spec):
                        spec[0] = keep[0] + "[i]"
                    f["mapspec"] = f"{', '.join(spec)} -> {', '.join(o + '[i]' for o in f['outs'])}"
                    mapped.update(f["outs"])
    # annotations
    def eff_out(pi, k):
        d = declared_out(fs[pi], k)
        return "NoAnn" if d in (None, UNRES) else d
    for i, f in enumerate(fs):
        fl = f["flavour"]
        r = rng.random()
        if fl in CLASS_FLAVOURS or fl == "nested" and False:
            f["ret"] = None
        elif f["out_tuple"]:
            k = len(f["outs"])
            tys = [B.gen_ty(rng, rng.choice([0, 1, 1, 2])) for _ in range(k + 1)]
            if r < 0.58:
                t = {"g": "tuple", "a": tys[:k]}
            elif r < 0.66:
                t = {"g": "tuple", "a": tys[:k - 1]}
            elif r < 0.73:
                t = {"g": "tuple", "a": tys[:k + 1]}
            elif r < 0.83:
                t = {"variadic": tys[0]}
            elif r < 0.88:
                t = None
            elif r < 0.91:
                t = {"an": {"g": "tuple", "a": tys[:k]}}
            elif r < 0.95:
                t = rng.choice([{"g": "list", "a": [tys[0]]}, {"g": "dict", "a": ["str", tys[0]]}, "int"])
            else:
                t = UNRES
            f["ret"] = slot(rng, t, future)
        else:
            t = None if r < 0.08 else UNRES if r < 0.14 else B.gen_ty(rng, rng.choice([0, 1, 1, 2]))
            f["ret"] = slot(rng, t, future)
        if f["ret"] is not None and isinstance(f["ret"]["t"], dict) and "variadic" in f["ret"]["t"]:
            f["ret"]["style"] = None
        for p in f["oparams"]:
            r = rng.random()
            if p["wire"]:
                pi, k = p["wire"]
                o = eff_out(pi, k)
                name = final_name(f, p["name"])
                red = fs[pi]["mapspec"] is not None and (f["mapspec"] is None or (name + "[i]") not in f["mapspec"])
                t = None if r < 0.08 else UNRES if r < 0.14 else B.related_inp(rng, o, red) if o != "NoAnn" else B.gen_ty(rng, 1)
                if name in f["bound"] and rng.random() < 0.5:
                    t = B.gen_ty(rng, 1)
            else:
                t = None if r < 0.15 else UNRES if r < 0.2 else B.gen_ty(rng, 1)
            if fl in ("dataclass", "pydantic") and t is None:
                t = "Any"
            if fl == "pydantic" and (t == UNRES or B.mentions(t, ("T", "tvb", "tvc", "NoAnn", "A", "B"))):
                t = "Any"
            p["ann"] = slot(rng, t, future)
            if fl == "nested":
                p["ann"] = slot(rng, "int", future) if p["ann"] is not None else None
    for f in fs:
        f["future"] = future
    return {"kind": "desc", "validate": rng.random() < 0.8, "future": future, "funcs": fs}


# ------------------------------------------------------------------------------------------------ running the implementation
def norm(j):
    """unions as sets: members sorted"""
    if isinstance(j, list):
        return [norm(x) for x in j]
    if isinstance(j, dict):
        d = {k: norm(v) for k, v in j.items()}
        if "u" in d:
            d["u"] = sorted(d["u"], key=B.key)
        return d
    return j


def hint_json(o):
    if isinstance(o, Unresolvable):
        return UNRES
    try:
        return norm(B.from_py(o))
    except B.Unsupported:
        return "?"


def observe(case):
    """everything observed on the real code for one case"""
    obs = {"off": "ok", "on": None, "pairs": [], "warnings": 0, "params": None, "outputs": None, "seen_ms": None, "shape": None}
    try:
        with contextlib.redirect_stdout(io.StringIO()):
            pfs, code = make_pipefuncs(case)
    except Exception as e:  # noqa: BLE001
        if any(f["flavour"] == "pydantic" for f in case["funcs"]):      # pydantic refuses the field types: same case as a dataclass
            for f in case["funcs"]:
                if f["flavour"] == "pydantic":
                    f["flavour"] = "dataclass"
            obs2 = observe(case)
            obs2["pydantic_fallback"] = True
            return obs2
        obs["off"] = "BUILD-EXC:" + exc_enum(e)
        return obs
    try:
        with contextlib.redirect_stdout(io.StringIO()):
            p = Pipeline(pfs, validate_type_annotations=False)
    except Exception as e:  # noqa: BLE001
        obs["off"] = "EXC:" + exc_enum(e)
        return obs
    by = {f.output_name: f for f in p.functions}
    real = [by[out_name_final(f)] for f in case["funcs"]]
    obs["seen_ms"] = [B.seen_mapspec(pf) for pf in real]
    obs["shape"] = [{"outs": list(_tuple(pf.output_name)), "params": sorted(pf.parameters), "bound": sorted(pf._bound)} for pf in real]
    try:
        obs["params"] = [{k: hint_json(v) for k, v in pf.parameter_annotations.items()} for pf in real]
        obs["outputs"] = [{k: hint_json(v) for k, v in pf.output_annotation.items()} for pf in real]
    except Exception as e:  # noqa: BLE001
        obs["on"] = "EXC(annotations):" + exc_enum(e)
        return obs
    if not case["validate"]:
        obs["on"] = "ok"
        return obs
    orig, orig_v = _val.is_type_compatible, _base.validate_consistent_type_annotations
    log, wstart, wlist = [], [0], []

    def recorder(a, b, *rest):
        log.append((hint_json(a), hint_json(b)))
        return orig(a, b, *rest)

    def validate(graph):
        # `Pipeline.add` validates after every function (and a NestedPipeFunc validates its inner pipeline when it is copied):
        # keep what the LAST run of the loop did -- the complete pipeline, or the prefix that was rejected
        log.clear()
        wstart[0] = len(wlist)
        return orig_v(graph)
    try:
        with warnings.catch_warnings(record=True) as w, contextlib.redirect_stdout(io.StringIO()):
            warnings.simplefilter("always")
            wlist = w
            try:
                pfs2, _ = make_pipefuncs(case)
                _val.is_type_compatible, _base.validate_consistent_type_annotations = recorder, validate
                Pipeline(pfs2, validate_type_annotations=True)
                obs["on"] = "ok"
            except TypeError as e:
                obs["on"] = "TypeError" if type(e) is TypeError and "Inconsistent type annotations" in str(e) else "EXC:" + exc_enum(e)
            except Exception as e:  # noqa: BLE001
                obs["on"] = "EXC:" + exc_enum(e)
        obs["warnings"] = sum("Unresolvable type hint" in str(x.message) for x in w[wstart[0]:])
    finally:
        _val.is_type_compatible, _base.validate_consistent_type_annotations = orig, orig_v
    obs["pairs"] = log
    return obs


def _tuple(x):
    return x if isinstance(x, tuple) else (x,)


def out_name_final(f):
    o = final_outs(f)
    return tuple(o) if f["out_tuple"] else o[0]


# ------------------------------------------------------------------------------------------------ the check
def nontrivial(case, edges):
    return any(e["demand"] and not B.ref_exempt(e) and B.nontrivial_pair(e["out"], e["inp"]) for e in edges)


def check_descs(ctx, cases):
    todo, reqs = [], []
    for case in cases:
        try:
            obs = observe(case)
        except B.Unsupported as e:
            ctx.skip(f"desc-unsupported:{e}")
            continue
        finally:
            pass
        for f in case["funcs"]:
            ctx.count(f"desc:flavour:{f['flavour']}")
        if obs["off"] != "ok":
            ctx.record(case, False)
            ctx.violation(case, f"validate_type_annotations=False but building the pipeline raised {obs['off']}", impl=obs["off"], model="ok", key="desc-off")
            continue
        desc = describe(case, obs["seen_ms"])
        # the harness' own reading of names must be what pipefunc has (otherwise the case is not the pipeline that was built)
        shape = [{"outs": d["outs"], "params": sorted(d["params"]), "bound": sorted(d["bound"])} for d in desc]
        if shape != obs["shape"]:
            ctx.skip("desc-shape-differs")
            ctx.violation(case, f"pipefunc's names {obs['shape']} differ from the description {shape}", found_input=False, item="harness:desc-shape")
            continue
        todo.append((case, desc, obs))
        reqs.append({"m": "typing.desc", "a": {"validate": case["validate"], "funcs": desc}})
    outs = ctx.lean(reqs) if reqs else []
    for (case, desc, obs), resp in zip(todo, outs):
        model = resp["r"]
        edges = ref_edges(case, obs["seen_ms"])
        demanded = [e for e in edges if e["demand"]]
        ref_ok = all(B.ref_edge_ok(e) for e in demanded)
        want = "ok" if (ref_ok or not case["validate"]) else "TypeError"
        on = obs["on"]
        ctx.count(f"desc:n={len(case['funcs'])}")
        ctx.count(f"desc:outcome:{model['outcome']}")
        ctx.count("desc:future" if case["future"] else "desc:eager-annotations")
        for f in case["funcs"]:
            if f["out_tuple"]:
                t = (f["ret"] or {}).get("t")
                ctx.count("desc:tuple-ret:" + ("none" if t is None else "unres" if t == UNRES else "variadic" if isinstance(t, dict) and "variadic" in t
                          else "tuple" if isinstance(t, dict) and t.get("g") == "tuple" else "other"))
            if f.get("bound"):
                ctx.count("desc:bound")
            if f.get("scope"):
                ctx.count("desc:scope")
            if f.get("renames"):
                ctx.count("desc:renames")
            if f.get("mapspec"):
                ctx.count("desc:mapspec")
        for c in model["visited"]:
            ctx.count("desc:visited:" + ("unresolved" if not c["resolved"] else "generated" if c["generated"] else "internal" if c["internal"]
                                          else "reduced" if c["reduced"] else "plain") + (":ok" if c["ok"] else ":bad"))
        ctx.count(f"desc:edges-demanded={min(len(demanded), 3)}")
        ctx.record(case, nontrivial(case, edges))
        if on is None or on.startswith("EXC"):
            ctx.violation(case, f"constructing the pipeline raised {on} (neither success nor the TypeError of the type check)", impl=on,
                          model=model["outcome"], key="desc-crash:" + str(on)[:24])
            continue
        if on != want:
            what = ("every edge between explicitly annotated functions is compatible but the pipeline is rejected with " + on) if want == "ok" else \
                   ("an edge between explicitly annotated functions is incompatible but construction gave " + on)
            ctx.violation(case, what, impl=on, model=model["outcome"], key=f"desc:{want}:{on[:9]}")
            continue
        if model["outcome"] != want:
            ctx.violation(case, "model and Python reference disagree on the described pipeline", found_input=False,
                          item="correspondence:desc-ref", impl=on, model=model["outcome"])
            continue
        # annotations per function
        bad = None
        allouts = {o for d in desc for o in d["outs"]}
        for i, d in enumerate(desc):
            mo = {k: norm(v) for k, v in model["outputs"][i]}
            if mo != obs["outputs"][i] and "?" not in obs["outputs"][i].values():
                bad = f"output_annotation of {case['funcs'][i]['name']}: implementation {obs['outputs'][i]} model {mo}"
            mp = {k: norm(v) for k, v in model["params"][i]}
            rp = {k: v for k, v in obs["params"][i].items() if k in mp or k in allouts}
            if mp != rp and "?" not in rp.values() and case["funcs"][i]["flavour"] != "pydantic":
                bad = f"parameter_annotations of {case['funcs'][i]['name']}: implementation {rp} model {mp}"
            if case["funcs"][i]["flavour"] == "pydantic" and any(rp.get(k) != v for k, v in mp.items()):
                bad = f"parameter_annotations of pydantic {case['funcs'][i]['name']}: implementation {rp} model {mp}"
        if bad:
            ctx.violation(case, "annotations read by the loop differ: " + bad, found_input=False, item="correspondence:annotations", impl=on, model=model["outcome"])
            continue
        if case["validate"]:
            mpairs = sorted(B.key(norm([c["cmp_out"], c["inp"]])) for c in model["visited"] if not c["generated"] and not c["internal"])
            ipairs = sorted(B.key([a, b]) for a, b in obs["pairs"])
            if on == "ok":
                if mpairs != ipairs:
                    ctx.violation(case, f"the loop compared {ipairs} but the model visits {mpairs}", found_input=False,
                                  item="correspondence:visited-edges", impl=ipairs, model=mpairs)
                elif obs["warnings"] != sum(c["warns"] for c in model["visited"]):
                    ctx.violation(case, f"{obs['warnings']} Unresolvable warnings but the model expects {sum(c['warns'] for c in model['visited'])}",
                                  found_input=False, item="correspondence:unresolvable-warnings", impl=obs["warnings"])
            else:
                rest = list(mpairs)
                for x in ipairs:
                    if x in rest:
                        rest.remove(x)
                    else:
                        ctx.violation(case, f"the loop compared {x}, which the model does not visit", found_input=False,
                                      item="correspondence:visited-edges", impl=ipairs, model=mpairs)
                        break


# ------------------------------------------------------------------------------------------------ corpus
def _f(idx, flavour, oparams, ret, outs, **kw):
    d = {"idx": idx, "name": f"f{idx}", "flavour": flavour, "oparams": [{"name": n, "ann": (None if a is None else {"t": a}), "wire": None, "default": False} for n, a in oparams],
         "ret": None if ret is None else {"t": ret}, "outs": outs, "out_tuple": len(outs) > 1, "renames": [], "bound": [], "scope": None, "mapspec": None}
    d.update(kw)
    return d


def corpus():
    def case(*fs, validate=True, future=False):
        return {"kind": "desc", "validate": validate, "future": future, "funcs": list(fs)}
    T = lambda *a: {"g": "tuple", "a": list(a)}  # noqa: E731
    return [
        # DF-C16-bound: `b` is bound in f1 and must not be compared with f0's `str` output
        case(_f(0, "func", [("x", "int")], T("int", "str"), ["a", "b"]), _f(1, "func", [("a", "int"), ("b", "int")], "int", ["c"], bound=["b"])),
        case(_f(0, "func", [("x", "int")], T("int", "str"), ["a", "b"]), _f(1, "func", [("a", "int"), ("b", "int")], "int", ["c"])),
        # DF-C16-noannotations: functools.partial without __wrapped__, callable instance
        case(_f(0, "func", [("x", "int")], "int", ["y0"]), _f(1, "partial_bare", [("y0", "int")], "int", ["y1"])),
        case(_f(0, "func", [("x", "int")], "int", ["y0"]), _f(1, "callable", [("y0", "str")], "int", ["y1"])),
        # DF-C16-nested: a NestedPipeFunc with one output name feeding an annotated consumer
        case(_f(0, "func", [("x", "int")], "int", ["y0"]), _f(1, "nested", [("y0", "int")], "int", ["y1"], inner={"mid": "m1"}),
             _f(2, "func", [("y1", "int")], "int", ["y2"])),
        # DF-C16-variadic: tuple[int, ...] with two output names
        case(_f(0, "func", [("x", "int")], {"variadic": "int"}, ["a", "b"]), _f(1, "func", [("a", "int"), ("b", "int")], "int", ["c"])),
        case(_f(0, "func", [("x", "int")], {"variadic": "int"}, ["a", "b"]), _f(1, "func", [("a", "int"), ("b", "str")], "int", ["c"])),
        # DF-C16-metadata: Annotated with two metadata items on a reduced edge
        case(_f(0, "func", [("x", "int")], {"an": "int"}, ["y0"], mapspec="x[i] -> y0[i]", ret_style="meta2"),
             _f(1, "func", [("y0", {"arr": "int"})], "int", ["y1"])),
        # classes as functions, subclassing, unresolvable hints, too-short tuple hints
        case(_f(0, "class", [("x", "int")], None, ["y0"], cls="B"), _f(1, "func", [("y0", "A")], "int", ["y1"])),
        case(_f(0, "dataclass", [("x", "int")], None, ["y0"], cls="A"), _f(1, "func", [("y0", "B")], "int", ["y1"])),
        case(_f(0, "func", [("x", "int")], UNRES, ["y0"]), _f(1, "func", [("y0", "str")], "int", ["y1"])),
        case(_f(0, "func", [("x", "int")], T("int"), ["a", "b"]), _f(1, "func", [("a", "bool"), ("b", "str")], "int", ["c"])),
    ]


def fix_corpus(cs):
    for c in cs:
        for f in c["funcs"]:
            st = f.pop("ret_style", None)
            if st and f["ret"]:
                f["ret"]["style"] = st
            for p in f["oparams"]:
                owner = [(i, k) for i, g in enumerate(c["funcs"]) for k, o in enumerate(g["outs"]) if o == p["name"] and i != f["idx"]]
                p["wire"] = list(owner[0]) if owner else None
    return cs


def replay(ctx, case):
    obs = observe(case)
    try:
        print(make_pipefuncs(case)[1])
    except Exception as e:  # noqa: BLE001
        print("source could not be executed:", e)
    for f in case["funcs"]:
        print(f"  {f['name']}: flavour={f['flavour']} output_name={out_name_final(f)} renames={f.get('renames')} scope={f.get('scope')} bound={f.get('bound')} mapspec={f.get('mapspec')}")
    print("implementation: validate=False ->", obs["off"], "| validate =", case["validate"], "->", obs["on"], "| warnings:", obs["warnings"])
    print("  parameter_annotations:", obs["params"], "\n  output_annotation:", obs["outputs"], "\n  compared pairs:", obs["pairs"])
    if obs["seen_ms"] is not None:
        desc = describe(case, obs["seen_ms"])
        print("model:", ctx.lean([{"m": "typing.desc", "a": {"validate": case["validate"], "funcs": desc}}])[0].get("r"))
        es = ref_edges(case, obs["seen_ms"])
        print("reference: edges", [(e["i"], e["j"], e["param"], e["out"], e["inp"], "demand" if e["demand"] else "-", B.ref_edge_ok(e) if e["demand"] else None) for e in es])
