#!/usr/bin/env python3
"""tools/add_entry.py CXX 'text' 'note-suffix' 'technique' : add/replace a manifest entry in tools/manifest_entries.json."""
import json, pathlib, sys
f = pathlib.Path(__file__).resolve().parent / "manifest_entries.json"
d = json.loads(f.read_text()) if f.exists() else {}
pid, text, note, tech = sys.argv[1:5]
PROOF_NOTE = ("Trusts Lean's kernel (axioms audited on every run: subset of propext, Classical.choice, Quot.sound; no sorry/native_decide), "
              "the hand-written model's fidelity as established by the differential correspondence run on every invocation against /repo's working tree, and the harness. ")
d[pid] = {"text": text, "note": PROOF_NOTE + note, "technique": tech}
f.write_text(json.dumps(d, indent=1))
