import PfModel.Lemmas.PipeCacheStable
/-!
C09, proof round 2 — the per-stage flag of the driver as a definition.

`stages` is, word for word, the helper of `Driver/C09.lean` (entry `pipe.cached`, flag `"stable"` =
`(stages fs steps).all (stableB encVal)`): the function lists a history passes through — the list before every mutation and
the final one.  `stableHistB` is that flag.  `Props/C09Stages.lean` proves that it implies `WFHist` / `WFAll`, the
hypotheses of every history theorem of C09, for histories WITH `update_defaults` / `update_bound` / `replace` steps
(round 9 had call-only histories).  Core Lean only.
-/
namespace PF.PipeCache
open PF PF.Pipe

/-- the function lists the history passes through (`Driver/C09.lean: stages`) -/
def stages : List Func → List Step → List (List Func)
  | fs, [] => [fs]
  | fs, .mutate m :: r => fs :: stages (applyMut fs m) r
  | fs, .call _ _ _ :: r => stages fs r

/-- the `stable` flag of driver entry `pipe.cached` on a whole history -/
def stableHistB (enc : Val → String) (fs : List Func) (steps : List Step) : Bool :=
  (stages fs steps).all (stableB enc)

/-- the list a history starts from is one of its stages (a call does not add a stage: the list it sees is the next
    mutation's, or the final one) -/
theorem stages_start_mem : ∀ (steps : List Step) (fs : List Func), fs ∈ stages fs steps := by
  intro steps
  induction steps with
  | nil => intro fs; simp [stages]
  | cons st rest ih =>
    intro fs
    cases st with
    | mutate m => simp [stages]
    | call o kw full => simp only [stages]; exact ih fs

/-- the stages of the rest of a history are stages of the history -/
theorem stages_tail_sub (fs : List Func) (st : Step) (rest : List Step) :
    ∀ x, x ∈ stages (match st with | .mutate m => applyMut fs m | .call _ _ _ => fs) rest → x ∈ stages fs (st :: rest) := by
  intro x hx
  cases st with
  | mutate m => simp only [stages]; exact List.mem_cons_of_mem _ hx
  | call o kw full => simpa only [stages] using hx

/-- every stage is the start of a suffix of the history (the flag looks at nothing else) -/
theorem stages_all_iff (p : List Func → Bool) (fs : List Func) (steps : List Step) :
    (stages fs steps).all p = true ↔ ∀ st ∈ stages fs steps, p st = true := by
  simp [List.all_eq_true]

/-! witness history for `Props/C09Stages.lean`: mutations first ("configure"), then calls and `update_defaults` ("use") -/
def cfgF2 : Func := ⟨"f2", [("c", "c"), ("a", "a")], ["d"], [], []⟩
def cfgMuts : List Mut := [.updateBound ["c"] [("b", .str "B1")], .replace cfgF2]
def cfgRest : List Step :=
  [.call "d" [("a", .str "1")] false, .mutate (.updateDefaults [("a", .str "A1")]), .call "d" [] false,
   .call "d" [("a", .str "A1")] false]

end PF.PipeCache
