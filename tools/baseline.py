#!/usr/bin/env python3
"""Run the repository's pinned test suite (guard off) and compare with /root/.vp/BASELINE.json's stable_pass list.
Usage: tools/baseline.py [repo]   exit 0 when every stable_pass test passes."""
import json, os, subprocess, sys, tempfile, xml.etree.ElementTree as ET
repo = sys.argv[1] if len(sys.argv) > 1 else "/repo"
b = json.load(open("/root/.vp/BASELINE.json"))
with tempfile.TemporaryDirectory() as d:
    x = os.path.join(d, "j.xml")
    env = {k: v for k, v in os.environ.items() if k != "PIPEFUNC_VERIF"}
    subprocess.run(["/venv/bin/python", "-m", "pytest", "-ra", "-q", "-p", "no:cacheprovider", "--timeout=900", "-x" if False else "-q",
                    "--continue-on-collection-errors", f"--junitxml={x}"], cwd=repo, env=env, capture_output=True)
    passed = set()
    for tc in ET.parse(x).getroot().iter("testcase"):
        if not any(c.tag in ("failure", "error", "skipped") for c in tc):
            passed.add(f"{tc.get('classname')}::{tc.get('name')}")
import shutil
shutil.rmtree(os.path.join(repo, "my_run_folder"), ignore_errors=True)   # artefact some tests leave in the cwd
missing = [t for t in b["stable_pass"] if t not in passed]
print(f"stable_pass={len(b['stable_pass'])} passed_now={len(passed)} missing={len(missing)}")
for t in missing[:40]:
    print("  NOT PASSING:", t)
sys.exit(1 if missing else 0)
