import PfModel.Model.ErrorsAsync
import PfModel.Lemmas.Errors
/-! Lemmas for the `map_async` failure model (`gatherFail`, `procGenA`, `poolGenA`, `runGensG`). -/
namespace PF.Errors
open PF PF.Map

/-- what `gatherFail` returns is a future of this function, observed by the loop, holding that exception; and no position
    the loop observed earlier is a failed future of this function -/
theorem gatherFail_some (futs : Futs) (ts : List Task) (off : Nat) : ∀ (ρ : List Nat) (t : Task) (x : Exn),
    gatherFail futs ts off ρ = some (t, x) →
    ∃ l1 k l2, ρ = l1 ++ (off + k) :: l2 ∧ ts[k]? = some t ∧ futs (off + k) = some (some x) ∧
      ∀ j ∈ l1, ∀ k' t', j = off + k' → ts[k']? = some t' → ∀ x', futs j ≠ some (some x') := by
  intro ρ
  induction ρ with
  | nil => intro t x h; simp [gatherFail] at h
  | cons i ρ ih =>
    intro t x h
    simp only [gatherFail] at h
    by_cases hi : off ≤ i
    · simp only [hi, ↓reduceIte] at h
      cases hts : ts[i - off]? with
      | none =>
        simp only [hts] at h
        obtain ⟨l1, k, l2, e, h1, h2, h3⟩ := ih t x h
        refine ⟨i :: l1, k, l2, by simp [e], h1, h2, ?_⟩
        intro j hj k' t' hjk ht'
        rcases List.mem_cons.mp hj with hj | hj
        · subst hj; subst hjk; simp at hts; have := (List.getElem?_eq_some_iff.mp ht').1; omega
        · exact h3 j hj k' t' hjk ht'
      | some t0 =>
        cases hf : futs i with
        | none =>
          simp only [hts, hf] at h
          obtain ⟨l1, k, l2, e, h1, h2, h3⟩ := ih t x h
          refine ⟨i :: l1, k, l2, by simp [e], h1, h2, ?_⟩
          intro j hj k' t' hjk ht' x'
          rcases List.mem_cons.mp hj with hj | hj
          · subst hj; rw [hf]; simp
          · exact h3 j hj k' t' hjk ht' x'
        | some o =>
          cases o with
          | none =>
            simp only [hts, hf] at h
            obtain ⟨l1, k, l2, e, h1, h2, h3⟩ := ih t x h
            refine ⟨i :: l1, k, l2, by simp [e], h1, h2, ?_⟩
            intro j hj k' t' hjk ht' x'
            rcases List.mem_cons.mp hj with hj | hj
            · subst hj; rw [hf]; simp
            · exact h3 j hj k' t' hjk ht' x'
          | some x0 =>
            simp only [hts, hf] at h
            injection h with h; injection h with h1 h2
            subst h1; subst h2
            refine ⟨[], i - off, ρ, ?_, hts, ?_, ?_⟩
            · have : off + (i - off) = i := by omega
              simp [this]
            · have : off + (i - off) = i := by omega
              rw [this]; exact hf
            · intro j hj; cases hj
    · simp only [hi, ↓reduceIte] at h
      obtain ⟨l1, k, l2, e, h1, h2, h3⟩ := ih t x h
      refine ⟨i :: l1, k, l2, by simp [e], h1, h2, ?_⟩
      intro j hj k' t' hjk ht'
      rcases List.mem_cons.mp hj with hj | hj
      · subst hj; omega
      · exact h3 j hj k' t' hjk ht'

/-- a failed future of this function that the loop observes makes `gather` raise -/
theorem gatherFail_ne_none (futs : Futs) (ts : List Task) (off : Nat) (k : Nat) (t : Task) (x : Exn)
    (hk : ts[k]? = some t) (hf : futs (off + k) = some (some x)) : ∀ (ρ : List Nat), off + k ∈ ρ → gatherFail futs ts off ρ ≠ none := by
  intro ρ
  induction ρ with
  | nil => intro h; cases h
  | cons i ρ ih =>
    intro hm
    simp only [gatherFail]
    by_cases hi : off ≤ i
    · simp only [hi, ↓reduceIte]
      by_cases hik : i = off + k
      · subst hik
        have : off + k - off = k := by omega
        simp [this, hk, hf]
      · have hm' : off + k ∈ ρ := by
          rcases List.mem_cons.mp hm with h | h
          · exact absurd h.symm hik
          · exact h
        split
        · simp
        · exact ih hm'
    · simp only [hi, ↓reduceIte]
      have hm' : off + k ∈ ρ := by
        rcases List.mem_cons.mp hm with h | h
        · omega
        · exact h
      exact ih hm'

/-- when no task of the function fails and all its futures are done, `gather` sees no failure -/
theorem gatherFail_none_of_clean (fails : Oracle) (futs : Futs) (ts : List Task) (off : Nat) (hd : Done fails futs ts off)
    (hc : ∀ t ∈ ts, failOf fails t = none) : ∀ ρ, gatherFail futs ts off ρ = none := by
  intro ρ
  induction ρ with
  | nil => rfl
  | cons i ρ ih =>
    simp only [gatherFail]
    by_cases hi : off ≤ i
    · simp only [hi, ↓reduceIte]
      cases hts : ts[i - off]? with
      | none => simp only [ih]
      | some t =>
        have := hd (i - off) t hts
        have e : off + (i - off) = i := by omega
        rw [e, hc t (List.mem_of_getElem? hts)] at this
        simp only [this, ih]
    · simp only [hi, ↓reduceIte, ih]

theorem allSucceeded_of_clean (fails : Oracle) (futs : Futs) : ∀ (ts : List Task) (off : Nat), Done fails futs ts off →
    (∀ t ∈ ts, failOf fails t = none) → allSucceeded futs ts off = true := by
  intro ts
  induction ts with
  | nil => intro off _ _; rfl
  | cons t ts ih =>
    intro off hd hc
    simp only [allSucceeded]
    have h0 := hd 0 t (by simp)
    simp only [Nat.add_zero] at h0
    rw [h0, hc t (by simp)]
    simp only [Bool.true_and]
    exact ih (off + 1) hd.tail (fun u hu => hc u (List.mem_cons_of_mem _ hu))

/-- `procGenA` on futures that are pending or hold the result of their own task: a raised outcome is the exception of a task
    of the generation that the oracle fails -/
theorem procGenA_own (fails : Oracle) (futs : Futs) (ρ : List Nat) : ∀ frs off, Own fails futs (genTasks frs) off →
    match procGenA futs ρ frs off with
    | .raised r _ => ∃ t x, t ∈ genTasks frs ∧ failOf fails t = some x ∧ r = raisedOf t x
    | _ => True := by
  intro frs
  induction frs with
  | nil => intro off _; simp [procGenA]
  | cons fr rest ih =>
    obtain ⟨f, r⟩ := fr
    intro off ho
    rw [genTasks_cons] at ho
    simp only [procGenA, awaitGather]
    cases hg : gatherFail futs (tasksOf f r) off ρ with
    | some tx =>
      obtain ⟨t, x⟩ := tx
      simp only []
      obtain ⟨l1, k, l2, _, hk, hf, _⟩ := gatherFail_some futs _ off ρ t x hg
      have hown := ho.left k t hk
      rw [hf] at hown
      rcases hown with h | h
      · cases h
      · refine ⟨t, x, ?_, ?_, rfl⟩
        · rw [genTasks_cons]; exact List.mem_append_left _ (List.mem_of_getElem? hk)
        · injection h with h; exact h.symm
    | none =>
      simp only []
      by_cases ha : allSucceeded futs (tasksOf f r) off = true
      · simp only [ha, ↓reduceIte]
        have ih' := ih (off + r.calls.length) (by have := ho.right; rwa [length_tasksOf] at this)
        cases hp : procGenA futs ρ rest (off + r.calls.length) with
        | ok => trivial
        | hang => trivial
        | raised rr sl =>
          rw [hp] at ih'
          obtain ⟨t, x, ht, hx, e⟩ := ih'
          exact ⟨t, x, by rw [genTasks_cons]; exact List.mem_append_right _ ht, hx, e⟩
      · simp only [ha, Bool.false_eq_true, ↓reduceIte]

/-- **One generation of `map_async`, all tasks run, the loop observes every completion.**  Without a failing task the
    generation completes; otherwise it raises the exception of *a* failing task of the same function as the synchronous run
    (`firstFail`), namely the one whose completion the loop observes first among that function's failed futures. -/
theorem procGenA_done (fails : Oracle) (futs : Futs) (ρ : List Nat) : ∀ frs off, Done fails futs (genTasks frs) off →
    (∀ j, off ≤ j → j < off + (genTasks frs).length → j ∈ ρ) →
    match firstFail fails (genTasks frs) with
    | some (t0, _) => ∃ t x sl, procGenA futs ρ frs off = .raised (raisedOf t x) sl ∧ t.f = t0.f ∧ t ∈ genTasks frs ∧
        failOf fails t = some x ∧ (t, x) ∈ asyncCandidates fails frs
    | none => procGenA futs ρ frs off = .ok := by
  intro frs
  induction frs with
  | nil => intro off _ _; simp [genTasks, firstFail, procGenA]
  | cons fr rest ih =>
    obtain ⟨f, r⟩ := fr
    intro off hd hρ
    rw [genTasks_cons] at hd hρ ⊢
    rw [firstFail_append]
    simp only [procGenA, awaitGather]
    cases hff : firstFail fails (tasksOf f r) with
    | some tx =>
      obtain ⟨t0, x0⟩ := tx
      simp only []
      obtain ⟨pre, post, e, _, hx0⟩ := firstFail_spec fails _ t0 x0 hff
      have hk : (tasksOf f r)[pre.length]? = some t0 := by rw [e]; simp
      have hf0 : futs (off + pre.length) = some (some x0) := by
        have := hd.left pre.length t0 hk; rw [this, hx0]
      have hlt : pre.length < (tasksOf f r).length := (List.getElem?_eq_some_iff.mp hk).1
      have hin : off + pre.length ∈ ρ := hρ _ (by omega) (by simp only [List.length_append]; omega)
      have hne := gatherFail_ne_none futs _ off pre.length t0 x0 hk hf0 ρ hin
      cases hg : gatherFail futs (tasksOf f r) off ρ with
      | none => exact absurd hg hne
      | some tx =>
        obtain ⟨t, x⟩ := tx
        simp only []
        obtain ⟨_, k, _, _, hk', hf', _⟩ := gatherFail_some futs _ off ρ t x hg
        have hdone := hd.left k t hk'
        rw [hf'] at hdone
        have hx : failOf fails t = some x := by injection hdone with h; exact h.symm
        have htm : t ∈ tasksOf f r := List.mem_of_getElem? hk'
        refine ⟨t, x, _, rfl, ?_, List.mem_append_left _ htm, hx, ?_⟩
        · rw [mem_tasksOf f r t htm, mem_tasksOf f r t0 (List.mem_of_getElem? hk)]
        · simp only [asyncCandidates]
          have hmem : (t, x) ∈ (tasksOf f r).filterMap fun t => (failOf fails t).map fun x => (t, x) :=
            List.mem_filterMap.mpr ⟨t, htm, by simp [hx]⟩
          split
          · next h => rw [h] at hmem; cases hmem
          · next c cs h => rw [h] at hmem; exact hmem
    | none =>
      simp only []
      have hclean := (firstFail_none fails _).mp hff
      rw [gatherFail_none_of_clean fails futs _ off hd.left hclean ρ, allSucceeded_of_clean fails futs _ off hd.left hclean]
      simp only [↓reduceIte]
      have hd' : Done fails futs (genTasks rest) (off + r.calls.length) := by
        have := hd.right; rwa [length_tasksOf] at this
      have hρ' : ∀ j, off + r.calls.length ≤ j → j < off + r.calls.length + (genTasks rest).length → j ∈ ρ := by
        intro j h1 h2
        exact hρ j (by omega) (by simp only [List.length_append, length_tasksOf]; omega)
      have ih' := ih (off + r.calls.length) hd' hρ'
      have hcand : asyncCandidates fails ((f, r) :: rest) = asyncCandidates fails rest := by
        simp only [asyncCandidates]
        have : ((tasksOf f r).filterMap fun t => (failOf fails t).map fun x => (t, x)) = [] := by
          apply List.filterMap_eq_nil_iff.mpr
          intro t ht; simp [hclean t ht]
        rw [this]
      cases hf2 : firstFail fails (genTasks rest) with
      | some tx =>
        obtain ⟨t0, x0⟩ := tx
        rw [hf2] at ih'
        obtain ⟨t, x, sl, e, h1, h2, h3, h4⟩ := ih'
        simp only [e]
        exact ⟨t, x, _, rfl, h1, List.mem_append_right _ h2, h3, by rw [hcand]; exact h4⟩
      | none =>
        rw [hf2] at ih'
        simp only [ih']

/-- facts about an async generation that need no fairness -/
theorem poolGenA_facts (fails : Oracle) (σ ρ : List Nat) (R : Env → MFunc → M FuncResult) (env : Env) (gen : List MFunc) :
    match poolGenA fails σ ρ R env gen with
    | .ok rs log => runGenWith R env gen = .ok rs ∧ (∀ t ∈ log, t.f ∈ gen)
    | .refused _ => True
    | .raised r log _ => (∀ t ∈ log, t.f ∈ gen) ∧ ∃ t x, t.f ∈ gen ∧ failOf fails t = some x ∧ r = raisedOf t x
    | .hang log => ∀ t ∈ log, t.f ∈ gen := by
  unfold poolGenA
  cases h : runGenWith R env gen with
  | error e => simp
  | ok rs =>
    simp only []
    have hlog : ∀ t ∈ σ.filterMap (fun i => (genTasks (gen.zip rs))[i]?), t.f ∈ gen :=
      fun t ht => mem_genTasks_zip gen rs t (mem_filterMap_getElem? _ σ t ht)
    have ho := procGenA_own fails _ ρ (gen.zip rs) 0 (own_execAll fails (genTasks (gen.zip rs)) σ)
    cases hp : procGenA (execAll fails (genTasks (gen.zip rs)) σ fun _ => none) ρ (gen.zip rs) 0 with
    | ok => exact ⟨rfl, hlog⟩
    | hang => exact hlog
    | raised r sl =>
      rw [hp] at ho
      obtain ⟨t, x, ht, hx, e⟩ := ho
      exact ⟨hlog, t, x, mem_genTasks_zip gen rs t ht, hx, e⟩

/-- one async generation under a fair pool schedule and a fair loop order -/
theorem poolGenA_spec (fails : Oracle) (σ ρ : List Nat) (R : Env → MFunc → M FuncResult) (env : Env) (gen : List MFunc)
    (rs : List FuncResult) (h : runGenWith R env gen = .ok rs) (hσ : Fair σ (genTasks (gen.zip rs)).length)
    (hρ : Fair ρ (genTasks (gen.zip rs)).length) :
    match firstFail fails (genTasks (gen.zip rs)) with
    | some (t0, _) => ∃ t x log sl, poolGenA fails σ ρ R env gen = .raised (raisedOf t x) log sl ∧ t.f = t0.f ∧
        t ∈ genTasks (gen.zip rs) ∧ failOf fails t = some x ∧ (t, x) ∈ asyncCandidates fails (gen.zip rs)
    | none => ∃ log, poolGenA fails σ ρ R env gen = .ok rs log := by
  have hd := procGenA_done fails _ ρ (gen.zip rs) 0 (done_execAll fails (genTasks (gen.zip rs)) σ hσ)
    (fun j _ hj => hρ j (by omega))
  simp only [poolGenA, h]
  cases hff : firstFail fails (genTasks (gen.zip rs)) with
  | some tx =>
    obtain ⟨t0, x0⟩ := tx
    rw [hff] at hd
    obtain ⟨t, x, sl, e, h1, h2, h3, h4⟩ := hd
    simp only [e]
    exact ⟨t, x, _, _, rfl, h1, h2, h3, h4⟩
  | none =>
    rw [hff] at hd
    simp only [hd]; exact ⟨_, rfl⟩

/-- the schedules of every generation on the failure-free path are fair (pool order and loop order) -/
def FairSchedA (sched loopo : Nat → List Nat) (R : Env → MFunc → M FuncResult) : List (List MFunc) → Env → Nat → Prop
  | [], _, _ => True
  | gen :: rest, env, g =>
    match runGenWith R env gen with
    | .error _ => True
    | .ok rs => Fair (sched g) (genTasks (gen.zip rs)).length ∧ Fair (loopo g) (genTasks (gen.zip rs)).length ∧
        FairSchedA sched loopo R rest { env with store := env.store ++ rs.flatMap (·.slots) } (g + 1)

/-- the generic generation loop instantiated with `genE mode` is `runGensE mode` -/
theorem runGensG_genE (mode : Mode) (fails : Oracle) (sched : Nat → List Nat) (R : Env → MFunc → M FuncResult) :
    ∀ (gens : List (List MFunc)) (env : Env) (g : Nat),
      runGensG (fun g env gen => genE mode fails (sched g) R env gen) gens env g = runGensE mode fails sched R gens env g := by
  intro gens
  induction gens with
  | nil => intro env g; rfl
  | cons gen rest ih =>
    intro env g
    simp only [runGensG, runGensE]
    cases genE mode fails (sched g) R env gen with
    | ok rs log => simp only [ih]; rfl
    | refused e => rfl
    | raised r log sl => rfl
    | hang log => rfl

/-- per-generation facts (the shape of `genE_facts` / `poolGenA_facts`) -/
def GenFacts (fails : Oracle) (R : Env → MFunc → M FuncResult) (G : Nat → Env → List MFunc → GenOut) : Prop :=
  ∀ g env gen,
    match G g env gen with
    | .ok rs log => runGenWith R env gen = .ok rs ∧ (∀ t ∈ log, t.f ∈ gen)
    | .refused _ => True
    | .raised r log _ => (∀ t ∈ log, t.f ∈ gen) ∧ ∃ t x, t.f ∈ gen ∧ failOf fails t = some x ∧ r = raisedOf t x
    | .hang log => ∀ t ∈ log, t.f ∈ gen

/-- everything a raised run tells, for any generation runner satisfying `GenFacts` -/
theorem runGensG_raised_facts (fails : Oracle) (R : Env → MFunc → M FuncResult) (G : Nat → Env → List MFunc → GenOut)
    (hG : GenFacts fails R G) :
    ∀ (gens : List (List MFunc)) (env : Env) (g g' : Nat) (r : Raised) (log : List Task) (store : List (String × Slot)),
      runGensG G gens env g = .raised g' r log store →
      ∃ k gen t x rs envk part, g' = g + k ∧ gens[k]? = some gen ∧ t.f ∈ gen ∧ failOf fails t = some x ∧ r = raisedOf t x ∧
        (∀ u ∈ log, ∃ j gen', j ≤ k ∧ gens[j]? = some gen' ∧ u.f ∈ gen') ∧
        runGensWith R (gens.take k) env = .ok (rs, envk) ∧ store = envk.store ++ part ∧
        ∃ log0, G g' envk gen = .raised r log0 part := by
  intro gens
  induction gens with
  | nil => intro env g g' r log store h; simp [runGensG] at h
  | cons gen rest ih =>
    intro env g g' r log store h
    simp only [runGensG] at h
    have hfacts := hG g env gen
    cases hg : G g env gen with
    | refused e => simp [hg] at h
    | hang l => simp [hg] at h
    | raised r0 log0 slots =>
      rw [hg] at hfacts
      simp only [hg] at h
      injection h with h1 h2 h3 h4
      subst h1; subst h2; subst h3; subst h4
      obtain ⟨hl, t, x, ht, hx, hr⟩ := hfacts
      refine ⟨0, gen, t, x, [], env, slots, rfl, rfl, ht, hx, hr, ?_, ?_, rfl, log0, hg⟩
      · intro u hu; exact ⟨0, gen, Nat.le_refl 0, rfl, hl u hu⟩
      · simp [runGensWith, pure, Except.pure]
    | ok rs log0 =>
      rw [hg] at hfacts
      obtain ⟨hrun, hl⟩ := hfacts
      simp only [hg] at h
      cases hrec : runGensG G rest { env with store := env.store ++ rs.flatMap (·.slots) } (g + 1) with
      | ok a b c => simp [hrec] at h
      | refused e => simp [hrec] at h
      | hang a b => simp [hrec] at h
      | raised g1 r1 log1 st1 =>
        simp only [hrec] at h
        injection h with h1 h2 h3 h4
        subst h1; subst h2; subst h3; subst h4
        obtain ⟨k, gen', t, x, rs', envk, part, e1, e2, ht, hx, hr, hlog, hrw, hst, hlast⟩ := ih _ _ _ _ _ _ hrec
        refine ⟨k + 1, gen', t, x, rs ++ rs', envk, part, by omega, by simpa using e2, ht, hx, hr, ?_, ?_, hst, hlast⟩
        · intro u hu
          rcases List.mem_append.mp hu with hu | hu
          · exact ⟨0, gen, Nat.zero_le _, rfl, hl u hu⟩
          · obtain ⟨j, gj, hj, e, hm⟩ := hlog u hu
            exact ⟨j + 1, gj, by omega, by simpa using e, hm⟩
        · rw [List.take_succ_cons, runGensWith_cons, hrun]
          simp only [hrw]

theorem genFacts_genE (mode : Mode) (fails : Oracle) (sched : Nat → List Nat) (R : Env → MFunc → M FuncResult) :
    GenFacts fails R (fun g env gen => genE mode fails (sched g) R env gen) :=
  fun g env gen => genE_facts mode fails (sched g) R env gen

theorem genFacts_poolGenA (fails : Oracle) (sched loopo : Nat → List Nat) (R : Env → MFunc → M FuncResult) :
    GenFacts fails R (fun g env gen => poolGenA fails (sched g) (loopo g) R env gen) :=
  fun g env gen => poolGenA_facts fails (sched g) (loopo g) R env gen

end PF.Errors
