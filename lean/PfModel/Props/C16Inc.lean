import PfModel.Lemmas.Typing
import PfModel.Lemmas.TypingPipe
import PfModel.Lemmas.TypingInc
/-!
C16 (round 9) — `Pipeline.add` validates after every function (`pipefunc/_pipeline/_base.py:191-192`, `:263`, `:1147-1170`):
construction is a sequence of *stages* (the description of the functions added so far, with the MapSpecs they have at that
moment), and `TypeError` is raised by the first stage whose check fails.
Model: `Model/TypingInc.lean` (`firstBad`, `constructInc`, `stagesOf`); lemmas: `Lemmas/TypingInc.lean`.
-/
namespace PF.C16
open PF.Typing

/-- exact: with validation on, incremental construction succeeds iff every stage passes the check of the complete-list model -/
theorem C16_inc_iff (stages : List (List Func)) :
    constructInc true stages = .ok ↔ ∀ s ∈ stages, constructP true s = .ok := by
  rw [← firstBad_none_iff]
  unfold constructInc
  cases firstBad stages <;> simp

/-- the `add` that raises is the first whose stage is rejected: stage `k` is rejected and every earlier stage is accepted;
    no `add` raises iff every stage is accepted -/
theorem C16_inc_first (stages : List (List Func)) :
    (∀ k, firstBad stages = some k →
      (∃ s, stages[k]? = some s ∧ constructP true s = .typeError) ∧
      (∀ i, i < k → ∀ s, stages[i]? = some s → constructP true s = .ok)) ∧
    (firstBad stages = none ↔ ∀ s ∈ stages, constructP true s = .ok) :=
  ⟨firstBad_some stages, firstBad_none_iff stages⟩

/-- the outcome is `TypeError` exactly when some `add` raises -/
theorem C16_inc_typeError_iff (stages : List (List Func)) :
    constructInc true stages = .typeError ↔ ∃ k, firstBad stages = some k := by
  unfold constructInc
  cases firstBad stages <;> simp

/-- nothing is rejected when `validate_type_annotations=False`, at no stage -/
theorem C16_inc_off (stages : List (List Func)) : constructInc false stages = .ok := by simp [constructInc]

/-- with stable descriptions, everything the loop compares after `k` adds it compares again (same indices, annotations and
    MapSpecs) on the complete list; hence the compared edges of a prefix are compared edges of the whole list -/
theorem C16_prefix_visit (fs : List Func) (k : Nat) :
    (∀ c, c ∈ visit (fs.take k) → c ∈ visit fs) ∧ (∀ e, e ∈ checkedEdges (fs.take k) → e ∈ checkedEdges fs) :=
  ⟨fun _ h => mem_visit_take h, fun _ h => mem_checkedEdges_take h⟩

/-- with stable descriptions a prefix of an accepted list is accepted (for every `k`, also beyond the length) -/
theorem C16_prefix_accept (fs : List Func) (k : Nat) (h : constructP true fs = .ok) : constructP true (fs.take k) = .ok :=
  constructP_take_ok k h

/-- with stable descriptions (no MapSpec of an already-added function is regenerated), validating after every `add` rejects
    exactly when the single validation of the complete list does -/
theorem C16_inc_stable (v : Bool) (fs : List Func) : constructInc v (stagesOf fs) = constructP v fs :=
  constructInc_stagesOf v fs

/-- Descriptions are NOT stable in general: for `f0: x[i] -> y0[i]` returning `int`, `f1(y0: str)` without a MapSpec and
    `f2: y1[j] -> y2[j]`, list order `[f0, f1, f2]` is rejected by the second `add` (the edge `y0` is a reduction into a function
    without MapSpec: `Array[int]` against `str`), although the final stage alone is accepted (`f1` then has the generated MapSpec
    `... -> y1[j]`, which exempts the edge), and list order `[f2, f0, f1]` — the same three functions — is accepted at every stage.
    Rejection depends on the order of the list. -/
theorem C16_inc_regenerated_witness :
    firstBad incStages = some 1 ∧ constructInc true incStages = .typeError ∧
    constructP true [incF0, incF1 (some incGen), incF2] = .ok ∧
    constructInc true incStagesShuffled = .ok := by
  have h0 : constructP true [incF0] = .ok := by
    simp [constructP, construct, checkedEdges, visit, visitNode, List.range, List.range.loop]
  have h1 : constructP true [incF0, incF1 none] = .typeError := by
    simp [constructP, construct, checkedEdges, visit, visitNode, visitParams, feeds, paramAnnotations, outputAnnotation, incF0, incF1,
      mkDict, dinsert, renamed, alookup, CEdge.toEdge?, edgeOk, mapspecIsGenerated, withInternalShape, wrapOut, axisIsReduced, isObjArr,
      List.range, List.range.loop, compat]
  have h2 : constructP true [incF0, incF1 (some incGen), incF2] = .ok := by
    simp [constructP, construct, checkedEdges, visit, visitNode, visitParams, feeds, paramAnnotations, outputAnnotation, incF0, incF1, incF2,
      incGen, mkDict, dinsert, renamed, alookup, CEdge.toEdge?, edgeOk, mapspecIsGenerated, withInternalShape, wrapOut, axisIsReduced,
      isObjArr, List.range, List.range.loop, compat, Base.sub]
  have h3 : constructP true [incF2] = .ok := by
    simp [constructP, construct, checkedEdges, visit, visitNode, List.range, List.range.loop]
  have h4 : constructP true [incF2, incF0] = .ok := by
    simp [constructP, construct, checkedEdges, visit, visitNode, visitParams, feeds, incF0, incF2, List.range, List.range.loop]
  have h5 : constructP true [incF2, incF0, incF1 (some incGen)] = .ok := by
    simp [constructP, construct, checkedEdges, visit, visitNode, visitParams, feeds, paramAnnotations, outputAnnotation, incF0, incF1, incF2,
      incGen, mkDict, dinsert, renamed, alookup, CEdge.toEdge?, edgeOk, mapspecIsGenerated, withInternalShape, wrapOut, axisIsReduced,
      isObjArr, List.range, List.range.loop, compat, Base.sub]
  refine ⟨?_, ?_, h2, ?_⟩
  · simp [firstBad, incStages, h0, h1]
  · simp [constructInc, firstBad, incStages, h0, h1]
  · simp [constructInc, firstBad, incStagesShuffled, h3, h4, h5]

/-! ### non-vacuity -/

/-- `C16_inc_first`: a `firstBad = some k` exists (and the earlier stage is accepted) -/
example : firstBad incStages = some 1 := C16_inc_regenerated_witness.1
/-- `C16_inc_iff` / `C16_inc_first` (none): a list of stages all of which are accepted -/
example : ∀ s ∈ incStagesShuffled, constructP true s = .ok :=
  (C16_inc_iff incStagesShuffled).mp C16_inc_regenerated_witness.2.2.2
/-- `C16_prefix_accept`: an accepted list with a nontrivial compared edge (`f0 -> y0: int`, `f1(y0: int)`) -/
example : constructP true [incF2, incF0, incF1 (some incGen)] = .ok ∧ (checkedEdges [incF2, incF0, incF1 (some incGen)]).length = 2 := by
  refine ⟨(C16_inc_iff incStagesShuffled).mp C16_inc_regenerated_witness.2.2.2 _ (by simp [incStagesShuffled]), ?_⟩
  simp [checkedEdges, visit, visitNode, visitParams, feeds, paramAnnotations, outputAnnotation, incF0, incF1, incF2,
    incGen, mkDict, dinsert, renamed, alookup, CEdge.toEdge?, List.range, List.range.loop]
/-- `C16_inc_stable` on a rejected stable list: `[f0, f1]` with `f1` without MapSpec; its stages are its prefixes -/
example : stagesOf [incF0, incF1 none] = [[incF0], [incF0, incF1 none]] ∧ constructInc true (stagesOf [incF0, incF1 none]) = .typeError := by
  refine ⟨by simp [stagesOf, List.range, List.range.loop], ?_⟩
  rw [C16_inc_stable]
  have := (C16_inc_first incStages).1 1 C16_inc_regenerated_witness.1
  obtain ⟨⟨s, hs, hbad⟩, _⟩ := this
  simp [incStages] at hs; subst hs; exact hbad

end PF.C16
