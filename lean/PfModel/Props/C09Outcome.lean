import PfModel.Lemmas.PipeCacheSim
import PfModel.Lemmas.PipeCacheDefaults
import PfModel.Lemmas.PipeCacheOnce
import PfModel.Lemmas.PipeCacheHitOnce
import PfModel.Props.C09
import PfModel.Props.C02Needed
/-!
C09, extension (round 2) — the *whole outcome* of a cached call.

* `C09_uncached_is_run`: the cached run with no cached function is `PF.Pipe.runTop`, errors included.
* `C09_refines_uncached`: a cached call that does not return early from a hit (every `full_output` call, every call without
  a hit) is an uncached call: value, `full_output` dictionary, used-parameter list, surplus-keyword verdict, and a call log
  that is the uncached one minus the functions whose key was found.
* `C09_call_outcome`: a call that succeeds uncached *returns normally* with the cache (no `UnusedParametersError`), with the
  equal value and — under `full_output` — a dictionary with the same domain and values.
* `C09_surplus_verdict`: the `UnusedParametersError` verdict (and the names it lists) is the uncached one whenever the check
  is performed; after an early return from a hit the check is skipped (`None in used_parameters`).
* `C09_executes_at_most_once`: over the call log: every function body runs at most once per call, not at all when its key
  was found, and only if the uncached call runs it.
-/
namespace PF.C09
open PF PF.Pipe PF.PipeCache

/-- what `Pipeline.run` answers for a finished cached evaluation: the value, or `UnusedParametersError` -/
def verdict {H C} (out : COutcome H C) : Except Err Outcome :=
  if out.unused.isEmpty then .ok ⟨out.value, out.full, out.calls⟩ else .error (.unused out.unused)

def verdictC {H C} : Except Err (COutcome H C) → Except Err Outcome
  | .error e => .error e
  | .ok out => verdict out

/-- **(7) No cached function ⇒ the uncached run.**  With `cache=False` on every function the cached pipeline answers
    exactly what `PF.Pipe.runTop` answers — value, `full_output`, call log, or the same error (missing argument, unknown
    output, surplus keywords with the same names) — and leaves the cache and the logs untouched; for every container and
    every key computation. -/
theorem C09_uncached_is_run {H C} (P : Policy H C) (ck : List (String × Val) → Func → String → Option (Key H))
    (fs : List Func) (c : C) (kw : List (String × Val)) (full : Bool) (o : String) :
    verdictC (runTopC P (fun _ => false) ck fs c kw full o) = runTop fs kw (.name o) ∧
    ∀ out, runTopC P (fun _ => false) ck fs c kw full o = .ok out → out.cache = c ∧ out.hits = [] ∧ out.puts = [] := by
  cases hk : alookup kw o with
  | some x => simp [runTopC, runTop, hk, verdictC]
  | none =>
    have e : (initC kw c : CSt H C).toSt = ⟨kw, [], []⟩ := rfl
    simp only [runTopC, runTop, hk, Option.isSome_none, Bool.false_eq_true, ↓reduceIte, runC_uncached, e]
    cases run fs kw (fuelFor fs) o ⟨kw, [], []⟩ with
    | error e => simp [liftR, verdictC]
    | ok r =>
      obtain ⟨v, t⟩ := r
      simp only [liftR, verdictC, verdict, CSt.withSt, initC, Bool.false_eq_true, ↓reduceIte]
      refine ⟨trivial, ?_⟩
      intro out hout
      injection hout with hout
      subst hout
      exact ⟨rfl, rfl, rfl⟩

/-- a successful `runTopC` unfolded -/
theorem C09_aux_runTopC_ok {H C} (P : Policy H C) (cached : Func → Bool) (ck : List (String × Val) → Func → String → Option (Key H))
    (fs : List Func) (c : C) (kw : List (String × Val)) (full : Bool) (o : String) (out : COutcome H C)
    (hrun : runTopC P cached ck fs c kw full o = .ok out) :
    alookup kw o = none ∧ ∃ v s, runC P cached ck fs kw full (fuelFor fs) o (initC kw c) = .ok (v, s) ∧
      out.value = v ∧ out.full = s.memo ∧ out.calls = s.calls ∧ out.cache = s.cache ∧ out.hits = s.hits ∧
      out.unused = (if s.hit then [] else (akeys kw).filter fun k => !(s.used.contains k)) := by
  unfold runTopC at hrun
  cases hk : alookup kw o with
  | some x => simp [hk] at hrun
  | none =>
    simp only [hk, Option.isSome_none, Bool.false_eq_true, ↓reduceIte] at hrun
    cases hr : runC P cached ck fs kw full (fuelFor fs) o (initC kw c) with
    | error e => simp [hr] at hrun
    | ok r =>
      obtain ⟨v, s⟩ := r
      simp only [hr, Except.ok.injEq] at hrun
      subst hrun
      exact ⟨rfl, v, s, rfl, rfl, rfl, rfl, rfl, rfl, rfl⟩

/-- **A cached call that does not return early from a hit refines the uncached call.**  If the cached call is evaluated
    (`runTopC = .ok out`) from a cache whose entries are right, with `full_output`, or without any hit, then the uncached
    evaluation goes through too and: the value is equal; the `full_output` dictionary has the same domain and values
    (`alookup` = `dict.__getitem__`); the surplus keywords are the same list; the uncached call log is the cached one plus
    the functions whose key was found (as multisets); the invariant holds afterwards. -/
theorem C09_refines_uncached {H C} (P : Policy H C) (h : Val → H) (hinj : ∀ a b, h a = h b → a = b) (cached : Func → Bool)
    (fs : List Func) (rank rk : String → Nat) (wf : WF fs rank) (hw : WFp fs rk) (c : C) (kw : List (String × Val)) (full : Bool)
    (o : String) (out : COutcome H C) (hi : Inv P h fs c)
    (hrun : runTopC P cached (computeKey h fs) fs c kw full o = .ok out) (hno : full = true ∨ out.hits = []) :
    ∃ v s, run fs kw (fuelFor fs) o ⟨kw, [], []⟩ = .ok (v, s) ∧ out.value = v ∧
      (∀ q, alookup out.full q = alookup s.memo q) ∧
      out.unused = (akeys kw).filter (fun k => !(s.used.contains k)) ∧
      (∀ a, s.calls.count a = out.calls.count a + (hitNames fs out.hits).count a) ∧ Inv P h fs out.cache := by
  obtain ⟨hko, v, s, hr, hv, hfl, hcl, hca, hhi, hun⟩ := C09_aux_runTopC_ok P cached _ fs c kw full o out hrun
  have hf := runC_hit P cached (computeKey h fs) fs kw full (fuelFor fs) o (initC kw c) v s hr
  have hnh : s.hit = false := by
    rcases hno with hfull | hnone
    · exact hf.fullKeeps hfull
    · obtain ⟨add, e1, e2, _⟩ := hf.grow
      rw [hhi] at hnone
      rw [hnone] at e1
      have : add = [] := by
        simp only [initC, List.nil_append] at e1
        exact e1.symm
      exact e2 this
  -- the requested output has a producer, else the evaluation fails
  have hprod : ∃ f, producer fs o = some f := by
    cases hp : producer fs o with
    | some f => exact ⟨f, rfl⟩
    | none =>
      exfalso
      have : fuelFor fs = (fs.length + 1) + 1 := rfl
      rw [this, runC_succ] at hr
      simp only [initC, hko, hp] at hr
      cases hr
  obtain ⟨f, hf'⟩ := hprod
  have hrel0 : Rel fs [] (initC kw c : CSt H C) ⟨kw, [], []⟩ :=
    ⟨fun _ _ => rfl, rfl, fun a => by simp [initC, hitNames]⟩
  have hg0 : Good fs kw ⟨kw, [], []⟩ := by
    intro p w hp hw'
    simp only at hw'
    rw [hp] at hw'; cases hw'
  obtain ⟨sU, hU, post⟩ := runC_sim P h cached fs rank rk kw full hinj wf hw (fuelFor fs) o (initC kw c) v s ⟨kw, [], []⟩ [] f
    hr hnh hf' (by simp) hrel0 hg0 hi
  refine ⟨v, sU, hU, hv, ?_, ?_, ?_, ?_⟩
  · intro q
    rw [hfl]
    exact post.rel.memo q (by rintro ⟨g, _, hgn, _⟩; simp at hgn)
  · rw [hun, hnh, ← post.rel.used]; simp
  · intro a
    have := post.rel.calls a
    simp only [List.count_nil, Nat.add_zero] at this
    rw [hcl, hhi]; exact this
  · rw [hca]; exact post.inv

/-- the cached call is evaluated whenever the uncached evaluation goes through (whatever the surplus-keyword verdict) -/
theorem C09_aux_call_of_run {H C} (P : Policy H C) (h : Val → H) (hinj : ∀ a b, h a = h b → a = b) (cached : Func → Bool)
    (fs : List Func) (rank : String → Nat) (wf : WF fs rank) (c : C) (kw : List (String × Val)) (full : Bool) (o : String)
    (v : Val) (s : St) (hi : Inv P h fs c) (hko : alookup kw o = none)
    (hrun : run fs kw (fuelFor fs) o ⟨kw, [], []⟩ = .ok (v, s)) :
    ∃ out, runTopC P cached (computeKey h fs) fs c kw full o = .ok out ∧ out.value = v ∧ Inv P h fs out.cache := by
  obtain ⟨k, hk⟩ := C02.C02_run_eq_compose fs kw (unique_of_wf fs rank wf) (fuelFor fs) o v s hko hrun
  have hg0 : GoodC fs kw (initC kw c : CSt H C) := by
    intro p w hp hw
    simp only [initC] at hw
    rw [hp] at hw; cases hw
  obtain ⟨s', hs', _, hi', _⟩ := runC_complete P h cached fs rank kw full hinj wf (fuelFor fs) o (initC kw c) k v hko hk
    (wf.depth o) hg0 hi
  exact ⟨_, by simp only [runTopC, hko, Option.isSome_none, Bool.false_eq_true, ↓reduceIte, hs']; rfl, rfl, hi'⟩

/-- **One call, whole outcome.**  From a cache whose entries are right, a call that succeeds without a cache *returns
    normally* with the cache — it is evaluated, and it does not end in `UnusedParametersError` — with the equal value; under
    `full_output` the returned dictionary has the same domain and the same values; whenever no early return from a hit
    happened the uncached call log is the cached one plus the functions found in the cache; the invariant is kept. -/
theorem C09_call_outcome {H C} (P : Policy H C) (h : Val → H) (hinj : ∀ a b, h a = h b → a = b) (cached : Func → Bool)
    (fs : List Func) (rank rk : String → Nat) (wf : WF fs rank) (hw : WFp fs rk) (c : C) (kw : List (String × Val)) (full : Bool)
    (o : String) (u : Outcome) (hi : Inv P h fs c) (htw : runTop fs kw (.name o) = .ok u) :
    ∃ out, runTopC P cached (computeKey h fs) fs c kw full o = .ok out ∧ verdict out = .ok ⟨u.value, out.full, out.calls⟩ ∧
      out.value = u.value ∧ out.unused = [] ∧ Inv P h fs out.cache ∧
      (full = true → ∀ q, alookup out.full q = alookup u.full q) ∧
      (full = true ∨ out.hits = [] → ∀ a, u.calls.count a = out.calls.count a + (hitNames fs out.hits).count a) := by
  obtain ⟨out, hout, hv, hi', _⟩ := C09_call P h hinj cached fs rank wf c kw full o u hi htw
  -- with an early return the check is skipped; otherwise the cached call is an uncached call
  have key : (full = true ∨ out.hits = []) → ∃ s : St, u = ⟨out.value, s.memo, s.calls⟩ ∧ out.unused = [] ∧
      (∀ q, alookup out.full q = alookup s.memo q) ∧
      (∀ a, s.calls.count a = out.calls.count a + (hitNames fs out.hits).count a) := by
    intro hno
    obtain ⟨v, s, hU, hv', hfl, hun, hcl, _⟩ := C09_refines_uncached P h hinj cached fs rank rk wf hw c kw full o out hi hout hno
    obtain ⟨hko, _⟩ := C09_aux_runTopC_ok P cached _ fs c kw full o out hout
    have := runTop_name_eq fs kw o v s hko hU
    rw [htw] at this
    split at this
    · next hemp =>
      injection this with e
      refine ⟨s, by rw [e, hv'], ?_, hfl, hcl⟩
      rw [hun]; exact List.isEmpty_iff.mp hemp
    · cases this
  have hunused : out.unused = [] := by
    by_cases hno : full = true ∨ out.hits = []
    · obtain ⟨s, _, hu', _⟩ := key hno; exact hu'
    · have hfull : full = false := by cases hfu : full <;> simp_all
      have hne : out.hits ≠ [] := fun e => hno (Or.inr e)
      obtain ⟨hko, v, s, hr, _, _, _, _, hhi, hun⟩ := C09_aux_runTopC_ok P cached _ fs c kw full o out hout
      have hf := runC_hit P cached (computeKey h fs) fs kw full (fuelFor fs) o (initC kw c) v s hr
      obtain ⟨add, e1, _, e3⟩ := hf.grow
      have hadd : add ≠ [] := by
        intro e
        rw [e] at e1
        simp only [initC, List.append_nil] at e1
        exact hne (by rw [hhi, e1])
      rw [hun, e3 hfull hadd]; rfl
  refine ⟨out, hout, ?_, hv, hunused, hi', ?_, ?_⟩
  · simp [verdict, hunused, hv]
  · intro hfull q
    obtain ⟨s, hu, _, hfl, _⟩ := key (Or.inl hfull)
    rw [hu]; exact hfl q
  · intro hno a
    obtain ⟨s, hu, _, _, hcl⟩ := key hno
    rw [hu]; exact hcl a

/-- **The surplus-keyword verdict.**  Whenever the uncached evaluation goes through — whether `Pipeline.run` then returns or
    raises `UnusedParametersError` — the cached call is evaluated with the equal value, and
    * if it did not return early from a hit (`full_output`, or no hit), it ends in `UnusedParametersError` exactly when the
      uncached call does, listing the same names;
    * after an early return from a hit the check is skipped (`None in used_parameters`): it returns normally. -/
theorem C09_surplus_verdict {H C} (P : Policy H C) (h : Val → H) (hinj : ∀ a b, h a = h b → a = b) (cached : Func → Bool)
    (fs : List Func) (rank rk : String → Nat) (wf : WF fs rank) (hw : WFp fs rk) (c : C) (kw : List (String × Val)) (full : Bool)
    (o : String) (v : Val) (s : St) (hi : Inv P h fs c) (hko : alookup kw o = none)
    (hrun : run fs kw (fuelFor fs) o ⟨kw, [], []⟩ = .ok (v, s)) :
    ∃ out, runTopC P cached (computeKey h fs) fs c kw full o = .ok out ∧ out.value = v ∧
      (full = true ∨ out.hits = [] →
        (∀ ps, runTop fs kw (.name o) = .error (.unused ps) → out.unused = ps) ∧
        (∀ u, runTop fs kw (.name o) = .ok u → out.unused = [])) ∧
      (full = false → out.hits ≠ [] → out.unused = []) := by
  obtain ⟨out, hout, hv, _⟩ := C09_aux_call_of_run P h hinj cached fs rank wf c kw full o v s hi hko hrun
  refine ⟨out, hout, hv, ?_, ?_⟩
  · intro hno
    obtain ⟨v', s', hU, _, _, hun, _, _⟩ := C09_refines_uncached P h hinj cached fs rank rk wf hw c kw full o out hi hout hno
    rw [hrun] at hU
    injection hU with hU
    injection hU with _ hs
    subst hs
    have hrt := runTop_name_eq fs kw o v s hko hrun
    constructor
    · intro ps hps
      rw [hps] at hrt
      split at hrt
      · cases hrt
      · injection hrt with e; injection e with e; rw [hun, e]
    · intro u hu
      rw [hu] at hrt
      split at hrt
      · next hemp => rw [hun]; exact List.isEmpty_iff.mp hemp
      · cases hrt
  · intro hfull hne
    obtain ⟨_, v', s', hr, _, _, _, _, hhi, hun⟩ := C09_aux_runTopC_ok P cached _ fs c kw full o out hout
    have hf := runC_hit P cached (computeKey h fs) fs kw full (fuelFor fs) o (initC kw c) v' s' hr
    obtain ⟨add, e1, _, e3⟩ := hf.grow
    have hadd : add ≠ [] := by
      intro e
      rw [e] at e1
      simp only [initC, List.append_nil] at e1
      exact hne (by rw [hhi, e1])
    rw [hun, e3 hfull hadd]; rfl

/-- **No re-execution, over the call log.**  For a cached call that does not return early from a hit (every call with
    `full_output`, every call without a hit) — from a cache whose entries are right — every function body runs at most once,
    a function whose key was found does not run at all (and is found once), and only functions that the uncached call runs
    are run.  (For the top frame of a call without `full_output` see `C09_no_reexecution`; hits below the top frame of a call
    without `full_output` are not covered by this theorem.) -/
theorem C09_executes_at_most_once {H C} (P : Policy H C) (h : Val → H) (hinj : ∀ a b, h a = h b → a = b) (cached : Func → Bool)
    (fs : List Func) (rank rk : String → Nat) (wf : WF fs rank) (hw : WFp fs rk) (c : C) (kw : List (String × Val)) (full : Bool)
    (o : String) (out : COutcome H C) (hi : Inv P h fs c)
    (hrun : runTopC P cached (computeKey h fs) fs c kw full o = .ok out) (hno : full = true ∨ out.hits = []) :
    out.calls.Nodup ∧ (hitNames fs out.hits).Nodup ∧ (∀ nm ∈ hitNames fs out.hits, nm ∉ out.calls) ∧
      ∃ v s, run fs kw (fuelFor fs) o ⟨kw, [], []⟩ = .ok (v, s) ∧ ∀ nm ∈ out.calls, nm ∈ s.calls := by
  obtain ⟨v, s, hU, _, _, _, hcl, _⟩ := C09_refines_uncached P h hinj cached fs rank rk wf hw c kw full o out hi hrun hno
  obtain ⟨hnd, _, _⟩ := C02.C02_each_once_deps_first fs kw rk hw (fuelFor fs) o v s hU
  have hle := List.nodup_iff_count.mp hnd
  refine ⟨List.nodup_iff_count.mpr fun a => ?_, List.nodup_iff_count.mpr fun a => ?_, ?_, v, s, hU, ?_⟩
  · have := hle a; have := hcl a; omega
  · have := hle a; have := hcl a; omega
  · intro nm hnm hc
    have h1 : 1 ≤ (hitNames fs out.hits).count nm := List.one_le_count_iff.mpr hnm
    have h2 : 1 ≤ out.calls.count nm := List.one_le_count_iff.mpr hc
    have := hle nm; have := hcl nm; omega
  · intro nm hnm
    have h2 : 1 ≤ out.calls.count nm := List.one_le_count_iff.mpr hnm
    have := hcl nm
    exact List.one_le_count_iff.mp (by omega)

/-- **At most once, unconditionally.**  In ANY cached call that is evaluated — with or without `full_output`, with hits in any
    frame, whatever the cache holds (right entries or not), for any container and any key computation — every function body
    runs at most once (the call log has no duplicates).  Only unique function/output names and acyclicity are used. -/
theorem C09_each_body_at_most_once {H C} (P : Policy H C) (cached : Func → Bool)
    (ck : List (String × Val) → Func → String → Option (Key H)) (fs : List Func) (rk : String → Nat) (hw : WFp fs rk) (c : C)
    (kw : List (String × Val)) (full : Bool) (o : String) (out : COutcome H C)
    (hrun : runTopC P cached ck fs c kw full o = .ok out) : out.calls.Nodup := by
  obtain ⟨_, v, s, hr, _, _, hcl, _⟩ := C09_aux_runTopC_ok P cached ck fs c kw full o out hrun
  have h0 : OnceInv fs (initC kw c : CSt H C) := ⟨by simp [initC], by simp [initC]⟩
  rw [hcl]
  exact (runC_once fs rk kw hw P cached ck full (fuelFor fs) o (initC kw c) v s h0 hr).1.nodup

/-- **A function whose key is found does not run — in every frame, with or without `full_output`.**  For a call whose
    evaluation goes through without a cache, from a cache whose entries are right: the cached call is evaluated, every function
    body runs at most once, every function is taken from the cache at most once, and a function taken from the cache — in the
    top frame or in any frame below it — is not executed at all in that call. -/
theorem C09_hit_function_never_runs {H C} (P : Policy H C) (h : Val → H) (hinj : ∀ a b, h a = h b → a = b) (cached : Func → Bool)
    (fs : List Func) (rank rk : String → Nat) (wf : WF fs rank) (hw : WFp fs rk) (c : C) (kw : List (String × Val)) (full : Bool)
    (o : String) (v : Val) (s : St) (hi : Inv P h fs c) (hko : alookup kw o = none)
    (hrun : run fs kw (fuelFor fs) o ⟨kw, [], []⟩ = .ok (v, s)) :
    ∃ out, runTopC P cached (computeKey h fs) fs c kw full o = .ok out ∧ out.calls.Nodup ∧ (hitNames fs out.hits).Nodup ∧
      ∀ nm ∈ hitNames fs out.hits, nm ∉ out.calls := by
  obtain ⟨out, hout, _, _⟩ := C09_aux_call_of_run P h hinj cached fs rank wf c kw full o v s hi hko hrun
  obtain ⟨_, v', sC, hr, _, _, hcl, _, hhi, _⟩ := C09_aux_runTopC_ok P cached _ fs c kw full o out hout
  obtain ⟨k, hk⟩ := C02.C02_run_eq_compose fs kw (unique_of_wf fs rank wf) (fuelFor fs) o v s hko hrun
  have hg0 : GoodC fs kw (initC kw c : CSt H C) := by
    intro p w hp hw'
    simp only [initC] at hw'
    rw [hp] at hw'; cases hw'
  have h0 : HO fs (initC kw c : CSt H C) := ⟨by simp [initC], by simp [initC, hitNames], by simp [initC, hitNames], by simp [initC, hitNames]⟩
  obtain ⟨hho, _⟩ := runC_ho P h cached fs rank rk kw full hinj wf hw (fuelFor fs) o (initC kw c) k v v' sC hko hk (wf.depth o)
    hg0 hi h0 hr
  refine ⟨out, hout, C09_each_body_at_most_once P cached _ fs rk hw c kw full o out hout, ?_, ?_⟩
  · rw [hhi]; exact hho.nodup
  · rw [hhi, hcl]; exact hho.disj

/-! ### non-vacuity -/

/-- the chain `g(a)→c`, `f(c,a)→d` satisfies C02's well-formedness too (unique names, acyclic by function rank) -/
theorem C09_wfp_example : WFp [gA, fD] (fun nm => if nm = "f" then 1 else 0) := by
  refine ⟨?_, C09_wf_example.uniq, ?_⟩
  · intro f hf g hg e
    simp only [List.mem_cons, List.mem_nil_iff, or_false] at hf hg
    rcases hf with rfl | rfl <;> rcases hg with rfl | rfl <;> simp_all [gA, fD]
  · intro f hf p hp g hg hb
    simp only [List.mem_cons, List.mem_nil_iff, or_false] at hf
    rcases hf with rfl | rfl
    · simp only [gA, List.mem_cons, List.mem_nil_iff, or_false] at hp
      subst hp
      simp [producer, gA, fD] at hg
    · simp only [fD, List.mem_cons, List.mem_nil_iff, or_false] at hp
      rcases hp with rfl | rfl
      · simp [producer, gA, fD] at hg
        subst hg
        simp [fD]
      · simp [producer, gA, fD] at hg

/-- the second call of `d(a=1) ; d(a=1, full_output)` is evaluated from a non-empty cache with two hits under `full_output`:
    the hypotheses of `C09_refines_uncached` / `C09_executes_at_most_once` hold of it, both functions are found, none runs -/
example : (histC (simplePolicy String) (fun _ => true) (fun fs => computeKey hS fs) [gA, fD] []
    [.call "d" [("a", .str "1")] false, .call "d" [("a", .str "1")] true]).map
      (fun r => match r with | some (.ok o) => some (o.calls, hitNames [gA, fD] o.hits, o.unused) | _ => none) =
      [some (["g", "f"], [], []), some ([], ["f", "g"], [])] := by
  rfl

/-- a hit *below the top frame* of a call without `full_output`: only `g` is cached; in the repeated call `f` runs, `g` is
    taken from the cache and does not run (`C09_hit_function_never_runs`) -/
example : (histC (simplePolicy String) (fun f => f.name = "g") (fun fs => computeKey hS fs) [gA, fD] []
    [.call "d" [("a", .str "1")] false, .call "d" [("a", .str "1")] false]).map
      (fun r => match r with | some (.ok o) => some (o.calls, hitNames [gA, fD] o.hits) | _ => none) =
      [some (["g", "f"], []), some (["f"], ["g"])] := by
  rfl

/-- a surplus keyword: without a hit the cached call ends in `UnusedParametersError` like the uncached one (and still stores
    its results); the repeated call hits, returns early and skips the check -/
example : (histC (simplePolicy String) (fun _ => true) (fun fs => computeKey hS fs) [gA, fD] []
    [.call "d" [("a", .str "1"), ("zz", .str "0")] false, .call "d" [("a", .str "1"), ("zz", .str "0")] false]).map
      (fun r => match r with | some (.ok o) => some (o.unused, o.hits.length) | _ => none) =
      [some (["zz"], 0), some ([], 1)] ∧
    runTop [gA, fD] [("a", .str "1"), ("zz", .str "0")] (.name "d") = .error (.unused ["zz"]) := by
  constructor <;> rfl


/-! ### histories: whole outcomes, and `update_defaults` without a side condition -/

/-- the pipeline is well-formed at every stage of the history (construction and every mutation entry point validate):
    `WF` (unique outputs, consistent defaults, acyclic by a rank on names) and C02's `WFp` (unique function names, acyclic
    by a rank on functions) -/
def WFAll : List Func → List Step → Prop
  | fs, [] => (∃ rank, WF fs rank) ∧ (∃ rk, WFp fs rk)
  | fs, .mutate m :: rest => ((∃ rank, WF fs rank) ∧ (∃ rk, WFp fs rk)) ∧ WFAll (applyMut fs m) rest
  | fs, .call _ _ _ :: rest => ((∃ rank, WF fs rank) ∧ (∃ rk, WFp fs rk)) ∧ WFAll fs rest

theorem C09_aux_WFAll_head (fs : List Func) (steps : List Step) (hwf : WFAll fs steps) : (∃ rank, WF fs rank) ∧ (∃ rk, WFp fs rk) := by
  cases steps with
  | nil => exact hwf
  | cons st rest => cases st <;> exact hwf.1

/-- the cached call returns normally what the uncached call `u` returns: the value, and under `full_output` a dictionary with
    the same domain and values -/
def OutcomeOK {H C} (full : Bool) (u : Outcome) (out : COutcome H C) : Prop :=
  verdict out = .ok ⟨u.value, out.full, out.calls⟩ ∧ (full = true → ∀ q, alookup out.full q = alookup u.full q)

/-- the uncached twin and the cached pipeline agree on whole outcomes, step by step, up to the first call that fails
    without a cache -/
def AgreesO {H C} : List Step → List (Option (Except Err Outcome)) → List (Option (Except Err (COutcome H C))) → Prop
  | [], us, cs => us = [] ∧ cs = []
  | .mutate _ :: ss, us, cs => ∃ us' cs', us = none :: us' ∧ cs = none :: cs' ∧ AgreesO ss us' cs'
  | .call _ _ full :: ss, us, cs => ∃ ur us', us = some ur :: us' ∧
      match ur with
      | .error _ => True
      | .ok u => ∃ out cs', cs = some (.ok out) :: cs' ∧ OutcomeOK full u out ∧ AgreesO ss us' cs'

/-- `MutSafe` restricted to the two mutations for which it can fail: nothing is demanded of `update_defaults` -/
def MutSafeBR {H C} (P : Policy H C) (h : Val → H) (cached : Func → Bool) : List Func → C → List Step → Prop
  | _, _, [] => True
  | fs, c, .mutate m :: rest =>
    (match m with
      | .updateDefaults _ => True
      | m => Inv P h (applyMut fs m) c) ∧ MutSafeBR P h cached (applyMut fs m) c rest
  | fs, c, .call o kw full :: rest =>
    match runTopC P cached (computeKey h fs) fs c kw full o with
    | .error _ => True
    | .ok out => MutSafeBR P h cached fs out.cache rest

/-- **(4) `update_defaults` never invalidates a resident entry** (`MutSafe` holds for it): the key contains the effective
    default of every root argument, so an entry stored before the update is only found by calls that compute its value. -/
theorem C09_update_defaults_safe {H C} (P : Policy H C) (h : Val → H) (fs : List Func) (d : List (String × Val))
    (rank : String → Nat) (wf : WF (applyMut fs (.updateDefaults d)) rank) (c : C) (hi : Inv P h fs c) :
    Inv P h (applyMut fs (.updateDefaults d)) c :=
  inv_updateDefaults P h fs d wf.cons c hi

/-- **Histories, whole outcomes (partial for `update_bound` / `replace`).**  For every history of calls and mutations on a
    pipeline that is well-formed at every stage, starting from a cache whose entries are right: every call up to the first
    one that fails without a cache *returns normally* with the cache (evaluated, no `UnusedParametersError`) the equal value
    and, under `full_output`, a dictionary with the same domain and values.  `update_defaults` steps need no hypothesis.
    Missing for the full statement: `MutSafeBR` — no `update_bound` / `replace` invalidates a resident entry — which is false
    on the code (known findings KF-C09-update-bound, KF-C09-replace; witnesses `C09_stale_after_*`); and the steps after a
    call that fails without a cache (what a mid-run failure leaves in the cache is not modelled). -/
theorem C09_transparent_outcome_partial {H C} (P : Policy H C) (h : Val → H) (hinj : ∀ a b, h a = h b → a = b) (cached : Func → Bool) :
    ∀ (steps : List Step) (fs : List Func) (c : C), WFAll fs steps → Inv P h fs c → MutSafeBR P h cached fs c steps →
      AgreesO steps (histU fs steps) (histC P cached (fun fs => computeKey h fs) fs c steps) := by
  intro steps
  induction steps with
  | nil => intro fs c _ _ _; simp [histU, histC, AgreesO]
  | cons st rest ih =>
    intro fs c hwf hi hs
    cases st with
    | mutate m =>
      simp only [histU, histC, AgreesO]
      simp only [WFAll] at hwf
      simp only [MutSafeBR] at hs
      refine ⟨_, _, rfl, rfl, ih _ _ hwf.2 ?_ hs.2⟩
      cases m with
      | updateDefaults d =>
        obtain ⟨⟨rank, wf⟩, _⟩ := C09_aux_WFAll_head _ _ hwf.2
        exact C09_update_defaults_safe P h fs d rank wf c hi
      | updateBound n b => exact hs.1
      | replace new => exact hs.1
    | call o kw full =>
      simp only [WFAll] at hwf
      obtain ⟨⟨⟨rank, wf⟩, ⟨rk, hw⟩⟩, hwf'⟩ := hwf
      simp only [histU, AgreesO]
      cases htw : runTop fs kw (.name o) with
      | error e => exact ⟨_, _, rfl, trivial⟩
      | ok u =>
        obtain ⟨out, hout, hverd, _, _, hi', hfl, _⟩ := C09_call_outcome P h hinj cached fs rank rk wf hw c kw full o u hi htw
        simp only [MutSafeBR, hout] at hs
        refine ⟨_, _, rfl, ?_⟩
        simp only [histC, hout]
        exact ⟨out, _, rfl, ⟨hverd, hfl⟩, ih _ _ hwf' hi' hs⟩

/-- no `update_bound` and no `replace` in the history -/
def noBoundReplace : List Step → Bool
  | [] => true
  | .call _ _ _ :: r => noBoundReplace r
  | .mutate (.updateDefaults _) :: r => noBoundReplace r
  | .mutate _ :: _ => false

theorem C09_aux_mutSafeBR_of_noBoundReplace {H C} (P : Policy H C) (h : Val → H) (cached : Func → Bool) :
    ∀ (steps : List Step) (fs : List Func) (c : C), noBoundReplace steps = true → MutSafeBR P h cached fs c steps := by
  intro steps
  induction steps with
  | nil => intro _ _ _; simp [MutSafeBR]
  | cons st rest ih =>
    intro fs c hc
    cases st with
    | mutate m =>
      cases m with
      | updateDefaults d => simp only [noBoundReplace] at hc; exact ⟨trivial, ih _ _ hc⟩
      | updateBound n b => simp [noBoundReplace] at hc
      | replace new => simp [noBoundReplace] at hc
    | call o kw full =>
      simp only [noBoundReplace] at hc
      simp only [MutSafeBR]
      split
      · trivial
      · exact ih _ _ hc

/-- **Caching is transparent — whole outcomes — over histories of calls and `update_defaults`.**  For every pipeline that is
    well-formed at every stage, every subset of cached functions, every container, every history of calls (any output, any
    argument cut, `full_output` or not) interleaved with `update_defaults`, from a cache whose entries are right (e.g. empty):
    every call up to the first that fails without a cache returns normally with the cache, the equal value, and under
    `full_output` the equal dictionary.  No side condition on the mutations. -/
theorem C09_transparent_outcome {H C} (P : Policy H C) (h : Val → H) (hinj : ∀ a b, h a = h b → a = b) (cached : Func → Bool)
    (steps : List Step) (fs : List Func) (c : C) (hnb : noBoundReplace steps = true) (hwf : WFAll fs steps) (hi : Inv P h fs c) :
    AgreesO steps (histU fs steps) (histC P cached (fun fs => computeKey h fs) fs c steps) :=
  C09_transparent_outcome_partial P h hinj cached steps fs c hwf hi (C09_aux_mutSafeBR_of_noBoundReplace P h cached steps fs c hnb)

/-- non-vacuity: `g(a='A0')→c`, `f(c,a)→d`; the history `d() ; update_defaults(a='A1') ; d() ; d(a='A0')` — the third call
    hits the entry of the first — agrees with the uncached twin -/
def gDef : Func := ⟨"g", [("a", "a")], ["c"], [("a", .str "A0")], []⟩
def hDefaults : List Step :=
  [.call "d" [] false, .mutate (.updateDefaults [("a", .str "A1")]), .call "d" [] false, .call "d" [("a", .str "A0")] false]

example : valsC (fun fs => computeKey hS fs) [gDef, fD] hDefaults = valsU [gDef, fD] hDefaults ∧
    (histC (simplePolicy String) (fun _ => true) (fun fs => computeKey hS fs) [gDef, fD] [] hDefaults).map
      (fun r => match r with | some (.ok o) => some o.hits.length | _ => none) = [some 0, none, some 0, some 1] ∧
    noBoundReplace hDefaults = true := by
  refine ⟨?_, ?_, ?_⟩ <;> rfl

example : WFAll [gA, fD] hPoisoned ∧ noBoundReplace hPoisoned = true :=
  ⟨⟨⟨⟨_, C09_wf_example⟩, ⟨_, C09_wfp_example⟩⟩, ⟨⟨_, C09_wf_example⟩, ⟨_, C09_wfp_example⟩⟩, ⟨_, C09_wf_example⟩, ⟨_, C09_wfp_example⟩⟩, rfl⟩

end PF.C09
