import PfModel.Lemmas.RewriteAxisRun
/-!
`add_mapspec_axis` on a pipeline without prior MapSpecs (part 4): the arguments and the result of one function of the lifted
pipeline against the `K` pointwise runs.
-/
namespace PF.Rw.Ax
open PF PF.Map PF.C01

section func
variable {τ : List String → Option MSpec} {gs : List MFunc} {p axis : String}
variable (K : Nat) (vs : List Val) (rest : List (String × Val))

/-- the environment of the lifted run against the environments of the `K` pointwise runs -/
structure EnvRel (τ : List String → Option MSpec) (gs : List MFunc) (p : String) (K : Nat) (vs : List Val) (rest : List (String × Val))
    (env' : Env) (envs : Nat → Env) : Prop where
  inp' : env'.inputs = (p, .arr [K] vs) :: rest
  inpn : ∀ n, n < K → (envs n).inputs = (p, vs.getD n .none) :: rest
  store : VRel τ gs K (tv env'.store) (fun n => tv (envs n).store)

/-- a parameter that is bound, or is neither `p` nor a lifted output, is delivered as in every pointwise run -/
theorem argWhole_plain (ok : LiftOK τ gs p axis) (env' : Env) (envs : Nat → Env) (R : EnvRel τ gs p K vs rest env' envs)
    (g : MFunc) (q : String) (hq : (alookup g.bound q).isSome = true ∨ ¬ LN τ gs p q) (n : Nat) (hn : n < K) :
    argWhole (gs.map (withSpec τ)) env' (withSpec τ g) q = argWhole gs (envs n) g q := by
  unfold argWhole
  simp only [withSpec]
  cases hb : alookup g.bound q with
  | some v => rfl
  | none =>
    simp only []
    have hnl : ¬ LN τ gs p q := by
      rcases hq with h | h
      · rw [hb] at h; cases h
      · exact h
    have hqp : ¬ p = q := fun e => hnl (Or.inl e.symm)
    have hL : isL τ gs q = false := by
      cases h : isL τ gs q with
      | false => rfl
      | true => exact absurd (Or.inr h) hnl
    rw [R.inp', R.inpn n hn]
    simp only [alookup, hqp, ↓reduceIte]
    cases alookup rest q with
    | some v => rfl
    | none =>
      simp only []
      have hs := R.store.same q hL n hn
      rw [alookup_tv, alookup_tv] at hs
      cases h1 : alookup env'.store q with
      | some s' =>
        cases h2 : alookup (envs n).store q with
        | some s => simp only [h1, h2, Option.map_some, Option.some.injEq] at hs; simp only [pure, Except.pure, hs]
        | none => simp [h1, h2] at hs
      | none =>
        cases h2 : alookup (envs n).store q with
        | some s => simp [h1, h2] at hs
        | none => simp only [pdefault_withSpec]

/-- a non-bound parameter that is `p` or a lifted output (already stored) is delivered as the array of what the `K` pointwise
    runs deliver -/
theorem argWhole_lifted (ok : LiftOK τ gs p axis) (hlen : vs.length = K) (hrest : ∀ k ∈ akeys rest, producer gs k = none)
    (env' : Env) (envs : Nat → Env) (R : EnvRel τ gs p K vs rest env' envs)
    (g : MFunc) (q : String) (hb : alookup g.bound q = none) (hq : LN τ gs p q)
    (hst : isL τ gs q = true → (alookup env'.store q).isSome = true) :
    ∃ v : Nat → Val, (∀ n, n < K → argWhole gs (envs n) g q = .ok (v n)) ∧
      argWhole (gs.map (withSpec τ)) env' (withSpec τ g) q = .ok (.arr [K] ((List.range K).map v)) := by
  unfold argWhole
  simp only [withSpec, hb]
  by_cases hqp : p = q
  · subst hqp
    refine ⟨fun n => vs.getD n .none, ?_, ?_⟩
    · intro n hn
      rw [R.inpn n hn]
      simp [alookup, pure, Except.pure]
    · rw [R.inp']
      simp only [alookup, ↓reduceIte, pure, Except.pure]
      rw [← hlen, range_map_getD]
  · have hL : isL τ gs q = true := by
      rcases hq with e | e
      · exact absurd e.symm hqp
      · exact e
    have hnr : alookup rest q = none := by
      rw [alookup_none_iff]
      intro hk
      obtain ⟨h, hh, _, hxh⟩ := isL_produced τ gs q hL
      obtain ⟨c, hc⟩ := producer_isSome_of_mem gs h hh q hxh
      rw [hrest q hk] at hc; cases hc
    have hsome := hst hL
    cases h1 : alookup env'.store q with
    | none => rw [h1] at hsome; cases hsome
    | some s' =>
      refine ⟨fun n => (alookup (tv (envs n).store) q).getD .none, ?_, ?_⟩
      · intro n hn
        rw [R.inpn n hn]
        simp only [alookup, hqp, ↓reduceIte, hnr]
        have hp := R.store.pres q n hn
        rw [alookup_tv, alookup_tv, h1] at hp
        cases h2 : alookup (envs n).store q with
        | none => simp [h2] at hp
        | some s => simp [alookup_tv, h2, pure, Except.pure]
      · rw [R.inp']
        simp only [alookup, hqp, ↓reduceIte, hnr, pure, Except.pure]
        have := R.store.lifted q hL s'.toVal (by rw [alookup_tv, h1]; rfl)
        rw [this]

/-- the outputs of everything that is done are in the store -/
def Stored (gs : List MFunc) (env : Env) (done : List String) : Prop :=
  ∀ h ∈ gs, h.name ∈ done → ∀ o ∈ h.outputs, (alookup env.store o).isSome = true

theorem LiftOK.externalIndices (ok : LiftOK τ gs p axis) (g : MFunc) (hg : g ∈ gs) (ms : MSpec) (hm : τ g.outputs = some ms) :
    ms.externalIndices = [axis] := by
  obtain ⟨ho, hne, hin, _⟩ := ok.lifted g hg ms hm
  have houtIdx : ms.outputIndices = [axis] := by
    unfold MSpec.outputIndices
    rw [ho]
    cases hfo : g.outputs with
    | nil => exact absurd hfo (ok.outs g hg)
    | cons o os => simp
  unfold MSpec.externalIndices
  rw [houtIdx]
  have : ms.inputIndices.contains axis = true := by
    unfold MSpec.inputIndices
    cases hmi : ms.inputs with
    | nil => exact absurd hmi hne
    | cons a0 as =>
      have := (hin a0 (by rw [hmi]; exact List.mem_cons_self)).1
      simp [List.flatMap_cons, this]
  have hmem : axis ∈ ms.inputIndices := by simpa using this
  simp [hmem]

theorem outVal_withSpec (g : MFunc) (args : List (String × Val)) (o : String) : outVal (withSpec τ g) args o = outVal g args o := rfl

/-- a function that stays without MapSpec runs as in every pointwise run -/
theorem runSingle_plain (ok : LiftOK τ gs p axis) (env' : Env) (envs : Nat → Env) (R : EnvRel τ gs p K vs rest env' envs)
    (g : MFunc) (hg : g ∈ gs) (hm : τ g.outputs = none) (n : Nat) (hn : n < K) :
    runSingle (gs.map (withSpec τ)) env' (withSpec τ g) = runSingle gs (envs n) g := by
  unfold runSingle
  have : (withSpec τ g).params.mapM (fun x => (do return (x.2, ← argWhole (gs.map (withSpec τ)) env' (withSpec τ g) x.1) : M _)) =
      g.params.mapM (fun x => (do return (x.2, ← argWhole gs (envs n) g x.1) : M _)) := by
    apply mapM_congr_mem
    intro x hx
    have hq : (alookup g.bound x.1).isSome = true ∨ ¬ LN τ gs p x.1 := by
      cases hb : alookup g.bound x.1 with
      | some v => exact Or.inl rfl
      | none => exact Or.inr (ok.plain g hg hm x.1 ((mem_mfree g x.1).mpr ⟨x.2, hx, hb⟩))
    rw [argWhole_plain K vs rest ok env' envs R g x.1 hq n hn]
  exact congrArg (fun a => a >>= _) this

/-- at the `n`-th index of the new axis a lifted function receives the arguments of the `n`-th pointwise run -/
theorem selectArgs_lift (ok : LiftOK τ gs p axis) (hlen : vs.length = K) (hrest : ∀ k ∈ akeys rest, producer gs k = none)
    (env' : Env) (envs : Nat → Env) (R : EnvRel τ gs p K vs rest env' envs) (done : List String)
    (hst : Stored gs env' done) (g : MFunc) (hg : g ∈ gs) (hr : Ready gs done g) (ms : MSpec) (hm : τ g.outputs = some ms)
    (n : Nat) (hn : n < K) :
    selectArgs (gs.map (withSpec τ)) env' (withSpec τ g) ms [n] =
      g.params.mapM (fun x => (do return (x.2, ← argWhole gs (envs n) g x.1) : M _)) := by
  obtain ⟨ho, hne, hin, hcov⟩ := ok.lifted g hg ms hm
  unfold selectArgs
  apply mapM_congr_mem
  intro ⟨q, orig⟩ hx
  simp only []
  by_cases hq : alookup g.bound q = none ∧ LN τ gs p q
  · obtain ⟨hb, hl⟩ := hq
    obtain ⟨a, ha, han⟩ := hcov q ((mem_mfree g q).mpr ⟨orig, hx, hb⟩) hl
    have hsome : ∃ a0, ms.inputSpec q = some a0 ∧ a0.axes = [some axis] := by
      unfold MSpec.inputSpec
      cases hf : ms.inputs.find? (·.name = q) with
      | none =>
        rw [List.find?_eq_none] at hf
        exact absurd (by simpa using han) (hf a ha)
      | some a0 => exact ⟨a0, rfl, (hin a0 (List.mem_of_find?_eq_some hf)).1⟩
    obtain ⟨a0, ha0, hax⟩ := hsome
    have hstq : isL τ gs q = true → (alookup env'.store q).isSome = true := by
      intro hL
      obtain ⟨h, hh, _, hxh⟩ := isL_produced τ gs q hL
      obtain ⟨c, hc⟩ := producer_isSome_of_mem gs h hh q hxh
      obtain ⟨hcm, hqc⟩ := producer_some gs q c hc
      exact hst c hcm (hr q orig c hx hb hc) q hqc
    obtain ⟨v, hv1, hv2⟩ := argWhole_lifted K vs rest ok hlen hrest env' envs R g q hb hl hstq
    rw [hv2, hv1 n hn]
    simp only [bind, Except.bind, ha0]
    have hkey : inputKey ms a0 [n] = [some n] := by
      unfold inputKey
      rw [hax, ok.externalIndices g hg ms hm]
      simp
    rw [hkey, indexVal_one K _ n (by simpa using hn)]
    simp [List.getD, hn, pure, Except.pure]
  · have hq' : (alookup g.bound q).isSome = true ∨ ¬ LN τ gs p q := by
      cases hb : alookup g.bound q with
      | some v => exact Or.inl rfl
      | none => exact Or.inr (fun hl => hq ⟨hb, hl⟩)
    have hnone : ms.inputSpec q = none := by
      unfold MSpec.inputSpec
      rw [List.find?_eq_none]
      intro a ha hname
      have hname : a.name = q := by simpa using hname
      obtain ⟨_, h2, h3⟩ := hin a ha
      rw [hname] at h2 h3
      obtain ⟨_, _, hb⟩ := (mem_mfree g q).mp h2
      exact hq ⟨hb, h3⟩
    rw [argWhole_plain K vs rest ok env' envs R g q hq' n hn, hnone]

end func
end PF.Rw.Ax
