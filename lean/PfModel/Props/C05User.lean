import PfModel.Props.C05Hist
import PfModel.Props.C05ParFail
import PfModel.Lemmas.ResumeParAdditive
import PfModel.Lemmas.ResumeParFailAdditive
/-!
C05, proof round: two statements the REPORT left open.

1. `runOnP` was not proved additive (`C05_prefix_mono` was about the sequential `runOn` only; REPORT round 3, "what to distrust").
   `C05_par_prefix_mono`: for EVERY pipeline, inputs and starting folder, and every scheduler that runs whole task bodies of a
   generation — any selection, any order (`SelSched`; implied by `PermSched` and by `SubSched`) — a non-temporary file present
   after `j` events of the pool run is present after `k ≥ j` events.  No invariant, no success hypothesis.
   `C05_par_raise_prefix_mono`: the same for the FAILING pool run `runOnPF` (a user call raises while the other bodies of the
   generation still run and store): its event list is a prefix of an additive list (`addPre_runOnPF`).
2. The property text at user level, with the hypothesis on the FUNCTION LIST (`UniqueOutputs`, what `Pipeline` validates)
   instead of `((freshSlots …).map (·.1)).Nodup`, and with the history starting from the EMPTY folder instead of a folder
   assumed `Good`: `C05_user` / `C05_user_par` chain `C05_nodup_of_unique`, `good_empty`, `C05_history_mono`,
   `C05_history_no_recompute`, `C05_stored_kept`.
-/
namespace PF.C05
open PF PF.Map PF.ResumeFS

/-- **Within one POOL run nothing that is stored is lost — unconditionally.**  For every pipeline, inputs, starting folder
    (no invariant; also a run that is refused, fails, or in which a call raises) and every scheduler that runs whole task
    bodies in any selection and order before the parent's dumps: a non-temporary file that exists after `j` events of the run
    exists after any `k ≥ j` events.  (`additive_runOnP`: the bodies `splitCalls` cuts out of an additive event list are
    additive — the cut is only ever in front of a user call, never inside a temp-file + `os.replace` block.) -/
theorem C05_par_prefix_mono (cfg : Cfg) (hl : cfg.legacy = false) (sched : Sched) (hs : SelSched sched) (fs : FS)
    (fsd : List MFunc) (inputs : List (String × Val)) (ui : List (String × List Nat)) (j k : Nat) (hjk : j ≤ k) :
    Mono (crashAt fs (runOnP cfg sched fs fsd inputs ui).evs j) (crashAt fs (runOnP cfg sched fs fsd inputs ui).evs k) :=
  additive_prefix_mono (additive_runOnP cfg hl sched hs fs fsd inputs ui) fs j k hjk

/-- the body-order schedulers of `C05_par_resume` are covered -/
theorem C05_par_prefix_mono_perm (cfg : Cfg) (hl : cfg.legacy = false) (sched : Sched) (hs : PermSched sched) (fs : FS)
    (fsd : List MFunc) (inputs : List (String × Val)) (ui : List (String × List Nat)) (j k : Nat) (hjk : j ≤ k) :
    Mono (crashAt fs (runOnP cfg sched fs fsd inputs ui).evs j) (crashAt fs (runOnP cfg sched fs fsd inputs ui).evs k) :=
  C05_par_prefix_mono cfg hl sched (selSched_of_perm hs) fs fsd inputs ui j k hjk

/-- element level: stored (`doneInC`, any storage configuration `c'`) after `j` events of the pool run ⇒ stored after `k ≥ j` -/
theorem C05_par_prefix_done_kept (cfg : Cfg) (hl : cfg.legacy = false) (sched : Sched) (hs : SelSched sched) (fs : FS)
    (fsd : List MFunc) (inputs : List (String × Val)) (ui : List (String × List Nat)) (j k : Nat) (hjk : j ≤ k)
    (c' : Cfg) (f : MFunc) (li : Nat) (hd : doneInC c' (crashAt fs (runOnP cfg sched fs fsd inputs ui).evs j) f li = true) :
    doneInC c' (crashAt fs (runOnP cfg sched fs fsd inputs ui).evs k) f li = true := by
  cases hc : doneInC c' (crashAt fs (runOnP cfg sched fs fsd inputs ui).evs k) f li with
  | true => rfl
  | false => rw [doneInC_mono c' _ _ f li (C05_par_prefix_mono cfg hl sched hs fs fsd inputs ui j k hjk) hc] at hd; cases hd

/-- **Within one FAILING pool run nothing that is stored is lost — unconditionally.**  `runOnPF`: the user call with any global
    submission index raises; the generations before the failing one run under `sched`, the failing one under `fsched` (which of
    the submitted bodies ran, in which order; the raising body is its call only; the parent dumps the single outputs of the
    functions in front of the failing one and re-raises).  For every pipeline, inputs and starting folder and all
    body-selecting schedulers: a non-temporary file present after `j` events is present after any `k ≥ j` events — in
    particular what the bodies next to the raising one stored is still there when the exception surfaces.  (The parent's
    events are cut after `plen` events — possibly inside a `dump` block, which is harmless because nothing follows:
    `addPre_runOnPF`; no lemma about what `plen` denotes is needed, cf. REPORT round 9 "what to distrust".) -/
theorem C05_par_raise_prefix_mono (cfg : Cfg) (hl : cfg.legacy = false) (sched fsched : Sched) (hs : SelSched sched) (hfs : SelSched fsched)
    (fs : FS) (fsd : List MFunc) (inputs : List (String × Val)) (ui : List (String × List Nat)) (j k : Nat) (hjk : j ≤ k) :
    Mono (crashAt fs (runOnPF cfg sched fsched fs fsd inputs ui).evs j) (crashAt fs (runOnPF cfg sched fsched fs fsd inputs ui).evs k) :=
  addPre_prefix_mono (addPre_runOnPF cfg hl sched fsched hs hfs fs fsd inputs ui) fs j k hjk

/-- element level, and with the hypotheses of `C05_par_raise_keeps` (`PermSched` / `SubSched`) -/
theorem C05_par_raise_prefix_done_kept (cfg : Cfg) (hl : cfg.legacy = false) (sched fsched : Sched) (hs : PermSched sched) (hfs : SubSched fsched)
    (fs : FS) (fsd : List MFunc) (inputs : List (String × Val)) (ui : List (String × List Nat)) (j k : Nat) (hjk : j ≤ k)
    (c' : Cfg) (f : MFunc) (li : Nat) (hd : doneInC c' (crashAt fs (runOnPF cfg sched fsched fs fsd inputs ui).evs j) f li = true) :
    doneInC c' (crashAt fs (runOnPF cfg sched fsched fs fsd inputs ui).evs k) f li = true := by
  cases hc : doneInC c' (crashAt fs (runOnPF cfg sched fsched fs fsd inputs ui).evs k) f li with
  | true => rfl
  | false =>
    rw [doneInC_mono c' _ _ f li (C05_par_raise_prefix_mono cfg hl sched fsched (selSched_of_perm hs) (selSched_of_sub hfs)
      fs fsd inputs ui j k hjk) hc] at hd
    cases hd

/-- the task bodies of ANY run of the repaired protocol are whole: each body `splitCalls` cuts out of a generation's submit
    events is a list of `mkdir`s, one call and whole `dump` blocks (so a scheduler permuting bodies never separates a temporary
    file from its `os.replace`) -/
theorem C05_bodies_whole (cfg : Cfg) (hl : cfg.legacy = false) (fsd : List MFunc) (shapes : List (String × List Nat))
    (masks : List (String × List Bool)) (mem : List (String × List (Nat × Val))) (env : Env) (fs : FS) (nc : Nat) (gen : List MFunc) :
    ∀ b ∈ splitCalls (runGenR (stepFunc cfg fsd shapes masks mem) env fs nc gen).subEvs, Additive b :=
  splitCalls_additive (additive_runGenR _ (fun env fs nc f => additive_stepFunc cfg hl fsd shapes masks mem env fs nc f) env gen fs nc).1

/-- **C05 at user level, sequential final run.**  Hypotheses: the pipeline's functions have pairwise distinct output names
    (`UniqueOutputs`, a predicate on the function list) and the uninterrupted run succeeds.  Start from the EMPTY folder; let
    any number of runs — sequential or pool (any body order), any storage mix, any user call raising (a raising run is a
    `Later.crash` step with `failAt = some j` and `k` ≥ its length), each killed after any prefix of its events — lead to the
    folder `fs0`, and any number of further such runs to `fs`.  Then for the run started on `fs`:
    (1) it calls a user function only for elements NOT completely stored in `fs0` (stored before any of the interruptions ⇒ not
        recomputed);
    (2) if no call is told to raise it completes, with exactly the outputs of the uninterrupted run;
    (3) at every crash point of this run, every non-temporary file that existed in `fs0` exists, is complete, and holds the
        value the uninterrupted run stores there (never absent, torn, or stale). -/
theorem C05_user (cfg : Cfg) (hl : cfg.legacy = false)
    (fsd : List MFunc) (inputs : List (String × Val)) (ui : List (String × List Nat)) (r0 : MapResult)
    (h0 : runMap fsd inputs ui = .ok r0) (hu : UniqueOutputs fsd) (fs0 fs : FS)
    (h1 : Later fsd inputs ui FS.empty fs0) (h2 : Later fsd inputs ui fs0 fs) :
    (∀ c ∈ (runOn cfg fs fsd inputs ui).calls, ∃ f ∈ (generations fsd).flatten, c.fn = f.name ∧ doneInC cfg fs0 f c.li = false) ∧
    (cfg.failAt = none → ∃ x, (runOn cfg fs fsd inputs ui).res = .ok x ∧ x.outputs = r0.outputs) ∧
    (∀ k p, p.isTmp = false → (fs0.files p).isSome →
      ∃ v, (crashAt fs (runOn cfg fs fsd inputs ui).evs k).files p = some (.complete v) ∧ rightW (freshSlots fsd inputs ui) p v) := by
  have hnd := C05_nodup_of_unique fsd inputs ui hu
  obtain ⟨hg0, _⟩ := C05_history_mono fsd inputs ui r0 h0 hnd FS.empty fs0 (good_empty fsd inputs ui) h1
  obtain ⟨hg, hm⟩ := C05_history_mono fsd inputs ui r0 h0 hnd fs0 fs hg0 h2
  obtain ⟨a, b⟩ := C05_history_no_recompute cfg hl fsd inputs ui r0 h0 hnd fs0 fs hg0 h2
  exact ⟨a, b, fun k p hp hs => C05_stored_kept cfg hl fsd inputs ui r0 h0 hnd fs hg k p hp (hm p hp hs)⟩

/-- **C05 at user level, the final run is a pool run** under any body-order schedule: same three conclusions -/
theorem C05_user_par (cfg : Cfg) (hl : cfg.legacy = false) (sched : Sched) (hs : PermSched sched)
    (fsd : List MFunc) (inputs : List (String × Val)) (ui : List (String × List Nat)) (r0 : MapResult)
    (h0 : runMap fsd inputs ui = .ok r0) (hu : UniqueOutputs fsd) (fs0 fs : FS)
    (h1 : Later fsd inputs ui FS.empty fs0) (h2 : Later fsd inputs ui fs0 fs) :
    (∀ c ∈ (runOnP cfg sched fs fsd inputs ui).calls, ∃ f ∈ (generations fsd).flatten, c.fn = f.name ∧ doneInC cfg fs0 f c.li = false) ∧
    (cfg.failAt = none → ∃ x, (runOnP cfg sched fs fsd inputs ui).res = .ok x ∧ x.outputs = r0.outputs) ∧
    (∀ k p, p.isTmp = false → (fs0.files p).isSome →
      ∃ v, (crashAt fs (runOnP cfg sched fs fsd inputs ui).evs k).files p = some (.complete v) ∧ rightW (freshSlots fsd inputs ui) p v) := by
  have hnd := C05_nodup_of_unique fsd inputs ui hu
  obtain ⟨hg0, _⟩ := C05_history_mono fsd inputs ui r0 h0 hnd FS.empty fs0 (good_empty fsd inputs ui) h1
  obtain ⟨hg, hm⟩ := C05_history_mono fsd inputs ui r0 h0 hnd fs0 fs hg0 h2
  obtain ⟨a, b⟩ := C05_par_history_no_recompute cfg hl sched hs fsd inputs ui r0 h0 hnd fs0 fs hg0 h2
  refine ⟨a, b, fun k p hp hs' => ?_⟩
  obtain ⟨⟨hinv, _⟩, hmono⟩ := (C05_par_resume_keeps cfg hl sched hs fsd inputs ui r0 h0 hnd fs hg).1 k
  have hsome := hmono p hp (hm p hp hs')
  rcases hinv p hp with hnone | ⟨v, hv, hw⟩
  · rw [hnone] at hsome; cases hsome
  · exact ⟨v, hv, hw⟩

/-- **Every folder of a history from the empty folder satisfies the invariant** — `C05_reach_good` extended to pool runs and
    stated with the function-list predicate -/
theorem C05_user_good (fsd : List MFunc) (inputs : List (String × Val)) (ui : List (String × List Nat)) (r0 : MapResult)
    (h0 : runMap fsd inputs ui = .ok r0) (hu : UniqueOutputs fsd) (fs : FS) (h : Later fsd inputs ui FS.empty fs) :
    Good fsd inputs ui fs :=
  (C05_history_mono fsd inputs ui r0 h0 (C05_nodup_of_unique fsd inputs ui hu) FS.empty fs (good_empty fsd inputs ui) h).1

/-! ### non-vacuity -/

example : SelSched seqSched := fun _ bs _ => ⟨bs, fun _ h => h, rfl⟩
example : SelSched revSched := selSched_of_perm fun _ bs _ => ⟨bs.reverse, List.reverse_perm _, rfl⟩
example (orders : List (List Nat)) : SelSched (pickSched orders) := selSched_of_sub (pickSched_sub orders)

/-- `C05_par_prefix_done_kept` on the reference pipeline with reversed bodies: `f[1]` is stored after 22 events (and `f[0]`
    is not), hence `f[1]` is stored after 30 -/
example : doneInC {} (crashAt FS.empty (runOnP {} revSched FS.empty [fY, gZ] inp []).evs 30) fY 1 = true :=
  C05_par_prefix_done_kept {} rfl revSched (selSched_of_perm fun _ bs _ => ⟨bs.reverse, List.reverse_perm _, rfl⟩)
    FS.empty [fY, gZ] inp [] 22 30 (by decide) {} fY 1 (by decide)

example : doneInC {} (crashAt FS.empty (runOnP {} revSched FS.empty [fY, gZ] inp []).evs 22) fY 0 = false := by decide

/-- `C05_par_raise_prefix_done_kept` on 3 elements: element 0 raises while bodies 2 and 1 run (order 2, 0, 1): `f[2]` is stored
    after 22 of the 29 events, hence when the run stops with `raised "f"`; `f[0]` is not -/
example : doneInC {} (crashAt FS.empty (runOnPF { failAt := some 0 } seqSched (pickSched [[2, 0, 1]]) FS.empty [fY, gZ] inp3 []).evs 29) fY 2 = true :=
  C05_par_raise_prefix_done_kept { failAt := some 0 } rfl seqSched (pickSched [[2, 0, 1]]) (fun _ bs _ => ⟨bs, List.Perm.refl _, rfl⟩)
    (pickSched_sub _) FS.empty [fY, gZ] inp3 [] 22 29 (by decide) {} fY 2 (by decide)

example : (runOnPF { failAt := some 0 } seqSched (pickSched [[2, 0, 1]]) FS.empty [fY, gZ] inp3 []).evs.length = 29 ∧
    doneInC {} (crashAt FS.empty (runOnPF { failAt := some 0 } seqSched (pickSched [[2, 0, 1]]) FS.empty [fY, gZ] inp3 []).evs 29) fY 0 = false := by decide

/-- the function-list predicate holds for the reference pipeline (non-vacuity of `C05_user`) -/
theorem C05_ref_unique : UniqueOutputs [fY, gZ] := by
  refine ⟨?_, ?_⟩
  · simp [fY, gZ]
  · intro f hf; simp at hf; rcases hf with rfl | rfl <;> simp [fY, gZ]

/-- a history for `C05_user`: a pool run with reversed bodies killed after 22 events (`fs0`: `f[1]` stored), then a sequential
    run in which call 0 raises, run to its end (`fs`) -/
def hist0 : FS := crashAt FS.empty (runOnP {} revSched FS.empty [fY, gZ] inp []).evs 22
def hist1 : FS := crashAt hist0 (runOn { failAt := some 0 } hist0 [fY, gZ] inp []).evs 100

example : Later [fY, gZ] inp [] FS.empty hist0 :=
  .crashP {} rfl revSched (fun _ bs _ => ⟨bs.reverse, List.reverse_perm _, rfl⟩) FS.empty 22 .here
example : Later [fY, gZ] inp [] hist0 hist1 := .crash { failAt := some 0 } rfl hist0 100 .here

/-- the hypotheses of `C05_user` hold for this history; its conclusions, evaluated: the final run calls `f[0]` and `g` only
    (`f[1]` was stored in `fs0`), and completes -/
example : (runMap [fY, gZ] inp []).toOption.isSome = true ∧ doneInC {} hist0 fY 1 = true ∧
    resErr (runOn { failAt := some 0 } hist0 [fY, gZ] inp []) = some (.raised "f") ∧
    ((runOn {} hist1 [fY, gZ] inp []).calls.map fun c => (c.fn, c.li)) = [("f", 0), ("g", 0)] ∧
    resErr (runOn {} hist1 [fY, gZ] inp []) = none := by decide

example : ∀ c ∈ (runOn {} hist1 [fY, gZ] inp []).calls, ∃ f ∈ (generations [fY, gZ]).flatten, c.fn = f.name ∧ doneInC {} hist0 f c.li = false :=
  match h : runMap [fY, gZ] inp [] with
  | .ok r0 => (C05_user {} rfl [fY, gZ] inp [] r0 h C05_ref_unique hist0 hist1
      (.crashP {} rfl revSched (fun _ bs _ => ⟨bs.reverse, List.reverse_perm _, rfl⟩) FS.empty 22 .here)
      (.crash { failAt := some 0 } rfl hist0 100 .here)).1
  | .error e => by
      have : (runMap [fY, gZ] inp []).toOption.isSome = true := by decide
      rw [h] at this; cases this

end PF.C05
