import PfModel.Model.Resources
/-!
Object model of `pipefunc/resources.py` with a HEAP (C20, "return new objects leaving their operands unchanged").

`Model/Resources.lean` is purely functional, so it cannot say anything about aliasing.  Here a `Resources` instance is a reference
into `Heap.recs` (its `__dict__`: the eight plain fields and a REFERENCE to the `extra_args` dict object) and a dict object is a
reference into `Heap.dicts`.  Every combinator is a heap program that mirrors the Python statements one by one: which dict / instance
objects are created (`newDict`, `newRec`), copied (`dict(...)`, `{**a, **b}`, `.copy()`, `asdict`), and mutated (`d[k] = v` = `setItem`,
`data[key] = value` = `setObj`).  References are never reused (allocation appends), so "fresh" is "index ≥ the old length".

The theorems (`Props/C20Heap.lean`): every combinator only EXTENDS the heap (`Ext`), its result is a fresh instance with a fresh
`extra_args` object, and what Python sees of the result (`view`) is what the functional model computes.
-/
namespace PF.ResH
open PF.Res

abbrev Ref := Nat
/-- the content of one `extra_args` dict object (insertion ordered) -/
abbrev D := List (String × Int)

/-- `__dict__` of an instance (or the local copy `data` of one in `update`): the plain fields and a reference to the
    `extra_args` dict object.  `f.extra` is never read (the content is always read through `ex`). -/
structure Rec where
  f : R := {}
  ex : Ref := 0
  deriving DecidableEq, Repr

structure Heap where
  recs : List Rec := []
  dicts : List D := []
  deriving DecidableEq, Repr

def Heap.obj (h : Heap) (o : Ref) : Rec := h.recs.getD o {}
def Heap.dict (h : Heap) (r : Ref) : D := h.dicts.getD r []

/-- what Python sees of instance `o`: its fields, and the CURRENT content of the dict object it refers to -/
def view (h : Heap) (o : Ref) : R := { (h.obj o).f with extra := h.dict (h.obj o).ex }

/-- `{}` / `dict(x)` / `{**a, **b}` / `x.copy()` / deep copy by `asdict`: a new dict object -/
def newDict (h : Heap) (d : D) : Ref × Heap := (h.dicts.length, { h with dicts := h.dicts ++ [d] })
/-- a new instance `__dict__` (or a `.copy()` of one) -/
def newRec (h : Heap) (c : Rec) : Ref × Heap := (h.recs.length, { h with recs := h.recs ++ [c] })
/-- `data[key] = value` on a `__dict__`-like object -/
def setObj (h : Heap) (o : Ref) (c : Rec) : Heap := { h with recs := h.recs.set o c }
/-- `d[k] = v` on a dict object: IN PLACE -/
def setItem (h : Heap) (r : Ref) (k : String) (v : Int) : Heap :=
  { h with dicts := h.dicts.set r (aset (h.dict r) k v) }

/-- every instance refers to an existing dict object -/
def WF (h : Heap) : Prop := ∀ o, o < h.recs.length → (h.obj o).ex < h.dicts.length

/-- `h'` extends `h`: nothing that existed was changed (only allocation happened, or writes to objects allocated later) -/
structure Ext (h h' : Heap) : Prop where
  recsLen : h.recs.length ≤ h'.recs.length
  dictsLen : h.dicts.length ≤ h'.dicts.length
  obj : ∀ o, o < h.recs.length → h'.obj o = h.obj o
  dict : ∀ r, r < h.dicts.length → h'.dict r = h.dict r

/-! ### the dataclass constructor -/

/-- `Resources(**data)` (`resources.py:15,72,75-110`): the generated `__init__` STORES the `extra_args` object it is given (no copy;
    `field(default_factory=dict)` makes a new one only when the keyword is absent), then `__post_init__` validates.
    On `ValueError` the half-built instance is garbage. -/
def construct (h : Heap) (f : R) (ex : Option Ref) : Option Ref × Heap :=
  let a := match ex with
    | some r => (r, h)
    | none => newDict h []
  let b := newRec a.2 { f := { f with extra := [] }, ex := a.1 }
  (if Valid f then some b.1 else none, b.2)

/-! ### `dict()` and `from_dict` -/

/-- an outer keyword dict (`data`, the result of `dict()`): the entries in order; an `extra_args` entry carries the REFERENCE of its
    dict object (the `.extra l` content next to it is the snapshot taken when the entry was made and is not used by the constructor) -/
abbrev KwDict := List (Field × Option Ref)

def tagField (e : Ref) (f : Field) : Field × Option Ref :=
  (f, match f with | .extra _ => some e | _ => none)

/-- `Resources.dict()` (`resources.py:325-334`): `asdict` DEEP-copies, so the `extra_args` entry is a new dict object -/
def dictH (h : Heap) (o : Ref) : KwDict × Heap :=
  let a := newDict h (h.dict (h.obj o).ex)
  ((toDict { (h.obj o).f with extra := h.dict (h.obj o).ex }).map (tagField a.1), a.2)

def setFieldH (st : R × Option Ref) (fr : Field × Option Ref) : R × Option Ref :=
  (setField st.1 fr.1, match fr.1 with | .extra _ => fr.2 | _ => st.2)

/-- `Resources.from_dict(data)` = `Resources(**data)` (`resources.py:126-128`): later entries win; the `extra_args` OBJECT of the
    data is stored as it is -/
def fromDictH (h : Heap) (data : KwDict) : Option Ref × Heap :=
  let st := data.foldl setFieldH ({}, none)
  construct h st.1 st.2

/-! ### with_defaults / maybe_with_defaults -/

/-- `with_defaults` (`resources.py:299-303`): `None` → `return self` (THE SAME OBJECT); otherwise
    `Resources(**dict(default_resources.dict(), **self.dict()))`: two deep copies, the receiver's entries win. -/
def withDefaultsH (h : Heap) (self : Ref) (dflt : Option Ref) : Option Ref × Heap :=
  match dflt with
  | none => (some self, h)
  | some d =>
    let a := dictH h d
    let b := dictH a.2 self
    fromDictH b.2 (a.1 ++ b.1)

/-- `maybe_with_defaults` (`resources.py:305-323`) on instances / `None` (callables: `Model/ResourcesPipe.lean`): the outer `some`
    is "returned", the inner option is Python's `None`. When one side is `None` the OTHER OBJECT ITSELF is returned. -/
def maybeWithDefaultsH (h : Heap) (r dflt : Option Ref) : Option (Option Ref) × Heap :=
  match r, dflt with
  | none, none => (some none, h)
  | none, some d => (some (some d), h)
  | some r, none => (some (some r), h)
  | some r, some d => let a := withDefaultsH h r (some d); (a.1.map some, a.2)

/-! ### update -/

/-- one keyword of `update(**kwargs)`: as in the functional model, or `extra_args=<an existing dict object>` -/
inductive HUpd
  | plain (u : Upd)
  | extraObj (v : Ref)
  deriving Repr

/-- the functional reading of a keyword: the dict object is read at call time -/
def toUpd (h : Heap) : HUpd → Upd
  | .plain u => u
  | .extraObj v => .field (.extra (h.dict v))

/-- `{**data["extra_args"], **value}`: a NEW dict object, `data["extra_args"]` rebound to it -/
def mergeNew (h : Heap) (data : Ref) (value : D) : Heap :=
  let c := h.obj data
  let a := newDict h (value.foldl (fun acc kv => aset acc kv.1 kv.2) (h.dict c.ex))
  setObj a.2 data { c with ex := a.1 }

/-- the body of the loop of `update` (`resources.py:227-233`) -/
def updStep (h : Heap) (data : Ref) : HUpd → Heap
  | .extraObj v => mergeNew h data (h.dict v)                       -- key == "extra_args"
  | .plain (.field (.extra l)) => mergeNew h data l                 -- the same with a dict literal of the caller
  | .plain (.unknown k v) => setItem h (h.obj data).ex k v          -- else: data["extra_args"][key] = value   (IN PLACE)
  | .plain u => setObj h data { (h.obj data) with f := applyUpd (h.obj data).f u }   -- elif key in data: data[key] = value

/-- `update` (`resources.py:225-234`) -/
def updateH (h : Heap) (self : Ref) (kw : List HUpd) : Option Ref × Heap :=
  let a := newRec h (h.obj self)                                      -- data = self.__dict__.copy()
  let b := newDict a.2 (a.2.dict (a.2.obj a.1).ex)                    -- dict(data["extra_args"])
  let h3 := setObj b.2 a.1 { (b.2.obj a.1) with ex := b.1 }           -- data["extra_args"] = ...
  let h4 := kw.foldl (fun h u => updStep h a.1 u) h3                   -- for key, value in kwargs.items(): ...
  construct h4 (h4.obj a.1).f (some (h4.obj a.1).ex)                  -- return Resources.from_dict(data)

/-! ### combine_max -/

/-- `for key, value in resources.extra_args.items(): if key not in max_data["extra_args"]: max_data["extra_args"][key] = value`
    (`resources.py:293-295`): writes IN PLACE into the accumulator object `acc` -/
def insMissing (h : Heap) (acc : Ref) (items : D) : Heap :=
  items.foldl (fun h kv => if (alookup (h.dict acc) kv.1).isSome then h else setItem h acc kv.1 kv.2) h

/-- one round of the loop over `resources_list` (`resources.py:262-295`); the state is the heap and the plain entries of `max_data` -/
def combStepH (acc : Ref) (st : Heap × R) (o : Ref) : Heap × R :=
  (insMissing st.1 acc (st.1.dict (st.1.obj o).ex), combineStep st.2 (st.1.obj o).f)

/-- `combine_max` (`resources.py:250-297`): `[]` → `Resources()`; otherwise `max_data["extra_args"] = {}` is ONE new dict object that
    the loop fills and the constructor stores. -/
def combineMaxH (h : Heap) (l : List Ref) : Option Ref × Heap :=
  match l with
  | [] => construct h {} none
  | _ =>
    let a := newDict h []
    let st := l.foldl (combStepH a.1) (a.2, {})
    construct st.1 st.2 (some a.1)

/-! ### the statements these programs were written for

The dict-object events of each Python method in evaluation order, as `harness/c20_heap_extract.py` extracts them from the source on every run
(`Generated/C20HeapFacts.lean`); `Props/C20HeapSrc.lean` checks that the source still has exactly these.  Each event is annotated with the
primitive it became in the program above. -/

def updateEvents : List String :=
  [".copy()",        -- data = self.__dict__.copy()                          newRec h (h.obj self)
   "dict(..)",       -- dict(data["extra_args"])                             newDict (content of the receiver's dict)
   "x[k]=",          -- data["extra_args"] = …                               setObj … { … with ex := new }
   "for",
   "{**}",           -- {**data["extra_args"], **value}                      mergeNew: newDict
   "x[k]=",          -- data["extra_args"] = …                               mergeNew: setObj
   "x[k]=",          -- data[key] = value                                    setObj … { … with f := applyUpd … }
   "x[k][k]=",       -- data["extra_args"][key] = value                      setItem (in place, on the COPY)
   "endfor",
   "Resources(..)",  -- Resources.from_dict(data)                            construct … (some (data's dict object))
   "return"]

def combineMaxEvents : List String :=
  ["Resources(..)", "return",   -- if not resources_list: return Resources()   construct h {} none
   "{}",             -- "extra_args": {}                                     newDict h []
   "{k:v}",          -- max_data = {…}                                       (the plain entries: the `R` component of the loop state)
   "for",
   "x[k]=", "x[k]=", "x[k]=", "x[k]=", "x[k]=",   -- max_data["cpus"|"gpus"|"memory"|"time"|"partition"] = …     combineStep
   "for",
   "x[k][k]=",       -- max_data["extra_args"][key] = value                  insMissing: setItem on the accumulator object
   "endfor", "endfor",
   "Resources(..)",  -- Resources(**max_data)                                construct … (some accumulator)
   "return"]

def withDefaultsEvents : List String :=
  ["return self",    -- if default_resources is None: return self            (some self, h)
   ".dict()",        -- default_resources.dict()                             dictH h d
   ".dict()",        -- self.dict()                                          dictH … self
   "dict(..)**",     -- dict(a, **b)                                         a.1 ++ b.1 (later entries win in fromDictH)
   "Resources(..)",  --                                                      fromDictH
   "return"]

def maybeWithDefaultsEvents : List String :=
  ["return None", "return default_resources", "return resources",           -- the three identity paths
   "return",         -- functools.partial(…) for a callable                  (Model/ResourcesPipe.lean)
   "with_defaults()", "return"]

def dictEvents : List String :=
  ["asdict",         -- asdict(self): deep copy                              newDict (content of the receiver's dict)
   "{comp}",         -- {k: v for … if v is not None}                        toDict … |>.map (tagField new)
   "return"]

def fromDictEvents : List String := ["Resources(..)", "return"]             -- construct, storing the object it is given

/-! ### a concrete heap for the non-vacuity examples -/

/-- instance 0 and instance 1 share dict object 0; instance 2 holds dict object 1 -/
def exHeap : Heap :=
  { recs := [{ f := { cpus := some 1 }, ex := 0 }, { f := { gpus := some 2, time := some "10:00" }, ex := 0 },
             { f := { cpus := some 3 }, ex := 1 }],
    dicts := [[("x", 1)], [("y", 2), ("x", 5)]] }

end PF.ResH
