import PfModel.DriverVal
import PfModel.Lemmas.MapDescRet
import PfModel.Model.MapChecked
/-! Driver for the "never refused" clause of C01 (`conforms`): evaluates `PF.C01.Conforms` — the predicate
    `C01_never_refused` is about — and `runMap` on the same request as `map.run`. -/
open Lean PF PF.Drv PF.Map

def getASpec (j : Json) : R ASpec := do
  let (n, ax) ← asPair asStr (asList (asOpt asStr)) j
  return { name := n, axes := ax }

def getMSpec (j : Json) : R MSpec := do
  return { inputs := ← listF getASpec j "inputs", outputs := ← listF getASpec j "outputs" }

def getMFunc (j : Json) : R MFunc := do
  return { name := ← strF j "name", params := ← listF (asPair asStr asStr) j "params", outputs := ← listF asStr j "outputs",
           mapspec := ← optF getMSpec j "mapspec", ret := ← optF (asList asNat) j "ret", internal := ← optF (asList asNat) j "internal",
           defaults := (← optF getKw j "defaults").getD [], bound := (← optF getKw j "bound").getD [] }

def errName : PF.Map.Err → String
  | .value _ => "ValueError" | .type _ => "TypeError" | .index _ => "IndexError" | .key _ => "KeyError" | .fuel => "RecursionError"

def handle (m : String) (a : Json) : R Json := do
  match m with
  | "conforms" =>
    let fs ← listF getMFunc a "funcs"
    let inputs ← getKw (← fld a "inputs")
    let internal := (← optF (asList (asPair asStr (asList asNat))) a "internal").getD []
    let Γ := PF.C01.declTbl fs inputs internal
    -- the clauses one by one (their conjunction is `Conforms`), so that the harness can report which one a mutant breaks
    let clauses : List (String × Bool) := [
      ("inputsComplete", PF.C01.inputsComplete fs inputs), ("noSurplus", PF.C01.noSurplus fs inputs),
      ("acyclic", PF.C01.acyclic fs), ("functionNamesUnique", PF.C01.nodupB (fs.map (·.name))),
      ("rootArrays", PF.C01.rootArrays fs inputs),
      ("shapesOK", PF.C01.shapesOK (constructInternal fs internal) (generations fs).flatten (PF.C01.rootTbl fs inputs)),
      ("inputsTyped", PF.C01.valuesTyped Γ inputs), ("defaultsTyped", PF.C01.valuesTyped Γ (pdefaults fs)),
      ("funcsTyped", fs.all (PF.C01.funcTyped Γ)), ("constructible", PF.C01.constructible Γ fs),
      ("consistentAxes", PF.C01.consistentAxes fs)]
    -- round 9: the syntactic class `InClass` (Lemmas/MapDescClass.lean), clause by clause, and the residual `ReturnsDeclared`
    -- (`C01_desc_residual`: inClass ∧ requestOK → descOK = returnsDeclared; `C01_never_refused_plain`: inClass ∧ noInternal → ok = requestOK)
    let classClauses : List (String × Bool) := [
      ("functionNamesUnique", PF.C01.nodupB (fs.map (·.name))), ("outputNamesUnique", PF.C01.nodupB (allOutputs fs)),
      ("consistentAxes", PF.C01.consistentAxes fs), ("funcStatic", fs.all PF.C01.funcStatic),
      ("inputKeysUnique", PF.C01.nodupB (akeys inputs)), ("arraysWellFormed", inputs.all (fun kv => PF.C01.wfArr kv.2)),
      ("mappedDefaultsAgree", (pdefaults fs).all (fun kv => !(mapspecNames fs).contains kv.1
          || (PF.C01.wfArr kv.2 && (alookup (inputs ++ pdefaults fs) kv.1).bind shapeOf == shapeOf kv.2)))]
    let (ok, err) := match runMap fs inputs internal with
      | .error e => (false, jStr (errName e))
      | .ok _ => (true, Json.null)
    -- `Conforms = RequestOK && DescOK` (`C01_conforms_split`); `C01_answered_request_ok`: ok → requestOK
    return jObj [("conforms", jBool (PF.C01.Conforms fs inputs internal)), ("ok", jBool ok), ("err", err),
                 ("requestOK", jBool (PF.C01.RequestOK fs inputs internal)), ("descOK", jBool (PF.C01.DescOK fs inputs internal)),
                 ("failed", jList jStr ((clauses.filter (!·.2)).map (·.1))),
                 ("inClass", jBool (PF.C01.InClass fs inputs)), ("classFailed", jList jStr ((classClauses.filter (!·.2)).map (·.1))),
                 ("returnsDeclared", jBool (PF.C01.ReturnsDeclared fs inputs internal)), ("noInternal", jBool (PF.C01.NoInternal fs)),
                 ("retSyntactic", jBool (PF.C01.RetSyntactic fs internal)),
                 -- `prepare_run` + `run_map` (Model/MapChecked.lean; `C01_checked_iff`: checkedOk = consistentAxes ∧ ok)
                 ("checkedOk", jBool (mapChecked fs inputs internal).toOption.isSome)]
  | _ => .error s!"unknown entry {m}"

def main : IO Unit := loop handle
