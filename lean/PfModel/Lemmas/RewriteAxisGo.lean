import PfModel.Lemmas.RewriteAxisR
/-!
`add_mapspec_axis` on a pipeline without prior MapSpecs (part 9): what the recursion `addAxisGo` computes.  Invariant
`Good`: only functions reachable from `p` get a MapSpec, it maps (some of) the parameters that are `p` or lifted outputs and
all outputs along `axis`; post-condition `Closed`: every function that takes a reachable name maps it.
-/
namespace PF.Rw
open PF PF.Map PF.C01 PF.Rw.Ax

/-- `x` depends on `q`: it is `q` or an output of a function that takes (un-bound) something that depends on `q` -/
inductive Reach (fs : List RFunc) (q : String) : String → Prop
  | root : Reach fs q q
  | step (g : RFunc) (hg : g ∈ fs) (y : String) (hy : y ∈ freeParams g) (hr : Reach fs q y) (o : String) (ho : o ∈ g.core.outputs) :
      Reach fs q o

theorem Reach.trans {fs : List RFunc} {a b c : String} (h1 : Reach fs a b) (h2 : Reach fs b c) : Reach fs a c := by
  induction h2 with
  | root => exact h1
  | step g hg y hy _ o ho ih => exact .step g hg y hy ih o ho

/-- the first step of a dependency -/
theorem Reach.first {fs : List RFunc} {q x : String} (h : Reach fs q x) :
    x = q ∨ ∃ g ∈ fs, q ∈ freeParams g ∧ ∃ o ∈ g.core.outputs, Reach fs o x := by
  induction h with
  | root => exact Or.inl rfl
  | step g hg y hy _ o ho ih =>
    rcases ih with e | ⟨g', hg', hq, o', ho', hr⟩
    · subst e; exact Or.inr ⟨g, hg, hy, o, ho, .root⟩
    · exact Or.inr ⟨g', hg', hq, o', ho', .step g hg y hy hr o ho⟩

theorem rproducer_setSpecR (τ : List String → Option MSpec) (fs : List RFunc) (x : String) :
    rproducer (fs.map (setSpecR τ)) x = (rproducer fs x).map (setSpecR τ) := by
  induction fs with
  | nil => rfl
  | cons a as ih =>
    simp only [rproducer, List.map_cons, List.find?_cons] at ih ⊢
    by_cases h : x ∈ a.core.outputs
    · simp [setSpecR, h]
    · simp only [setSpecR, h, decide_false] at ih ⊢; exact ih

theorem freeParams_setSpecR (τ : List String → Option MSpec) (f : RFunc) : freeParams (setSpecR τ f) = freeParams f := rfl

section go
variable (fs : List RFunc) (p axis : String)

/-- `x` is `p` or an output of a function that has a MapSpec -/
def LNt (τ : List String → Option MSpec) (x : String) : Prop :=
  x = p ∨ ∃ g ∈ fs, (τ g.core.outputs).isSome = true ∧ x ∈ g.core.outputs

/-- the MapSpecs persist, and so do the names of their inputs -/
def Ext (τ τ' : List String → Option MSpec) : Prop :=
  ∀ os ms, τ os = some ms → ∃ ms', τ' os = some ms' ∧ ∀ a ∈ ms.inputs, ∃ a' ∈ ms'.inputs, a'.name = a.name

theorem Ext.refl (τ : List String → Option MSpec) : Ext τ τ := fun _ ms h => ⟨ms, h, fun a ha => ⟨a, ha, rfl⟩⟩

theorem Ext.trans {τ1 τ2 τ3 : List String → Option MSpec} (h1 : Ext τ1 τ2) (h2 : Ext τ2 τ3) : Ext τ1 τ3 := by
  intro os ms h
  obtain ⟨ms2, e2, i2⟩ := h1 os ms h
  obtain ⟨ms3, e3, i3⟩ := h2 os ms2 e2
  refine ⟨ms3, e3, ?_⟩
  intro a ha
  obtain ⟨a2, ha2, n2⟩ := i2 a ha
  obtain ⟨a3, ha3, n3⟩ := i3 a2 ha2
  exact ⟨a3, ha3, n3.trans n2⟩

variable {fs p}

theorem LNt.mono {τ τ' : List String → Option MSpec} (h : Ext τ τ') {x : String} (hx : LNt fs p τ x) : LNt fs p τ' x := by
  rcases hx with e | ⟨g, hg, hs, hxg⟩
  · exact Or.inl e
  · refine Or.inr ⟨g, hg, ?_, hxg⟩
    cases hm : τ g.core.outputs with
    | none => rw [hm] at hs; cases hs
    | some ms => obtain ⟨ms', e, _⟩ := h _ ms hm; rw [e]; rfl

variable (fs p)

/-- every MapSpec attached so far is a lifting along `axis` of parameters that are `p` or lifted outputs, and its function
    depends on `p` -/
def Good (τ : List String → Option MSpec) : Prop :=
  ∀ g ∈ fs, ∀ ms, τ g.core.outputs = some ms →
    ms.outputs = g.core.outputs.map (fun o => (⟨o, [some axis]⟩ : ASpec)) ∧ ms.inputs ≠ [] ∧
    (∀ a ∈ ms.inputs, a.axes = [some axis] ∧ a.name ∈ freeParams g ∧ LNt fs p τ a.name) ∧
    ∃ y ∈ freeParams g, Reach fs p y

/-- every function that takes `x` (un-bound) maps it -/
def Closed (τ : List String → Option MSpec) (x : String) : Prop :=
  ∀ g ∈ fs, x ∈ freeParams g → ∃ ms, τ g.core.outputs = some ms ∧ ∃ a ∈ ms.inputs, a.name = x

variable {fs}

theorem Closed.mono {τ τ' : List String → Option MSpec} (h : Ext τ τ') {x : String} (hx : Closed fs τ x) : Closed fs τ' x := by
  intro g hg hxg
  obtain ⟨ms, e, a, ha, hn⟩ := hx g hg hxg
  obtain ⟨ms', e', i'⟩ := h _ ms e
  obtain ⟨a', ha', hn'⟩ := i' a ha
  exact ⟨ms', e', a', ha', hn'.trans hn⟩

/-- every entry of the shared `dims` dictionary is 1 (all arrays the recursion meets have one axis) -/
def DimsOK (dims : List (String × Nat)) : Prop := ∀ e ∈ dims, e.2 = 1

theorem axesFromDims_one (q axis : String) (dims : List (String × Nat)) (h : DimsOK dims) : axesFromDims q dims axis = [some axis] := by
  unfold axesFromDims
  cases hf : dims.find? (·.1 = q) with
  | none => simp
  | some e =>
    have := h e (List.mem_of_find?_eq_some hf)
    simp [this]

/-- updating the MapSpec of the functions with the outputs `os` -/
def updT (τ : List String → Option MSpec) (os : List String) (ms : MSpec) : List String → Option MSpec :=
  fun x => if x = os then some ms else τ x

theorem map_update (τ : List String → Option MSpec) (f0 : RFunc) (ms : MSpec) (l : List RFunc) :
    (l.map (setSpecR τ)).map (fun g => if sameF g (setSpecR τ f0) then { g with mapspec := some ms } else g) =
      l.map (setSpecR (updT τ f0.core.outputs ms)) := by
  rw [List.map_map]
  apply List.map_congr_left
  intro g _
  simp only [Function.comp, sameF, setSpecR, updT, decide_eq_true_eq]
  by_cases h : g.core.outputs = f0.core.outputs
  · simp [h]
  · simp [h]

end go

/-! ### the loop body of `addAxisGo`, restated -/

/-- the MapSpec arrays `add_mapspec_axis` gives a function that takes `q` -/
def newSpec (axis q : String) (dims : List (String × Nat)) (f : RFunc) : List ASpec × List ASpec :=
  match f.mapspec with
  | none => ([⟨q, axesFromDims q dims axis⟩], f.core.outputs.map fun o => ⟨o, [some axis]⟩)
  | some ms =>
    let ins := if ms.inputs.any (·.name = q)
      then ms.inputs.map fun s => if s.name = q && !(s.axes.contains (some axis)) then { s with axes := s.axes ++ [some axis] } else s
      else ms.inputs ++ [⟨q, axesFromDims q dims axis⟩]
    (ins, ms.outputs.map fun s => if s.axes.contains (some axis) then s else { s with axes := s.axes ++ [some axis] })

/-- one iteration of the loop of `add_mapspec_axis` over the functions -/
def stepF (axis : String) (order : List String) (fuel : Nat) (q : String) (st : List RFunc × List (String × Nat)) (fo : String) :
    List RFunc × List (String × Nat) :=
  match rproducer st.1 fo with
  | none => st
  | some f =>
    if !(freeParams f).contains q then st else
    let io := newSpec axis q st.2 f
    let fs' := st.1.map fun g => if sameF g f then { g with mapspec := some ⟨io.1, io.2⟩ } else g
    io.2.foldl (fun st o => addAxisGo axis order fuel o.name (st.1, (o.name, o.axes.length) :: st.2)) (fs', st.2)

theorem addAxisGo_succ (axis : String) (order : List String) (fuel : Nat) (q : String) (st : List RFunc × List (String × Nat)) :
    addAxisGo axis order (fuel + 1) q st = order.foldl (stepF axis order fuel q) st := by
  rw [addAxisGo]
  rfl

section spec
variable {fs : List RFunc} {p axis : String}

/-- the MapSpec arrays computed for a function that takes `q`, under the invariant -/
theorem newSpec_good (τ : List String → Option MSpec) (hG : Good fs p axis τ) (f0 : RFunc) (hf0 : f0 ∈ fs)
    (dims : List (String × Nat)) (hd : DimsOK dims) (q : String) :
    ∃ ins, newSpec axis q dims (setSpecR τ f0) = (ins, f0.core.outputs.map fun o => (⟨o, [some axis]⟩ : ASpec)) ∧ ins ≠ [] ∧
      (∃ a ∈ ins, a.name = q) ∧
      (∀ a ∈ ins, (a = ⟨q, [some axis]⟩ ∨ ∃ ms, τ f0.core.outputs = some ms ∧ a ∈ ms.inputs)) ∧
      (∀ ms, τ f0.core.outputs = some ms → ∀ a ∈ ms.inputs, a ∈ ins) := by
  unfold newSpec
  have hspec : (setSpecR τ f0).mapspec = τ f0.core.outputs := rfl
  have hout : (setSpecR τ f0).core.outputs = f0.core.outputs := rfl
  rw [hspec, hout]
  cases hm : τ f0.core.outputs with
  | none =>
    refine ⟨[⟨q, [some axis]⟩], by simp [axesFromDims_one q axis dims hd], by simp, ⟨_, List.mem_cons_self, rfl⟩, ?_, ?_⟩
    · intro a ha; left; simpa using ha
    · intro ms h; cases h
  | some ms =>
    obtain ⟨ho, hne, hin, _⟩ := hG f0 hf0 ms hm
    have houts : (ms.outputs.map fun s => if s.axes.contains (some axis) then s else { s with axes := s.axes ++ [some axis] }) =
        f0.core.outputs.map fun o => (⟨o, [some axis]⟩ : ASpec) := by
      rw [ho, List.map_map]
      apply List.map_congr_left
      intro o _
      simp
    simp only [houts]
    by_cases hany : ms.inputs.any (·.name = q) = true
    · have hid : (ms.inputs.map fun s => if s.name = q && !(s.axes.contains (some axis)) then { s with axes := s.axes ++ [some axis] } else s) = ms.inputs := by
        have : ∀ s ∈ ms.inputs, (if s.name = q && !(s.axes.contains (some axis)) then { s with axes := s.axes ++ [some axis] } else s) = s := by
          intro s hs
          rw [(hin s hs).1]
          simp
        rw [List.map_congr_left this, List.map_id']
      simp only [hany, ↓reduceIte, hid]
      obtain ⟨a, ha, han⟩ := List.any_eq_true.mp hany
      refine ⟨ms.inputs, rfl, hne, ⟨a, ha, by simpa using han⟩, ?_, ?_⟩
      · intro a ha; exact Or.inr ⟨ms, rfl, ha⟩
      · intro ms' h a ha; injection h with h; subst h; exact ha
    · simp only [hany, Bool.false_eq_true, ↓reduceIte, axesFromDims_one q axis dims hd]
      refine ⟨ms.inputs ++ [⟨q, [some axis]⟩], rfl, by simp, ⟨⟨q, [some axis]⟩, by simp, rfl⟩, ?_, ?_⟩
      · intro a ha
        rcases List.mem_append.mp ha with h | h
        · exact Or.inr ⟨ms, rfl, h⟩
        · left; simpa using h
      · intro ms' h a ha; injection h with h; subst h; exact List.mem_append_left _ ha

/-- attaching the computed MapSpec keeps the invariant -/
theorem good_upd (hu : UniqueOutR fs) (hne : ∀ g ∈ fs, g.core.outputs ≠ []) (τ : List String → Option MSpec)
    (hG : Good fs p axis τ) (f0 : RFunc) (hf0 : f0 ∈ fs) (q : String) (hq : q ∈ freeParams f0) (hr : Reach fs p q)
    (hl : LNt fs p τ q) (ins : List ASpec) (hne' : ins ≠ [])
    (h1 : ∀ a ∈ ins, (a = ⟨q, [some axis]⟩ ∨ ∃ ms, τ f0.core.outputs = some ms ∧ a ∈ ms.inputs))
    (h2 : ∀ ms, τ f0.core.outputs = some ms → ∀ a ∈ ms.inputs, a ∈ ins) :
    Good fs p axis (updT τ f0.core.outputs ⟨ins, f0.core.outputs.map fun o => (⟨o, [some axis]⟩ : ASpec)⟩) ∧
    Ext τ (updT τ f0.core.outputs ⟨ins, f0.core.outputs.map fun o => (⟨o, [some axis]⟩ : ASpec)⟩) := by
  have hext : Ext τ (updT τ f0.core.outputs ⟨ins, f0.core.outputs.map fun o => (⟨o, [some axis]⟩ : ASpec)⟩) := by
    intro os ms h
    unfold updT
    by_cases e : os = f0.core.outputs
    · subst e
      simp only [↓reduceIte]
      exact ⟨_, rfl, fun a ha => ⟨a, h2 ms h a ha, rfl⟩⟩
    · simp only [e, ↓reduceIte]
      exact ⟨ms, h, fun a ha => ⟨a, ha, rfl⟩⟩
  refine ⟨?_, hext⟩
  intro g hg ms hm
  unfold updT at hm
  by_cases e : g.core.outputs = f0.core.outputs
  · have hgf : g = f0 := by
      cases hgo : g.core.outputs with
      | nil => exact absurd hgo (hne g hg)
      | cons o os => exact hu g hg f0 hf0 o (by rw [hgo]; exact List.mem_cons_self) (by rw [← e, hgo]; exact List.mem_cons_self)
    subst hgf
    simp only [↓reduceIte, Option.some.injEq] at hm
    subst hm
    refine ⟨rfl, hne', ?_, ⟨q, hq, hr⟩⟩
    intro a ha
    rcases h1 a ha with e1 | ⟨ms0, hms0, ha0⟩
    · subst e1
      exact ⟨rfl, hq, LNt.mono hext hl⟩
    · obtain ⟨_, _, hin, _⟩ := hG g hg ms0 hms0
      obtain ⟨x1, x2, x3⟩ := hin a ha0
      exact ⟨x1, x2, LNt.mono hext x3⟩
  · simp only [e, ↓reduceIte] at hm
    obtain ⟨y1, y2, hin, y4⟩ := hG g hg ms hm
    refine ⟨y1, y2, ?_, y4⟩
    intro a ha
    obtain ⟨x1, x2, x3⟩ := hin a ha
    exact ⟨x1, x2, LNt.mono hext x3⟩

end spec
end PF.Rw
