import PfModel.Props.C14
import PfModel.Lemmas.CachePolicyRetainDisk
/-!
C14 — the direction of clause (c) that `C14_present_iff_get_*` leaves open.

`C14_present_iff_get_*` say: after any history, `k in cache` and `get(k)` agree, and a value returned is the one most recently put.
A container that stores nothing (or drops entries at will) satisfies that. What the property text means by "present exactly when
`get` returns the value most recently put" also needs the cache to KEEP things:

* `C14_put_then_present_{lru,hybrid,simple,disk}` — after ANY history on a new container, right after `put(k, v)` the key is
  reported present and `get(k)` returns `v` (for HybridCache also when the put ran `_expire`; for DiskCache with or without its
  LRU, after any number of reopens);
* `C14_lru_survives` — the retention guarantee of "least recently used": after `put(k, v)`, however the history continues without
  `clear`, as long as its `put`s and `get`s concern `k` and fewer than `max_size` other keys, `k` is still present with the value
  most recently put for it (`in`, `len` and re-puts/hits of the same keys in any number and order do not matter);
* `C14_lru_survives_tight` — the bound is exact: with `max_size` other keys touched the entry is gone (`decide`), also when only
  one of them is a `put` and the others are hits;
* `C14_lru_survives_hit` — the same guarantee when the refreshing operation is a hit (`get` of a present key) instead of a `put`;
* `C14_disk_survives` — "oldest file": after `put(k, v)` the FILE of `k` stays through any clear-free continuation (reopens included)
  that puts fewer than `max_size` other keys — `get`s do not count (a hit does not refresh a file's ctime), a re-put does refresh;
  `C14_disk_survives_tight` — exactness and the two contrasts with LRUCache by `decide`.
-/
namespace PF.C14
open PF.Cache

theorem C14_put_then_present_lru (max : Nat) (hmax : 0 < max) (h : List Op) (hwf : ∀ op ∈ h, op.WF) (k : Key) (v : Val) (d : Nat) :
    ∃ s os, lruSem.run (LRU.empty max) (h ++ [.put k v d]) = .ok (s, os) ∧ s.step (.has k) = .ok (s, .bool true) ∧
      (∃ s2, s.step (.get k) = .ok (s2, .val (some v))) ∧ lastPut (h ++ [.put k v d]) k = some v := by
  obtain ⟨s, os, h1, h2, h3⟩ := lru_lawful.put_then_present (LRU.empty max) (LRU.inv_empty max hmax) h hwf k v d
  exact ⟨s, os, h1, h2, h3, lastPut_snoc_put h k v d⟩

theorem C14_put_then_present_hybrid (max wa wd : Nat) (hmax : 0 < max) (h : List Op) (hwf : ∀ op ∈ h, op.WF) (k : Key) (v : Val)
    (d : Nat) :
    ∃ s os, hybSem.run (Hyb.empty max wa wd) (h ++ [.put k v d]) = .ok (s, os) ∧ s.step (.has k) = .ok (s, .bool true) ∧
      (∃ s2, s.step (.get k) = .ok (s2, .val (some v))) ∧ lastPut (h ++ [.put k v d]) k = some v := by
  obtain ⟨s, os, h1, h2, h3⟩ := hyb_lawful.put_then_present (Hyb.empty max wa wd) (Hyb.inv_empty max wa wd hmax) h hwf k v d
  exact ⟨s, os, h1, h2, h3, lastPut_snoc_put h k v d⟩

theorem C14_put_then_present_simple (h : List Op) (hwf : ∀ op ∈ h, op.WF) (k : Key) (v : Val) (d : Nat) :
    ∃ s os, simpleSem.run ⟨[]⟩ (h ++ [.put k v d]) = .ok (s, os) ∧ s.step (.has k) = .ok (s, .bool true) ∧
      (∃ s2, s.step (.get k) = .ok (s2, .val (some v))) ∧ lastPut (h ++ [.put k v d]) k = some v := by
  obtain ⟨s, os, h1, h2, h3⟩ := simple_lawful.put_then_present ⟨[]⟩ trivial h hwf k v d
  exact ⟨s, os, h1, h2, h3, lastPut_snoc_put h k v d⟩

/-- DiskCache over a new directory; the history may reopen the directory with other `max_size` / LRU sizes. With a small
    `max_size` the `put` evicts older files — never the one just written. -/
theorem C14_put_then_present_disk (m l : Option Nat) (hm : m ≠ some 0) (hl : l ≠ some 0) (h : List Op) (hwf : ∀ op ∈ h, op.WF)
    (k : Key) (v : Val) (d : Nat) :
    ∃ s os, diskSem.run (Disk.empty m l) (h ++ [.put k v d]) = .ok (s, os) ∧ s.step (.has k) = .ok (s, .bool true) ∧
      (∃ s2, s.step (.get k) = .ok (s2, .val (some v))) ∧ lastPut (h ++ [.put k v d]) k = some v := by
  obtain ⟨s, os, h1, h2, h3⟩ := disk_lawful.put_then_present (Disk.empty m l) (Disk.inv_empty m l hm hl) h hwf k v d
  exact ⟨s, os, h1, h2, h3, lastPut_snoc_put h k v d⟩

/-- LRUCache keeps an entry as long as fewer than `max_size` OTHER keys are used after it: `h1` is any history, then `put(k, v)`,
    then any `h2` without `clear` whose `put`/`get` keys are `k` or members of a list `T` shorter than `max_size`. Afterwards
    `k in cache` is `True` and `get(k)` returns the value most recently put for `k` (`v`, unless `h2` re-puts `k`). -/
theorem C14_lru_survives (max : Nat) (h1 h2 : List Op) (k : Key) (v : Val) (d : Nat) (T : List Key)
    (hT : T.length < max) (hwf1 : ∀ op ∈ h1, op.WF) (hwf2 : ∀ op ∈ h2, op.WF) (hnc : ∀ op ∈ h2, op.notClear)
    (ht : ∀ op ∈ h2, ∀ x, op.touches = some x → x = k ∨ x ∈ T) :
    ∃ s os, lruSem.run (LRU.empty max) (h1 ++ .put k v d :: h2) = .ok (s, os) ∧
      s.step (.has k) = .ok (s, .bool true) ∧
      ∃ s2 y, s.step (.get k) = .ok (s2, .val (some y)) ∧ lastPut (h1 ++ .put k v d :: h2) k = some y :=
  lru_survives max h1 h2 k v d T hT hwf1 hwf2 hnc ht

/-- the bound of `C14_lru_survives` is exact. `max_size=2`: `put 0; put 1; put 2` uses 2 other keys — key 0 is gone;
    `max_size=3`: `put 1; put 2; put 0; get 1; get 2; put 3` — ONE later put, but 3 other keys used: key 0 is gone, while with the
    hit on key 2 left out (2 other keys) it survives. -/
theorem C14_lru_survives_tight :
    ((lruSem.run (LRU.empty 2) [.put 0 7 0, .put 1 8 0, .put 2 9 0, .has 0]).toOption.map (·.2)) =
      some [.unit, .unit, .unit, .bool false] ∧
    ((lruSem.run (LRU.empty 3) [.put 1 6 0, .put 2 7 0, .put 0 8 0, .get 1, .get 2, .put 3 9 0, .has 0]).toOption.map (·.2)) =
      some [.unit, .unit, .unit, .val (some 6), .val (some 7), .unit, .bool false] ∧
    ((lruSem.run (LRU.empty 3) [.put 1 6 0, .put 2 7 0, .put 0 8 0, .get 1, .put 3 9 0, .has 0]).toOption.map (·.2)) =
      some [.unit, .unit, .unit, .val (some 6), .unit, .bool true] := by decide

/-- the same retention guarantee when the entry is refreshed by a HIT: `k` is present after `h1`, then `get(k)`, then `h2` as in
    `C14_lru_survives` -/
theorem C14_lru_survives_hit (max : Nat) (h1 h2 : List Op) (k : Key) (T : List Key)
    (hT : T.length < max) (hwf1 : ∀ op ∈ h1, op.WF) (hwf2 : ∀ op ∈ h2, op.WF) (hnc : ∀ op ∈ h2, op.notClear)
    (ht : ∀ op ∈ h2, ∀ x, op.touches = some x → x = k ∨ x ∈ T)
    (hpres : ∃ s1 os1, lruSem.run (LRU.empty max) h1 = .ok (s1, os1) ∧ s1.step (.has k) = .ok (s1, .bool true)) :
    ∃ s os, lruSem.run (LRU.empty max) (h1 ++ .get k :: h2) = .ok (s, os) ∧
      s.step (.has k) = .ok (s, .bool true) ∧
      ∃ s2 y, s.step (.get k) = .ok (s2, .val (some y)) ∧ lastPut (h1 ++ .get k :: h2) k = some y :=
  lru_survives_hit max h1 h2 k T hT hwf1 hwf2 hnc ht hpres

/-- DiskCache ("oldest file") keeps the FILE of `k`: `h1` is any history on a new directory (reopens and clears included), then
    `put(k, v)`, then any `h2` without `clear` whose `put`s write `k` or keys of a list `T`; `T` is shorter than every `max_size`
    in force (the constructor's and every reopen's; `None` = unbounded). Afterwards the file exists (so `k` also survives a later
    reopen, `C14_disk_reopen`), `k in cache` is `True` and `get(k)` returns the value most recently put. `get`s of any keys in
    any number are allowed in `h2`: they change no ctime. -/
theorem C14_disk_survives (m l : Option Nat) (hl : l ≠ some 0) (h1 h2 : List Op) (k : Key) (v : Val) (d : Nat) (T : List Key)
    (hT : ∀ n, m = some n → T.length < n) (hwf1 : ∀ op ∈ h1, op.WF) (hwf2 : ∀ op ∈ h2, op.WF)
    (hok1 : ∀ op ∈ h1, op.maxOK T) (hok2 : ∀ op ∈ h2, op.maxOK T) (hnc : ∀ op ∈ h2, op.notClear)
    (ht : ∀ op ∈ h2, ∀ x, op.puts = some x → x = k ∨ x ∈ T) :
    ∃ s os, diskSem.run (Disk.empty m l) (h1 ++ .put k v d :: h2) = .ok (s, os) ∧ has s.files k = true ∧
      s.step (.has k) = .ok (s, .bool true) ∧
      ∃ s2 y, s.step (.get k) = .ok (s2, .val (some y)) ∧ lastPut (h1 ++ .put k v d :: h2) k = some y :=
  disk_survives m l hl h1 h2 k v d T hT hwf1 hwf2 hok1 hok2 hnc ht

/-- `DiskCache(max_size=2)` without LRU: `put 0; put 1; put 2` — 2 other keys put, key 0 is gone (the bound is exact);
    `put 0; put 1; get 0; put 2` — the hit does NOT protect key 0 (unlike LRUCache); `put 0; put 1; put 0; put 2` — the re-put
    does: key 1 is the oldest file and leaves. -/
theorem C14_disk_survives_tight :
    ((diskSem.run (Disk.empty (some 2) none) [.put 0 7 0, .put 1 8 0, .put 2 9 0, .has 0, .len]).toOption.map (·.2)) =
      some [.unit, .unit, .unit, .bool false, .nat 2] ∧
    ((diskSem.run (Disk.empty (some 2) none) [.put 0 7 0, .put 1 8 0, .get 0, .put 2 9 0, .has 0, .has 1]).toOption.map (·.2)) =
      some [.unit, .unit, .val (some 7), .unit, .bool false, .bool true] ∧
    ((diskSem.run (Disk.empty (some 2) none) [.put 0 7 0, .put 1 8 0, .put 0 6 0, .put 2 9 0, .has 0, .has 1]).toOption.map (·.2)) =
      some [.unit, .unit, .unit, .unit, .bool true, .bool false] := by decide

/-! ### non-vacuity -/

/-- `C14_put_then_present_*`: a history with an eviction, a reopen and a clear satisfies `WF` -/
example : ∀ op ∈ [Op.put 0 1 0, .put 1 2 0, .reopen (some 1) none, .clear, .get 0], op.WF := by
  intro op h; simp at h; rcases h with rfl | rfl | rfl | rfl | rfl <;> simp [Op.WF]

/-- hybrid: the put of a RESIDENT key on a full cache runs `_expire` and is still present afterwards -/
example : ((hybSem.run (Hyb.empty 2 1 1) ([.put 0 1 2, .put 1 2 2, .get 1] ++ [.put 0 5 1]) >>= fun p => p.1.step (.get 0)).toOption.map
    (·.2)) = some (.val (some 5)) := by decide

/-- disk, `max_size=1` and an LRU of size 1: every put evicts, the key just put answers -/
example : ((diskSem.run (Disk.empty (some 1) (some 1)) ([.put 0 1 0, .put 1 2 0, .get 0] ++ [.put 2 3 0]) >>= fun p =>
    p.1.step (.get 2)).toOption.map (·.2)) = some (.val (some 3)) := by decide

/-- `C14_lru_survives`: `max_size=3`, `T = [1, 2]`, the continuation re-puts and hits keys 1, 2 and 0 many times, asks `in`/`len` -/
example : ([1, 2] : List Key).length < 3 ∧
    (∀ op ∈ [Op.put 1 5 0, .get 2, .put 2 6 0, .has 9, .len, .get 0, .put 1 7 0, .get 1, .put 2 8 0], op.notClear) ∧
    (∀ op ∈ [Op.put 1 5 0, .get 2, .put 2 6 0, .has 9, .len, .get 0, .put 1 7 0, .get 1, .put 2 8 0],
      ∀ x, op.touches = some x → x = 0 ∨ x ∈ ([1, 2] : List Key)) := by
  refine ⟨by decide, ?_, ?_⟩
  · intro op h; simp at h; rcases h with rfl | rfl | rfl | rfl | rfl | rfl | rfl | rfl | rfl <;> trivial
  · intro op h x hx; simp at h
    rcases h with rfl | rfl | rfl | rfl | rfl | rfl | rfl | rfl | rfl <;> simp [Op.touches] at hx <;> subst hx <;> simp

/-- … and in that instance the cache was full before (`h1` fills it and evicts), so survival is not for lack of pressure -/
example : ((lruSem.run (LRU.empty 3) ([.put 4 1 0, .put 5 2 0, .put 6 3 0, .put 1 4 0] ++ .put 0 9 0 ::
    [.put 1 5 0, .get 2, .put 2 6 0, .has 9, .len, .get 0, .put 1 7 0, .get 1, .put 2 8 0, .has 0, .has 6, .len])).toOption.map
    (fun p => p.2.drop 14)) = some [.bool true, .bool false, .nat 3] := by decide

/-- `C14_lru_survives_hit`: key 0 is present after `put 0; put 1` on `max_size=2`; the hit saves it from `put 2` -/
example : (∃ s1 os1, lruSem.run (LRU.empty 2) [.put 0 7 0, .put 1 8 0] = .ok (s1, os1) ∧ s1.step (.has 0) = .ok (s1, .bool true)) ∧
    ((lruSem.run (LRU.empty 2) ([.put 0 7 0, .put 1 8 0] ++ .get 0 :: [.put 2 9 0, .has 0, .has 1])).toOption.map (·.2)) =
      some [.unit, .unit, .val (some 7), .unit, .bool true, .bool false] :=
  ⟨⟨_, _, rfl, rfl⟩, by decide⟩

/-- `C14_disk_survives`: `max_size=3` then reopened with 4, `T = [1, 2]`; the continuation re-puts 1 and 2, gets anything, reopens -/
example : (∀ n, (some 3 : Option Nat) = some n → ([1, 2] : List Key).length < n) ∧
    (∀ op ∈ [Op.put 1 5 0, .get 7, .put 2 6 0, .reopen (some 4) (some 1), .get 0, .put 1 7 0, .len], op.maxOK [1, 2]) ∧
    (∀ op ∈ [Op.put 1 5 0, .get 7, .put 2 6 0, .reopen (some 4) (some 1), .get 0, .put 1 7 0, .len], op.notClear) ∧
    (∀ op ∈ [Op.put 1 5 0, .get 7, .put 2 6 0, .reopen (some 4) (some 1), .get 0, .put 1 7 0, .len],
      ∀ x, op.puts = some x → x = 0 ∨ x ∈ ([1, 2] : List Key)) := by
  refine ⟨?_, ?_, ?_, ?_⟩
  · intro n h; cases h; decide
  · intro op h; simp at h; rcases h with rfl | rfl | rfl | rfl | rfl | rfl | rfl <;> simp [Op.maxOK]
  · intro op h; simp at h; rcases h with rfl | rfl | rfl | rfl | rfl | rfl | rfl <;> trivial
  · intro op h x hx; simp at h
    rcases h with rfl | rfl | rfl | rfl | rfl | rfl | rfl <;> simp [Op.puts] at hx <;> subst hx <;> simp

/-- … with a directory that was full before (`h1` evicts), so the file survives under pressure: 3 files, key 0 among them -/
example : ((diskSem.run (Disk.empty (some 3) none) ([.put 4 1 0, .put 5 2 0, .put 6 3 0, .put 1 4 0] ++ .put 0 9 0 ::
    [.put 1 5 0, .get 7, .put 2 6 0, .reopen (some 4) (some 1), .get 0, .put 1 7 0, .len, .has 0, .has 6])).toOption.map
    (fun p => p.2.drop 11)) = some [.nat 3, .bool true, .bool false] := by decide

end PF.C14
