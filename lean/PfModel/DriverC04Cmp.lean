import PfModel.DriverC04Lib
import PfModel.Model.RunInfoCompare3
/-! Handler of the C04 driver entry `resume.compare3`: the three-valued resume check (`PF.RIC.compareToPrevious3`, `createOn3`)
    on the folder `dumpAll Folder.empty old`.  The outcome of `_is_equal` is given per KEY: `raises` names the inputs / defaults whose
    comparison raises, `unequal` those that compare not-equal; every other key compares equal (no equality on `Val` is needed). -/
open Lean PF PF.Drv PF.Map PF.RIC

namespace PF.C04Drv

/-- the outcome the two name lists give one name (`raises` wins over `unequal`: `_is_equal` raised before it could answer) -/
def oracle (raises unequal : List String) (n : String) : Option Bool :=
  if raises.contains n then none else if unequal.contains n then some false else some true

/-- the comparator the two name lists describe.  A key named itself has that outcome; otherwise two sequence values (lists,
    object arrays: `Val.arr`) are compared as `_is_equal` compares them (`PF.RIC.seqEq3`) with the ELEMENT at position `i` of key
    `k` named `k#i`; everything not named compares equal. -/
def cmpOfNames (raises unequal : List String) : String → Val → Val → Option Bool := fun k v w =>
  if raises.contains k || unequal.contains k then oracle raises unequal k
  else match v, w with
    | .arr sh xs, .arr sh' ys => seqEq3 (fun i _ _ => oracle raises unequal (k ++ "#" ++ toString i)) sh xs sh' ys
    | _, _ => some true

def putO3 : Option Bool → Json
  | none => jStr "none"
  | some true => jStr "true"
  | some false => jStr "false"

def refusalStr : Refusal → String
  | .previousUnreadable => "previousUnreadable"
  | .internalShapes => "internalShapes"
  | .mapspecs => "mapspecs"
  | .shapes => "shapes"
  | .inputs => "inputs"
  | .defaults => "defaults"

def handleCmp (a : Json) : R Json := do
  let old ← getRunInfo (← fld a "old")
  let new ← getRunInfo (← fld a "new")
  let raises ← listF asStr a "raises"
  let unequal ← listF asStr a "unequal"
  let cmp := cmpOfNames raises unequal
  let fo := dumpAll Folder.empty old
  -- what `RunInfo.load` gives `_compare_to_previous_run_info` to compare with
  let prev ← match decode fo with
    | some r => pure r
    | none => .error "resume.compare3: the previous record does not load in the model"
  let verdict := compareToPrevious3 cmp fo new
  let after := createOn3 cmp false fo new
  return jObj [("accepted", jBool (match verdict with | .ok _ => true | .error _ => false)),
               ("refusal", match verdict with | .ok _ => Json.null | .error e => jStr (refusalStr e)),
               ("inputs_cmp", putO3 (eqDict3 cmp new.inputs prev.inputs)),
               ("defaults_cmp", putO3 (eqDict3 cmp new.defaults prev.defaults)),
               ("decoded_defaults_after", match after with
                  | .ok fo' => jOpt (fun r => putKw r.defaults) (decode fo')
                  | .error _ => Json.null),
               ("decoded_inputs_after", match after with
                  | .ok fo' => jOpt (fun r => putKw r.inputs) (decode fo')
                  | .error _ => Json.null)]

end PF.C04Drv
