import PfModel.Model.SubPipeScope
/-! C11, spelling of the provided names: a request whose provided names are given in the nested scope spelling is the request with
the dotted names - same selection, same run - so every `C11_map_*` theorem (stated for flat inputs) speaks about it. -/
namespace PF.C11
open PF PF.Sub PF.Rw

/-- plain (un-nested) inputs are their own flat form, whatever the scopes are -/
theorem C11_scope_flat_inputs (fs : List Map.MFunc) (l : List (String × Val)) :
    flatInputs fs (l.map fun kv => (kv.1, KwArg.val kv.2)) = l := by
  unfold flatInputs
  induction l with
  | nil => rfl
  | cons e es ih =>
    simp only [flattenKw, List.map_cons, List.flatMap_cons] at ih ⊢
    rw [ih]; rfl

/-- a dictionary given under a parameter scope of the pipeline stands for the dotted names, next to plain inputs -/
theorem C11_scope_nested_inputs (fs : List Map.MFunc) (s : String) (items rest : List (String × Val))
    (hs : (paramScopes fs).contains s = true) :
    flatInputs fs ((s, KwArg.scope items) :: rest.map fun kv => (kv.1, KwArg.val kv.2)) =
      items.map (fun kv => (s ++ "." ++ kv.1, kv.2)) ++ rest := by
  have hrest := C11_scope_flat_inputs fs rest
  unfold flatInputs at hrest ⊢
  simp only [flattenKw, List.flatMap_cons, hs, ↓reduceIte] at hrest ⊢
  rw [hrest]

/-- **The nested spelling is the flat request**: `map(inputs={s: items, **rest}, output_names=S, auto_subpipeline=auto)` selects the
    partial pipeline `subpipeline` selects for the dotted names and returns what the flat request returns (success, values, calls,
    or the same rejection). -/
theorem C11_scope_nested_is_flat (fs : List Map.MFunc) (s : String) (items rest : List (String × Val))
    (internal : List (String × List Nat)) (S : Option (List String)) (auto : Bool)
    (hs : (paramScopes fs).contains s = true) :
    prepareScoped fs ((s, KwArg.scope items) :: rest.map fun kv => (kv.1, KwArg.val kv.2)) S auto
        = prepare fs (items.map (fun kv => (s ++ "." ++ kv.1, kv.2)) ++ rest) S auto
    ∧ mapSubScoped fs ((s, KwArg.scope items) :: rest.map fun kv => (kv.1, KwArg.val kv.2)) internal S auto
        = mapSub fs (items.map (fun kv => (s ++ "." ++ kv.1, kv.2)) ++ rest) internal S auto := by
  unfold prepareScoped mapSubScoped
  rw [C11_scope_nested_inputs fs s items rest hs]
  exact ⟨rfl, rfl⟩

private def fsc : Map.MFunc :=
  { name := "g", params := [("sc.y", "y")], outputs := ["sc.z"], mapspec := none, ret := none, internal := none, defaults := [], bound := [] }

/-- non-vacuity: `sc` is a parameter scope of a scoped pipeline, and the nested request selects the function -/
example : (paramScopes [fsc]).contains "sc" = true := by decide
example : (prepareScoped [fsc] [("sc", KwArg.scope [("y", Val.int 7)])] (some ["sc.z"]) false).toOption.map (·.map (·.name)) = some ["g"] := by
  decide

end PF.C11
